#!/usr/bin/env python3
"""Regenerates MANIFEST.json from the table below (keeps it valid and current)."""
import json, os
ROOT = os.path.dirname(os.path.abspath(__file__))
ALL = ["C%02d" % i for i in range(1, 21)]
CLAIMED = {
 "C02": dict(cat="exploration",
   text="Generated-input search with an intent oracle: rapid draws an abstract system description, a renderer writes it as Sysl text with random legal surface choices, and the compiled model's declared facts must equal the facts derived from the description, with no unprojected (undeclared) content. Exploration is the right level: the property quantifies over all programs, and only a generator that knows what it wrote supplies the independent expectation.",
   note="trusts the facts extractor (total: unprojected protobuf content is reported) and the doc-derived rules FromIntent applies (DESIGN.md 4/C02)",
   technique="property-based testing: intent oracle over generated specifications (rapid)"),
}
CLAIMED["C05"] = dict(cat="exploration",
   text="The harness owns the schedule: parse.Parser.Parse is given a reader.Reader whose ReadHashBranch calls are released one at a time in an order drawn by rapid (or enumerated exhaustively for small graphs), over random import digraphs with cycles, diamonds, self loops, equivalent spellings and depth limits. Each execution of the real code is held against a reference closure model (BFS distance < n, depth-first pre-order in text order, each file once). Exploration with per-graph exhaustive schedule enumeration where small.",
   note="trusts the reference closure model and that contributions are observable through per-file calls appended to a shared endpoint; remote (//host/...) imports are not exercised",
   technique="property-based testing with harness-owned schedules (gated reader) against a reference model; exhaustive completion-order enumeration on small graphs")
CLAIMED["C06"] = dict(cat="fault_enumeration",
   text="Fault injection through the same gated reader: failing files x failure kinds (reader error, bad import line, body syntax error, truncation, undetectable yaml/json, corrupt pb/textpb/pb.json) x completion orders; on graphs of <=4 files the complete (file x kind x order) matrix is enumerated. Oracle: error naming a retrieved failing file and no model; success when nothing retrieved fails; never a panic or stall.",
   note="trusts the release log as the exact set of files retrieved; the CLI exit status is not asserted (the statement only says an error is returned)",
   technique="fault-injection matrix driven by property-based generation (rapid) with harness-owned delivery order")
CLAIMED["C01"] = dict(cat="exploration",
   text="Totality by generated-input search: grammar-directed valid-but-odd programs (hand transcription of SyslParser.g4 with a small budget of odd tokens), near-miss mutants of corpus/generated specs and import closures with foreign members are compiled in a worker subprocess; any panic, process exit, stack overflow or reproduced overrun is a violation keyed by its first frame. Thorough adds a byte-level native fuzz target. Exploration is the only level the technique offers for 'all byte strings'.",
   note="trusts the worker protocol to attribute a death to the in-flight case; acceptance split per generator is reported so a mistranscribed grammar rule shows as a construct never accepted",
   technique="grammar-directed property-based generation + mutation + (thorough) coverage-guided fuzzing, crash oracle in a sandbox worker")
CLAIMED["C13"] = dict(cat="exploration",
   text="Generated call graphs (cycles, self calls, diamonds, calls nested in every block kind, returns anywhere, human/cron/hidden, blackbox and group-by options) x every endpoint as start; sequencediagram.GenerateSequenceDiag runs in a worker subprocess; a strict line reader of the emitted PlantUML checks declaration, activation balance, calls-only-while-active and block balance, and the call-arrow sequence must equal an independent reference walk of the model. A second population with dangling targets demands a diagram or an error, never a crash.",
   note="trusts the PlantUML line reader and the reference walker written from the property statement; walks are pruned at 250/500 arrows",
   technique="property-based testing against a reference call-tree walker + structural invariants over parsed output")
CLAIMED["C14"] = dict(cat="exploration",
   text="Generated call multigraphs over 2-8 apps with project views marking apps listed / pass-through / excluded (listed and excluded disjoint), incl. cyclic pass-through chains; plain, clustered and endpoint-analysis views generated in a worker; arrows parsed back and checked for soundness (a call statement behind every arrow, no excluded app) and completeness (every call from a listed app to a different non-excluded, non-hidden, non-human app is drawn), cross-checked against IntsBuilder.DepsOut; termination via the worker's stack bound.",
   note="trusts the arrow reader ([label] as _n table) and the reading of 'listed' = apps named by the project endpoint",
   technique="property-based testing: soundness/completeness oracle over parsed diagram vs. call multigraph extracted independently")
CLAIMED["C15"] = dict(cat="exploration",
   text="Generated data models (tuples, tables, enums, primitive aliases; primitive/optional/set/sequence/list and reference fields; local and cross-app refs, repeated targets, self refs, dotted names, short names reused across apps) rendered by datamodeldiagram in a worker; classes, field lines and relationship lines are parsed and compared as multisets with the model's type graph: one class per type, every field once with its type text, one line per referencing field, nothing extra.",
   note="trusts the strict PlantUML class reader; direct mode only (project mode noted as outside the quantified domain)",
   technique="property-based testing: parsed-output vs. type-graph multiset oracle")
CLAIMED["C16"] = dict(cat="exploration",
   text="Generated relational models over 1-3 files (acyclic FK graphs, composite/absent keys, autoinc, sized strings) and version chains from random edit scripts; emitted SQL is executed by a strict reference interpreter for exactly the emitted DDL subset (unknown statement = harness error). Create script: every table once, columns, PK, FKs, types, referenced-before-referencing. Delta: differential - catalog(create(old); delta) restricted to new's tables == catalog(create(new)); delta(v,v) changes nothing; chains of two deltas.",
   note="trusts the DDL interpreter's PostgreSQL rules for the subset; FK cycles are outside C16's domain (acyclic) and handled by C20",
   technique="property-based testing with a reference DDL interpreter; differential oracle for deltas over generated edit histories; differential of the several-applications command (sysl generate-db-scripts -a Other,M) against the single-application library call")
CLAIMED["C17"] = dict(cat="exploration",
   text="Corpus models (all .sysl files that compile) and generated models (deep statement nesting with siblings, typed return payloads with attributes, nested-array annotations, namespaced names, placeholders, events, mixins) are normalised by relmod.Normalize in a worker (2-5 times: equal relations as multisets, refusal stable) and every relation the property names is compared as a multiset of key tuples with an independent census of the compiled model, including full statement index paths.",
   note="census written from the property statement, not from normalize.go; bit width and parameter constraints have no column in the schema and are only counted",
   technique="property-based testing: independent census vs. relational image (multiset comparison), repetition for determinism")
CLAIMED["C20"] = dict(cat="exploration",
   text="Untidy-but-valid generated models (dangling call targets, dangling/one-segment/cyclic/recursive type references, empty apps, call cycles, FK cycles, pass-through views; a third of them the root of a six-file import closure with a diamond, a cycle and a repeated import) x 28 command sets (pb, validate, sd, ints, datamodel, diagram -i/-s/-d, export in every format, generate-db-scripts(-delta), import of generated OpenAPI 2/3, XSD and SQL documents), half of the runs with a global option, run with the sysl binary built from the working tree; oracle: terminates, no Go runtime crash on stderr, non-zero exit carries a message; crashes keyed by command and first repository frame so known sites do not mask new ones.",
   note="the rendering step of sysl diagram needs headless Chrome (absent offline: a clean error exit); each command runs under an address-space limit; a hang is confirmed once (30 s + 90 s); transform/codegen are covered by C10/C17 at library level",
   technique="property-based CLI matrix (rapid) with crash-signature keyed findings")
CLAIMED["C10"] = dict(cat="exploration",
   text="Well-typed view bodies drawn from an explicit table of supported (operator, left kind, right kind) triples, with reuse templates for every purity-sensitive operator (concat, union, where, flatten, nested transforms with shadowing scope variables, helper calls incl. self-recursive helper views, optional values with null tests and defaults); the rendered view is compiled by the real parser and evaluated by eval.EvaluateView in a worker subprocess (evaluation failures exit the process) and compared with an independent reference interpreter with immutable values and lexical scoping; every let/parameter is re-exported so a changed binding shows; each case is evaluated twice (thorough: also in a fresh worker). Depth<=2 expressions over a 16-value pool are enumerated exhaustively in the thorough tier.",
   note="trusts the reference interpreter and the triple table copied from the statement's inventory and the dispatch tables' keys; behaviours the language leaves unspecified (bare '. -> (...)', inner let overwriting the flat scope, nested-set order in de-duplication) are kept out of the domain and listed in the rule",
   technique="property-based testing against a reference interpreter (differential), bounded-exhaustive enumeration at depth<=2, purity via re-exported bindings")
CLAIMED["C18"] = dict(cat="exploration",
   text="A recording afero.Fs sits under syslutil.ChrootFs; every path of <=5 (quick) / <=7 (thorough, exhaustive across shards) segments over {'', '.', '..', 'a', 'a.b', 'a b'}, relative and absolute, x 4 roots x all 13 operations (both Rename arguments) is decided by a segment-stack reference resolver: outside => error and no call reaches the recorder; inside => exactly the canonical path. Plus rapid-drawn longer paths; histories of 2-10 operations on one wrapper instance judged step by step; every string-taking exported method of *ChrootFs found by reflection and afero's helpers (Walk, Glob, ReadDir, ..., ReadOnlyFs/CopyOnWriteFs on top) over a recorder with and without afero.Lstater; and import statements compiled through loader's ChrootFs wrapping.",
   note="trusts the reference resolver (no filepath calls); remote (//host/...) imports do not go through the project filesystem and are out of scope",
   technique="exhaustive enumeration + property-based generation against a reference path resolver with a recording filesystem")
CLAIMED["C03"] = dict(cat="exploration",
   text="Metamorphic relation between two compilations: every corpus file (424, compiled in place; accepted and rejected sets recorded) and generated specs, transformed by compositions of indent scaling x1..4, tab respelling of any 4-space run (aligned or not), blank / whitespace-only line insertion and whole-line comment insertion at declaration boundaries (a conservative classifier refuses unsafe boundaries and counts them); acceptance must agree and the models must be proto.Equal after a protoreflect walk clears every source context.",
   note="trusts the soundness argument for the transformation set derived from the lexer's hidden-token rules (DESIGN section 4/C03); string continuation lines and view bodies are left untouched",
   technique="metamorphic property-based testing (layout transformations) over corpus sweep + generated specs")
CLAIMED["C04"] = dict(cat="exploration",
   text="Metamorphic relation joined vs. split: a partition plan (members into 1-6 blocks, one type's fields over re-opened type blocks, a REST path re-opened with another verb, an endpoint declared twice, header on any block) laid out over 1-4 files of a random import DAG with shuffled blocks and imports; compile(joined) must be proto.Equal to compile(split) after clearing source contexts and imports (composite primary keys compared as sets).",
   note="app attributes/long name/mixins stay in the header block (order-sensitive by definition); subscriptions not generated here",
   technique="metamorphic property-based testing over generated partitions and import graphs")
CLAIMED["C07"] = dict(cat="exploration",
   text="k specs (always including a mixin chain of >=3 apps whose chain order differs from sorted order; also rejected specifications, multi-file modules with varied file endings) compiled by up to 64 goroutines with rapid-drawn GOMAXPROCS and spin offsets, every result byte-compared (text and JSON) with a sequential baseline that is itself repeated 20 times and in fresh processes, followed by reject -> garbage collection -> accept rounds and module -> other-spec pairs; the check runs under the race detector (race build) where a report is a violation; a soak sub-property runs thousands of concurrent compilations in a process of its own with a memory bound (regression check for the repaired lexer-state leak).",
   note="the harness does not own interleavings inside ANTLR: exploration with a dynamic race oracle, not enumeration; a time-out is inconclusive",
   technique="property-based concurrency testing: differential against sequential baseline + Go race detector + memory-bound soak")
CLAIMED["C08"] = dict(cat="exploration",
   text="A recording renderer writes generated single- and multi-file specs (re-opened apps and types, REST verbs incl. PATCH at depth 0-2, tabs, noise lines) and remembers file/line/rune-column of every element; the compiled model must carry, per element kind, one location per declaration in walk order with exactly the recorded start, end >= start, start inside the file on a non-blank character, and the deprecated single location equal to one of the list entries.",
   note="element kinds that carry no location are listed in the rule; tab = one column",
   technique="property-based testing with an intent oracle for positions (recording renderer)")
CLAIMED["C09"] = dict(cat="exploration",
   text="Models from the corpus and from generated specs (hostile attribute strings; mixin chains, collectors, views, dotted and %-escaped names via templates) x {pb, pb.json, textpb} x {indented, compact} x {stream, file writers}: decode must be proto.Equal, JSON must be valid and carry the same tree; a root file that only imports the compiled file must compile to proto.Equal apps; the CLI pb command is cross-checked (compact JSON modulo locations).",
   note="suffix dispatch is part of the oracle; a native fuzz target for the decoders exists but is not part of a tier",
   technique="round-trip property-based testing (encode/decode/re-import) over generated and corpus models")
CLAIMED["C11"] = dict(cat="exploration",
   text="Generated OpenAPI 2 (JSON/YAML, hostile names, also via 'import doc as App'), XSD, and sparsely OpenAPI 3 and SQL DDL documents (the arr.ai importers cost seconds per document), each validated first (own structural pass + kin-openapi); import must succeed, the text must compile, every schema/type/table, property/column (kind, optionality, array-ness, reference, key marks) and endpoint (params, body, responses) must be present, and a second import must be byte-identical.",
   note="supported subset = constructs occurring in the importers' own test corpora; OpenAPI 3 / SQL explored two orders of magnitude more shallowly than OpenAPI 2 / XSD",
   technique="property-based testing with a foreign-intent oracle (completeness), compile-back, and repetition")
CLAIMED["C12"] = dict(cat="exploration",
   text="Generated REST-style applications (recursive type graphs, enums, optional/sequence/set/reference fields, path/query/header/body params, typed returns) exported through the calls cmd_export.go makes, as OpenAPI 3 and Swagger 2 in YAML and JSON: both serialisations must decode to one tree, validate (own $ref-resolving structural pass, plus kin-openapi where it copes with the reference cycles), be complete and carry nothing extra (sets, not order), and re-import to the same structure under an explicit abstraction function.",
   note="empty server URL is normalised before the library validator (legal by the schema, rejected only by kin-openapi); header parameters accepted under identifier or name= attribute",
   technique="property-based testing: validity + completeness oracle over decoded documents, export/re-import round trip")
CLAIMED["C19"] = dict(cat="exploration",
   text="Per output kind (pb text/JSON/binary, sequence/integration/data-model PlantUML, four Mermaid generators, OpenAPI3/Swagger yaml+json, spanner/proto export, create and delta SQL, imported Sysl from OAS2/XSD, relmod.Normalize as multisets) the output is produced 2-10 times in one worker process, once on a second compilation, and in 2-3 fresh processes, plus CLI commands run three times; bytes must be identical. Non-trivial is measured per kind from a census showing >=2 entries in the maps that feed it.",
   note="a kind that crashes on a model is skipped for that model and counted (crashes belong to C20); unstable kinds are findings per output kind",
   technique="metamorphic repetition testing across runs and processes over generated multi-entry models")
NOT_YET = {}
def main():
    checks = []
    for pid in ALL:
        if pid not in CLAIMED:
            continue
        c = CLAIMED[pid]
        checks.append(dict(property_id=pid, quick_cmd="python3 verif.py check %s quick" % pid,
            thorough_cmd="python3 verif.py check %s thorough" % pid, evidence_file="evidence/%s.json" % pid,
            replay_cmd_template="python3 verif.py replay {path}", engine="rapid-checks",
            level_claimed=dict(category=c["cat"], text=c["text"], design_ref="DESIGN.md section 4, " + pid),
            level_note=c["note"], technique=c["technique"]))
    na = [dict(property_id=p, reason=NOT_YET.get(p, "check not built yet in this tree; planned (DESIGN.md section 8)")) for p in ALL if p not in CLAIMED]
    man = dict(version=1, setup_cmd="python3 verif.py setup",
        hooks=dict(guard="verif", enable="no hook source exists: every property is observed through public library entry points; checks build the harness against /repo's working tree via a go.mod replace directive",
                   baseline_off_cmd="cd /repo && go test -vet=off -count=1 -timeout 25m ./...", source_commits=[], add_only=True),
        engines=[dict(name="rapid-checks", path="harness/checks", serves_properties=sorted(CLAIMED),
                      kind_free_text="pgregory.net/rapid v1.3.0 properties (+ native go fuzz targets in thorough tiers) in one go test binary; sandbox worker subprocess for process-ending failures; driver verif.py shards, merges and writes evidence")],
        checks=checks, not_applicable=na,
        notes="see DESIGN.md; known_findings.json lists recorded and fixed defects")
    json.dump(man, open(os.path.join(ROOT, "MANIFEST.json"), "w"), indent=1)
if __name__ == "__main__":
    main()
