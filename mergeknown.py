#!/usr/bin/env python3
"""Merge findings/known.Cxx.json fragments (written by check authors) into known_findings.json."""
import glob, json, os, sys
ROOT = os.path.dirname(os.path.abspath(__file__))
base = json.load(open(os.path.join(ROOT, "known_findings.json")))
ids = {k["id"] for k in base}
for f in sorted(glob.glob(os.path.join(ROOT, "findings", "known.*.json"))):
    for k in json.load(open(f)):
        if k["id"] in ids:
            continue
        base.append(k); ids.add(k["id"]); print("merged", k["id"], k["kind"])
    os.remove(f)
json.dump(base, open(os.path.join(ROOT, "known_findings.json"), "w"), indent=1, ensure_ascii=False)
