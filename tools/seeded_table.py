#!/usr/bin/env python3
"""Print the markdown table of seeded changes (DESIGN.md 10.7) from seeded/*/meta.json and result.json."""
import json, os, glob
ROOT = os.path.dirname(os.path.dirname(os.path.abspath(__file__)))
print("| id | property | change (needs …) | quick tier | thorough tier |")
print("|----|----------|------------------|------------|---------------|")
for d in sorted(glob.glob(os.path.join(ROOT, "seeded", "*"))):
    if not os.path.exists(os.path.join(d, "meta.json")):
        continue
    m = json.load(open(os.path.join(d, "meta.json")))
    r = json.load(open(os.path.join(d, "result.json"))) if os.path.exists(os.path.join(d, "result.json")) else {}
    def cell(tier):
        if m.get("neutralised"):
            return "no longer breaks the property after %s (was caught before it)" % m["neutralised"]["by"]
        if m.get("outside_statement") and tier in r and not any(v["violations"] for v in r[tier].values()):
            return "silent — the change does not contradict the statement of the property (see meta.json: outside_statement)"
        if tier not in r:
            return "not run"
        out = []
        for p, v in r[tier].items():
            out.append("%s: %s" % (p, "caught (%d VIOLATION lines, %ss)" % (v["violations"], v["wall_s"]) if v["violations"] else "MISSED (exit %s)" % v["exit"]))
        return "; ".join(out)
    summ = (m.get("summary") or "").replace("|", "/").replace("\n", " ")
    needs = (m.get("needs") or "").replace("|", "/").replace("\n", " ")
    if len(summ) > 260: summ = summ[:257] + "…"
    if len(needs) > 200: needs = needs[:197] + "…"
    print("| %s | %s | %s (needs: %s) | %s | %s |" % (os.path.basename(d), m.get("property"), summ, needs, cell("quick"), cell("thorough")))
