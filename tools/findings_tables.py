#!/usr/bin/env python3
"""Print markdown tables for DESIGN.md 10.2 (repairs) and 10.3 (recorded findings) from known_findings.json and /repo's git log."""
import json, os, subprocess, collections
ROOT = os.path.dirname(os.path.dirname(os.path.abspath(__file__)))
kf = json.load(open(os.path.join(ROOT, "known_findings.json")))
log = subprocess.check_output(["git", "-C", "/repo", "log", "--reverse", "--format=%h %s"]).decode().splitlines()
subj = {l.split()[0]: " ".join(l.split()[1:]) for l in log}
by_commit = collections.OrderedDict()
for l in log:
    h = l.split()[0]
    if subj[h].startswith("fix:"):
        by_commit[h] = []
for k in kf:
    if k["kind"] == "fixed":
        for h in (k.get("commit") or "").split():
            by_commit.setdefault(h, []).append(k)
print("| commit | repair (subject of the `fix:` commit) | property: finding ids it closes |")
print("|--------|----------------------------------------|----------------------------------|")
for h, ks in by_commit.items():
    ids = collections.OrderedDict()
    for k in ks:
        ids.setdefault(k["property"], []).append(k["id"])
    cell = "; ".join("%s: %s" % (p, ", ".join("`%s`" % i for i in v[:4]) + (" (+%d more)" % (len(v) - 4) if len(v) > 4 else "")) for p, v in ids.items())
    print("| %s | %s | %s |" % (h, subj.get(h, "?").replace("|", "/"), cell or "(see note)"))
print()
print("| property | finding id | signature | what fails |")
print("|----------|------------|-----------|------------|")
for k in kf:
    if k["kind"] == "known":
        note = (k.get("note") or "").replace("|", "/").replace("\n", " ")
        if len(note) > 220: note = note[:217] + "…"
        print("| %s | `%s` | `%s` | %s |" % (k["property"], k["id"], k["signature"][:70], note))
