#!/bin/bash
# adopt_seed.sh <pid> <n>: confirm a seeded change produced in /tmp/seed-<pid>-<n> (demo fails with the patch,
# passes without; patch applies to /repo HEAD and builds), store it under /verif/seeded/<pid>-<n>/, drop the worktree.
set -u
pid=$1; n=$2; wt=/tmp/seed-$pid-$n; out=$wt/seed_out; dst=/verif/seeded/$pid-$n
[ -f $out/patch.diff ] || { echo "no patch in $out"; exit 1; }
cd $wt || exit 1
echo "== demo WITH change"; bash $out/demo.sh > /tmp/adopt.with.log 2>&1; rc_with=$?; tail -3 /tmp/adopt.with.log
git apply -R $out/patch.diff
echo "== demo WITHOUT change"; bash $out/demo.sh > /tmp/adopt.without.log 2>&1; rc_without=$?; tail -3 /tmp/adopt.without.log
echo "rc_with=$rc_with rc_without=$rc_without"
# does the patch apply to the current /repo HEAD and build?
scratch=/var/tmp/adopt-$pid-$n; rm -rf $scratch; cp -r /repo $scratch
( cd $scratch && git checkout -q -- . && git apply $out/patch.diff && go build ./... ) ; rc_apply=$?
rm -rf $scratch
echo "rc_apply_build_on_head=$rc_apply"
if [ $rc_with -ne 0 ] && [ $rc_without -eq 0 ] && [ $rc_apply -eq 0 ]; then
  mkdir -p $dst && cp -r $out/* $dst/ && echo "ADOPTED $dst"
  python3 - $dst $rc_with $rc_without <<'PY'
import json,sys
p=sys.argv[1]+'/meta.json'
m=json.load(open(p))
m['confirmed']={'demo_exit_with_change':int(sys.argv[2]),'demo_exit_without_change':int(sys.argv[3]),'patch_applies_and_builds_on_repo_head':True,'how':'tools/adopt_seed.sh: demo.sh run in the scratch worktree with the change applied and reverted; git apply + go build on a copy of /repo HEAD'}
json.dump(m,open(p,'w'),indent=1)
PY
else
  echo "NOT ADOPTED"
fi
cd /; git -C /repo worktree remove --force $wt 2>/dev/null; rm -rf $wt
