#!/usr/bin/env python3
"""Run registered checks against a seeded change (a patch known to break a property).

  tools/seeded.py run <seeded/dir> [quick|thorough] [extra property ids...]
  tools/seeded.py all [quick|thorough]

The patch is applied to a scratch copy of /repo (never to /repo itself while others build against it),
the check(s) run with VERIF_REPO pointing at the copy, the copy is removed afterwards.
Writes <dir>/result.json: which checks reported a VIOLATION.
"""
import json, os, shutil, subprocess, sys, time
ROOT = os.path.dirname(os.path.dirname(os.path.abspath(__file__)))

def run(d, tier="quick", extra=()):
    d = os.path.abspath(d)
    meta = json.load(open(os.path.join(d, "meta.json")))
    props = [meta["property"]] + [p for p in extra if p != meta["property"]]
    scratch = "/var/tmp/sysl-seeded-%d" % os.getpid()
    shutil.rmtree(scratch, ignore_errors=True)
    subprocess.check_call(["cp", "-r", "/repo", scratch])
    try:
        shutil.rmtree(os.path.join(scratch, "seed_out"), ignore_errors=True)
        subprocess.check_call(["git", "-C", scratch, "checkout", "-q", "--", "."])
        subprocess.check_call(["git", "-C", scratch, "apply", os.path.join(d, "patch.diff")])
        res = {}
        for p in props:
            t0 = time.time()
            env = dict(os.environ, VERIF_REPO=scratch)
            out = subprocess.run(["python3", os.path.join(ROOT, "verif.py"), "check", p, tier], env=env, cwd=ROOT,
                                 stdout=subprocess.PIPE, stderr=subprocess.STDOUT, text=True)
            viol = [l for l in out.stdout.splitlines() if l.startswith("VIOLATION")]
            first = ""
            lines = out.stdout.splitlines()
            for i, l in enumerate(lines):
                if l.startswith("VIOLATION") and i + 1 < len(lines):
                    first = lines[i + 1].strip()[:300]
                    break
            res[p] = dict(exit=out.returncode, violations=len(viol), first_message=first, wall_s=round(time.time() - t0, 1),
                          summary=lines[-1] if lines else "")
            print(os.path.basename(d), p, tier, "exit", out.returncode, "violations", len(viol), first[:160])
        # replays written while testing a seeded change are not findings of the real tree
        return res
    finally:
        shutil.rmtree(scratch, ignore_errors=True)
        import glob
        tag = "".join(ch if ch.isalnum() else "_" for ch in scratch)[-40:]
        for f in glob.glob(os.path.join(ROOT, "harness", "go-alt-%s.*" % tag)) + glob.glob(os.path.join(ROOT, ".bin", "*-alt-%s*" % tag)):
            try: os.remove(f)
            except OSError: pass

def main(a):
    if len(a) >= 2 and a[1] == "run":
        tier = a[3] if len(a) > 3 else "quick"
        res = run(a[2], tier, a[4:])
        p = os.path.join(a[2], "result.json")
        old = json.load(open(p)) if os.path.exists(p) else {}
        old[tier] = res
        json.dump(old, open(p, "w"), indent=1)
        return 0
    if len(a) >= 2 and a[1] == "all":
        tier = a[2] if len(a) > 2 else "quick"
        for d in sorted(os.listdir(os.path.join(ROOT, "seeded"))):
            full = os.path.join(ROOT, "seeded", d)
            if os.path.exists(os.path.join(full, "patch.diff")):
                main([a[0], "run", full, tier])
        return 0
    print(__doc__); return 64

if __name__ == "__main__":
    sys.exit(main(sys.argv))
