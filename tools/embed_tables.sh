#!/bin/sh
# Regenerate the generated tables of DESIGN.md (10.2, 10.3) and seeded/TABLE.md.
cd "$(dirname "$0")/.." || exit 1
python3 tools/findings_tables.py > .bin/ft.md && python3 - <<'PY'
import re
s=open('.bin/ft.md').read().strip()
rep,known=s.split("\n\n")
d=open('DESIGN.md').read()
for beg,end,body in (("<!-- repairs-table:begin (tools/findings_tables.py) -->","<!-- repairs-table:end -->",rep),("<!-- known-table:begin (tools/findings_tables.py) -->","<!-- known-table:end -->",known)):
    d=re.sub(re.escape(beg)+".*?"+re.escape(end), lambda m: beg+"\n"+body+"\n"+end, d, flags=re.S)
open('DESIGN.md','w').write(d)
PY
python3 tools/seeded_table.py > seeded/TABLE.md
