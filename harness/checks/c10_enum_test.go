package checks

// c10_enum.go — bounded-exhaustive part of C10: every well-typed expression of operator
// depth <=2 over a small pool of let-bound values, packed into batches (one view per batch:
// the pool as lets, one output per expression, the pool re-exported at the end).

import "fmt"

type c10PoolEntry struct {
	Name string
	E    *c10Ex
}

func c10StrListEx(op string, ty *c10Ty, vals ...string) *c10Ex {
	e := &c10Ex{Op: op, T: ty}
	for _, v := range vals {
		e.Args = append(e.Args, c10Lit(c10Str(v)))
	}
	return e
}

func c10IntSetEx(vals ...int64) *c10Ex {
	e := c10IntList(vals...)
	e.Op, e.T = "setof", c10TSInt
	return e
}

// the literal pool: 3 ints, 3 strings, 2 bools, 2 lists and 2 sets of ints, 2 lists and 2 sets of strings
func c10Pool() []c10PoolEntry {
	return []c10PoolEntry{
		{"i0", c10Lit(c10Int(0))}, {"i1", c10Lit(c10Int(2))}, {"i2", c10Lit(c10Int(7))},
		{"s0", c10Lit(c10Str(""))}, {"s1", c10Lit(c10Str("a"))}, {"s2", c10Lit(c10Str("b"))},
		{"b0", c10Lit(c10Bool(false))}, {"b1", c10Lit(c10Bool(true))},
		{"li0", c10IntList(2, 7, 2)}, {"li1", c10IntList(0)},
		{"ti0", c10IntSetEx(7, 2)}, {"ti1", c10IntSetEx(0, 2)},
		{"ls0", c10StrListEx("listof", c10TLStr, "a", "b", "a")}, {"ls1", c10StrListEx("listof", c10TLStr, "")},
		{"ts0", c10StrListEx("setof", c10TSStr, "b", "a")}, {"ts1", c10StrListEx("setof", c10TSStr, "")},
	}
}

type c10Enum struct {
	env   *c10Env                // pool values, for the domain side conditions (non-zero divisor, singleton)
	lv    [3]map[string][]*c10Ex // level -> type name -> expressions
	types []*c10Ty
}

func (en *c10Enum) ok(e *c10Ex) bool {
	in := c10NewInterp(false)
	in.eval(e, en.env)
	return in.err == ""
}

// upTo returns the expressions of type t of level <= lvl, split into (below lvl, at lvl).
func (en *c10Enum) at(t *c10Ty, lvl int) []*c10Ex { return en.lv[lvl][t.String()] }

// combos calls f with every argument tuple of the given types whose maximal level is exactly lvl-1.
func (en *c10Enum) combos(lvl int, ts []*c10Ty, f func(args []*c10Ex)) {
	args := make([]*c10Ex, len(ts))
	var rec func(i int, sawTop bool)
	rec = func(i int, sawTop bool) {
		if i == len(ts) {
			if sawTop {
				f(args)
			}
			return
		}
		for l := 0; l < lvl; l++ {
			for _, e := range en.at(ts[i], l) {
				args[i] = e
				rec(i+1, sawTop || l == lvl-1)
			}
		}
	}
	rec(0, false)
}

func (en *c10Enum) add(lvl int, e *c10Ex) {
	if en.ok(e) {
		k := e.T.String()
		en.lv[lvl][k] = append(en.lv[lvl][k], e)
	}
}

// build fills level lvl (1 or 2) from the levels below. The conditional takes its condition
// from every level but, at level 2, its branches from the pool only (and vice versa), which
// keeps the space near 10^5 while every operator still meets every operator.
func (en *c10Enum) build(lvl int) {
	I, S, B := c10TInt, c10TStr, c10TBool
	bin := func(sym string, rt, lt, rtArg *c10Ty) {
		en.combos(lvl, []*c10Ty{lt, rtArg}, func(a []*c10Ex) {
			en.add(lvl, &c10Ex{Op: "bin", T: rt, Sym: sym, A: a[0], B: a[1]})
		})
	}
	un := func(op string, rt, at *c10Ty) {
		en.combos(lvl, []*c10Ty{at}, func(a []*c10Ex) { en.add(lvl, &c10Ex{Op: op, T: rt, A: a[0]}) })
	}
	for _, sym := range []string{"+", "-", "*", "/", "%"} {
		bin(sym, I, I, I)
	}
	for _, sym := range []string{"==", "!=", "<", "<=", ">", ">="} {
		bin(sym, B, I, I)
	}
	bin("+", S, S, S)
	for _, sym := range []string{"==", "!="} {
		bin(sym, B, S, S)
		bin(sym, B, B, B)
	}
	bin("&&", B, B, B)
	for _, sym := range []string{"in", "!in"} {
		bin(sym, B, S, c10TLStr)
		bin(sym, B, S, c10TSStr)
	}
	un("neg", I, I)
	un("neg", B, B)
	for _, ct := range []*c10Ty{c10TLInt, c10TLStr, c10TSInt, c10TSStr} {
		un("count", I, ct)
		un("single", ct.El, ct)
		bin("|", ct, ct, ct)
	}
	bin("|", c10TLInt, c10TLInt, c10TSInt)
	bin("|", c10TLStr, c10TLStr, c10TSStr)
	// where: set of ints against an int, list/set of strings against a string
	en.combos(lvl, []*c10Ty{c10TSInt, I}, func(a []*c10Ex) {
		for _, sym := range []string{">", "=="} {
			en.add(lvl, &c10Ex{Op: "where", T: c10TSInt, A: a[0], B: &c10Ex{Op: "bin", T: B, Sym: sym, A: c10Dot(I), B: a[1]}})
		}
	})
	for _, ct := range []*c10Ty{c10TLStr, c10TSStr} {
		ct := ct
		en.combos(lvl, []*c10Ty{ct, S}, func(a []*c10Ex) {
			en.add(lvl, &c10Ex{Op: "where", T: ct, A: a[0], B: &c10Ex{Op: "bin", T: B, Sym: "!=", A: c10Dot(S), B: a[1]}})
		})
	}
	// flatten of a two-element list of lists / list of sets, identity and arithmetic body
	for _, inner := range []*c10Ty{c10TLInt, c10TSInt} {
		inner := inner
		en.combos(lvl, []*c10Ty{inner, inner}, func(a []*c10Ex) {
			outer := &c10Ex{Op: "listof", T: c10TList(inner), Args: []*c10Ex{a[0], a[1]}}
			en.add(lvl, &c10Ex{Op: "flatten", T: c10TLInt, A: outer, B: c10Dot(I)})
			en.add(lvl, &c10Ex{Op: "flatten", T: c10TLInt, A: outer, Name: "e", B: &c10Ex{Op: "bin", T: I, Sym: "+", A: &c10Ex{Op: "var", T: I, Name: "e"}, B: c10Lit(c10Int(1))}})
		})
	}
	// helper calls
	en.combos(lvl, []*c10Ty{I}, func(a []*c10Ex) {
		en.add(lvl, &c10Ex{Op: "attr", T: I, Name: "o", A: &c10Ex{Op: "call", T: c10TInc, Name: "inc", Args: []*c10Ex{a[0]}}})
	})
	en.combos(lvl, []*c10Ty{c10TLInt, c10TLInt}, func(a []*c10Ex) {
		en.add(lvl, &c10Ex{Op: "attr", T: c10TLInt, Name: "o", A: &c10Ex{Op: "call", T: c10TCat, Name: "cat", Args: []*c10Ex{a[0], a[1]}}})
	})
	// conditional
	for _, t := range en.types {
		t := t
		if lvl == 1 {
			en.combos(1, []*c10Ty{B, t, t}, func(a []*c10Ex) {
				en.add(1, &c10Ex{Op: "if", T: t, A: a[0], B: a[1], C: a[2]})
			})
			continue
		}
		for _, c := range en.at(B, 1) {
			for _, x := range en.at(t, 0) {
				for _, y := range en.at(t, 0) {
					en.add(2, &c10Ex{Op: "if", T: t, A: c, B: x, C: y})
				}
			}
		}
		for _, c := range en.at(B, 0) {
			for l1 := 0; l1 < 2; l1++ {
				for l2 := 0; l2 < 2; l2++ {
					if l1+l2 == 0 {
						continue
					}
					for _, x := range en.at(t, l1) {
						for _, y := range en.at(t, l2) {
							en.add(2, &c10Ex{Op: "if", T: t, A: c, B: x, C: y})
						}
					}
				}
			}
		}
	}
}

// c10Enumerate returns every expression of depth 1 and 2 in a fixed order.
func c10Enumerate() (pool []c10PoolEntry, exprs []*c10Ex) {
	pool = c10Pool()
	en := &c10Enum{env: &c10Env{}, types: []*c10Ty{c10TInt, c10TStr, c10TBool, c10TLInt, c10TLStr, c10TSInt, c10TSStr}}
	for i := range en.lv {
		en.lv[i] = map[string][]*c10Ex{}
	}
	in := c10NewInterp(false)
	for _, p := range pool {
		en.env.bind(p.Name, in.eval(p.E, en.env))
		v := &c10Ex{Op: "var", T: p.E.T, Name: p.Name}
		en.lv[0][p.E.T.String()] = append(en.lv[0][p.E.T.String()], v)
	}
	en.env = en.env.child()
	en.env.bind(".", c10Int(3))
	en.build(1)
	en.build(2)
	for lvl := 1; lvl <= 2; lvl++ {
		for _, t := range en.types {
			exprs = append(exprs, en.lv[lvl][t.String()]...)
		}
	}
	return pool, exprs
}

// c10EnumBatch renders one batch as a case: the pool as lets, one output per expression.
// Sub-expressions are shared between enumerated expressions, so every batch gets its own copy
// of the trees (removing a listed shape rewrites nodes in place).
func c10EnumBatch(pool []c10PoolEntry, exprs []*c10Ex, args map[string]*c10Val) c10Case {
	g := &c10Gen{excluded: map[string]int{}}
	var body []*c10Stmt
	for _, p := range pool {
		body = append(body, &c10Stmt{Name: p.Name, Let: true, T: p.E.T, E: p.E})
	}
	for i, e := range exprs {
		body = append(body, &c10Stmt{Name: fmt.Sprintf("o%d", i), T: e.T, E: c10CloneEx(e)})
	}
	for _, p := range pool {
		body = append(body, &c10Stmt{Name: "chk_" + p.Name, T: p.E.T, E: &c10Ex{Op: "var", T: p.E.T, Name: p.Name}})
	}
	for _, p := range c10Params {
		body = append(body, &c10Stmt{Name: "chk_" + p.Name, T: p.T, E: c10VarEx(p)})
	}
	body = append(body, &c10Stmt{Name: "chk_dot", T: c10TInt, E: c10Dot(c10TInt)})
	c := c10Finish(g, body, args)
	c.Classes = append(c.Classes, "enumerated-batch")
	return c
}

func c10CloneEx(e *c10Ex) *c10Ex {
	if e == nil {
		return nil
	}
	c := *e
	c.A, c.B, c.C = c10CloneEx(e.A), c10CloneEx(e.B), c10CloneEx(e.C)
	c.Args = nil
	for _, a := range e.Args {
		c.Args = append(c.Args, c10CloneEx(a))
	}
	return &c
}
