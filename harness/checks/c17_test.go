package checks

import (
	"bytes"
	"context"
	"encoding/json"
	"fmt"
	"os"
	"path/filepath"
	"sort"
	"strings"
	"testing"

	"github.com/anz-bank/sysl/pkg/arrai/relmod"
	"github.com/anz-bank/sysl/pkg/parse"
	"github.com/anz-bank/sysl/pkg/sysl"
	"github.com/spf13/afero"
	"pgregory.net/rapid"
)

// C17 — the relational model handed to transforms is a lossless image of the model.
//
// Everything that touches relmod runs in the sandbox worker (attribute conversion panics on unknown
// shapes; the payload parser is an arr.ai program). The worker compiles the text, takes the census of
// the compiled model (c17_census.go), calls relmod.Normalize five times and returns census, projection
// of the first schema and a digest of every run.

// c17Runs: relmod.Normalize is called this many times on the one compiled model unless the case says
// otherwise (one call costs >=100 ms: the arr.ai payload grammar is compiled per call).
const c17Runs = 5

type c17Arg struct {
	Text string `json:"text,omitempty"`
	Repo string `json:"repo,omitempty"` // corpus: root directory
	Path string `json:"path,omitempty"` // corpus: file below Repo
	Runs int    `json:"runs,omitempty"`
}

type c17Res struct {
	ParseErr string   `json:"parse_err,omitempty"`
	NormErr  []string `json:"norm_err,omitempty"` // error text per run ("" = schema)
	Want     c17Rows  `json:"want,omitempty"`
	Got      c17Rows  `json:"got,omitempty"`
	Info     c17Info  `json:"info"`
	RunDiff  string   `json:"run_diff,omitempty"` // first difference between run 1 and a later run
	ErrText  string   `json:"err_text,omitempty"`
}

func c17Compile(a c17Arg) (m *sysl.Module, err error) {
	// a crash of the compiler is C01's business, not a verdict on the relational model
	defer func() {
		if r := recover(); r != nil {
			m, err = nil, fmt.Errorf("compiler panic: %v", r)
		}
	}()
	if a.Path == "" {
		return parse.NewParser().ParseString(a.Text)
	}
	// roots tried in turn: the file's own directory, <repo>/tests, <repo>
	var firstErr error
	for _, root := range []string{filepath.Dir(filepath.Join(a.Repo, a.Path)), filepath.Join(a.Repo, "tests"), a.Repo} {
		rel, err := filepath.Rel(root, filepath.Join(a.Repo, a.Path))
		if err != nil || strings.HasPrefix(rel, "..") {
			continue
		}
		p := parse.NewParser()
		p.RestrictToLocalImport()
		m, err := p.ParseFromFs(rel, afero.NewBasePathFs(afero.NewOsFs(), root))
		if err == nil {
			return m, nil
		}
		if firstErr == nil {
			firstErr = err
		}
	}
	return nil, firstErr
}

var _ = registerOp("c17.norm", func(arg json.RawMessage) (interface{}, error) {
	var a c17Arg
	if err := json.Unmarshal(arg, &a); err != nil {
		return nil, err
	}
	res := &c17Res{}
	m, err := c17Compile(a)
	if err != nil {
		res.ParseErr = err.Error()
		if res.ParseErr == "" {
			res.ParseErr = "error"
		}
		return res, nil
	}
	cen := c17CensusOf(m)
	res.Want, res.Info = cen.rows, cen.info
	var first []string
	if a.Runs < 2 {
		a.Runs = c17Runs
	}
	for run := 0; run < a.Runs; run++ {
		s, err := relmod.Normalize(context.Background(), m)
		if err != nil {
			// the text of arr.ai parse errors holds addresses: only the fact of a refusal is comparable
			res.NormErr = append(res.NormErr, "refused")
			if res.ErrText == "" {
				res.ErrText = err.Error()
			}
			continue
		}
		res.NormErr = append(res.NormErr, "")
		got := c17Project(s, cen.opaque)
		var flat []string
		for _, r := range c17Relations {
			for _, row := range got[r] {
				flat = append(flat, r+" "+row)
			}
		}
		flat = append(flat, c17Rest(s)...)
		if run == 0 {
			res.Got = got
			first = flat
			continue
		}
		if res.RunDiff == "" {
			res.RunDiff = c17FirstDiff(first, flat, run+1)
		}
	}
	return res, nil
})

func c17FirstDiff(a, b []string, run int) string {
	if len(a) != len(b) {
		return fmt.Sprintf("run 1 has %d rows, run %d has %d", len(a), run, len(b))
	}
	for i := range a {
		if a[i] != b[i] {
			return fmt.Sprintf("run 1: %s | run %d: %s", a[i], run, b[i])
		}
	}
	return ""
}

// ---------- multiset comparison ----------

type c17Delta struct {
	Relation string
	Missing  []string // rows the census demands and the relational form lacks (with multiplicity)
	Extra    []string // rows the relational form holds beyond the census
}

func c17Compare(want, got c17Rows) []c17Delta {
	var out []c17Delta
	for _, r := range c17Relations {
		cnt := map[string]int{}
		for _, row := range want[r] {
			cnt[row]++
		}
		for _, row := range got[r] {
			cnt[row]--
		}
		var keys []string
		for k := range cnt {
			keys = append(keys, k)
		}
		sort.Strings(keys)
		d := c17Delta{Relation: r}
		for _, k := range keys {
			for n := cnt[k]; n > 0; n-- {
				d.Missing = append(d.Missing, k)
			}
			for n := cnt[k]; n < 0; n++ {
				d.Extra = append(d.Extra, k)
			}
		}
		if len(d.Missing)+len(d.Extra) > 0 {
			out = append(out, d)
		}
	}
	return out
}

func c17DeltaText(ds []c17Delta) string {
	var sb strings.Builder
	for _, d := range ds {
		fmt.Fprintf(&sb, "relation %s: %d missing, %d extra\n", d.Relation, len(d.Missing), len(d.Extra))
		for i, r := range d.Missing {
			if i == 6 {
				sb.WriteString("  ...\n")
				break
			}
			fmt.Fprintf(&sb, "  missing %s\n", r)
		}
		for i, r := range d.Extra {
			if i == 6 {
				sb.WriteString("  ...\n")
				break
			}
			fmt.Fprintf(&sb, "  extra   %s\n", r)
		}
	}
	return sb.String()
}

// ---------- signatures of the listed root causes ----------

// c17StmtRowPath returns the position path (third cell) of a stmt/tag.stmt/anno.stmt row and the row with the path replaced by its length.
func c17StmtRowPath(row string) (int, string, bool) {
	var cells []json.RawMessage
	if json.Unmarshal([]byte(row), &cells) != nil || len(cells) < 3 {
		return 0, "", false
	}
	var path []int
	if json.Unmarshal(cells[2], &path) != nil {
		return 0, "", false
	}
	cells[2] = json.RawMessage(fmt.Sprint(len(path)))
	b, _ := json.Marshal(cells)
	return len(path), string(b), true
}

// A cause explains some of the differing rows. c17Causes tries the recorded root causes in turn: each
// removes the rows it accounts for; what is left is judged by the next one.
type c17Cause struct {
	Sig     string
	Explain func(ds []c17Delta, want c17Rows, info c17Info) (rest []c17Delta, n int)
}

func c17StmtRelation(r string) bool { return r == "stmt" || r == "tag.stmt" || r == "anno.stmt" }

func c17RowOwner(row string) string {
	var cells []json.RawMessage
	if json.Unmarshal([]byte(row), &cells) != nil || len(cells) < 2 {
		return ""
	}
	return string(cells[0]) + " " + string(cells[1])
}

// c17Unlist removes every ["list", T] wrapper from the type cells of a row.
func c17Unlist(row string) (string, bool) {
	dec := json.NewDecoder(strings.NewReader(row))
	dec.UseNumber()
	var v interface{}
	if dec.Decode(&v) != nil {
		return "", false
	}
	changed := false
	var walk func(x interface{}) interface{}
	walk = func(x interface{}) interface{} {
		switch t := x.(type) {
		case []interface{}:
			if len(t) == 2 {
				if k, ok := t[0].(string); ok && k == "list" {
					changed = true
					return walk(t[1])
				}
			}
			out := make([]interface{}, len(t))
			for i, e := range t {
				out[i] = walk(e)
			}
			return out
		}
		return x
	}
	v = walk(v)
	b, err := json.Marshal(v)
	return string(b), changed && err == nil
}

var c17Causes = []c17Cause{
	{
		// a field or parameter declared with a multiplicity (`name(0..2) <: T`) is a list of T in the model and plain T in the relation
		Sig: "list-type-unwrapped",
		Explain: func(ds []c17Delta, want c17Rows, info c17Info) ([]c17Delta, int) {
			var rest []c17Delta
			n := 0
			for _, d := range ds {
				if d.Relation != "field" && d.Relation != "param" && d.Relation != "alias" {
					rest = append(rest, d)
					continue
				}
				extra := map[string]int{}
				for _, r := range d.Extra {
					extra[r]++
				}
				nd := c17Delta{Relation: d.Relation}
				for _, r := range d.Missing {
					if u, ok := c17Unlist(r); ok && extra[u] > 0 {
						extra[u]--
						n += 2
						continue
					}
					nd.Missing = append(nd.Missing, r)
				}
				for _, r := range d.Extra {
					if extra[r] > 0 {
						extra[r]--
						nd.Extra = append(nd.Extra, r)
					}
				}
				if len(nd.Missing)+len(nd.Extra) > 0 {
					rest = append(rest, nd)
				}
			}
			return rest, n
		},
	},
	{
		// statements in the body of an event (`<-> Ev:`; also the calls to subscribers the compiler adds there) have no rows
		Sig: "event-body-statements-have-no-rows",
		Explain: func(ds []c17Delta, want c17Rows, info c17Info) ([]c17Delta, int) {
			events := map[string]bool{}
			for _, r := range want["event"] {
				events[c17RowOwner(r)] = true
			}
			var rest []c17Delta
			n := 0
			for _, d := range ds {
				if !c17StmtRelation(d.Relation) {
					rest = append(rest, d)
					continue
				}
				nd := c17Delta{Relation: d.Relation, Extra: d.Extra}
				for _, r := range d.Missing {
					if events[c17RowOwner(r)] {
						n++
					} else {
						nd.Missing = append(nd.Missing, r)
					}
				}
				if len(nd.Missing)+len(nd.Extra) > 0 {
					rest = append(rest, nd)
				}
			}
			return rest, n
		},
	},
	{
		// position paths of length >=4 collapse onto the last sibling (slice aliasing): the differing rows have
		// paths of length >=4 and agree once the path is replaced by its length
		Sig: "stmt-index-path-aliasing",
		Explain: func(ds []c17Delta, want c17Rows, info c17Info) ([]c17Delta, int) {
			if !info.AliasShape {
				return ds, 0
			}
			var rest []c17Delta
			n := 0
			for _, d := range ds {
				if !c17StmtRelation(d.Relation) {
					rest = append(rest, d)
					continue
				}
				cnt := map[string]int{}
				var deepM, deepE []string
				nd := c17Delta{Relation: d.Relation}
				for _, r := range d.Missing {
					if l, k, ok := c17StmtRowPath(r); ok && l >= 4 {
						cnt[k]++
						deepM = append(deepM, r)
					} else {
						nd.Missing = append(nd.Missing, r)
					}
				}
				for _, r := range d.Extra {
					if l, k, ok := c17StmtRowPath(r); ok && l >= 4 {
						cnt[k]--
						deepE = append(deepE, r)
					} else {
						nd.Extra = append(nd.Extra, r)
					}
				}
				balanced := true
				for _, v := range cnt {
					if v != 0 {
						balanced = false
					}
				}
				if balanced {
					n += len(deepM) + len(deepE)
				} else {
					nd.Missing = append(nd.Missing, deepM...)
					nd.Extra = append(nd.Extra, deepE...)
				}
				if len(nd.Missing)+len(nd.Extra) > 0 {
					rest = append(rest, nd)
				}
			}
			return rest, n
		},
	},
}

// ---------- case ----------

type c17Case struct {
	Src  string `json:"src"` // gen | corpus
	Text string `json:"text,omitempty"`
	Path string `json:"path,omitempty"`
	Runs int    `json:"runs,omitempty"` // calls of relmod.Normalize (default 5)
}

func checkC17(x *X, c c17Case) error {
	runs := c.Runs
	if runs < 2 {
		runs = c17Runs
	}
	arg := c17Arg{Text: c.Text, Runs: runs}
	what := c.Text
	if c.Src == "corpus" {
		arg = c17Arg{Repo: cfg.Repo, Path: c.Path, Runs: runs}
		what = "corpus file " + c.Path
	}
	var res c17Res
	death, err, inconcl := sandboxCall("c17.norm", arg, &res)
	if death != nil {
		if death.Kind == "timeout" { // no wall-clock oracle: an overrun is never a verdict
			x.Inconclusive("c17.norm overran its time bound: " + c.Path)
			return nil
		}
		return deathErr(death, "building the relational model of\n"+what)
	}
	if inconcl {
		x.Inconclusive("c17.norm overran its time bound once and did not reproduce: " + c.Path)
		return nil
	}
	if err != nil {
		return fmt.Errorf("HARNESS: c17.norm: %v", err)
	}
	if res.ParseErr != "" {
		if c.Src == "corpus" {
			x.Class("corpus_not_compiling")
			return nil
		}
		return fmt.Errorf("HARNESS: generated specification does not compile: %s\n%s", res.ParseErr, c.Text)
	}
	x.Class("src_" + c.Src)
	info := res.Info
	x.Class(fmt.Sprintf("stmt_path_len_%d", min(info.MaxDepth, 8)))
	flag := func(b bool, name string) {
		if b {
			x.Class(name)
		}
	}
	flag(info.DeepSibling, "stmt_depth4_with_sibling")
	flag(info.AliasShape, "shape_index_aliasing")
	flag(info.TypedRetAttrs > 0, "typed_return_with_attrs")
	flag(info.OpaqueRets > 0, "return_payload_opaque")
	flag(info.ArrayAnnos > 0, "array_annotation")
	flag(info.NestedArrays > 0, "nested_array_annotation")
	flag(info.Namespaced > 0, "namespaced_app")
	flag(info.Placeholders > 0, "placeholder_statement")
	flag(info.Events > 0, "event")
	flag(info.EventStmts > 0, "event_with_statements")
	flag(info.Subscriptions > 0, "subscription")
	flag(info.Mixins > 0, "mixin")
	flag(info.AltChoices > 0, "alt_choices")
	flag(info.BitWidthFields > 0, "bit_width_constraint")
	flag(info.InlineTuples > 0, "inline_tuple")
	flag(info.Views > 0, "views_present_not_compared")
	flag(info.ParamLocTags > 0, "param_with_tags")
	flag(info.ParamMultiTags > 0, "param_with_two_or_more_tags")
	for _, r := range c17Relations {
		if len(res.Want[r]) > 0 {
			x.Class("rows_" + r)
		}
	}
	if info.DeepSibling && info.TypedRetAttrs > 0 {
		x.NonTrivial(c.Text + c.Path)
		x.Class("nontrivial")
	}
	if c.Src == "gen" {
		x.Sample(c.Text)
	}
	// succeeds or is refused, the same way every time
	x.Class(fmt.Sprintf("normalize_called_%dx", runs))
	if len(res.NormErr) != runs {
		return fmt.Errorf("HARNESS: %d runs reported", len(res.NormErr))
	}
	for i, e := range res.NormErr {
		if e != res.NormErr[0] {
			return fmt.Errorf("relmod.Normalize is not repeatable: run 1 %q, run %d %q\n%s", res.NormErr[0], i+1, e, what)
		}
	}
	if res.NormErr[0] != "" {
		x.Class("refused_with_error")
		// a refusal is a legal outcome; the census cannot judge it further
		return nil
	}
	if res.RunDiff != "" {
		return fmt.Errorf("relmod.Normalize gives different relations on repeated calls: %s\n%s", res.RunDiff, what)
	}
	ds := c17Compare(res.Want, res.Got)
	if len(ds) == 0 {
		return nil
	}
	// recorded root causes explain rows one after the other; a listed cause that leaves a remainder is counted
	// and the remainder judged on its own
	for _, cause := range c17Causes {
		rest, n := cause.Explain(ds, res.Want, info)
		if n == 0 {
			continue
		}
		if len(rest) == 0 || !knownSig("C17", cause.Sig) {
			return finding(cause.Sig, "the relational model is not a lossless image of the model:\n%s---- input\n%s", c17DeltaText(ds), what)
		}
		x.Class("known_cause_beside_other_differences:" + cause.Sig)
		ds = rest
	}
	return fmt.Errorf("the relational model is not a lossless image of the model:\n%s---- input\n%s", c17DeltaText(ds), what)
}

func genC17(t *rapid.T) c17Case {
	runs := 2
	if rapid.IntRange(0, 3).Draw(t, "runs5") == 0 {
		runs = c17Runs
	}
	return c17Case{Src: "gen", Text: c17GenText(t), Runs: runs}
}

var c17Prop = Define("C17", "census",
	"Corpus: every .sysl file below the repository that compiles offline. Generated: specgen intents (apps, types, endpoints, REST, events, tags/attrs/annotations incl. nested arrays, namespaced names) followed by a C17 block: mixin, subscription, table keys, sized/decimal/bit-width fields, field annotation blocks, signature/path/query parameters with tags, and an endpoint whose statements nest to position-path length 4-7 with siblings at the deepest levels, `...` placeholders, one-of choices and typed return payloads with modifiers, string- and (nested-)array-valued attributes. Oracle: relmod.Normalize (sandbox) is called 5 times on one case in four and on every corpus file in the thorough tier, twice otherwise (a call costs >=100 ms); it errs or succeeds identically every time and the schemas are equal as multisets per relation (all relations, incl. source contexts); when it succeeds, per relation named by the property the multiset of rows equals the census taken independently from the compiled model (names, kinds, optionality, constraints, reference targets, full statement position paths; one row per one-of choice; none for `...`); missing, duplicate and extra rows all fail. Non-trivial: a block at path length >=3 with >=2 statement rows (i.e. a statement at depth >=4 with a sibling) and a typed return payload with attributes.",
	genC17, checkC17)

func c17Corpus() []string {
	var out []string
	_ = filepath.Walk(cfg.Repo, func(p string, fi os.FileInfo, err error) error {
		if err != nil {
			return nil
		}
		if fi.IsDir() {
			switch fi.Name() {
			case ".git", "node_modules", "vendor":
				return filepath.SkipDir
			}
			return nil
		}
		if strings.HasSuffix(p, ".sysl") {
			if rel, err := filepath.Rel(cfg.Repo, p); err == nil {
				out = append(out, rel)
			}
		}
		return nil
	})
	sort.Strings(out)
	return out
}

func TestC17(t *testing.T) {
	checkKnown(t, "C17")
	t.Run("corpus", func(t *testing.T) {
		files := c17Corpus()
		n := 0
		for i, f := range files {
			if i%cfg.NShards != cfg.Shard {
				continue
			}
			if !thorough() && (i/cfg.NShards)%3 != int(cfg.Seed%3) {
				continue // quick: a third of the corpus per seed; thorough: all of it
			}
			b, err := os.ReadFile(filepath.Join(cfg.Repo, f))
			if err != nil || bytes.Contains(b, []byte("import //")) || len(b) > 400_000 {
				R("C17").Class("corpus_skipped_remote_import_or_huge")
				continue
			}
			n++
			runs := 2
			if thorough() {
				runs = c17Runs
			}
			c17Prop.One(t, c17Case{Src: "corpus", Path: f, Runs: runs})
		}
		if thorough() && cfg.NShards > 0 {
			R("C17").Note("corpus", fmt.Sprintf("%d .sysl files found below the repository; every file is tried in the thorough tier", len(files)))
		}
	})
	t.Run("generated", func(t *testing.T) { c17Prop.Run(t, scale(60, 800)) })
}
