package checks

import "syscall"

var sigQuit = syscall.SIGQUIT
