package checks

import (
	"fmt"
	"sort"
	"strings"
	"testing"

	"pgregory.net/rapid"
)

// C06 — a failed read or bad file anywhere in the closure fails the compile cleanly.

var c06SyslFaults = []string{"readerr", "badimport", "badimport2", "syntax", "syntax2", "truncbad", "truncok"}
var c06ForeignFaults = []struct{ kind, ext, as string }{
	{"foreign-yaml", ".yaml", " as Ns :: Foreign%d"},
	{"foreign-json", ".json", " as Foreign%d"},
	{"corrupt-pb", ".pb", ""},
	{"corrupt-textpb", ".textpb", ""},
	{"corrupt-pbjson", ".pb.json", ""},
}

func c06IsFailure(kind string) bool { return kind != "" && kind != "truncok" }

// imports of a file are followed only if it could be read and its import lines parse
func c06Follows(kind string) bool {
	switch kind {
	case "readerr", "badimport", "badimport2":
		return false
	}
	return !strings.HasPrefix(kind, "foreign-") && !strings.HasPrefix(kind, "corrupt-")
}

func genC06(t *rapid.T) impCase {
	g := genImpGraph(t, 6)
	n := len(g.Paths)
	g.Faults = map[int]string{}
	if rapid.IntRange(0, 3).Draw(t, "keepdepth") != 0 {
		g.Depth = 0
	}
	nf := rapid.IntRange(0, (n+1)/2).Draw(t, "nfaults")
	for k := 0; k < nf; k++ {
		i := rapid.IntRange(0, n-1).Draw(t, "faultfile")
		g.Faults[i] = pick(t, c06SyslFaults, "faultkind")
	}
	if len(g.Edges[0]) >= 6 && rapid.Bool().Draw(t, "widefault") {
		// wide fan-out: an unreadable file among the later imports of the root, with readable ones after it
		k := rapid.IntRange(4, len(g.Edges[0])-2).Draw(t, "widefaultat")
		g.Faults[g.Edges[0][k]] = pick(t, []string{"readerr", "readerr", "badimport"}, "widefaultkind")
	}
	// faulty foreign leaves hung under random parents
	nl := rapid.IntRange(0, 2).Draw(t, "nforeign")
	for k := 0; k < nl; k++ {
		ff := pick(t, c06ForeignFaults, "foreignkind")
		idx := len(g.Paths)
		p := fmt.Sprintf("d%d%s", idx, ff.ext)
		g.Paths = append(g.Paths, p)
		g.Edges = append(g.Edges, nil)
		g.Spell = append(g.Spell, nil)
		g.Faults[idx] = ff.kind
		parent := rapid.IntRange(0, n-1).Draw(t, "foreignparent")
		as := ff.as
		if strings.Contains(as, "%d") {
			as = fmt.Sprintf(as, idx)
		}
		// place the import first or last among the parent's imports
		sp := "/" + p + as
		if rapid.Bool().Draw(t, "foreignfirst") {
			g.Edges[parent] = append([]int{idx}, g.Edges[parent]...)
			g.Spell[parent] = append([]string{sp}, g.Spell[parent]...)
		} else {
			g.Edges[parent] = append(g.Edges[parent], idx)
			g.Spell[parent] = append(g.Spell[parent], sp)
		}
	}
	ns := rapid.IntRange(1, 3).Draw(t, "nscheds")
	for i := 0; i < ns; i++ {
		g.Scheds = append(g.Scheds, genSched(t, len(g.Paths)))
	}
	return g
}

func (g *impCase) describeFaults() string {
	var ks []int
	for k := range g.Faults {
		ks = append(ks, k)
	}
	sort.Ints(ks)
	var sb strings.Builder
	for _, k := range ks {
		fmt.Fprintf(&sb, "  fault: [%d] %s = %s\n", k, g.Paths[k], g.Faults[k])
	}
	return g.describe() + sb.String()
}

func c06RunOne(x *X, g *impCase, sched []int) error {
	_, err := c06RunOneR(x, g, sched)
	return err
}

func c06RunOneR(x *X, g *impCase, sched []int) (*gateResult, error) {
	return c06RunMode(x, g, sched, "c06")
}

// c06RunMode: mode "c06" realises the completion order sched through the gate; "c06-free" lets the
// retrievals race (every read is answered at once) and judges the run by the files it asked for.
func c06RunMode(x *X, g *impCase, sched []int, mode string) (*gateResult, error) {
	follow := func(i int) bool { return c06Follows(g.Faults[i]) }
	r, death, inconcl := gatedRun(g, sched, mode)
	if inconcl {
		x.Inconclusive("a run that overran its time bound did not reproduce")
		return r, nil
	}
	if death != nil {
		return r, finding("crash:"+death.Sig(), "the process ended instead of returning an error: %s\n%s", firstLine(death.Text), g.describeFaults())
	}
	if r.Hung {
		r2, death2, _ := gatedRun(g, sched, mode)
		if death2 != nil {
			return r2, finding("crash:"+death2.Sig(), "the process ended instead of returning an error: %s\n%s", firstLine(death2.Text), g.describeFaults())
		}
		if r2.Hung {
			return r2, finding("hang", "Parse did not return after every pending read was released (reads %d, releases %v)\n%s", r2.Total, r2.Releases, g.describeFaults())
		}
		x.Inconclusive("a stalled run did not reproduce")
		r = r2
	}
	if r.Panic != "" {
		return r, finding("panic-in-parse", "panic during Parse: %s\n%s", r.Panic, g.describeFaults())
	}
	// the files actually retrieved under this completion order (exact: derived from the release log)
	released := map[int]bool{}
	siblingInFlight := false
	for k, idx := range r.Releases {
		if idx >= 0 {
			released[idx] = true
			if c06IsFailure(g.Faults[idx]) && k < len(r.Branch) && r.Branch[k] > 1 {
				siblingInFlight = true
			}
		}
	}
	var reachedFailing []int
	for i := range g.Paths {
		if released[i] && c06IsFailure(g.Faults[i]) {
			reachedFailing = append(reachedFailing, i)
		}
	}
	if siblingInFlight {
		x.Class("failure_delivered_with_sibling_in_flight")
	}
	if len(reachedFailing) > 0 {
		x.Class("reached_failure")
		if len(reachedFailing) > 1 {
			x.Class("reached_failures_ge2")
		}
		if !r.HasErr {
			return r, fmt.Errorf("a file in the closure fails (%v) but Parse reported no error (module nil=%v; releases %v)\n%s",
				fnames(reachedFailing), r.ModuleNil, r.Releases, g.describeFaults())
		}
		if !r.ModuleNil {
			return r, fmt.Errorf("Parse returned an error and a model at the same time: %v\n%s", r.ErrText, g.describeFaults())
		}
		named := false
		for _, i := range reachedFailing {
			if strings.Contains(r.ErrText, g.Paths[i]) {
				named = true
			}
		}
		if !named {
			return r, fmt.Errorf("error does not name any failing file (failing: %v): %q\n%s", reachedFailing, r.ErrText, g.describeFaults())
		}
		return r, nil
	}
	// no reached file fails: the compile must succeed (guards against "always error")
	x.Class("no_reached_failure")
	if r.HasErr {
		return r, fmt.Errorf("no retrieved file fails, yet Parse failed: %v (releases %v)\n%s", r.ErrText, r.Releases, g.describeFaults())
	}
	if r.ModuleNil {
		return r, fmt.Errorf("no error and no model\n%s", g.describeFaults())
	}
	if r.ModelExact && (g.Depth == 0) {
		// contributions: the reference closure minus files that contribute no call (truncok)
		var want []string
		for _, i := range g.refClosure(follow) {
			if g.Faults[i] != "truncok" {
				want = append(want, fmt.Sprintf("F%d", i))
			}
		}
		order := r.Order
		if strings.Join(order, " ") != strings.Join(want, " ") {
			return r, fmt.Errorf("contributions differ: want %v got %v\n%s", want, order, g.describeFaults())
		}
	}
	return r, nil
}

func checkC06(x *X, g impCase) error {
	kinds := map[string]bool{}
	for _, k := range g.Faults {
		kinds[k] = true
	}
	for k := range kinds {
		x.Class("fault_" + k)
	}
	if g.Depth > 0 {
		x.Class("depth_limit")
	}
	x.Sample(g.describeFaults())
	if len(g.Faults) > 0 {
		x.NonTrivial(g.describeFaults() + fmt.Sprint(g.Scheds))
	}
	// free-running executions: a failure that is delivered at once (before its siblings have even registered)
	// is an order the gate never produces, and it is the common one in production
	for k := 0; k < 4; k++ {
		if _, err := c06RunMode(x, &g, nil, "c06-free"); err != nil {
			x.Class("violation_in_free_running_execution")
			return err
		}
		x.Class("free_running_execution")
	}
	for _, s := range g.Scheds {
		if err := c06RunOne(x, &g, s); err != nil {
			return err
		}
		x.Class("executions")
	}
	return nil
}

var c06Prop = Define("C06", "faults",
	"C05's import graphs (<=6 sysl files + up to 2 faulty foreign leaves) x a set of failing files x failure kind (reader error, syntax error on an import line (2 forms), syntax error in the body (2 forms), truncation that breaks / does not break the file, undetectable .yaml/.json, corrupt .pb/.textpb/.pb.json) x 1-3 completion orders through the gated reader (so the failure is delivered before, between or after its siblings). Oracle: if any file that was actually retrieved fails, Parse returns err!=nil, module==nil and the error text names one of those files; otherwise it succeeds with the expected contributions; never a panic or a stall. Non-trivial: at least one fault present; distinct by (graph, faults, schedules); class 'executions' counts runs of the real parser. Class failure_delivered_with_sibling_in_flight counts the mid-fan-out deliveries.",
	genC06, checkC06)

// complete fault matrix on small graphs: every single failing file x every kind x every completion order
type c06MatrixCase struct {
	G impCase `json:"g"`
}

func genC06Matrix(t *rapid.T) c06MatrixCase {
	g := genImpGraph(t, 4)
	g.Depth = 0
	return c06MatrixCase{G: g}
}

func checkC06Matrix(x *X, c c06MatrixCase) error {
	base := c.G
	cells := 0
	complete := true
	for i := range base.Paths {
		for _, kind := range c06SyslFaults {
			g := base
			g.Faults = map[int]string{i: kind}
			stream := []int{}
			n := 0
			for {
				r, err := c06RunOneR(x, &g, stream)
				if err != nil {
					return err
				}
				cells++
				n++
				br := r.Branch
				cur := make([]int, len(br))
				copy(cur, stream)
				j := len(br) - 1
				for ; j >= 0; j-- {
					if cur[j]+1 < br[j] {
						cur[j]++
						cur = cur[:j+1]
						break
					}
				}
				if j < 0 {
					break
				}
				if n >= 60 {
					complete = false
					break
				}
				stream = cur
			}
		}
	}
	x.ClassN("matrix_cells", int64(cells))
	if complete {
		x.Class("matrix_graph_complete")
		x.NonTrivial("matrix:" + base.describe())
	} else {
		x.Class("matrix_graph_truncated")
	}
	return nil
}

func (x *X) ClassN(name string, n int64) { x.r.ClassN(name, n) }

var c06Matrix = Define("C06", "matrix",
	"random import digraphs on 1-4 files, no depth limit: the complete matrix (each single failing file x each of 7 sysl failure kinds x every completion order, enumerated depth-first over the realised branching factors) is run through the same oracle; class matrix_cells counts executions, matrix_graph_complete counts graphs whose matrix was covered completely.",
	genC06Matrix, checkC06Matrix)

func TestC06(t *testing.T) {
	checkKnown(t, "C06")
	c06Prop.Run(t, scale(350, 2500))
	c06Matrix.Run(t, scale(20, 150))
}
