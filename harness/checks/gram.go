package checks

import (
	"fmt"
	"strings"

	"pgregory.net/rapid"
)

// Grammar-directed generator: a hand transcription of SyslParser.g4 (views: the core of view / transform /
// expr_stmt / expr, without templates).
// Produces syntactically plausible, semantically odd programs.

type gg struct {
	t         *rapid.T
	lines     []string
	odd       int // 0..100: probability (percent) of choosing an odd token text
	oddBudget int
	curApp    string
	declared  [][2]string // (application, endpoint) pairs declared so far: calls may target them in any form
	appNames  []string    // names of all applications of the program, drawn up front: mixins may name any of them (also itself / cyclically)
	appIndex  int
}

func (g *gg) n(lo, hi int, label string) int { return rapid.IntRange(lo, hi).Draw(g.t, label) }
func (g *gg) p(pct int, label string) bool   { return rapid.IntRange(0, 99).Draw(g.t, label) < pct }

// oddp: choose an odd token here? Acceptance is multiplicative in the number of odd tokens, so each
// program gets a small budget of them (many small programs with one or two oddities each).
func (g *gg) oddp(label string) bool {
	if g.oddBudget <= 0 {
		return false
	}
	if g.p(g.odd, label) {
		g.oddBudget--
		return true
	}
	return false
}
func (g *gg) emit(depth int, s string) { g.lines = append(g.lines, strings.Repeat("    ", depth)+s) }

var gNames = []string{"a", "Foo", "foo_bar", "x1", "Order", "Item", "App", "Svc", "get", "Login", "T", "id", "name"}
var gOddNames = []string{"A%2EB", "%41bc", "a%zz", "If", "Else", "RETURN", "x-y", "a-", "_", "set", "sequence", "one", "int", "string", "any", "as", "import", "foo%", "%%", "a%2", "Ünï", "x..y"}
var gWords = []string{"do", "thing", "validate", "the", "input", "x", "now", "a-b", "step2", "check"}
var gOddWords = []string{"100%", "50%zz", "%41", "x%2Ey", "émile"}

func (g *gg) name() string {
	if g.oddp("oddname") {
		return pick(g.t, gOddNames, "oddnamev")
	}
	return pick(g.t, gNames, "namev")
}

func (g *gg) textLine() string {
	k := g.n(2, 4, "tlwords")
	var ws []string
	for i := 0; i < k; i++ {
		if g.oddp("oddword") {
			ws = append(ws, pick(g.t, gOddWords, "oddwordv"))
		} else {
			ws = append(ws, pick(g.t, gWords, "tlword"))
		}
	}
	return strings.Join(ws, pick(g.t, []string{" ", " ", "-", "  "}, "tlsep"))
}

func (g *gg) nameStr() string {
	if g.p(25, "nstl") {
		return g.textLine()
	}
	return g.name()
}

func (g *gg) qstring() string {
	if g.oddp("oddq") {
		return pick(g.t, []string{`"\x"`, `'it''s'`, `"%zz"`, `"üñí"`, `"unterminated`, `"[x]: ~y"`}, "oddqstr")
	}
	return pick(g.t, []string{`"v"`, `"some value"`, `""`, `'single'`, `"esc \" q"`, `"back\\slash"`, `"\n"`, `"a: b"`}, "qstr")
}

func (g *gg) digits() string {
	if g.oddp("odddigits") {
		return pick(g.t, []string{"0", "00", "99999999999999999999", "18446744073709551616", "9223372036854775808", "0000000000000000000000000000000000000001", "2147483648"}, "odddig")
	}
	return fmt.Sprint(g.n(0, 300, "dig"))
}

func (g *gg) appName() string {
	k := g.n(1, 3, "appparts")
	var ps []string
	for i := 0; i < k; i++ {
		ps = append(ps, g.nameStr())
	}
	return strings.Join(ps, pick(g.t, []string{" :: ", "::", " ::  "}, "namesep"))
}

func (g *gg) arrays(depth int) string {
	k := g.n(0, 3, "arrn")
	var items []string
	for i := 0; i < k; i++ {
		if depth < 2 && g.p(30, "nestarr") {
			items = append(items, g.arrays(depth+1))
		} else {
			items = append(items, g.qstring())
		}
	}
	return "[" + strings.Join(items, ", ") + "]"
}

func (g *gg) attribs() string {
	k := g.n(1, 3, "nattr")
	var es []string
	for i := 0; i < k; i++ {
		if g.p(50, "ismod") {
			m := "~" + g.name()
			for g.p(20, "modplus") {
				m += "+" + g.name()
			}
			es = append(es, m)
		} else if g.p(60, "nvpstr") {
			es = append(es, g.name()+"="+g.qstring())
		} else {
			es = append(es, g.name()+"="+g.arrays(0))
		}
	}
	return "[" + strings.Join(es, ", ") + "]"
}

func (g *gg) optAttribs(pct int) string {
	if g.p(pct, "hasattr") {
		return " " + g.attribs()
	}
	return ""
}

func (g *gg) annotation(depth int) {
	vn := pick(g.t, []string{"a", "desc", "x.y", "k-1", "A_b", "description"}, "varname")
	switch g.n(0, 2, "annokind") {
	case 0:
		g.emit(depth, "@"+vn+" = "+g.qstring())
	case 1:
		g.emit(depth, "@"+vn+" = "+g.arrays(0))
	default:
		g.emit(depth, "@"+vn+" =:")
		for i := 0; i < g.n(1, 3, "mll"); i++ {
			g.emit(depth+1, "|"+pick(g.t, []string{" text", "", " more: text [x]", "  indented", " 100%"}, "mltext"))
		}
	}
}

var gNative = []string{"int", "int32", "int64", "float", "float32", "float64", "string", "date", "bool", "decimal", "datetime", "bytes", "any", "INT", "String"}

func (g *gg) sizeOrArray() string {
	switch g.n(0, 3, "szkind") {
	case 0:
		return "(" + g.digits() + ")"
	case 1:
		return "(" + g.digits() + "." + g.digits() + ")"
	case 2:
		return "(" + g.digits() + ".." + g.digits() + ")"
	default:
		return "(" + g.digits() + "..)"
	}
}

func (g *gg) reference() string {
	r := g.appName()
	for i := 0; i < g.n(1, 2, "refdots"); i++ {
		r += "." + g.nameStr()
	}
	return r
}

func (g *gg) types() string {
	switch g.n(0, 4, "typeskind") {
	case 0, 1:
		return pick(g.t, gNative, "native")
	case 2:
		return g.reference()
	default:
		return g.nameStr()
	}
}

func (g *gg) collectionType() string {
	s := pick(g.t, []string{"set of ", "sequence of ", "Set Of ", "sequence  of "}, "coll") + g.types()
	if g.oddp("collsize") {
		s += g.sizeOrArray()
	}
	return s
}

func (g *gg) fieldTypeInline() string {
	var s string
	if g.p(30, "iscoll") {
		s = g.collectionType()
	} else {
		s = g.types()
		if g.p(20+g.odd/2, "hassize") {
			s += g.sizeOrArray()
		}
	}
	if g.p(25, "opt") {
		s += "?"
	}
	s += g.optAttribs(25)
	return s
}

func (g *gg) field(depth, nest int) {
	nm := g.nameStr()
	if g.p(5, "barefield") {
		g.emit(depth, nm)
		return
	}
	arr := ""
	if g.p(g.odd/2, "fieldarr") {
		arr = "(" + g.digits() + ".." + g.digits() + ")"
	}
	if nest < 2 && g.p(8, "inplace") {
		g.emit(depth, nm+arr+" <:")
		for i := 0; i < g.n(1, 2, "ipf"); i++ {
			g.field(depth+1, nest+1)
		}
		return
	}
	l := nm + arr + " <: " + g.fieldTypeInline()
	if g.p(10, "fielddoc") {
		l += " " + g.qstring()
	}
	if !strings.HasSuffix(l, "\"") && !strings.HasSuffix(l, "'") && g.p(15, "fieldannos") {
		g.emit(depth, l+":")
		for i := 0; i < g.n(1, 2, "nfa"); i++ {
			g.annotation(depth + 1)
		}
		return
	}
	g.emit(depth, l)
}

func (g *gg) table(depth int) {
	kw := pick(g.t, []string{"!type", "!table"}, "tablekw")
	hdr := kw + " " + g.nameStr() + g.optAttribs(25) + ":"
	if g.p(10, "tableshort") {
		g.emit(depth, hdr+" ...")
		return
	}
	g.emit(depth, hdr)
	for i := 0; i < g.n(1, 4, "ntstmts"); i++ {
		switch g.n(0, 9, "tstmt") {
		case 0:
			g.annotation(depth + 1)
		case 1:
			g.emit(depth+1, "...")
		case 2:
			if depth < 3 {
				g.table(depth + 1)
			} else {
				g.field(depth+1, 0)
			}
		default:
			g.field(depth+1, 0)
		}
	}
}

func (g *gg) unionDecl(depth int) {
	hdr := "!union " + g.nameStr() + g.optAttribs(20) + ":"
	if g.p(10, "unionshort") {
		g.emit(depth, hdr+" ...")
		return
	}
	g.emit(depth, hdr)
	for i := 0; i < g.n(1, 3, "nunion"); i++ {
		switch g.n(0, 5, "ukind") {
		case 0:
			g.annotation(depth + 1)
		case 1:
			g.emit(depth+1, g.collectionType())
		default:
			g.emit(depth+1, g.types())
		}
	}
}

func (g *gg) aliasDecl(depth int) {
	hdr := "!alias " + g.nameStr() + g.optAttribs(20) + ":"
	body := g.types()
	if g.p(40, "aliascoll") {
		body = g.collectionType()
	}
	if g.p(30, "aliasinline") {
		g.emit(depth, hdr+" "+body)
		return
	}
	g.emit(depth, hdr)
	for g.p(25, "aliasanno") {
		g.annotation(depth + 1)
	}
	g.emit(depth+1, body)
}

func (g *gg) enumDecl(depth int) {
	hdr := "!enum " + g.name() + g.optAttribs(20) + ":"
	if g.p(10, "enumshort") {
		g.emit(depth, hdr+" ...")
		return
	}
	g.emit(depth, hdr)
	for g.p(20, "enumanno") {
		g.annotation(depth + 1)
	}
	if g.p(8, "enumwhatever") {
		g.emit(depth+1, "...")
		return
	}
	for i := 0; i < g.n(1, 4, "nenum"); i++ {
		nm := g.name()
		if g.p(15, "enumnative") {
			nm = pick(g.t, gNative, "enumnat")
		}
		g.emit(depth+1, nm+": "+g.digits())
	}
}

func (g *gg) facade(depth int) {
	g.emit(depth, "!wrap "+g.name()+":")
	for i := 0; i < g.n(1, 2, "nfac"); i++ {
		l := pick(g.t, []string{"!table", "!type", "!union"}, "fackw") + " " + g.name()
		if g.p(30, "facdef") {
			g.emit(depth+1, l+":")
			for j := 0; j < g.n(1, 2, "nfacdef"); j++ {
				g.emit(depth+2, g.name()+g.optAttribs(30))
			}
		} else {
			g.emit(depth+1, l)
		}
	}
}

func (g *gg) params() string {
	k := g.n(1, 3, "nparams")
	var ps []string
	for i := 0; i < k; i++ {
		if g.p(25, "paramref") {
			ps = append(ps, g.reference())
		} else if g.p(10, "parambare") {
			ps = append(ps, g.nameStr())
		} else {
			ps = append(ps, g.nameStr()+" <: "+g.fieldTypeInline())
		}
	}
	return "(" + strings.Join(ps, ", ") + ")"
}

func (g *gg) statement(depth, nest int) {
	k := g.n(0, 15, "stmtkind")
	if nest >= 3 && k <= 4 {
		k = 8
	}
	attrs := g.optAttribs(12)
	switch k {
	case 0: // if / else chain
		g.emit(depth, pick(g.t, []string{"if ", "If ", "IF "}, "ifkw")+g.predicate()+":")
		g.stmts(depth+1, nest+1)
		for g.p(40, "haselse") {
			switch {
			case g.oddp("oddelse"):
				g.emit(depth, pick(g.t, []string{"else", "Else ", "else if "}, "elsekw")+pick(g.t, []string{"", g.predicate()}, "elsepred")+":")
			case g.p(50, "elseif"):
				g.emit(depth, pick(g.t, []string{"else if ", "Else If "}, "elseifkw")+pick(g.t, []string{"x", "a == b", "cond is true", "not (a) [b]"}, "elseifpred")+":")
			default:
				g.emit(depth, pick(g.t, []string{"else", "Else"}, "elsekw2")+":")
			}
			g.stmts(depth+1, nest+1)
		}
	case 1:
		g.emit(depth, pick(g.t, []string{"alt ", "until ", "for each ", "for ", "loop ", "while ", "Loop ", "FOR EACH "}, "forkw")+g.predicate()+":")
		g.stmts(depth+1, nest+1)
	case 2:
		g.emit(depth, "one of:")
		for i := 0; i < g.n(1, 3, "ncases"); i++ {
			lbl := pick(g.t, []string{g.name(), g.textLine(), g.qstring()}, "caselabel")
			if g.oddp("emptycase") {
				lbl = ""
			}
			g.emit(depth+1, lbl+":")
			g.stmts(depth+2, nest+2)
		}
	case 3:
		g.emit(depth, pick(g.t, []string{g.name(), g.textLine(), g.qstring()}, "grouplabel")+":")
		g.stmts(depth+1, nest+1)
	case 4:
		g.annotation(depth)
	case 5, 6:
		g.emit(depth, "return "+pick(g.t, []string{"ok", "ok <: string", "error <: Foo.Bar", "200 <: sequence of X [~t, a=\"b\"]", "", "100%", "50%zz", "ok <: set of int(5)", "x <: <: y", "[~only]"}, "retpayload"))
	case 7, 8, 9:
		tgt := ". "
		if g.p(70, "calltarget") {
			tgt = g.appName() + " "
		}
		ep := pick(g.t, []string{g.name(), g.textLine(), "GET /a/{b}", "POST /x?y=z", "DELETE  /", "a -> b"}, "callep")
		if len(g.declared) > 0 && g.p(35, "calldeclared") {
			// a call that resolves to a declared application, naming its endpoint plainly, as a REST
			// method, or under a name it does not have (the linter and post-processing look these up)
			d := pick(g.t, g.declared, "declaredep")
			tgt = d[0] + " "
			ep = pick(g.t, []string{"", "", "GET ", "POST ", "DELETE ", "PATCH "}, "declmethod") + pick(g.t, []string{d[1], d[1], "/" + d[1], d[1] + "/x"}, "declform")
		}
		args := ""
		if g.p(30, "callargs") {
			var as []string
			for i := 0; i < g.n(1, 3, "nargs"); i++ {
				as = append(as, pick(g.t, []string{g.name(), g.qstring(), g.name() + " <: " + pick(g.t, gNative, "argnat"), g.name() + " " + g.name()}, "arg"))
			}
			args = "(" + strings.Join(as, ", ") + ")"
		}
		g.emit(depth, tgt+"<- "+ep+args+attrs)
	case 10:
		for i := 0; i < g.n(1, 3, "ndoc"); i++ {
			g.emit(depth, "|"+pick(g.t, []string{" doc text", "", " 100% [x]:"}, "doctext"))
		}
	case 11:
		g.emit(depth, g.qstring()+attrs)
	case 12:
		g.emit(depth, "...")
	case 13:
		g.emit(depth, g.appName()+" -> "+g.nameStr()+attrs)
	default:
		g.emit(depth, pick(g.t, []string{g.name(), g.textLine()}, "action")+attrs)
	}
}

func (g *gg) predicate() string {
	return pick(g.t, []string{"x", "a == b", "cond is true", "", "not (a) [b]", "100%", "x <- y"}, "pred")
}

func (g *gg) stmts(depth, nest int) {
	for i := 0; i < g.n(1, 3, "nstmts"); i++ {
		g.statement(depth, nest)
	}
}

func (g *gg) simpleEndpoint(depth int) {
	if g.p(5, "epwhatever") {
		g.emit(depth, "...")
		return
	}
	nm := g.nameStr()
	for g.p(10, "epslash") {
		nm += "/" + g.nameStr()
	}
	g.declared = append(g.declared, [2]string{g.curApp, nm})
	hdr := nm
	if g.p(15, "eplong") {
		hdr += " " + g.qstring()
	}
	if g.p(35, "epparams") {
		hdr += " " + g.params()
	}
	hdr += g.optAttribs(20) + ":"
	if g.p(20, "epshort") {
		g.emit(depth, hdr+" ...")
		return
	}
	g.emit(depth, hdr)
	g.stmts(depth+1, 0)
}

func (g *gg) httpPathPart() string {
	var s string
	for i := 0; i < g.n(1, 2, "nparts"); i++ {
		s += pick(g.t, []string{g.name(), pick(g.t, gNative, "ppnat"), g.digits(), "a b"}, "pathpart")
	}
	return s
}

func (g *gg) httpPath() string {
	if g.p(8, "rootpath") {
		return "/"
	}
	var s string
	for i := 0; i < g.n(1, 3, "nsegs"); i++ {
		if g.p(30, "pathvar") {
			ty := pick(g.t, []string{pick(g.t, gNative, "pvnat"), g.name(), g.reference(), "sequence of int"}, "pvtype")
			s += "/{" + g.httpPathPart() + "<:" + ty + "}"
		} else {
			s += "/" + g.httpPathPart()
		}
	}
	return s
}

func (g *gg) restEndpoint(depth, nest int) {
	g.emit(depth, g.httpPath()+g.optAttribs(20)+":")
	for i := 0; i < g.n(1, 3, "nrestmembers"); i++ {
		switch k := g.n(0, 5, "restmember"); {
		case k == 0 && nest < 2:
			g.restEndpoint(depth+1, nest+1)
		case k == 1:
			g.annotation(depth + 1)
		default:
			hdr := pick(g.t, []string{"GET", "POST", "PUT", "DELETE", "PATCH", "OPTIONS", "HEAD", "TRACE", "GET "}, "verb")
			if g.p(30, "methodparams") {
				hdr += " " + g.params()
			}
			if g.p(35, "query") {
				var qs []string
				for j := 0; j < g.n(1, 3, "nq"); j++ {
					q := g.name() + "=" + pick(g.t, []string{pick(g.t, gNative, "qnat"), g.name(), "{" + g.name() + "}"}, "qtype")
					if g.p(30, "qopt") {
						q += "?"
					}
					qs = append(qs, q)
				}
				hdr += " ?" + strings.Join(qs, "&")
			}
			hdr += g.optAttribs(20) + ":"
			g.emit(depth+1, hdr)
			g.stmts(depth+2, 0)
		}
	}
}

func (g *gg) collector(depth int) {
	if g.p(15, "collshort") {
		g.emit(depth, ".. * <- *: ...")
		return
	}
	g.emit(depth, ".. * <- *:")
	for i := 0; i < g.n(1, 3, "ncoll"); i++ {
		var s string
		switch g.n(0, 3, "collkind") {
		case 0:
			s = g.nameStr()
		case 1:
			s = g.appName() + " <- " + g.name()
		case 2:
			s = pick(g.t, []string{"GET", "POST"}, "cverb") + " /" + g.name() + "/{" + g.name() + "}" + pick(g.t, []string{"", "?a=int", "?a=b&c=string"}, "cq")
		default:
			s = g.appName() + " <- " + g.appName() + " -> " + g.name()
		}
		g.emit(depth+1, s+" "+g.attribs())
	}
}

func (g *gg) application() {
	hdr := g.appName()
	if g.appIndex < len(g.appNames) {
		hdr = g.appNames[g.appIndex]
	}
	g.appIndex++
	g.curApp = hdr
	if g.p(20, "applong") {
		hdr += " " + g.qstring()
	}
	hdr += g.optAttribs(25) + ":"
	g.emit(0, hdr)
	for i := 0; i < g.n(1, 5, "nmembers"); i++ {
		switch g.n(0, 19, "member") {
		case 17, 18, 19:
			g.view(1)
		case 0:
			g.aliasDecl(1)
		case 1:
			g.annotation(1)
		case 2:
			g.collector(1)
		case 3:
			g.enumDecl(1)
		case 4:
			hdr := "<-> " + g.nameStr()
			if g.p(25, "evparams") {
				hdr += " " + g.params()
			}
			hdr += g.optAttribs(20) + ":"
			if g.p(40, "evshort") {
				g.emit(1, hdr+" ...")
			} else {
				g.emit(1, hdr)
				g.stmts(2, 0)
			}
		case 5:
			g.facade(1)
		case 6:
			if len(g.appNames) > 0 && g.p(60, "mixindeclared") {
				// a mixin that resolves: any application of the program, the mixing one included, so
				// chains, self-mixins and mixin cycles arise
				g.emit(1, "-|> "+pick(g.t, g.appNames, "mixinname"))
			} else {
				g.emit(1, "-|> "+g.appName())
			}
		case 7, 8:
			g.restEndpoint(1, 0)
		case 9:
			hdr := g.appName() + " -> " + g.nameStr() + g.optAttribs(20) + ":"
			if g.p(40, "subshort") {
				g.emit(1, hdr+" ...")
			} else {
				g.emit(1, hdr)
				g.stmts(2, 0)
			}
		case 10:
			g.unionDecl(1)
		case 11, 12, 13:
			g.table(1)
		default:
			g.simpleEndpoint(1)
		}
	}
}

// ---------- views (SyslParser.g4: view, transform, expr_stmt, expr) ----------

var ggViewNames = []string{"x", "y", "n", "item", "out", "acc"}

func (g *gg) vname() string { return pick(g.t, ggViewNames, "vname") }

func (g *gg) viewType() string {
	switch g.n(0, 5, "vtype") {
	case 0:
		return "int"
	case 1:
		return "string"
	case 2:
		return "set of " + g.name()
	case 3:
		return "sequence of " + g.name()
	case 4:
		return g.name() + "." + g.name()
	}
	return g.name()
}

// viewExpr renders one expression (no line break).
func (g *gg) viewExpr(d int) string {
	if d <= 0 || g.p(30, "vleaf") {
		switch g.n(0, 9, "vatom") {
		case 0:
			return g.digits()
		case 1:
			return g.qstring()
		case 2:
			return pick(g.t, []string{"true", "false", "null", "{:}"}, "vconst")
		case 3:
			return "." + g.vname()
		case 4:
			return g.vname() + "." + g.vname()
		case 5:
			return "."
		}
		return g.vname()
	}
	d--
	switch g.n(0, 13, "vexpr") {
	case 0, 1:
		op := pick(g.t, []string{"+", "-", "*", "/", "%", "==", "!=", "<", "<=", ">", ">=", "&&", "||", "in", "!in", "|", "&", "but not", "??", "**"}, "vbinop")
		return g.viewExpr(d) + " " + op + " " + g.viewExpr(d)
	case 2:
		return pick(g.t, []string{"-", "!", "+", "~"}, "vunop") + g.viewExpr(d)
	case 3:
		return "(" + g.viewExpr(d) + ")"
	case 4:
		return "{" + g.viewExpr(d) + ", " + g.viewExpr(d) + "}"
	case 5:
		return "[" + g.viewExpr(d) + ", " + g.viewExpr(d) + "]"
	case 6:
		return g.vname() + "(" + g.viewExpr(d) + ")"
	case 7:
		return "if " + g.viewExpr(d) + " then " + g.viewExpr(d) + " else " + g.viewExpr(d)
	case 8:
		sv := ""
		if g.p(50, "vwheresv") {
			sv = g.vname() + ": "
		}
		return g.viewExpr(d) + " " + pick(g.t, []string{"where", "flatten"}, "vrel1") + "(" + sv + g.viewExpr(d) + ")"
	case 9:
		return g.viewExpr(d) + " " + pick(g.t, []string{"count", "single", "singleOrNull", "snapshot"}, "vrel0")
	case 10:
		return g.viewExpr(d) + " any(" + g.digits() + ")"
	case 11:
		return g.viewExpr(d) + " " + pick(g.t, []string{"sum", "min", "max", "average"}, "vagg") + "(" + g.viewExpr(d) + ")"
	case 12:
		return g.viewExpr(d) + " -> " + pick(g.t, []string{"", "set of ", "sequence of "}, "vnav") + g.vname()
	}
	return g.viewExpr(d) + " rank(" + g.viewExpr(d) + " " + pick(g.t, []string{"asc", "desc", ""}, "vrankdir") + " as " + g.vname() + ")"
}

// viewTransform emits `<prefix><arg> -> <type>(var:` + statements + `)`.
func (g *gg) viewTransform(depth, nest int, prefix string) {
	h := prefix
	if g.p(85, "vtfarg") {
		h += g.viewExpr(1) + " "
	}
	h += "->"
	switch g.n(0, 4, "vtftype") {
	case 0:
		h += " <" + g.name() + ">"
	case 1:
		h += " <set of " + g.name() + ">"
	case 2:
		h += " <sequence of " + g.name() + ">"
	case 3:
		h += " <" + pick(g.t, []string{"set of", "sequence of"}, "vtfbare") + ">"
	}
	h += " ("
	if g.p(40, "vtfsv") {
		h += g.vname()
	}
	g.emit(depth, h+":")
	for i := 0; i < g.n(1, 4, "vnstmts"); i++ {
		lhs := g.vname() + " = "
		switch g.n(0, 9, "vstmt") {
		case 0, 1:
			lhs = "let " + lhs
		case 2:
			lhs = "table of " + lhs
		case 3:
			g.emit(depth+1, "."+g.vname())
			continue
		case 4:
			g.emit(depth+1, g.vname()+"("+g.viewExpr(1)+").*")
			continue
		}
		switch {
		case nest < 3 && g.p(30, "vnested"):
			g.viewTransform(depth+1, nest+1, lhs)
		case nest < 3 && g.p(15, "vifblock"):
			g.emit(depth+1, lhs+"if "+g.vname()+" ==:")
			for k := 0; k < g.n(1, 3, "vifcases"); k++ {
				g.emit(depth+2, g.viewExpr(0)+", "+g.viewExpr(0)+" => "+g.viewExpr(1))
			}
			if g.p(70, "vifelse") {
				g.emit(depth+2, "else "+g.viewExpr(1))
			}
		default:
			g.emit(depth+1, lhs+g.viewExpr(3))
		}
	}
	g.emit(depth, ")")
}

func (g *gg) view(depth int) {
	h := "!view " + g.nameStr() + "("
	for i, n := 0, g.n(1, 3, "vnparams"); i < n; i++ {
		if i > 0 {
			h += ", "
		}
		h += ggViewNames[i] + " <: " + g.viewType()
		if g.p(15, "vparamopt") {
			h += "?"
		}
	}
	h += ")"
	if g.p(80, "vret") {
		h += " -> " + g.viewType()
	}
	if g.p(10, "vabstract") {
		g.emit(depth, h+" [~abstract]")
		return
	}
	g.emit(depth, h+g.optAttribs(15)+":")
	g.viewTransform(depth+1, 0, "")
}

func GenGrammarProgram(t *rapid.T) string {
	g := &gg{t: t, odd: rapid.IntRange(0, 12).Draw(t, "oddness"), oddBudget: rapid.IntRange(0, 3).Draw(t, "oddbudget")}
	napps := g.n(1, 3, "napps")
	for i := 0; i < napps; i++ {
		g.appNames = append(g.appNames, g.appName())
	}
	for i := 0; i < napps; i++ {
		g.application()
		g.lines = append(g.lines, "")
	}
	return strings.Join(g.lines, "\n")
}
