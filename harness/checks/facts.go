package checks

import (
	"encoding/json"
	"fmt"
	"sort"
	"strings"

	"github.com/anz-bank/sysl/pkg/sysl"
)

// Facts: canonical declared facts, comparable as JSON.

type TypeF struct {
	Kind   string            `json:"kind"`
	Meta   Meta              `json:"meta"`
	Fields map[string]*TExpr `json:"fields,omitempty"`
	PK     []string          `json:"pk,omitempty"`
	Enum   map[string]int64  `json:"enum,omitempty"`
	Alias  *TExpr            `json:"alias,omitempty"`
	Union  []*TExpr          `json:"union,omitempty"`
}

type RestF struct {
	Method string  `json:"method"`
	Path   string  `json:"path"`
	Query  []Param `json:"query,omitempty"`
	URL    []Param `json:"url,omitempty"`
}

type EpF struct {
	Long   string   `json:"long,omitempty"`
	Doc    string   `json:"doc,omitempty"`
	Meta   Meta     `json:"meta"`
	Params []Param  `json:"params,omitempty"`
	Rest   *RestF   `json:"rest,omitempty"`
	Pubsub bool     `json:"pubsub,omitempty"`
	Source []string `json:"source,omitempty"`
	Stmts  []*Stmt  `json:"stmts,omitempty"`
}

type AppF struct {
	Name   []string          `json:"name"`
	Long   string            `json:"long,omitempty"`
	Meta   Meta              `json:"meta"`
	Mixins [][]string        `json:"mixins,omitempty"`
	Types  map[string]*TypeF `json:"types,omitempty"`
	Eps    map[string]*EpF   `json:"eps,omitempty"`
}

type Facts struct {
	Apps map[string]*AppF `json:"apps"`
}

func (f *Facts) JSON() string {
	b, err := json.MarshalIndent(f, "", " ")
	if err != nil {
		panic(err)
	}
	return string(b)
}

// ---------- extraction from a compiled module ----------

type extractor struct {
	unprojected []string
}

func (x *extractor) note(format string, a ...interface{}) {
	x.unprojected = append(x.unprojected, fmt.Sprintf(format, a...))
}

func attrV(a *sysl.Attribute) AttrV {
	switch v := a.Attribute.(type) {
	case *sysl.Attribute_S:
		s := v.S
		return AttrV{S: &s}
	case *sysl.Attribute_A:
		out := AttrV{IsArr: true}
		for _, e := range v.A.Elt {
			out.A = append(out.A, attrV(e))
		}
		return out
	default:
		s := fmt.Sprintf("<unprojected attr %T>", v)
		return AttrV{S: &s}
	}
}

func (x *extractor) meta(attrs map[string]*sysl.Attribute, where string) Meta {
	m := Meta{}
	for k, a := range attrs {
		if k == "patterns" {
			arr, ok := a.Attribute.(*sysl.Attribute_A)
			if !ok {
				x.note("%s: patterns not array", where)
				continue
			}
			for _, e := range arr.A.Elt {
				if s, ok := e.Attribute.(*sysl.Attribute_S); ok {
					m.Tags = append(m.Tags, s.S)
				} else {
					x.note("%s: pattern not string", where)
				}
			}
			continue
		}
		if m.Attrs == nil {
			m.Attrs = map[string]AttrV{}
		}
		m.Attrs[k] = attrV(a)
	}
	return m
}

func (x *extractor) texpr(t *sysl.Type, where string) *TExpr {
	if t == nil {
		return nil
	}
	e := &TExpr{Opt: t.Opt}
	e.Meta = x.meta(t.Attrs, where)
	if t.Docstring != "" {
		x.note("%s: docstring %q", where, t.Docstring)
	}
	inner := t
	switch v := t.Type.(type) {
	case *sysl.Type_Set:
		e.Wrap = "set"
		inner = v.Set
	case *sysl.Type_Sequence:
		e.Wrap = "seq"
		inner = v.Sequence
	case *sysl.Type_List_:
		e.Wrap = "list"
		inner = v.List.Type
	}
	if inner != t {
		if inner.Opt {
			x.note("%s: inner opt", where)
		}
		if len(inner.Attrs) > 0 {
			x.note("%s: inner attrs", where)
		}
	}
	switch v := inner.Type.(type) {
	case *sysl.Type_Primitive_:
		e.Prim = v.Primitive.String()
	case *sysl.Type_TypeRef:
		if v.TypeRef.Ref != nil {
			if v.TypeRef.Ref.Appname != nil {
				e.RefApp = v.TypeRef.Ref.Appname.Part
			}
			e.RefPath = v.TypeRef.Ref.Path
		}
	case *sysl.Type_NoType_:
		e.Prim = "NOTYPE"
	case nil:
		e.Prim = "NIL"
	default:
		x.note("%s: unprojected type kind %T", where, v)
	}
	for _, c := range inner.Constraint {
		if c.BitWidth != 0 {
			e.Bits = c.BitWidth
		}
		if c.Length != nil {
			e.LenMin, e.LenMax = c.Length.Min, c.Length.Max
		}
		if c.Precision != 0 || c.Scale != 0 {
			e.Prec, e.Scale = c.Precision, c.Scale
		}
		if c.Resolution != nil {
			x.note("%s: resolution", where)
		}
	}
	if inner != t && len(t.Constraint) > 0 {
		x.note("%s: outer constraint on wrapped type", where)
	}
	return e
}

func (x *extractor) stmts(ss []*sysl.Statement, where string) []*Stmt {
	var out []*Stmt
	for i, s := range ss {
		w := fmt.Sprintf("%s[%d]", where, i)
		st := &Stmt{}
		st.Meta = x.meta(s.Attrs, w)
		switch v := s.Stmt.(type) {
		case *sysl.Statement_Action:
			st.Kind, st.Text = "action", v.Action.Action
		case *sysl.Statement_Call:
			st.Kind = "call"
			if v.Call.Target != nil {
				st.Target = v.Call.Target.Part
			}
			st.Endpoint = v.Call.Endpoint
			for _, a := range v.Call.Arg {
				st.Args = append(st.Args, a.Name)
			}
		case *sysl.Statement_Ret:
			st.Kind, st.Text = "ret", v.Ret.Payload
		case *sysl.Statement_Cond:
			st.Kind, st.Text = "cond", v.Cond.Test
			st.Children = x.stmts(v.Cond.Stmt, w)
		case *sysl.Statement_Loop:
			st.Kind, st.Text, st.Mode = "loop", v.Loop.Criterion, v.Loop.Mode.String()
			st.Children = x.stmts(v.Loop.Stmt, w)
		case *sysl.Statement_LoopN:
			st.Kind, st.Text = "loopn", fmt.Sprint(v.LoopN.Count)
			st.Children = x.stmts(v.LoopN.Stmt, w)
		case *sysl.Statement_Foreach:
			st.Kind, st.Text = "foreach", v.Foreach.Collection
			st.Children = x.stmts(v.Foreach.Stmt, w)
		case *sysl.Statement_Group:
			st.Kind, st.Text = "group", v.Group.Title
			st.Children = x.stmts(v.Group.Stmt, w)
		case *sysl.Statement_Alt:
			st.Kind = "alt"
			for j, c := range v.Alt.Choice {
				st.Choices = append(st.Choices, &Choice{Cond: c.Cond, Stmts: x.stmts(c.Stmt, fmt.Sprintf("%s.choice%d", w, j))})
			}
		default:
			x.note("%s: unprojected stmt %T", w, v)
		}
		out = append(out, st)
	}
	return out
}

func (x *extractor) params(ps []*sysl.Param, where string) []Param {
	var out []Param
	for _, p := range ps {
		t := x.texpr(p.Type, where+"."+p.Name)
		if t == nil {
			t = &TExpr{Prim: "NIL"}
		}
		out = append(out, Param{Name: p.Name, T: *t})
	}
	return out
}

func (x *extractor) qparams(ps []*sysl.Endpoint_RestParams_QueryParam, where string) []Param {
	var out []Param
	for _, p := range ps {
		t := x.texpr(p.Type, where+"."+p.Name)
		if t == nil {
			t = &TExpr{Prim: "NIL"}
		}
		out = append(out, Param{Name: p.Name, T: *t})
	}
	return out
}

func FactsFromModule(m *sysl.Module) (*Facts, []string) {
	x := &extractor{}
	f := &Facts{Apps: map[string]*AppF{}}
	for an, a := range m.Apps {
		af := &AppF{Long: a.LongName}
		if a.Name != nil {
			af.Name = a.Name.Part
		}
		af.Meta = x.meta(a.Attrs, an)
		if a.Docstring != "" {
			x.note("%s: docstring", an)
		}
		if a.Wrapped != nil {
			x.note("%s: wrapped", an)
		}
		if len(a.Views) > 0 {
			x.note("%s: views", an)
		}
		for _, mx := range a.Mixin2 {
			af.Mixins = append(af.Mixins, mx.Name.Part)
		}
		for tn, t := range a.Types {
			w := an + "." + tn
			tf := &TypeF{}
			tf.Meta = x.meta(t.Attrs, w)
			if t.Opt {
				x.note("%s: type-level opt", w)
			}
			switch v := t.Type.(type) {
			case *sysl.Type_Tuple_:
				tf.Kind = "tuple"
				tf.Fields = map[string]*TExpr{}
				for fn, ft := range v.Tuple.AttrDefs {
					tf.Fields[fn] = x.texpr(ft, w+"."+fn)
				}
			case *sysl.Type_Relation_:
				tf.Kind = "relation"
				tf.Fields = map[string]*TExpr{}
				for fn, ft := range v.Relation.AttrDefs {
					tf.Fields[fn] = x.texpr(ft, w+"."+fn)
				}
				if v.Relation.PrimaryKey != nil {
					tf.PK = v.Relation.PrimaryKey.AttrName
				}
				if len(v.Relation.Key) > 0 || len(v.Relation.Inject) > 0 {
					x.note("%s: relation keys/inject", w)
				}
			case *sysl.Type_Enum_:
				tf.Kind = "enum"
				tf.Enum = v.Enum.Items
			case *sysl.Type_OneOf_:
				tf.Kind = "union"
				for i, u := range v.OneOf.Type {
					tf.Union = append(tf.Union, x.texpr(u, fmt.Sprintf("%s.union%d", w, i)))
				}
			case nil:
				tf.Kind = "empty"
			default:
				tf.Kind = "alias"
				tt := *t
				tt.Attrs = nil
				tf.Alias = x.texpr(&tt, w)
			}
			if af.Types == nil {
				af.Types = map[string]*TypeF{}
			}
			af.Types[tn] = tf
		}
		for en, e := range a.Endpoints {
			w := an + " <- " + en
			ef := &EpF{Long: e.LongName, Pubsub: e.IsPubsub}
			if e.Name != en {
				x.note("%s: name %q != key", w, e.Name)
			}
			ef.Meta = x.meta(e.Attrs, w)
			if e.Source != nil {
				ef.Source = e.Source.Part
			}
			ef.Doc = e.Docstring
			if len(e.Flag) > 0 {
				x.note("%s: flag", w)
			}
			ef.Params = x.params(e.Param, w)
			if e.RestParams != nil {
				ef.Rest = &RestF{Method: e.RestParams.Method.String(), Path: e.RestParams.Path,
					Query: x.qparams(e.RestParams.QueryParam, w+"?"), URL: x.qparams(e.RestParams.UrlParam, w+"/")}
			}
			ef.Stmts = x.stmts(e.Stmt, w)
			if af.Eps == nil {
				af.Eps = map[string]*EpF{}
			}
			af.Eps[en] = ef
		}
		f.Apps[an] = af
	}
	sort.Strings(x.unprojected)
	return f, x.unprojected
}

// Diff returns the first differing lines between two fact JSON renderings.
func Diff(a, b string) string {
	la, lb := strings.Split(a, "\n"), strings.Split(b, "\n")
	for i := 0; i < len(la) && i < len(lb); i++ {
		if la[i] != lb[i] {
			lo := i - 12
			if lo < 0 {
				lo = 0
			}
			return fmt.Sprintf("first difference at line %d:\n--- want\n%s\n--- got\n%s",
				i, strings.Join(la[lo:min(i+4, len(la))], "\n"), strings.Join(lb[lo:min(i+4, len(lb))], "\n"))
		}
	}
	if len(la) != len(lb) {
		return fmt.Sprintf("length differs: want %d lines, got %d", len(la), len(lb))
	}
	return ""
}
