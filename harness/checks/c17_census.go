package checks

// c17_census.go — an independent census of a compiled model, written from the statement of
// property C17 and from the model's schema (sysl.proto), not from pkg/arrai/relmod: the rows a
// lossless relational image must hold. c17Project renders a *relmod.Schema in the same row
// notation. A row is the JSON of a list of cells; a relation is a multiset of rows.

import (
	"encoding/json"
	"fmt"
	"regexp"
	"sort"
	"strings"

	"github.com/anz-bank/sysl/pkg/arrai/relmod"
	"github.com/anz-bank/sysl/pkg/sysl"
	"github.com/arr-ai/arrai/rel"
)

type c17Rows map[string][]string

func (r c17Rows) add(relation string, cells ...interface{}) {
	b, err := json.Marshal(cells)
	if err != nil {
		b = []byte(fmt.Sprintf("%q", fmt.Sprint(cells...)))
	}
	r[relation] = append(r[relation], string(b))
}

func (r c17Rows) sorted() {
	for k := range r {
		sort.Strings(r[k])
	}
}

// the relations the property names
var c17Relations = []string{"app", "mixin", "ep", "param", "stmt", "type", "table", "field", "enum", "alias", "event",
	"anno.app", "anno.mixin", "anno.ep", "anno.param", "anno.stmt", "anno.event", "anno.type", "anno.field",
	"tag.app", "tag.mixin", "tag.ep", "tag.param", "tag.stmt", "tag.event", "tag.type", "tag.field"}

type c17Info struct {
	MaxDepth        int  `json:"max_depth"`        // longest statement position path
	DeepSibling     bool `json:"deep_sibling"`     // a statement at path length >=4 that has a sibling
	AliasShape      bool `json:"alias_shape"`      // a block whose own path has length 3 or 5..7 and that holds >=2 rows
	TypedRetAttrs   int  `json:"typed_ret_attrs"`  // return payloads with a type and attributes
	OpaqueRets      int  `json:"opaque_rets"`      // return payloads outside the census' payload grammar (only their presence is compared)
	ArrayAnnos      int  `json:"array_annos"`      // array-valued annotations
	NestedArrays    int  `json:"nested_arrays"`    // arrays inside arrays
	Namespaced      int  `json:"namespaced"`       // applications with a multi-part name
	Placeholders    int  `json:"placeholders"`     // "..." statements
	Events          int  `json:"events"`           //
	EventStmts      int  `json:"event_stmts"`      // statements inside event bodies
	Subscriptions   int  `json:"subscriptions"`    //
	Mixins          int  `json:"mixins"`           //
	Stmts           int  `json:"stmts"`            //
	AltChoices      int  `json:"alt_choices"`      //
	BitWidthFields  int  `json:"bit_width_fields"` // fields/params... with a bit-width constraint
	MultiConstraint int  `json:"multi_constraint"` // types with more than one constraint entry
	InlineTuples    int  `json:"inline_tuples"`    //
	Views           int  `json:"views"`            //
	ParamLocTags    int  `json:"param_loc_tags"`   // method parameters that carry tags
	ParamMultiTags  int  `json:"param_multi_tags"` // ... two or more tags
	Rows            int  `json:"rows"`             //
}

// ---------- cells shared by both sides ----------

func c17Parts(p []string) []string {
	if p == nil {
		return []string{}
	}
	return p
}

func c17Path(p []int) []int {
	if p == nil {
		return []int{}
	}
	return p
}

// c17AttrValue: canonical form of an annotation value. arr.ai has one empty value for "", [] and {}:
// the relational form cannot tell them apart by construction of its value space, so both sides write "∅".
func c17AttrValue(a *sysl.Attribute, info *c17Info, depth int) interface{} {
	switch v := a.GetAttribute().(type) {
	case *sysl.Attribute_S:
		if v.S == "" {
			return "∅"
		}
		return []interface{}{"s", v.S}
	case *sysl.Attribute_I:
		return []interface{}{"n", float64(v.I)}
	case *sysl.Attribute_N:
		return []interface{}{"n", v.N}
	case *sysl.Attribute_A:
		if info != nil {
			if depth == 0 {
				info.ArrayAnnos++
			} else {
				info.NestedArrays++
			}
		}
		if len(v.A.GetElt()) == 0 {
			return "∅"
		}
		out := []interface{}{"a"}
		for _, e := range v.A.GetElt() {
			out = append(out, c17AttrValue(e, info, depth+1))
		}
		return out
	}
	return []interface{}{"?", fmt.Sprintf("%T", a.GetAttribute())}
}

func c17RelValue(v interface{}) interface{} {
	switch x := v.(type) {
	case rel.String:
		return []interface{}{"s", x.String()}
	case rel.Number:
		return []interface{}{"n", x.Float64()}
	case rel.Array:
		out := []interface{}{"a"}
		for _, e := range x.Values() {
			if e == nil {
				out = append(out, "∅")
				continue
			}
			out = append(out, c17RelValue(e))
		}
		return out
	case rel.Value:
		if !x.IsTrue() {
			return "∅"
		}
		return []interface{}{"?", x.String()}
	}
	return []interface{}{"?", fmt.Sprintf("%T", v)}
}

// c17Loc: the position class of a parameter. Path and query parameters are their own classes; a
// parameter of the signature is "sig" (the relational form may name it after a tag such as ~body or
// ~header: that naming is an encoding, not content the property lists).
// c17Loc: the parameter-kind column of a relational row, as is: "path", "query", or for a parameter of the
// signature its first declared tag ("header", "body", ...), "method" when it has none.
func c17Loc(loc string) string { return loc }

// ---------- census of the model ----------

type c17Census struct {
	rows   c17Rows
	info   c17Info
	opaque map[string]bool // key(app, ep, path) of return statements whose payload the census does not interpret
}

func c17Key(app []string, ep string, path []int) string {
	b, _ := json.Marshal([]interface{}{c17Parts(app), ep, c17Path(path)})
	return string(b)
}

func (c *c17Census) meta(kind string, attrs map[string]*sysl.Attribute, owner ...interface{}) {
	names := make([]string, 0, len(attrs))
	for n := range attrs {
		names = append(names, n)
	}
	sort.Strings(names)
	for _, n := range names {
		a := attrs[n]
		if n == "patterns" { // the model stores ~tags as the array attribute "patterns"
			for _, e := range a.GetA().GetElt() {
				c.rows.add("tag."+kind, append(append([]interface{}{}, owner...), e.GetS())...)
			}
			continue
		}
		c.rows.add("anno."+kind, append(append([]interface{}{}, owner...), n, c17AttrValue(a, &c.info, 0))...)
	}
}

// c17TypeCell: kind and reference target of a type expression.
func c17TypeCell(owner []string, t *sysl.Type, info *c17Info) interface{} {
	if t == nil {
		return nil
	}
	switch v := t.GetType().(type) {
	case *sysl.Type_Primitive_:
		return []interface{}{"prim", v.Primitive.String()}
	case *sysl.Type_TypeRef:
		app := owner
		if ctx := v.TypeRef.GetContext(); ctx != nil && ctx.GetAppname() != nil {
			app = ctx.GetAppname().GetPart() // the scope the reference was written in
		}
		if an := v.TypeRef.GetRef().GetAppname(); an != nil {
			app = an.GetPart()
		}
		return []interface{}{"ref", c17Parts(app), c17Parts(v.TypeRef.GetRef().GetPath())}
	case *sysl.Type_Set:
		return []interface{}{"set", c17TypeCell(owner, v.Set, info)}
	case *sysl.Type_Sequence:
		return []interface{}{"seq", c17TypeCell(owner, v.Sequence, info)}
	case *sysl.Type_List_:
		return []interface{}{"list", c17TypeCell(owner, v.List.GetType(), info)}
	case *sysl.Type_Tuple_:
		if info != nil {
			info.InlineTuples++
		}
		return []interface{}{"tuple"}
	case *sysl.Type_NoType_:
		return nil
	case nil:
		return nil
	}
	return []interface{}{"other", fmt.Sprintf("%T", t.GetType())}
}

// c17ConstraintCell: the constraints of a field the relational schema has columns for: length, precision, scale.
// (A bit width - int32, float64 - has no column in the Field relation, nor have constraints of parameters:
// the property speaks of rows carrying the same values, so a value without a column is outside it; the
// census counts such fields in info.BitWidthFields and the check reports them as a class.)
func c17ConstraintCell(t *sysl.Type, info *c17Info) interface{} {
	var min, max int64
	var prec, scale, bw int32
	if len(t.GetConstraint()) > 1 && info != nil {
		info.MultiConstraint++
	}
	for _, k := range t.GetConstraint() {
		if l := k.GetLength(); l != nil {
			min, max = l.GetMin(), l.GetMax()
		}
		if k.GetPrecision() != 0 || k.GetScale() != 0 {
			prec, scale = k.GetPrecision(), k.GetScale()
		}
		if k.GetBitWidth() != 0 {
			bw = k.GetBitWidth()
		}
	}
	if bw != 0 && info != nil {
		info.BitWidthFields++
	}
	return []interface{}{min, max, prec, scale}
}

func (c *c17Census) params(app []string, ep *sysl.Endpoint) {
	one := func(loc string, i int, name string, t *sysl.Type) {
		c.rows.add("param", app, ep.GetName(), name, loc, i, c17TypeCell(app, t, &c.info), t.GetOpt())
		if loc != "path" && loc != "query" && len(t.GetAttrs()["patterns"].GetA().GetElt()) > 0 {
			c.info.ParamLocTags++
			if len(t.GetAttrs()["patterns"].GetA().GetElt()) > 1 {
				c.info.ParamMultiTags++
			}
		}
		c.meta("param", t.GetAttrs(), app, ep.GetName(), name, loc, i)
	}
	for i, p := range ep.GetParam() {
		// the kind of a signature parameter is its first tag in declaration order (docs: [~header, ...]), "method" without one
		loc := "method"
		if el := p.GetType().GetAttrs()["patterns"].GetA().GetElt(); len(el) > 0 {
			loc = el[0].GetS()
		}
		one(loc, i, p.GetName(), p.GetType())
	}
	for i, p := range ep.GetRestParams().GetUrlParam() {
		one("path", i, p.GetName(), p.GetType())
	}
	for i, p := range ep.GetRestParams().GetQueryParam() {
		one("query", i, p.GetName(), p.GetType())
	}
}

// stmts walks one statement list. parent is the position path of the enclosing block.
// It reports whether the list has the shape on which position paths are known to collapse (see AliasShape):
// a child that produces a row through the shared path slice (anything but `...` and one-of) followed by another child.
func (c *c17Census) stmts(app []string, ep *sysl.Endpoint, ss []*sysl.Statement, parent []int, inEvent bool) (clobber bool, positions int) {
	at := func(i int) []int { return append(append([]int{}, parent...), i) }
	spare := func(p []int) bool { return len(p) == 3 || (len(p) >= 5 && len(p) <= 7) } // lengths at which append() reuses the array
	rowSeen := false
	for i, s := range ss {
		path := at(i)
		if len(path) > c.info.MaxDepth {
			c.info.MaxDepth = len(path)
		}
		if rowSeen {
			clobber = true
		}
		row := func(p []int, kind ...interface{}) {
			c.info.Stmts++
			if inEvent {
				c.info.EventStmts++
			}
			c.rows.add("stmt", app, ep.GetName(), p, kind)
		}
		block := func(children []*sysl.Statement, p []int) {
			cl, n := c.stmts(app, ep, children, p, inEvent)
			if cl && spare(p) && !inEvent {
				c.info.AliasShape = true
			}
			if n >= 2 && len(p) >= 3 {
				c.info.DeepSibling = true
			}
		}
		isRow := true
		switch v := s.GetStmt().(type) {
		case *sysl.Statement_Action:
			if v.Action.GetAction() == "..." {
				c.info.Placeholders++ // a placeholder says "nothing here": no row
				continue
			}
			row(path, "action", v.Action.GetAction())
		case *sysl.Statement_Call:
			row(path, "call", c17Parts(v.Call.GetTarget().GetPart()), v.Call.GetEndpoint())
		case *sysl.Statement_Cond:
			row(path, "cond", v.Cond.GetTest())
			block(v.Cond.GetStmt(), path)
		case *sysl.Statement_Loop:
			row(path, "loop", v.Loop.GetMode().String(), v.Loop.GetCriterion())
			block(v.Loop.GetStmt(), path)
		case *sysl.Statement_LoopN:
			row(path, "loopn", v.LoopN.GetCount())
			block(v.LoopN.GetStmt(), path)
		case *sysl.Statement_Foreach:
			row(path, "foreach", v.Foreach.GetCollection())
			block(v.Foreach.GetStmt(), path)
		case *sysl.Statement_Group:
			row(path, "group", v.Group.GetTitle())
			block(v.Group.GetStmt(), path)
		case *sysl.Statement_Alt:
			isRow = false // the choices copy the path before extending it
			for j, ch := range v.Alt.GetChoice() {
				cp := append(append([]int{}, path...), j)
				c.info.AltChoices++
				row(cp, "alt", ch.GetCond())
				block(ch.GetStmt(), cp)
			}
			if len(v.Alt.GetChoice()) >= 2 && spare(path) && !inEvent {
				c.info.AliasShape = true
			}
		case *sysl.Statement_Ret:
			r, ok := c17ParsePayload(v.Ret.GetPayload(), app)
			if !ok {
				c.info.OpaqueRets++
				c.opaque[c17Key(app, ep.GetName(), path)] = true
				row(path, "ret", "?")
			} else {
				if r[1] != nil && (len(r[2].([]string)) > 0 || len(r[3].(map[string]interface{})) > 0) {
					c.info.TypedRetAttrs++
				}
				row(path, append([]interface{}{"ret"}, r...)...)
			}
		default:
			row(path, "unknown", fmt.Sprintf("%T", s.GetStmt()))
		}
		positions++
		if isRow {
			rowSeen = true
		}
		if _, isAlt := s.GetStmt().(*sysl.Statement_Alt); !isAlt {
			c.meta("stmt", s.GetAttrs(), app, ep.GetName(), path)
		}
	}
	return clobber, positions
}

func c17CensusOf(m *sysl.Module) *c17Census {
	c := &c17Census{rows: c17Rows{}, opaque: map[string]bool{}}
	keys := make([]string, 0, len(m.GetApps()))
	for k := range m.GetApps() {
		keys = append(keys, k)
	}
	sort.Strings(keys)
	for _, k := range keys {
		a := m.GetApps()[k]
		app := c17Parts(a.GetName().GetPart())
		if len(app) > 1 {
			c.info.Namespaced++
		}
		c.rows.add("app", app, a.GetLongName(), a.GetDocstring())
		c.meta("app", a.GetAttrs(), app)
		for _, mx := range a.GetMixin2() {
			c.info.Mixins++
			c.rows.add("mixin", app, c17Parts(mx.GetName().GetPart()))
			c.meta("mixin", mx.GetAttrs(), app, c17Parts(mx.GetName().GetPart()))
		}
		var eps []string
		for n := range a.GetEndpoints() {
			eps = append(eps, n)
		}
		sort.Strings(eps)
		for _, n := range eps {
			ep := a.GetEndpoints()[n]
			if ep.GetName() == "..." { // the placeholder member of an otherwise empty application
				continue
			}
			if ep.GetIsPubsub() {
				c.info.Events++
				c.rows.add("event", app, ep.GetName())
				c.meta("event", ep.GetAttrs(), app, ep.GetName())
				c.params(app, ep)
				c.stmts(app, ep, ep.GetStmt(), nil, true)
				continue
			}
			var src interface{}
			if ep.GetSource() != nil {
				c.info.Subscriptions++
				ev := ep.GetName()
				if i := strings.Index(ev, " -> "); i >= 0 {
					ev = ev[i+4:]
				}
				src = []interface{}{c17Parts(ep.GetSource().GetPart()), ev}
			}
			var rest interface{}
			if rp := ep.GetRestParams(); rp != nil {
				rest = []interface{}{rp.GetMethod().String(), rp.GetPath()}
			}
			c.rows.add("ep", app, ep.GetName(), ep.GetLongName(), ep.GetDocstring(), src, rest)
			c.meta("ep", ep.GetAttrs(), app, ep.GetName())
			c.params(app, ep)
			c.stmts(app, ep, ep.GetStmt(), nil, false)
		}
		var tns []string
		for n := range a.GetTypes() {
			tns = append(tns, n)
		}
		sort.Strings(tns)
		for _, tn := range tns {
			t := a.GetTypes()[tn]
			c.rows.add("type", app, tn, t.GetDocstring(), t.GetOpt())
			c.meta("type", t.GetAttrs(), app, tn)
			var fields map[string]*sysl.Type
			switch v := t.GetType().(type) {
			case *sysl.Type_Tuple_:
				fields = v.Tuple.GetAttrDefs()
			case *sysl.Type_Relation_:
				fields = v.Relation.GetAttrDefs()
				c.rows.add("table", app, tn, c17Parts(v.Relation.GetPrimaryKey().GetAttrName()))
			case *sysl.Type_Enum_:
				c.rows.add("enum", app, tn, v.Enum.GetItems())
			case *sysl.Type_Primitive_, *sysl.Type_Set, *sysl.Type_Sequence, *sysl.Type_TypeRef:
				c.rows.add("alias", app, tn, c17TypeCell(app, t, &c.info))
			}
			var fns []string
			for fn := range fields {
				fns = append(fns, fn)
			}
			sort.Strings(fns)
			for _, fn := range fns {
				f := fields[fn]
				c.rows.add("field", app, tn, fn, f.GetOpt(), c17TypeCell(app, f, &c.info), c17ConstraintCell(f, &c.info))
				c.meta("field", f.GetAttrs(), app, tn, fn)
			}
		}
		c.info.Views += len(a.GetViews())
	}
	for _, rs := range c.rows {
		c.info.Rows += len(rs)
	}
	c.rows.sorted()
	return c
}

// ---------- return payloads (the documented forms: `status`, `status <: type`, each with optional [attrs]) ----------

var (
	c17ReStatus = regexp.MustCompile(`^(ok|error|[1-5][0-9][0-9])$`)
	c17ReName   = regexp.MustCompile(`^[A-Za-z_][A-Za-z0-9_-]*$`)
	c17Prims    = map[string]bool{"int": true, "int32": true, "int64": true, "float": true, "float32": true, "float64": true, "decimal": true,
		"bool": true, "bytes": true, "string": true, "date": true, "datetime": true, "any": true}
)

func c17PayloadType(s string, owner []string) (interface{}, bool) {
	s = strings.TrimSpace(s)
	for _, w := range [][2]string{{"sequence of ", "seq"}, {"set of ", "set"}} {
		if strings.HasPrefix(s, w[0]) {
			in, ok := c17PayloadType(s[len(w[0]):], owner)
			if !ok {
				return nil, false
			}
			return []interface{}{w[1], in}, true
		}
	}
	if c17Prims[s] {
		return []interface{}{"prim", strings.ToUpper(s)}, true
	}
	app := owner
	name := s
	if i := strings.LastIndex(s, "."); i >= 0 {
		var parts []string
		for _, p := range strings.Split(s[:i], "::") {
			p = strings.TrimSpace(p)
			if !c17ReName.MatchString(p) {
				return nil, false
			}
			parts = append(parts, p)
		}
		app, name = parts, s[i+1:]
	}
	if !c17ReName.MatchString(name) {
		return nil, false
	}
	return []interface{}{"ref", c17Parts(app), []string{name}}, true
}

func c17PayloadValue(s string) (interface{}, bool) {
	s = strings.TrimSpace(s)
	if len(s) >= 2 && s[0] == '"' && s[len(s)-1] == '"' {
		in := s[1 : len(s)-1]
		if strings.ContainsAny(in, "\"\\") {
			return nil, false
		}
		if in == "" {
			return "∅", true
		}
		return []interface{}{"s", in}, true
	}
	if len(s) >= 2 && s[0] == '[' && s[len(s)-1] == ']' {
		in := strings.TrimSpace(s[1 : len(s)-1])
		if in == "" {
			return "∅", true
		}
		out := []interface{}{"a"}
		for _, p := range c17SplitTop(in) {
			v, ok := c17PayloadValue(p)
			if !ok {
				return nil, false
			}
			out = append(out, v)
		}
		return out, true
	}
	return nil, false
}

// c17SplitTop splits on commas outside brackets and quotes.
func c17SplitTop(s string) []string {
	var out []string
	depth, start := 0, 0
	inq := false
	for i := 0; i < len(s); i++ {
		switch ch := s[i]; {
		case ch == '"':
			inq = !inq
		case inq:
		case ch == '[' || ch == '{':
			depth++
		case ch == ']' || ch == '}':
			depth--
		case ch == ',' && depth == 0:
			out = append(out, s[start:i])
			start = i + 1
		}
	}
	return append(out, s[start:])
}

// c17ParsePayload returns [status, type, modifiers, nvp] or ok=false when the text is not one of the forms
// this census interprets (then only the presence of the return row is compared).
func c17ParsePayload(p string, owner []string) ([]interface{}, bool) {
	p = strings.TrimSpace(p)
	mods := []string{}
	nvp := map[string]interface{}{}
	if strings.HasSuffix(p, "]") {
		i := strings.Index(p, "[")
		if i < 0 {
			return nil, false
		}
		attrs := strings.TrimSpace(p[i+1 : len(p)-1])
		p = strings.TrimSpace(p[:i])
		if attrs == "" {
			return nil, false
		}
		for _, a := range c17SplitTop(attrs) {
			a = strings.TrimSpace(a)
			if strings.HasPrefix(a, "~") {
				if !c17ReName.MatchString(a[1:]) {
					return nil, false
				}
				mods = append(mods, a[1:])
				continue
			}
			eq := strings.Index(a, "=")
			if eq <= 0 || !c17ReName.MatchString(strings.TrimSpace(a[:eq])) || strings.Contains(a[:eq], "-") {
				return nil, false
			}
			v, ok := c17PayloadValue(a[eq+1:])
			if !ok {
				return nil, false
			}
			if _, dup := nvp[strings.TrimSpace(a[:eq])]; dup {
				return nil, false
			}
			nvp[strings.TrimSpace(a[:eq])] = v
		}
	}
	sort.Strings(mods)
	for i := 1; i < len(mods); i++ {
		if mods[i] == mods[i-1] {
			return nil, false
		}
	}
	if strings.ContainsAny(p, "[]") {
		return nil, false
	}
	if c17ReStatus.MatchString(p) {
		return []interface{}{p, nil, mods, nvp}, true
	}
	i := strings.Index(p, "<:")
	if i < 0 {
		return nil, false // no explicit status: semantics not documented, left opaque
	}
	st := strings.TrimSpace(p[:i])
	if !c17ReStatus.MatchString(st) {
		return nil, false
	}
	t, ok := c17PayloadType(p[i+2:], owner)
	if !ok {
		return nil, false
	}
	return []interface{}{st, t, mods, nvp}, true
}

// ---------- projection of the relational form ----------

func c17GotType(v interface{}) interface{} {
	switch t := v.(type) {
	case nil:
		return nil
	case relmod.TypePrimitive:
		return []interface{}{"prim", strings.ToUpper(t.Primitive)}
	case relmod.TypeRef:
		return []interface{}{"ref", c17Parts(t.AppName), c17Parts(t.TypePath)}
	case relmod.TypeSet:
		return []interface{}{"set", c17GotType(t.Set)}
	case relmod.TypeSequence:
		return []interface{}{"seq", c17GotType(t.Sequence)}
	case relmod.TypeTuple:
		return []interface{}{"tuple"}
	}
	return []interface{}{"other", fmt.Sprintf("%T", v)}
}

// c17GotNvp: a value of a return payload attribute as the relational form encodes it (strings; arrays as {a: [...]}).
func c17GotNvp(v interface{}) interface{} {
	switch x := v.(type) {
	case string:
		if x == "" {
			return "∅"
		}
		return []interface{}{"s", x}
	case map[string]interface{}:
		if a, ok := x["a"]; ok && len(x) == 1 {
			return c17GotNvp(a)
		}
	case []interface{}:
		if len(x) == 0 {
			return "∅"
		}
		out := []interface{}{"a"}
		for _, e := range x {
			out = append(out, c17GotNvp(e))
		}
		return out
	case nil:
		return "∅"
	}
	b, _ := json.Marshal(v)
	return []interface{}{"?", string(b)}
}

func c17Project(s *relmod.Schema, opaque map[string]bool) c17Rows {
	r := c17Rows{}
	for _, a := range s.App {
		r.add("app", c17Parts(a.AppName), a.AppLongName, a.AppDocstring)
	}
	for _, m := range s.Mixin {
		r.add("mixin", c17Parts(m.AppName), c17Parts(m.MixinName))
	}
	for _, e := range s.Ep {
		var src interface{}
		if e.EpEvent.AppName.Part != nil || e.EpEvent.EventName != "" {
			src = []interface{}{c17Parts(e.EpEvent.AppName.Part), e.EpEvent.EventName}
		}
		var rest interface{}
		if e.Rest.Method != "" || e.Rest.Path != "" {
			rest = []interface{}{e.Rest.Method, e.Rest.Path}
		}
		r.add("ep", c17Parts(e.AppName), e.EpName, e.EpLongName, e.EpDocstring, src, rest)
	}
	for _, p := range s.Param {
		r.add("param", c17Parts(p.AppName), p.EpName, p.ParamName, c17Loc(p.ParamLoc), p.ParamIndex, c17GotType(p.ParamType), p.ParamOpt)
	}
	for _, st := range s.Stmt {
		var kinds []interface{}
		if st.StmtAction != "" {
			kinds = append(kinds, "action", st.StmtAction)
		}
		if st.StmtCall != nil {
			var target interface{} = st.StmtCall["appName"]
			if p, ok := target.([]string); ok {
				target = c17Parts(p)
			}
			kinds = append(kinds, "call", target, st.StmtCall["epName"])
		}
		if st.StmtCond != nil {
			kinds = append(kinds, "cond", st.StmtCond["test"])
		}
		if st.StmtLoop != nil {
			kinds = append(kinds, "loop", st.StmtLoop["mode"], st.StmtLoop["criterion"])
		}
		if st.StmtLoopN != nil {
			kinds = append(kinds, "loopn", st.StmtLoopN["count"])
		}
		if st.StmtForeach != nil {
			kinds = append(kinds, "foreach", st.StmtForeach["coll"])
		}
		if st.StmtGroup != nil {
			kinds = append(kinds, "group", st.StmtGroup["title"])
		}
		if st.StmtAlt != nil {
			kinds = append(kinds, "alt", st.StmtAlt["choice"])
		}
		ret := st.StmtRet
		if ret.Status != "" || ret.Type != nil || ret.Attr.Modifier != nil || ret.Attr.Nvp != nil {
			if opaque[c17Key(st.AppName, st.EpName, st.StmtIndex)] {
				kinds = append(kinds, "ret", "?")
			} else {
				mods := append([]string{}, ret.Attr.Modifier...)
				sort.Strings(mods)
				nvp := map[string]interface{}{}
				for k, v := range ret.Attr.Nvp {
					nvp[k] = c17GotNvp(v)
				}
				kinds = append(kinds, "ret", ret.Status, c17GotType(ret.Type), mods, nvp)
			}
		}
		if kinds == nil {
			kinds = []interface{}{"none"}
		}
		r.add("stmt", c17Parts(st.AppName), st.EpName, c17Path(st.StmtIndex), kinds)
	}
	for _, t := range s.Type {
		r.add("type", c17Parts(t.AppName), t.TypeName, t.TypeDocstring, t.TypeOpt)
	}
	for _, t := range s.Table {
		r.add("table", c17Parts(t.AppName), t.TypeName, c17Parts(t.Pk))
	}
	for _, f := range s.Field {
		fc := f.FieldConstraint
		r.add("field", c17Parts(f.AppName), f.TypeName, f.FieldName, f.FieldOpt, c17GotType(f.FieldType),
			[]interface{}{fc.Length.Min, fc.Length.Max, fc.Precision, fc.Scale})
	}
	for _, e := range s.Enum {
		r.add("enum", c17Parts(e.AppName), e.TypeName, e.EnumItems)
	}
	for _, a := range s.Alias {
		r.add("alias", c17Parts(a.AppName), a.TypeName, c17GotType(a.AliasType))
	}
	for _, e := range s.Event {
		r.add("event", c17Parts(e.AppName), e.EventName)
	}
	for _, a := range s.Anno.App {
		r.add("anno.app", c17Parts(a.AppName), a.AppAnnoName, c17RelValue(a.AppAnnoValue))
	}
	for _, a := range s.Anno.Mixin {
		r.add("anno.mixin", c17Parts(a.AppName), c17Parts(a.MixinName), a.MixinAnnoName, c17RelValue(a.MixinAnnoValue))
	}
	for _, a := range s.Anno.Ep {
		r.add("anno.ep", c17Parts(a.AppName), a.EpName, a.EpAnnoName, c17RelValue(a.EpAnnoValue))
	}
	for _, a := range s.Anno.Param {
		r.add("anno.param", c17Parts(a.AppName), a.EpName, a.ParamName, c17Loc(a.ParamLoc), a.ParamIndex, a.ParamAnnoName, c17RelValue(a.ParamAnnoValue))
	}
	for _, a := range s.Anno.Stmt {
		r.add("anno.stmt", c17Parts(a.AppName), a.EpName, c17Path(a.StmtIndex), a.StmtAnnoName, c17RelValue(a.StmtAnnoValue))
	}
	for _, a := range s.Anno.Event {
		r.add("anno.event", c17Parts(a.AppName), a.EventName, a.EventAnnoName, c17RelValue(a.EventAnnoValue))
	}
	for _, a := range s.Anno.Type {
		r.add("anno.type", c17Parts(a.AppName), a.TypeName, a.TypeAnnoName, c17RelValue(a.TypeAnnoValue))
	}
	for _, a := range s.Anno.Field {
		r.add("anno.field", c17Parts(a.AppName), a.TypeName, a.FieldName, a.FieldAnnoName, c17RelValue(a.FieldAnnoValue))
	}
	for _, a := range s.Tag.App {
		r.add("tag.app", c17Parts(a.AppName), a.AppTag)
	}
	for _, a := range s.Tag.Mixin {
		r.add("tag.mixin", c17Parts(a.AppName), c17Parts(a.MixinName), a.MixinTag)
	}
	for _, a := range s.Tag.Ep {
		r.add("tag.ep", c17Parts(a.AppName), a.EpName, a.EpTag)
	}
	for _, a := range s.Tag.Param {
		r.add("tag.param", c17Parts(a.AppName), a.EpName, a.ParamName, c17Loc(a.ParamLoc), a.ParamIndex, a.ParamTag)
	}
	for _, a := range s.Tag.Stmt {
		r.add("tag.stmt", c17Parts(a.AppName), a.EpName, c17Path(a.StmtIndex), a.StmtTag)
	}
	for _, a := range s.Tag.Event {
		r.add("tag.event", c17Parts(a.AppName), a.EventName, a.EventTag)
	}
	for _, a := range s.Tag.Type {
		r.add("tag.type", c17Parts(a.AppName), a.TypeName, a.TypeTag)
	}
	for _, a := range s.Tag.Field {
		r.add("tag.field", c17Parts(a.AppName), a.TypeName, a.FieldName, a.FieldTag)
	}
	r.sorted()
	return r
}

// c17Rest: everything else the schema holds (imports, views, source contexts), as sorted JSON rows,
// used only to decide whether two runs gave the same relations.
func c17Rest(s *relmod.Schema) []string {
	var out []string
	dump := func(name string, v interface{}) {
		b, err := json.Marshal(v)
		if err != nil {
			out = append(out, name+" !"+err.Error())
			return
		}
		var rows []json.RawMessage
		if json.Unmarshal(b, &rows) != nil {
			out = append(out, name+" "+string(b))
			return
		}
		for _, r := range rows {
			out = append(out, name+" "+string(r))
		}
	}
	dump("import", s.Import)
	for _, v := range s.View {
		out = append(out, fmt.Sprintf("view %q %q %v", v.AppName, v.ViewName, c17GotType(v.ViewType)))
	}
	dump("src.import", s.Src.Import)
	dump("src.app", s.Src.App)
	dump("src.mixin", s.Src.Mixin)
	dump("src.ep", s.Src.Ep)
	dump("src.param", s.Src.Param)
	dump("src.stmt", s.Src.Stmt)
	dump("src.event", s.Src.Event)
	dump("src.type", s.Src.Type)
	dump("src.field", s.Src.Field)
	dump("src.view", s.Src.View)
	dump("src.anno.app", s.Src.Anno.App)
	dump("src.anno.mixin", s.Src.Anno.Mixin)
	dump("src.anno.ep", s.Src.Anno.Ep)
	dump("src.anno.param", s.Src.Anno.Param)
	dump("src.anno.stmt", s.Src.Anno.Stmt)
	dump("src.anno.event", s.Src.Anno.Event)
	dump("src.anno.type", s.Src.Anno.Type)
	dump("src.anno.field", s.Src.Anno.Field)
	dump("src.anno.view", s.Src.Anno.View)
	for _, a := range s.Anno.View {
		out = append(out, fmt.Sprintf("anno.view %q %q %q %v", a.AppName, a.ViewName, a.ViewAnnoName, c17RelValue(a.ViewAnnoValue)))
	}
	for _, a := range s.Tag.View {
		out = append(out, fmt.Sprintf("tag.view %q %q %q", a.AppName, a.ViewName, a.ViewTag))
	}
	sort.Strings(out)
	return out
}
