package checks

// C19 — every generator is deterministic: same model, byte-identical output, within one
// process and across processes.

import (
	"fmt"
	"os"
	"os/exec"
	"path/filepath"
	"sort"
	"strings"
	"testing"

	"pgregory.net/rapid"
)

type c19Case struct {
	Src       string         `json:"src"`            // sys | intent | corpus
	Path      string         `json:"path,omitempty"` // corpus: file below the tree under test
	Text      string         `json:"text,omitempty"`
	Text2     string         `json:"text2,omitempty"` // second version of the database app (delta scripts)
	OAS2      string         `json:"oas2,omitempty"`
	XSD       string         `json:"xsd,omitempty"`
	DocCensus map[string]int `json:"doc_census,omitempty"`
	Kinds     []string       `json:"kinds"`
	Runs      int            `json:"runs"`  // executions inside one process (2..10)
	Procs     int            `json:"procs"` // fresh processes (2..3)
	Classes   []string       `json:"classes,omitempty"`
}

func c19FindingID(kind string) string { return "C19-" + kind }
func c19Sig(kind string) string       { return "nondeterministic:" + kind }

// The PlantUML data-model view is unstable only for enums whose items share a value: that shape is
// excluded from generation (not the whole kind) and has its own signature.
const c19KDatamodel = "C19-datamodel-plantuml"
const c19SigDatamodelEnum = "nondeterministic:datamodel-plantuml:enum-items-with-equal-values"

func c19DistinctEnumValues(in *Intent) bool {
	changed := false
	for _, a := range in.Apps {
		for _, td := range a.Types {
			seen := map[int64]bool{}
			for i := range td.Enum {
				for seen[td.Enum[i].Val] {
					td.Enum[i].Val++
					changed = true
				}
				seen[td.Enum[i].Val] = true
			}
		}
	}
	return changed
}

// kinds to run: everything except the kinds listed as known-unstable (counted), slow ones sparsely
func c19PickKinds(withSlow, withMedium bool, need map[string]bool, ex func(id string)) []string {
	var out []string
	for _, k := range c19Kinds {
		if !need[k.Need] || k.Slow && !withSlow || k.Medium && !withMedium {
			continue
		}
		if knownActive(c19FindingID(k.Name)) && c19FindingID(k.Name) != c19KDatamodel {
			ex(c19FindingID(k.Name))
			continue
		}
		out = append(out, k.Name)
	}
	return out
}

func genC19(t *rapid.T) c19Case {
	c := c19Case{Runs: rapid.IntRange(2, 10).Draw(t, "runs"), Procs: 2}
	if thorough() {
		c.Procs = rapid.IntRange(2, 3).Draw(t, "procs")
	}
	need := map[string]bool{"model": true}
	if rapid.IntRange(0, 3).Draw(t, "src") == 0 {
		c.Src = "intent"
		in := GenIntent(t)
		if knownActive(c19KDatamodel) && c19DistinctEnumValues(in) {
			R("C19").Exclude(c19KDatamodel)
		}
		c.Text = Render(in, pick(t, indentPool, "indent"))
		// a project app so that the integration views have something to render
		c.Text += "\nProj:\n    All:\n"
		for _, a := range in.Apps {
			c.Text += "        " + appKey(a.Name) + "\n"
		}
	} else {
		c.Src = "sys"
		s := c19GenSystem(t)
		c.Text, c.Text2, c.Classes = s.Text, s.Text2, s.Classes
		need["model2"] = true
	}
	c.DocCensus = map[string]int{}
	if rapid.Bool().Draw(t, "withoas2") {
		d := c19GenOAS2(t)
		c.OAS2 = d.Doc
		need["oas2"] = true
		for k, v := range d.Census {
			c.DocCensus[k] = v
		}
	} else if rapid.Bool().Draw(t, "withxsd") {
		d := c19GenXSD(t)
		c.XSD = d.Doc
		need["xsd"] = true
		for k, v := range d.Census {
			c.DocCensus[k] = v
		}
	}
	slow := rapid.IntRange(0, 11).Draw(t, "slow") == 7
	if slow {
		c.Runs = 2
	}
	medium := rapid.IntRange(0, 3).Draw(t, "medium") == 2
	c.Kinds = c19PickKinds(slow, medium, need, func(id string) { R("C19").Exclude(id) })
	return c
}

func c19FirstDiff(a, b string) string {
	la, lb := strings.Split(a, "\n"), strings.Split(b, "\n")
	for i := 0; i < len(la) || i < len(lb); i++ {
		x, y := "<end>", "<end>"
		if i < len(la) {
			x = la[i]
		}
		if i < len(lb) {
			y = lb[i]
		}
		if x != y {
			if len(x) > 300 {
				// one-line outputs: show the neighbourhood of the first differing byte
				j := 0
				for j < len(x) && j < len(y) && x[j] == y[j] {
					j++
				}
				lo := j - 60
				if lo < 0 {
					lo = 0
				}
				hx, hy := j+100, j+100
				if hx > len(x) {
					hx = len(x)
				}
				if hy > len(y) {
					hy = len(y)
				}
				return fmt.Sprintf("line %d byte %d: %q vs %q", i+1, j, x[lo:hx], y[lo:hy])
			}
			return fmt.Sprintf("line %d: %q vs %q", i+1, x, y)
		}
	}
	return "no differing line (lengths differ?)"
}

func c19Arg0(c c19Case) c19Arg {
	a := c19Arg{Text: c.Text, Text2: c.Text2, OAS2: c.OAS2, XSD: c.XSD, Runs: c.Runs, Recompile: true}
	if c.Src == "corpus" {
		a.Path = filepath.Join(cfg.Repo, c.Path)
	}
	return a
}

// c19Proc runs the kinds in one fresh process. A kind that ends the process is reported in dead.
func c19Proc(x *X, c c19Case, kinds []string) (res *c19Res, dead map[string]*Death, inconclusive bool) {
	shutdownSandbox()
	a := c19Arg0(c)
	a.Kinds = kinds
	res = &c19Res{}
	death, err, inc := sandboxCall("c19.run", a, res)
	if inc {
		return nil, nil, true
	}
	if err != nil {
		panic("c19.run: " + err.Error())
	}
	if death == nil {
		return res, nil, false
	}
	if len(kinds) == 1 {
		return &c19Res{Kinds: map[string]c19KindRes{}}, map[string]*Death{kinds[0]: death}, false
	}
	// find the kinds that end the process, keep the others
	dead = map[string]*Death{}
	merged := &c19Res{Kinds: map[string]c19KindRes{}}
	for _, k := range kinds {
		r, d, inc := c19Proc(x, c, []string{k})
		if inc {
			return nil, nil, true
		}
		for dk, dv := range d {
			dead[dk] = dv
		}
		if r != nil {
			if r.Rejected != "" {
				merged.Rejected = r.Rejected
			}
			if r.Census != nil {
				merged.Census = r.Census
			}
			for kk, kv := range r.Kinds {
				merged.Kinds[kk] = kv
			}
		}
	}
	if len(dead) == 0 {
		// died with all kinds together but with none alone: compilation itself (or an interaction); not decidable here
		return nil, nil, true
	}
	return merged, dead, false
}

func checkC19(x *X, c c19Case) error {
	if len(c.Kinds) == 0 {
		return nil
	}
	x.Class("case_" + c.Src)
	for _, cl := range c.Classes {
		x.Class(cl)
	}
	label := c.Text
	if c.Src == "corpus" {
		label = "corpus file " + c.Path
	}
	kinds := append([]string{}, c.Kinds...)
	var procs []*c19Res
	for p := 0; p < c.Procs; p++ {
		r, dead, inc := c19Proc(x, c, kinds)
		if inc {
			x.Inconclusive("worker overran its time bound once (not reproduced) or died without a culprit kind")
			return nil
		}
		if r.Rejected != "" {
			x.Class("rejected_" + c.Src)
			if c.Src != "corpus" {
				x.Sample("REJECTED: " + r.Rejected + "\n" + c.Text)
			}
			// import kinds do not need the model: go on with them alone
			var rest []string
			for _, k := range kinds {
				if kk := c19KindByName(k); kk != nil && (kk.Need == "oas2" || kk.Need == "xsd") {
					rest = append(rest, k)
				}
			}
			if len(rest) == 0 {
				return nil
			}
			kinds, procs, p = rest, nil, -1
			c.Text, c.Text2, c.Path, c.Src = "", "", "", "doc"
			continue
		}
		if len(dead) > 0 {
			// crashes belong to C20: the kind is skipped for this model and counted
			var keep []string
			for _, k := range kinds {
				if d := dead[k]; d != nil {
					x.Class("crash_skipped:" + k)
					x.Class("crash_skipped@" + d.Sig())
				} else {
					keep = append(keep, k)
				}
			}
			kinds = keep
		}
		procs = append(procs, r)
	}
	if len(procs) == 0 {
		return nil
	}
	for _, pr := range procs {
		x.r.ClassN("cost_ms:compile", pr.CompileMs)
	}
	census := map[string]int{}
	for k, v := range procs[0].Census {
		census[k] = v
	}
	for k, v := range c.DocCensus {
		census[k] = v
	}
	if strings.Contains(strings.Join(c.Classes, " "), "delta_changes>=2") {
		census["delta_changes"] = 2
	}
	var errs []error
	for _, k := range kinds {
		base, ok := procs[0].Kinds[k]
		if !ok {
			continue
		}
		skip := false
		for _, pr := range procs {
			if kr, ok := pr.Kinds[k]; !ok || kr.Panic != "" {
				if ok {
					x.Class("panic_skipped:" + k)
					if i := strings.LastIndex(kr.Panic, " @"); i >= 0 {
						x.Class("panic_skipped@" + kr.Panic[i+2:])
					}
					x.Sample("PANIC (skipped, belongs to C20) " + k + ": " + kr.Panic)
				}
				skip = true
			}
		}
		if skip {
			continue
		}
		x.Class("checked:" + k)
		for _, pr := range procs {
			x.r.ClassN("cost_ms:"+k, pr.Kinds[k].Ms)
		}
		sig := c19Sig(k)
		if k == "datamodel-plantuml" && census["enum_dup_values"] > 0 {
			sig = c19SigDatamodelEnum
		}

		if base.ErrMix {
			errs = append(errs, finding(sig, "%s: some of %d executions in one process failed, others succeeded (first: %q)\n---- %s", k, base.Runs, base.Err, label))
			continue
		}
		if len(base.Others) > 0 {
			errs = append(errs, finding(sig, "%s: %d executions in one process gave different outputs: %s\n---- %s", k, base.Runs, c19FirstDiff(base.First, base.Others[0]), label))
			continue
		}
		bad := false
		for pi, pr := range procs[1:] {
			kr := pr.Kinds[k]
			if kr.ErrMix || len(kr.Others) > 0 {
				errs = append(errs, finding(sig, "%s: executions in process %d gave different outputs: %s\n---- %s", k, pi+2, c19FirstDiff(kr.First, append(kr.Others, "")[0]), label))
				bad = true
				break
			}
			if (kr.Err == "") != (base.Err == "") {
				errs = append(errs, finding(sig, "%s: process 1 %s, process %d %s\n---- %s", k, c19Status(base.Err), pi+2, c19Status(kr.Err), label))
				bad = true
				break
			}
			if kr.First != base.First {
				errs = append(errs, finding(sig, "%s: two processes gave different outputs: %s\n---- %s", k, c19FirstDiff(base.First, kr.First), label))
				bad = true
				break
			}
		}
		if bad {
			continue
		}
		x.SubEval()
		if base.Err != "" {
			x.Class("error:" + k)
			continue
		}
		if kk := c19KindByName(k); kk != nil && kk.NT(census) {
			x.Class("nontrivial:" + k)
			x.NonTrivial(k + fmt.Sprintf("%x", hash64(base.First)))
		}
	}
	x.Sample(map[string]interface{}{"src": c.Src, "path": c.Path, "runs": c.Runs, "procs": c.Procs, "census": census, "kinds": kinds})
	for _, e := range errs {
		if f, ok := e.(*Finding); ok {
			x.Class("unstable:" + strings.TrimPrefix(f.Sig, "nondeterministic:"))
		}
	}
	for _, e := range errs {
		if f, ok := e.(*Finding); ok && knownSig("C19", f.Sig) {
			continue
		}
		return e
	}
	if len(errs) > 0 {
		return errs[0]
	}
	return nil
}

func c19Status(e string) string {
	if e == "" {
		return "succeeded"
	}
	return "failed (" + e + ")"
}

var c19Rule = "Models: (sys) hand-written system template drawn by rapid — 1..3 REST-only API apps (2..5 types x 2..6 fields, enum, alias, 2..4 paths with GET/POST/PUT/DELETE, 0..4 query params, header/body params, several return codes), 2..4 service apps with an acyclic call graph (every target exists), a database app with 2..5 tables, foreign keys and a second version (added/dropped columns, added tables), a project app with two views; (intent) specgen intents plus a project app; (corpus) every .sysl file of the tree's tests directories; documents: generated OpenAPI 2 (2..5 definitions x 2..6 properties, 2..5 paths) and XSD (2..5 complex types). Output kinds: " +
	"pb text/JSON (indented, compact)/binary, sequence/integration(plain, epa, clustered)/data-model diagrams as PlantUML text, Mermaid sequence/integration/data/endpoint-analysis, OpenAPI3 and Swagger export (yaml, json), spanner and proto export (1 case in 12), create and delta SQL, relmod.Normalize (relations compared as multisets), imported Sysl text (OAS2, XSD). Each kind runs 2..10 times in one worker process (the last run on a re-compiled model) and in 2 (thorough: 2..3) fresh worker processes; all outputs must be byte-identical; error status must agree. A kind that panics/kills the worker on a model is skipped for it and counted (C20). Kinds listed as known-unstable are excluded per kind and counted. Non-trivial (per kind): the census of the compiled model/document shows >=2 entries in the maps feeding that output (apps, types, fields, REST endpoints, tables, columns, calls, call edges, definitions, properties, paths); distinct by kind + hash of the output."

var c19Prop = Define("C19", "repeat", c19Rule, genC19, checkC19)

// ---------- CLI level ----------

type c19CLICase struct {
	Text  string   `json:"text"`
	Text2 string   `json:"text2"`
	OAS2  string   `json:"oas2"`
	Cmd   string   `json:"cmd"`  // label
	Kind  string   `json:"kind"` // library-level kind with the same generator
	Args  []string `json:"args"` // sysl command line (run in a directory holding spec.sysl, spec2.sysl, doc.json, out/)
}

type c19CLICmd struct {
	Name string
	Kind string
	Args func(s c19Sys) []string
}

func c19Fixed(args ...string) func(c19Sys) []string { return func(c19Sys) []string { return args } }

var c19CLICmds = []c19CLICmd{
	{"pb-json", "pb-json", c19Fixed("pb", "--mode", "json", "-o", "out/m.json", "spec.sysl")},
	{"pb-textpb", "pb-textpb", c19Fixed("pb", "--mode", "textpb", "-o", "out/m.textpb", "spec.sysl")},
	{"pb-binary", "pb-binary", c19Fixed("pb", "--mode", "pb", "-o", "out/m.pb", "spec.sysl")},
	{"sd", "sd-plantuml", func(s c19Sys) []string {
		a := []string{"sd"}
		for _, e := range s.SdEps {
			a = append(a, "-s", e)
		}
		return append(a, "-o", "out/sd.puml", "spec.sysl")
	}},
	{"ints", "ints-plantuml", c19Fixed("ints", "-j", "Proj", "-o", "out/%(epname).puml", "spec.sysl")},
	{"ints-epa", "ints-plantuml-epa", c19Fixed("ints", "-j", "Proj", "--epa", "-o", "out/%(epname).puml", "spec.sysl")},
	{"ints-clustered", "ints-plantuml-clustered", c19Fixed("ints", "-j", "Proj", "--clustered", "-o", "out/%(epname).puml", "spec.sysl")},
	{"datamodel", "datamodel-plantuml", c19Fixed("datamodel", "-d", "-o", "out/%(epname).puml", "spec.sysl")},
	{"export-openapi3", "openapi3-yaml", func(s c19Sys) []string {
		return []string{"export", "-f", "openapi3", "-a", s.APIApp, "-o", "out/api.yaml", "spec.sysl"}
	}},
	{"export-swagger", "swagger-yaml", func(s c19Sys) []string {
		return []string{"export", "-f", "swagger", "-a", s.APIApp, "-o", "out/api.yaml", "spec.sysl"}
	}},
	{"db-create", "sql-create", c19Fixed("generate-db-scripts", "-a", "Db", "-d", "postgres", "-t", "t", "-o", "out", "spec.sysl")},
	{"db-delta", "sql-delta", c19Fixed("generate-db-scripts-delta", "-a", "Db", "-d", "postgres", "-t", "t", "-o", "out", "spec.sysl", "spec2.sysl")},
	{"import-oas2", "import-oas2", c19Fixed("import", "-i", "doc.json", "-a", "Imp", "-p", "pkg", "-o", "out/imp.sysl")},
}

func genC19CLI(t *rapid.T) c19CLICase {
	s := c19GenSystem(t)
	d := c19GenOAS2(t)
	var cmds []c19CLICmd
	for _, c := range c19CLICmds {
		if knownActive(c19FindingID(c.Kind)) && c19FindingID(c.Kind) != c19KDatamodel {
			R("C19").Exclude(c19FindingID(c.Kind))
			continue
		}
		cmds = append(cmds, c)
	}
	if len(cmds) == 0 {
		return c19CLICase{}
	}
	cmd := cmds[rapid.IntRange(0, len(cmds)-1).Draw(t, "cmd")]
	return c19CLICase{Text: s.Text, Text2: s.Text2, OAS2: d.Doc, Cmd: cmd.Name, Kind: cmd.Kind, Args: cmd.Args(s)}
}

func c19ReadTree(dir string) (string, error) {
	res := map[string]string{}
	err := filepath.Walk(dir, func(p string, info os.FileInfo, err error) error {
		if err != nil {
			return err
		}
		if !info.IsDir() {
			b, err := os.ReadFile(p)
			if err != nil {
				return err
			}
			rel, _ := filepath.Rel(dir, p)
			res[filepath.ToSlash(rel)] = string(b)
		}
		return nil
	})
	return c19JoinMap(res), err
}

func checkC19CLI(x *X, c c19CLICase) error {
	if c.Cmd == "" {
		return nil
	}
	bin := os.Getenv("VERIF_SYSL")
	if _, err := os.Stat(bin); bin == "" || err != nil {
		x.Class("cli_unavailable")
		return nil
	}
	if len(c.Args) == 0 {
		return fmt.Errorf("case without a command line")
	}
	var outs []string
	for run := 0; run < 3; run++ {
		dir, err := os.MkdirTemp("", "c19cli")
		if err != nil {
			x.Inconclusive("mkdtemp: " + err.Error())
			return nil
		}
		defer os.RemoveAll(dir)
		_ = os.MkdirAll(filepath.Join(dir, "out"), 0o755)
		_ = os.WriteFile(filepath.Join(dir, "spec.sysl"), []byte(c.Text), 0o644)
		// second version for the delta command: the database app of Text2 replaces the one in Text
		_ = os.WriteFile(filepath.Join(dir, "spec2.sysl"), []byte(c.Text2), 0o644)
		_ = os.WriteFile(filepath.Join(dir, "doc.json"), []byte(c.OAS2), 0o644)
		args := c.Args
		if c.Args[0] != "import" {
			args = append([]string{c.Args[0], "--root", dir}, c.Args[1:]...)
		}
		ex := exec.Command(bin, args...)
		ex.Dir = dir
		ex.Env = append(os.Environ(), "SYSL_PLANTUML=http://localhost")
		o, err := ex.CombinedOutput()
		if err != nil {
			// a failing command has no output to compare; crashes are C20's
			x.Class("cli_failed:" + c.Cmd)
			if run == 0 {
				x.Sample(fmt.Sprintf("CLI %s failed: %v: %s", c.Cmd, err, lastN(string(o), 300)))
			}
			return nil
		}
		tree, err := c19ReadTree(filepath.Join(dir, "out"))
		if err != nil {
			x.Inconclusive("read output: " + err.Error())
			return nil
		}
		outs = append(outs, tree)
	}
	x.Class("cli_checked:" + c.Cmd)
	if outs[0] != "" {
		x.NonTrivial("cli:" + c.Cmd + fmt.Sprintf("%x", hash64(outs[0])))
	} else {
		x.Class("cli_empty_output:" + c.Cmd)
	}
	for i := 1; i < len(outs); i++ {
		if outs[i] != outs[0] {
			return finding(c19Sig(c.Kind), "sysl %s: run 1 and run %d wrote different files: %s\n---- %s", strings.Join(c.Args, " "), i+1, c19FirstDiff(outs[0], outs[i]), c.Text)
		}
	}
	return nil
}

var c19CLIProp = Define("C19", "cli",
	"The sys template (and a generated OpenAPI 2 document) written to a temporary directory; one command line of {pb json/textpb/pb, sd, ints, ints --epa, datamodel -d, export openapi3/swagger, generate-db-scripts, generate-db-scripts-delta, import} drawn by rapid and executed 3 times by the sysl binary (fresh process each); the trees of written files must be byte-identical. Command lines whose generator is listed as known-unstable are excluded and counted.",
	genC19CLI, checkC19CLI)

func c19ModelKinds() map[string]bool { return map[string]bool{"model": true} }

func TestC19(t *testing.T) {
	checkKnown(t, "C19")
	t.Run("corpus", func(t *testing.T) {
		files := c09Corpus()
		sort.Strings(files)
		step := 1
		if !thorough() {
			step = 4 // quick: a quarter of the corpus per run, rotating with the seed
		}
		for i, f := range files {
			if i%cfg.NShards != cfg.Shard || (i/cfg.NShards)%step != int(cfg.Seed)%step {
				continue
			}
			if b, err := os.ReadFile(filepath.Join(cfg.Repo, f)); err != nil || strings.Contains(string(b), "import //") {
				continue
			}
			kinds := c19PickKinds(false, i%4 == 0, c19ModelKinds(), func(id string) { R("C19").Exclude(id) })
			c19Prop.One(t, c19Case{Src: "corpus", Path: f, Kinds: kinds, Runs: 3, Procs: 2})
		}
	})
	t.Run("repeat", func(t *testing.T) { c19Prop.Run(t, scale(c19N(18), 160)) })
	t.Run("cli", func(t *testing.T) { c19CLIProp.Run(t, scale(10, 60)) })
}

func c19N(n int) int {
	if v := os.Getenv("C19_N"); v != "" {
		fmt.Sscan(v, &n)
	}
	return n
}
