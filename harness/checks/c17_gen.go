package checks

// c17_gen.go — specification text for C17: a specgen intent followed by a block that brings the
// constructs the property text names (deep statement nests with siblings, typed return payloads with
// attributes, nested-array annotations, namespaced names, placeholders, events, mixins, subscriptions).

import (
	"fmt"
	"strings"

	"pgregory.net/rapid"
)

type c17Writer struct {
	sb  strings.Builder
	ind string
}

func (w *c17Writer) line(depth int, s string) {
	w.sb.WriteString(strings.Repeat(w.ind, depth) + s + "\n")
}

var c17Words = []string{"check", "load", "store", "audit", "merge", "notify", "x", "step two", "do-it", "a b c"}
var c17Strs = []string{"v", "some value", "a-b", "x.y", "1", "café", "a: b", "it's", "5 pc", ""}

func c17Str(t *rapid.T) string { return `"` + pick(t, c17Strs, "str") + `"` }

func c17AttrValueText(t *rapid.T, depth int) string {
	k := rapid.IntRange(0, 3).Draw(t, "valkind")
	if k <= 1 || depth >= 3 {
		return c17Str(t)
	}
	n := rapid.IntRange(0, 3).Draw(t, "arrlen")
	var parts []string
	for i := 0; i < n; i++ {
		parts = append(parts, c17AttrValueText(t, depth+1))
	}
	return "[" + strings.Join(parts, ", ") + "]"
}

// c17NestedArray always yields an array that contains an array; minInner=1 keeps inner arrays non-empty
// (an empty array inside a return payload makes relmod refuse the whole model: legal, but then nothing is compared).
func c17NestedArray(t *rapid.T, minInner int) string {
	n := rapid.IntRange(1, 3).Draw(t, "outer")
	var parts []string
	for i := 0; i < n; i++ {
		m := rapid.IntRange(minInner, 3).Draw(t, "inner")
		var in []string
		for j := 0; j < m; j++ {
			in = append(in, c17Str(t))
		}
		parts = append(parts, "["+strings.Join(in, ", ")+"]")
	}
	if rapid.Bool().Draw(t, "mixed") {
		parts = append(parts, c17Str(t))
	}
	return "[" + strings.Join(parts, ", ") + "]"
}

func c17InlineMeta(t *rapid.T, prefix string) string {
	var parts []string
	nt := rapid.IntRange(0, 2).Draw(t, "ntags")
	for i := 0; i < nt; i++ {
		parts = append(parts, "~"+prefix+pick(t, []string{"t1", "t2", "db", "x_y"}, "tag")+fmt.Sprint(i))
	}
	na := rapid.IntRange(0, 2).Draw(t, "nattrs")
	for i := 0; i < na; i++ {
		parts = append(parts, fmt.Sprintf("%sk%d=%s", prefix, i, c17AttrValueText(t, 0)))
	}
	if len(parts) == 0 {
		return ""
	}
	return " [" + strings.Join(parts, ", ") + "]"
}

type c17Ctx struct {
	self    string   // spelling of the block's main application
	others  []string // spellings of applications a payload or a call may name
	types   []string // local type names
	aliasOn bool     // the index-aliasing finding is listed: keep one row below blocks whose path has length 3, 5, 6, 7
	excl    *bool
}

func c17PayloadText(t *rapid.T, g *c17Ctx) string {
	st := pick(t, []string{"ok", "ok", "error", "200", "404", "500"}, "status")
	var ty string
	switch rapid.IntRange(0, 6).Draw(t, "rettype") {
	case 0:
		return st
	case 1:
		ty = pick(t, []string{"int", "string", "bool", "date", "any", "decimal", "float"}, "retprim")
	case 2, 3:
		ty = pick(t, g.types, "retlocal")
	case 4:
		ty = pick(t, g.others, "retapp") + "." + pick(t, []string{"Thing", "Rec", "Err"}, "rettn")
	case 5:
		ty = "sequence of " + pick(t, g.types, "retseq")
	default:
		ty = "set of " + pick(t, g.others, "retapp2") + ".Thing"
	}
	s := st + " <: " + ty
	if rapid.IntRange(0, 2).Draw(t, "retattrs") != 0 {
		var parts []string
		nm := rapid.IntRange(0, 2).Draw(t, "nmods")
		for i := 0; i < nm; i++ {
			parts = append(parts, "~"+pick(t, []string{"m", "hdr", "x_y"}, "mod")+fmt.Sprint(i))
		}
		nn := rapid.IntRange(0, 3).Draw(t, "nnvp")
		for i := 0; i < nn; i++ {
			var v string
			switch rapid.IntRange(0, 3).Draw(t, "nvpkind") {
			case 0, 1:
				v = c17Str(t)
			case 2:
				v = `["` + pick(t, c17Strs[:9], "e1") + `", "` + pick(t, c17Strs[:9], "e2") + `"]`
			default:
				v = c17NestedArray(t, 1)
				if rapid.IntRange(0, 19).Draw(t, "refusal") == 0 {
					v = "[]" // refused by the payload grammar
				}
			}
			parts = append(parts, fmt.Sprintf("n%d=%s", i, v))
		}
		if len(parts) > 0 {
			s += " [" + strings.Join(parts, ", ") + "]"
		}
	}
	return s
}

// c17Stmts writes between lo and hi statements whose position paths extend a path of length plen.
// budget bounds further nesting. It returns the number of statement rows written at this level.
func c17Stmts(t *rapid.T, w *c17Writer, g *c17Ctx, depth, plen, budget, lo, hi int, force bool) {
	single := g.aliasOn && (plen == 3 || (plen >= 5 && plen <= 7))
	n := rapid.IntRange(lo, hi).Draw(t, "nstmts")
	if single {
		if n > 1 {
			*g.excl = true
		}
		n = 1
	}
	for i := 0; i < n; i++ {
		k := rapid.IntRange(0, 11).Draw(t, "kind")
		if force && i == 0 && budget > 0 {
			k = 6 + k%6
		}
		if budget <= 0 && k >= 6 {
			k %= 6
		}
		mayElse := !single
		switch k {
		case 0:
			w.line(depth, pick(t, c17Words, "word")+c17InlineMeta(t, "s"))
		case 1:
			w.line(depth, pick(t, g.others, "callapp")+" <- "+pick(t, []string{"Ping", "Do It"}, "callep"))
		case 2, 3:
			w.line(depth, "return "+c17PayloadText(t, g))
		case 4:
			w.line(depth, ". <- Leaf")
		case 5:
			if single {
				w.line(depth, pick(t, c17Words, "word2"))
			} else {
				w.line(depth, "...") // placeholder: occupies a position, has no row
				w.line(depth, pick(t, c17Words, "word3"))
				i++
			}
		case 6:
			w.line(depth, "if "+pick(t, c17Words, "cond")+":")
			c17Stmts(t, w, g, depth+1, plen+1, budget-1, 1, 3, force)
			if mayElse && rapid.Bool().Draw(t, "else") {
				w.line(depth, "else:")
				c17Stmts(t, w, g, depth+1, plen+1, budget-1, 1, 2, false)
				i++
			}
		case 7:
			w.line(depth, "for each "+pick(t, c17Words, "coll")+":")
			c17Stmts(t, w, g, depth+1, plen+1, budget-1, 1, 3, force)
		case 8:
			w.line(depth, pick(t, []string{"while", "until"}, "loopkw")+" "+pick(t, c17Words, "crit")+":")
			c17Stmts(t, w, g, depth+1, plen+1, budget-1, 1, 3, force)
		case 9:
			w.line(depth, pick(t, []string{"loop", "alt", "for", "group"}, "grpkw")+" "+pick(t, c17Words, "title")+":")
			c17Stmts(t, w, g, depth+1, plen+1, budget-1, 1, 3, force)
		default:
			// one of: the choices are rows at plen+1, their statements at plen+2
			nc := rapid.IntRange(1, 3).Draw(t, "nchoices")
			if g.aliasOn && (plen+1 == 3 || (plen+1 >= 5 && plen+1 <= 7)) { // the choices extend the statement's own path, of length plen+1
				if nc > 1 {
					*g.excl = true
				}
				nc = 1
			}
			w.line(depth, "one of:")
			for j := 0; j < nc; j++ {
				w.line(depth+1, fmt.Sprintf("case %d %s:", j, pick(t, c17Words, "choice")))
				c17Stmts(t, w, g, depth+2, plen+2, budget-2, 1, 2, force && j == 0)
			}
		}
		force = false
	}
}

// c17Block writes the C17 applications after the specgen text.
func c17Block(t *rapid.T, ind string) (string, bool) {
	w := &c17Writer{ind: ind}
	excluded := false
	ns := pick(t, []string{"", "", "Nsx :: ", "Org :: Unit :: "}, "ns")
	hub := pick(t, []string{"Hub", "Nsx :: Hub"}, "hub")
	g := &c17Ctx{self: ns + "Xtra", others: []string{hub, ns + "Xtra"}, types: []string{"Rec", "Tab", "Kind", "Names"},
		aliasOn: knownActive("C17-stmt-index-aliasing"), excl: &excluded}

	w.line(0, hub+":")
	w.line(1, "!type Thing:")
	w.line(2, "z <: int")
	w.line(1, "Ping:")
	w.line(2, "...")
	w.line(1, "Do It:")
	w.line(2, "return ok")
	w.line(1, "<-> Sig"+c17InlineMeta(t, "e")+":")
	w.line(2, "...")
	w.line(0, "")

	mix := rapid.Bool().Draw(t, "mixin")
	if mix {
		w.line(0, ns+"Mixb [~abstract]:")
		w.line(1, "!type Shared:")
		w.line(2, "v <: int")
		w.line(2, "w <: Local?")
		w.line(1, "!type Local:")
		w.line(2, "q <: string")
		w.line(0, "")
	}

	hdr := g.self
	if rapid.Bool().Draw(t, "long") {
		hdr += ` "Long ` + pick(t, c17Words, "longw") + `"`
	}
	w.line(0, hdr+c17InlineMeta(t, "a")+":")
	w.line(1, "@arr = "+`["a", "b"]`)
	w.line(1, "@nest = "+c17NestedArray(t, 0))
	if rapid.Bool().Draw(t, "annov") {
		w.line(1, "@free = "+c17AttrValueText(t, 0))
	}
	if mix {
		w.line(1, "-|> "+ns+"Mixb")
	}
	// types
	w.line(1, "!type Rec"+c17InlineMeta(t, "t")+":")
	w.line(2, "@tanno = "+c17AttrValueText(t, 0))
	fields := []string{"id <: int", "name <: string(5..10)?", "amt <: decimal(10.2)", "big <: int64", "small <: int32?", "ratio <: float64",
		"code <: string(12)", "other <: " + hub + ".Thing", "again <: Rec?", "tags <: set of string", "hist <: sequence of " + hub + ".Thing", "kind <: Kind", "when <: datetime?"}
	if rapid.Bool().Draw(t, "listfield") {
		// a multiplicity on the name makes the field a list in the model
		if knownActive("C17-list-type-unwrapped") {
			R("C17").Exclude("C17-list-type-unwrapped")
		} else {
			fields = append(fields, "many(0..3) <: int", "lots(1..) <: "+hub+".Thing")
		}
	}
	nf := rapid.IntRange(1, len(fields)).Draw(t, "nfields")
	for _, f := range rapid.Permutation(fields).Draw(t, "fields")[:nf] {
		switch rapid.IntRange(0, 3).Draw(t, "fmeta") {
		case 0:
			w.line(2, f+c17InlineMeta(t, "f"))
		case 1:
			w.line(2, f+":")
			w.line(3, "@fanno = "+c17AttrValueText(t, 0))
			w.line(3, "@fnest = "+c17NestedArray(t, 0))
		default:
			w.line(2, f)
		}
	}
	w.line(1, "!table Tab:")
	w.line(2, "id <: int [~pk]")
	if rapid.Bool().Draw(t, "pk2") {
		w.line(2, "k2 <: string [~pk]")
	}
	w.line(2, "ref <: Rec?")
	w.line(1, "!enum Kind:")
	w.line(2, "A: 1")
	w.line(2, fmt.Sprintf("B: %d", rapid.Int64Range(2, 1<<40).Draw(t, "enumv")))
	w.line(1, "!alias Names:")
	w.line(2, pick(t, []string{"sequence of string", "set of Rec", "int", hub + ".Thing", "Rec"}, "alias"))
	w.line(1, "!union Either:")
	w.line(2, "Rec")
	w.line(2, "int")
	// endpoints
	w.line(1, "Leaf:")
	w.line(2, "...")
	// several tags on one parameter, in an order that is not the alphabetical one (the first declared tag is
	// the parameter's kind)
	tagsets := []string{"~header, ~deprecated", "~query, ~optional", "~sensitive, ~audited", "~body, ~z, ~a", "~hdr"}
	params := []string{"a <: int [" + pick(t, tagsets, "ptags1") + "]", "b <: " + hub + ".Thing [~body]", "c <: Rec?", "d <: sequence of Rec [" + pick(t, tagsets, "ptags2") + ", pk=\"v\"]", "e <: string(3)"}
	np := rapid.IntRange(0, len(params)).Draw(t, "nparams")
	sig := ""
	if np > 0 {
		sig = " (" + strings.Join(params[:np], ", ") + ")"
	}
	w.line(1, "Deep"+sig+c17InlineMeta(t, "p")+":")
	depthBudget := rapid.IntRange(3, 6).Draw(t, "depth")
	c17Stmts(t, w, g, 2, 0, depthBudget, 2, 4, true)
	w.line(1, "/res/{id<:int}/sub/{key<:string}"+c17InlineMeta(t, "r")+":")
	w.line(2, "GET ?q=string&lim=int?"+c17InlineMeta(t, "m")+":")
	c17Stmts(t, w, g, 3, 0, 2, 1, 3, false)
	w.line(1, "<-> Evt (p <: int, q <: Rec?)"+c17InlineMeta(t, "v")+":")
	w.line(2, "...")
	if rapid.Bool().Draw(t, "sub") {
		// a subscription makes the compiler add a call statement to the publisher's event body
		if knownActive("C17-event-statements-dropped") {
			R("C17").Exclude("C17-event-statements-dropped")
		} else {
			w.line(1, hub+" -> Sig"+c17InlineMeta(t, "u")+":")
			c17Stmts(t, w, g, 2, 0, 2, 1, 3, false)
		}
	}
	return w.sb.String(), excluded
}

// c17LimitIntent removes, behind the listed finding, the sibling rows below blocks whose path length is 3 or 5..7.
func c17LimitIntent(ss []*Stmt, plen int, changed *bool) []*Stmt {
	// ss are the statements of a block whose own path has length plen; doc lines coalesce, which only lowers counts
	if plen == 3 || (plen >= 5 && plen <= 7) {
		if len(ss) > 1 {
			*changed = true
			ss = ss[:1]
		}
	}
	for _, s := range ss {
		if s.Kind == "alt" {
			// the choices extend the statement's own path, of length plen+1
			if (plen+1 == 3 || (plen+1 >= 5 && plen+1 <= 7)) && len(s.Choices) > 1 {
				*changed = true
				s.Choices = s.Choices[:1]
			}
			for _, c := range s.Choices {
				c.Stmts = c17LimitIntent(c.Stmts, plen+2, changed)
			}
			continue
		}
		if len(s.Children) > 0 {
			s.Children = c17LimitIntent(s.Children, plen+1, changed)
		}
	}
	return ss
}

func c17GenText(t *rapid.T) string {
	in := GenIntent(t)
	if len(in.Apps) > 2 { // keep the case small: one Normalize costs >100 ms and grows with the model
		in.Apps = in.Apps[:2]
	}
	changed := false
	if knownActive("C17-stmt-index-aliasing") {
		var walkRest func(n *RestNode)
		walkRest = func(n *RestNode) {
			for _, m := range n.Methods {
				m.Stmts = c17LimitIntent(m.Stmts, 0, &changed)
			}
			for _, c := range n.Children {
				walkRest(c)
			}
		}
		for _, a := range in.Apps {
			for _, ep := range a.Eps {
				ep.Stmts = c17LimitIntent(ep.Stmts, 0, &changed)
			}
			for _, n := range a.Rest {
				walkRest(n)
			}
		}
	}
	if knownActive("C17-event-statements-dropped") {
		for _, a := range in.Apps {
			for _, ep := range a.Eps {
				if ep.Kind == "event" && len(ep.Stmts) > 0 {
					ep.Stmts = nil
					R("C17").Exclude("C17-event-statements-dropped")
				}
			}
		}
	}
	ind := pick(t, []string{"    ", "  ", "\t"}, "indent")
	text := Render(in, ind)
	block, excl := c17Block(t, ind)
	if changed || excl {
		R("C17").Exclude("C17-stmt-index-aliasing")
	}
	return text + "\n" + block
}
