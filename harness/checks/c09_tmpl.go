package checks

// c09_tmpl.go — hand-written specification templates for the constructs post-processing
// touches (mixins incl. chains, collectors, views with inferred/anonymous types, nested
// (dotted) type names, hostile names), parameterised by rapid. Used by C09 (round-trip,
// re-import), C07 (mixin chains whose order differs from sorted order, collectors) and
// C19 (models with >=2 entries in the maps the generators walk).

import (
	"bytes"
	"encoding/json"
	"fmt"
	"sort"
	"strings"

	"github.com/anz-bank/sysl/pkg/sysl"
	"pgregory.net/rapid"
)

// Known findings of C09 (ids as listed in known_findings.json).
const (
	c09KCollector = "C09-collector-reimport-dup"
	c09KMixin     = "C09-mixin-chain-reimport"
	c09KJSONName  = "C09-json-cleanup-name"
)

const (
	c09SigCollector = "reimport:collector-array-attr-appended-twice"
	c09SigMixin     = "reimport:mixin-chain-user-sorts-before-source"
	c09SigJSONName  = "json-indented:name-with-quote-colon-two-spaces-altered"
)

// attribute values / quoted texts that stress the encoders (JSON clean-up regex, escapes).
var c09ValPool = []string{
	`say "hi":  there`, `"k":  v`, `x":  y  z`, `"`, `\`, `back\\slash\`, "line1\nline2\n", "  lead and trail  ",
	`"key": `, `{"a":  1}`, "café 中文 \U0001F600", `a\"b`, "tab\there", `'single'`, `</tag>&<>`,
	`": `, `":  `, "multi\n \"k\":  v\n", `%22%3A`, "", "plain",
}

// JSON-style quoting (the compiler reads quoted strings with encoding/json).
func c09q(s string) string {
	var b bytes.Buffer
	e := json.NewEncoder(&b)
	e.SetEscapeHTML(false)
	_ = e.Encode(s)
	return strings.TrimRight(b.String(), "\n")
}

// c09Hostile replaces about a third of the scalar attribute values of an intent by hostile ones.
func c09Hostile(t *rapid.T, in *Intent) {
	var fixV func(v AttrV) AttrV
	fixV = func(v AttrV) AttrV {
		if v.S != nil {
			if rapid.IntRange(0, 2).Draw(t, "hostile") == 0 {
				s := pick(t, c09ValPool, "hval")
				return AttrV{S: &s}
			}
			return v
		}
		for i := range v.A {
			v.A[i] = fixV(v.A[i])
		}
		return v
	}
	fixM := func(m *Meta) {
		for _, mm := range []map[string]AttrV{m.Attrs, m.Annos} {
			ks := sortedKeys(mm)
			for _, k := range ks {
				mm[k] = fixV(mm[k])
			}
		}
	}
	var fixS func(ss []*Stmt)
	fixS = func(ss []*Stmt) {
		for _, s := range ss {
			fixM(&s.Meta)
			fixS(s.Children)
			for _, c := range s.Choices {
				fixS(c.Stmts)
			}
		}
	}
	var fixR func(ns []*RestNode)
	fixR = func(ns []*RestNode) {
		for _, n := range ns {
			fixM(&n.Meta)
			for _, ep := range n.Methods {
				fixM(&ep.Meta)
				fixS(ep.Stmts)
			}
			fixR(n.Children)
		}
	}
	for _, a := range in.Apps {
		fixM(&a.Meta)
		for _, td := range a.Types {
			fixM(&td.Meta)
			for i := range td.Fields {
				fixM(&td.Fields[i].T.Meta)
			}
		}
		for _, ep := range a.Eps {
			fixM(&ep.Meta)
			fixS(ep.Stmts)
		}
		fixR(a.Rest)
	}
}

type c09TmplOpt struct {
	MixinParam                             bool // endpoint parameters typed by mixed-in types
	Mixin, Collector, Views, Nested, Names bool
	Deep                                   bool // deeply nested statements, expressions and inline types
	Long                                   bool // very long string values (one JSON line of tens to hundreds of KB)
	MinChain                               int  // minimal mixin chain depth (0 = 1)
	// avoid the shapes of known findings (decided by the caller through knownActive)
	NoCollectorArr, NoMixinDisorder, NoQuoteColonName bool
}

type c09Tmpl struct {
	Text     string
	Classes  []string
	Excluded []string
}

type c09w struct {
	sb  strings.Builder
	ind string
}

func (w *c09w) l(depth int, s string) {
	w.sb.WriteString(strings.Repeat(w.ind, depth) + s + "\n")
}

func c09Attr(t *rapid.T, label string) string {
	return pick(t, []string{"k1", "k2", "id", "owner"}, label+"key") + "=" + c09q(pick(t, c09ValPool, label+"val"))
}

// names distinct from the shared appPool so that template apps never merge with intent apps
var c09ChainNames = []string{"Mx Aa", "Mx :: Bb", "MxCc", "Mx Dd", "Mx :: Ee", "MxFf", "MxZz", "Mx Gg Hh", "Mx Ii Service"}

func c09GenTmpl(t *rapid.T, o c09TmplOpt) c09Tmpl {
	w := &c09w{ind: pick(t, []string{"    ", "  ", "\t"}, "tind")}
	out := c09Tmpl{}
	cl := func(s string) { out.Classes = append(out.Classes, s) }

	if o.Mixin {
		// chain[0] uses chain[1] uses ... chain[d]; extra users hang off random chain members.
		lo := 1
		if o.MinChain > lo {
			lo = o.MinChain
		}
		d := rapid.IntRange(lo, 3).Draw(t, "chaindepth")
		names := append([]string{}, c09ChainNames...)
		// draw d+1 distinct names
		var chain []string
		for i := 0; i <= d; i++ {
			j := rapid.IntRange(0, len(names)-1).Draw(t, "chainname")
			chain = append(chain, names[j])
			names = append(names[:j], names[j+1:]...)
		}
		disorder := func(c []string) bool {
			// user c[i] is post-processed before its source c[i+1] although that source itself inherits
			for i := 0; i+2 < len(c); i++ {
				if c[i] < c[i+1] {
					return true
				}
			}
			return false
		}
		if o.NoMixinDisorder && disorder(chain) {
			// sources that inherit must sort before their users: order all but the leaf descending
			inner := append([]string{}, chain[:len(chain)-1]...)
			sort.Sort(sort.Reverse(sort.StringSlice(inner)))
			copy(chain, inner)
			out.Excluded = append(out.Excluded, c09KMixin)
		}
		if d >= 2 {
			cl("tmpl_mixin_chain>=3apps")
			if disorder(chain) {
				cl("tmpl_mixin_chain_order!=sorted")
			}
		}
		cl("tmpl_mixin")
		for i := d; i >= 0; i-- {
			hdr := chain[i]
			if i > 0 {
				hdr += " [~abstract]"
			}
			if rapid.Bool().Draw(t, "chainlong") {
				hdr = chain[i] + " " + c09q(pick(t, c09ValPool, "chainlongv"))
				if i > 0 {
					hdr += " [~abstract]"
				}
			}
			w.l(0, hdr+":")
			if i < d {
				w.l(1, "-|> "+chain[i+1])
			}
			if i == 0 && d >= 2 && rapid.Bool().Draw(t, "alsoleaf") {
				w.l(1, "-|> "+chain[d])
			}
			w.l(1, fmt.Sprintf("!type T%d [%s]:", i, c09Attr(t, "mt")))
			w.l(2, "id <: int [~pk]")
			if i < d {
				w.l(2, fmt.Sprintf("up <: T%d", i+1))
			}
			if rapid.Bool().Draw(t, "shadow") {
				// same type name declared by user and source: the user's own one wins
				w.l(1, "!type Shared:")
				w.l(2, fmt.Sprintf("f%d <: string", i))
			}
			if i > 0 && rapid.Bool().Draw(t, "mview") {
				w.l(1, fmt.Sprintf("!view V%d(n <: int) -> int:", i))
				w.l(2, "n -> (:")
				w.l(3, fmt.Sprintf("out = n + %d", i))
				w.l(2, ")")
			}
			if i == 0 {
				w.l(1, "Use "+c09q(pick(t, c09ValPool, "uselong"))+":")
				w.l(2, "...")
				if o.MixinParam && rapid.Bool().Draw(t, "mixinparam") {
					// a parameter typed by a type (and a field of a type) that only the mixin brings in
					cl("tmpl_mixin_param_typed_by_mixed_in_type")
					w.l(1, "UseP (p <: T1.id, q <: T1): ...")
				}
			}
			w.l(0, "")
		}
	}

	if o.Collector {
		cl("tmpl_collector")
		w.l(0, "Col :: Srv:")
		w.l(1, "Ep1: ...")
		w.l(1, "Ep2(x <: int): ...")
		w.l(1, "<-> Ev: ...")
		w.l(0, "")
		w.l(0, "ColCli:")
		w.l(1, "E1:")
		w.l(2, "Col :: Srv <- Ep1")
		w.l(2, "if c:")
		w.l(3, "Col :: Srv <- Ep2")
		own := ""
		if rapid.Bool().Draw(t, "owntag") {
			own = " [~own]"
		}
		w.l(1, "E2"+own+":")
		w.l(2, "Col :: Srv <- Ep1 ["+c09Attr(t, "call")+"]")
		w.l(2, "one of:")
		w.l(3, "a:")
		w.l(4, "Col :: Srv <- Ep2")
		w.l(1, "/r:")
		w.l(2, "GET:")
		w.l(3, "Col :: Srv <- Ep2")
		w.l(0, "")
		w.l(0, "ColCli:")
		w.l(1, ".. * <- *:")
		arr := !o.NoCollectorArr
		if o.NoCollectorArr {
			out.Excluded = append(out.Excluded, c09KCollector)
		}
		attr := func(label string) string {
			k := rapid.IntRange(0, 2).Draw(t, label)
			if !arr {
				k = 0
			}
			switch k {
			case 1:
				cl("tmpl_collector_tag")
				return "~" + pick(t, []string{"added", "y", "own"}, label+"tag")
			case 2:
				cl("tmpl_collector_array")
				return "arr=[" + c09q(pick(t, c09ValPool, label+"a1")) + ", " + c09q(pick(t, c09ValPool, label+"a2")) + "]"
			}
			return c09Attr(t, label)
		}
		w.l(2, "E1 ["+attr("c1")+"]")
		if rapid.Bool().Draw(t, "c2") {
			w.l(2, "E2 ["+attr("c2a")+"]")
		}
		w.l(2, "Col :: Srv <- Ep1 ["+attr("c3")+"]")
		if rapid.Bool().Draw(t, "c4") {
			w.l(2, "Col :: Srv <- Ep2 ["+attr("c4a")+"]")
		}
		if rapid.Bool().Draw(t, "c5") {
			w.l(2, "GET /r ["+attr("c5a")+"]")
		}
		w.l(0, "")
	}

	if o.Views {
		cl("tmpl_views")
		w.l(0, "ViewApp [package="+c09q(pick(t, c09ValPool, "pkg"))+"]:")
		w.l(1, "!type Order:")
		w.l(2, "id <: int")
		w.l(2, "items <: set of Item")
		w.l(1, "!type Item:")
		w.l(2, "id <: int")
		w.l(2, "q <: int?")
		w.l(1, "!view Inc(n <: int) -> int:")
		w.l(2, "n -> (:")
		w.l(3, fmt.Sprintf("out = n + %d", rapid.IntRange(0, 99).Draw(t, "lit")))
		w.l(2, ")")
		w.l(1, "!view Str(s <: string) -> string ["+c09Attr(t, "view")+"]:")
		w.l(2, "s -> (:")
		w.l(3, "let t = "+c09q(pick(t, c09ValPool, "strlit")))
		w.l(3, "out = s + t")
		w.l(2, ")")
		if rapid.Bool().Draw(t, "nestedview") {
			cl("tmpl_views_anontype")
			w.l(1, "!view Conv(o <: Order) -> Order:")
			w.l(2, "o -> <Order>(:")
			w.l(3, "id = o.id")
			w.l(3, "let inner = o.items -> <set of>(:")
			w.l(4, "let n = autoinc()")
			w.l(4, "item = -> <Item>(:")
			w.l(5, "id = n")
			w.l(4, ")")
			w.l(3, ")")
			w.l(3, "items = o.items -> <set of Item>(i:")
			w.l(4, "id = i.id")
			w.l(4, "q = if i.q == null then 0 else i.q")
			w.l(3, ")")
			w.l(2, ")")
		}
		if rapid.Bool().Draw(t, "nestedview2") {
			// a second view that needs a made-up type for an anonymous transform: the made-up names are
			// numbered per view, so the model must not depend on the order in which views are visited
			cl("tmpl_views_anontype_in_two_views")
			w.l(1, "!view Conv2(o <: Order) -> Order:")
			w.l(2, "o -> <Order>(:")
			w.l(3, "let other = o.items -> <set of>(:")
			w.l(4, "thing = -> <Order>(:")
			w.l(5, "id = 2")
			w.l(4, ")")
			w.l(4, "more = -> <Item>(:")
			w.l(5, "id = 3")
			w.l(4, ")")
			w.l(3, ")")
			w.l(3, "id = o.id")
			w.l(2, ")")
			w.l(1, "!view Conv3(o <: Order) -> Order:")
			w.l(2, "o -> <Order>(:")
			w.l(3, "let third = o.items -> <set of>(:")
			w.l(4, "one = -> <Item>(:")
			w.l(5, "id = 4")
			w.l(4, ")")
			w.l(3, ")")
			w.l(3, "id = o.id")
			w.l(2, ")")
		}
		if rapid.Bool().Draw(t, "abstractview") {
			w.l(1, "!view Abs(n <: int) -> int [~abstract]")
		}
		w.l(0, "")
	}

	if o.Nested {
		cl("tmpl_dotted_types")
		w.l(0, "NestApp:")
		w.l(1, "!type Outer:")
		w.l(2, "code <: int")
		w.l(2, "inner <: Inner")
		w.l(2, "!type Inner ["+c09Attr(t, "inner")+"]:")
		w.l(3, "v <: string(5)")
		w.l(1, "!type Req:")
		w.l(2, "Header <:")
		w.l(3, "Action")
		w.l(3, "Data <: Outer")
		w.l(3, "Detail (0..10) <:")
		w.l(4, "Code")
		w.l(4, "Status <: int")
		w.l(1, "!type Ref:")
		w.l(2, "a <: Outer.inner")
		w.l(2, "b <: NestApp.Outer.code")
		w.l(0, "")
	}

	if o.Names {
		cl("tmpl_hostile_names")
		pool := []string{"Q%22uote", "C%3A%20%20olon", "S%20p%20%20ace", "P%25ct", "B%5Cslash", "U%C3%A9"}
		if o.NoQuoteColonName {
			out.Excluded = append(out.Excluded, c09KJSONName)
		} else {
			pool = append(pool, "K%22%3A%20%20ey", "K%22%3A%20%20ey", "K%22%3A%20%20ey")
		}
		an := pick(t, pool, "hostapp")
		tn := pick(t, pool, "hosttype")
		fn := pick(t, pool, "hostfield")
		if strings.Contains(an+tn+fn, "%22%3A%20%20") {
			cl("tmpl_name_quote_colon_2sp")
		}
		w.l(0, "Host"+an+" "+c09q(pick(t, c09ValPool, "hostlong"))+":")
		w.l(1, "!type T"+tn+":")
		w.l(2, "f"+fn+" <: int")
		w.l(2, "g <: T"+tn)
		w.l(1, "Ep "+c09q(pick(t, c09ValPool, "eplong"))+":")
		w.l(2, c09q(pick(t, c09ValPool, "action")))
		w.l(2, "return ok <: T"+tn)
		w.l(0, "")
	}
	if o.Deep {
		// Nothing in the language bounds how deeply blocks, operators or inline types nest; each level
		// costs two message levels in the model, so a decoder with a smaller limit than the encoder's
		// writes files it cannot read.
		depth := func(label string) int {
			switch rapid.IntRange(0, 2).Draw(t, label+"band") {
			case 0:
				return rapid.IntRange(2, 12).Draw(t, label)
			case 1:
				return rapid.IntRange(13, 45).Draw(t, label)
			}
			return rapid.IntRange(46, 130).Draw(t, label)
		}
		ns, ne, nt := depth("deepstmt"), depth("deepexpr"), depth("deeptype")
		cl("tmpl_deep")
		band := func(kind string, n int) {
			switch {
			case n > 45:
				cl("tmpl_deep_" + kind + ">45")
			case n > 12:
				cl("tmpl_deep_" + kind + "_13..45")
			}
		}
		band("stmt", ns)
		band("expr", ne)
		band("type", nt)
		w.l(0, "DeepApp:")
		w.l(1, "Ep:")
		for i := 0; i < ns; i++ {
			switch rapid.IntRange(0, 3).Draw(t, "deepkind") {
			case 0:
				w.l(2+i, fmt.Sprintf("if c%d:", i))
			case 1:
				w.l(2+i, fmt.Sprintf("for each x%d:", i))
			case 2:
				w.l(2+i, fmt.Sprintf("while c%d:", i))
			default:
				w.l(2+i, "one of:")
				ns2 := i + 1
				w.l(2+ns2, fmt.Sprintf("case%d:", i))
				// the choice label takes one more indentation level: shift the remaining blocks
				for j := i + 1; j < ns; j++ {
					w.l(3+j, fmt.Sprintf("if d%d:", j))
				}
				w.l(3+ns, "leaf")
				goto stmtsDone
			}
		}
		w.l(2+ns, "leaf")
	stmtsDone:
		ops := []string{" + ", " - ", " * ", " && ", " || "}
		var e strings.Builder
		op := pick(t, ops, "deepop")
		right := rapid.Bool().Draw(t, "deepright")
		for i := 0; i < ne; i++ {
			if i > 0 {
				e.WriteString(op)
			}
			if right && i < ne-1 {
				e.WriteString("(")
			}
			fmt.Fprintf(&e, "n%d", i%3)
		}
		if right {
			e.WriteString(strings.Repeat(")", ne-1))
		}
		w.l(1, "!view Deep(n0 <: int, n1 <: int, n2 <: int) -> int:")
		w.l(2, "n0 -> (:")
		w.l(3, "out = "+e.String())
		w.l(2, ")")
		w.l(1, "!type Deep:")
		for i := 0; i < nt; i++ {
			w.l(2+i, fmt.Sprintf("L%d <:", i))
		}
		w.l(2+nt, "leaf <: int")
		w.l(0, "")
	}
	if o.Long {
		// Nothing bounds the length of a string value (embedded licence texts, schemas, documentation);
		// writers and readers that work line by line or through fixed buffers meet their limits here.
		size := func(label string) int {
			switch rapid.IntRange(0, 3).Draw(t, label+"band") {
			case 0:
				return rapid.IntRange(1000, 9000).Draw(t, label)
			case 1:
				return rapid.IntRange(65000, 66200).Draw(t, label) // around 64 KiB
			case 2:
				return rapid.IntRange(66201, 140000).Draw(t, label)
			}
			return rapid.IntRange(140001, 300000).Draw(t, label)
		}
		n := size("longval")
		cl("tmpl_long_value")
		switch {
		case n > 140000:
			cl("tmpl_long_value>140K")
		case n > 66200:
			cl("tmpl_long_value_66K..140K")
		case n >= 65000:
			cl("tmpl_long_value_around_64KiB")
		}
		unit := pick(t, []string{"lorem ipsum ", "x", "0123456789", "é", "a b  c "}, "longunit")
		val := strings.Repeat(unit, n/len(unit)+1)[:n]
		for len(val) > 0 && val[len(val)-1]&0xC0 == 0x80 { // do not cut a multi-byte rune
			val = val[:len(val)-1]
		}
		val = strings.TrimRight(val, "\xc3")
		w.l(0, "LongApp:")
		switch rapid.IntRange(0, 2).Draw(t, "longwhere") {
		case 0:
			w.l(1, "@note = \""+val+"\"")
			w.l(1, "Ep: ...")
		case 1:
			w.l(1, "Ep [note=\""+val+"\"]: ...")
		default:
			w.l(1, "!type T:")
			w.l(2, "f <: string:")
			w.l(3, "@note = \""+val+"\"")
		}
		w.l(0, "")
	}
	out.Text = w.sb.String()
	return out
}

// ---------- model predicates (what a compiled model contains) ----------

type c09Shape struct {
	Mixin, Collector, CollectorArr, Views, Dotted, HostileVal bool
	MixinDisorder                                             []string // apps processed before a source that itself inherits
	QuoteColonName                                            bool
}

func c09HostileString(s string) bool { return strings.ContainsAny(s, "\"\\\n") }

var c09QuoteColon = func(s string) bool {
	i := strings.IndexByte(s, '"')
	return i >= 0 && strings.HasPrefix(s[i+1:], ":  ")
}

func c09AttrHostile(attrs map[string]*sysl.Attribute) bool {
	var av func(a *sysl.Attribute) bool
	av = func(a *sysl.Attribute) bool {
		if a == nil {
			return false
		}
		if c09HostileString(a.GetS()) {
			return true
		}
		for _, e := range a.GetA().GetElt() {
			if av(e) {
				return true
			}
		}
		return false
	}
	for _, a := range attrs {
		if av(a) {
			return true
		}
	}
	return false
}

func c09StmtsHostile(ss []*sysl.Statement) bool {
	for _, s := range ss {
		if c09AttrHostile(s.GetAttrs()) {
			return true
		}
		var sub []*sysl.Statement
		switch {
		case s.GetCond() != nil:
			sub = s.GetCond().Stmt
		case s.GetLoop() != nil:
			sub = s.GetLoop().Stmt
		case s.GetLoopN() != nil:
			sub = s.GetLoopN().Stmt
		case s.GetForeach() != nil:
			sub = s.GetForeach().Stmt
		case s.GetGroup() != nil:
			sub = s.GetGroup().Stmt
		case s.GetAlt() != nil:
			for _, c := range s.GetAlt().Choice {
				if c09StmtsHostile(c.Stmt) {
					return true
				}
			}
		}
		if c09StmtsHostile(sub) {
			return true
		}
	}
	return false
}

func c09ShapeOf(m *sysl.Module) c09Shape {
	var sh c09Shape
	names := make([]string, 0, len(m.Apps))
	for n := range m.Apps {
		names = append(names, n)
	}
	sort.Strings(names)
	byName := func(an *sysl.AppName) (string, *sysl.Application) {
		k := strings.Join(an.GetPart(), " :: ")
		return k, m.Apps[k]
	}
	for _, n := range names {
		app := m.Apps[n]
		if c09QuoteColon(n) {
			sh.QuoteColonName = true
		}
		if c09AttrHostile(app.Attrs) || c09HostileString(app.LongName) {
			sh.HostileVal = true
		}
		for _, mx := range app.Mixin2 {
			sh.Mixin = true
			sn, src := byName(mx.Name)
			if src != nil && len(src.Mixin2) > 0 && n < sn {
				sh.MixinDisorder = append(sh.MixinDisorder, n)
			}
		}
		if len(app.Views) > 0 {
			sh.Views = true
		}
		for vn, v := range app.Views {
			_ = vn
			if c09AttrHostile(v.Attrs) {
				sh.HostileVal = true
			}
		}
		for tn, ty := range app.Types {
			if strings.Contains(tn, ".") {
				sh.Dotted = true
			}
			if c09QuoteColon(tn) {
				sh.QuoteColonName = true
			}
			if c09AttrHostile(ty.Attrs) {
				sh.HostileVal = true
			}
			var defs map[string]*sysl.Type
			if ty.GetTuple() != nil {
				defs = ty.GetTuple().AttrDefs
			} else if ty.GetRelation() != nil {
				defs = ty.GetRelation().AttrDefs
			}
			for fn, f := range defs {
				if c09QuoteColon(fn) {
					sh.QuoteColonName = true
				}
				if c09AttrHostile(f.Attrs) {
					sh.HostileVal = true
				}
			}
		}
		for en, ep := range app.Endpoints {
			if c09AttrHostile(ep.Attrs) || c09HostileString(ep.LongName) || c09StmtsHostile(ep.Stmt) {
				sh.HostileVal = true
			}
			if en == `.. * <- *` {
				sh.Collector = true
				for _, s := range ep.Stmt {
					for _, a := range s.Attrs {
						if a.GetA() != nil {
							sh.CollectorArr = true
						}
					}
				}
			}
		}
	}
	return sh
}
