package checks

// C08 — recorded source locations point at the declaring text.
//
// The generator renders a (possibly multi-file, re-opened) specification through
// c08_render.go, which records where it wrote every element; the check compiles the files
// and compares every location the model carries with the recorded ones.

import (
	"fmt"
	"sort"
	"strings"
	"testing"
	"unicode/utf8"

	"github.com/anz-bank/sysl/pkg/sysl"
	"github.com/spf13/afero"
	"google.golang.org/protobuf/reflect/protoreflect"
	"pgregory.net/rapid"
)

type c08Case struct {
	Files      map[string]string `json:"files"`
	Root       string            `json:"root"`
	Want       []c08Pos          `json:"want"` // recorded declarations in walk order (reference flatten order of the import graph)
	Classes    []string          `json:"classes"`
	NonTrivial bool              `json:"nontrivial"`
	// annotation keys whose repeated declaration has an empty value (known finding C08-empty-annotation-location-dropped)
	EmptyRepeated []string `json:"empty_repeated,omitempty"`
}

// ---------- generator ----------

func genC08(t *rapid.T) c08Case {
	in := GenIntentOpt(t, IntentOpts{EpAnnos: true})
	lay := c04Partition(t, in) // blocks, re-opened types/REST paths/endpoints, files, import DAG
	redeclared := c08RedeclareFields(t, lay)
	repeated, emptyRepeated := c08RepeatAnnotations(t, lay)
	indent := pick(t, []string{"    ", "  ", "\t", " ", "   ", "\t\t", " \t", "        "}, "indent")
	var noise []int
	if rapid.IntRange(0, 2).Draw(t, "usenoise") != 0 {
		noise = rapid.SliceOfN(rapid.IntRange(0, 7), 1, 17).Draw(t, "noise")
	}
	c := c08Case{Files: map[string]string{}, Root: lay.Files[0].Name, EmptyRepeated: emptyRepeated}
	byName := map[string]c04File{}
	posOf := map[string][]c08Pos{}
	for _, f := range lay.Files {
		byName[f.Name] = f
		text, pos := c08RenderFile(f.Name, f.Imports, f.Blocks, indent, noise)
		c.Files[f.Name] = text
		posOf[f.Name] = pos
	}
	// reference walk order: the root, then its imports depth-first in text order, each file once
	var order []string
	seen := map[string]bool{}
	var visit func(n string)
	visit = func(n string) {
		if seen[n] {
			return
		}
		seen[n] = true
		order = append(order, n)
		for _, to := range byName[n].Targets {
			visit(to)
		}
	}
	visit(c.Root)
	nimp := 0
	count := map[string]int{}
	cl := map[string]bool{}
	for _, cls := range lay.Classes {
		cl[cls] = true
	}
	for _, k := range redeclared {
		cl["field_redeclared_"+k] = true
	}
	for _, k := range repeated {
		cl["annotation_repeated_"+k] = true
	}
	for _, n := range order {
		for _, p := range posOf[n] {
			if strings.HasPrefix(p.Key, "import|") {
				p.Key = fmt.Sprintf("import|%d", nimp)
				nimp++
			}
			c.Want = append(c.Want, p)
			count[p.Key]++
			if count[p.Key] == 2 {
				cl["element_declared_ge2_times"] = true
				cl["declared_ge2_times_"+strings.SplitN(p.Key, "|", 2)[0]] = true
				c.NonTrivial = true
			}
			if count[p.Key] == 3 {
				cl["element_declared_ge3_times"] = true
			}
			if n != c.Root {
				cl["element_in_imported_file"] = true
				c.NonTrivial = true
			}
			if p.Tab {
				cl["tab_before_element"] = true
				c.NonTrivial = true
			}
		}
	}
	for _, a := range in.Apps {
		restMethods(a.Rest, 0, func(ep *Endpoint, depth int) {
			cl[fmt.Sprintf("rest_method_depth_%d", depth)] = true
			if ep.Method == "PATCH" {
				cl["rest_patch"] = true
				cl[fmt.Sprintf("rest_patch_depth_%d", depth)] = true
			}
		})
	}
	if len(noise) > 0 {
		cl["blank_and_comment_lines_between_elements"] = true
	}
	cl["indent_"+strings.NewReplacer(" ", "s", "\t", "T").Replace(indent)] = true
	for k := range cl {
		c.Classes = append(c.Classes, k)
	}
	sort.Strings(c.Classes)
	return c
}

const c08KEmptyAnno = "C08-empty-annotation-location-dropped"

// c08RepeatAnnotations: where an application or a type is declared in several blocks, the '@k = v'
// annotations of one block are written again in another block (same key and value): an annotation is
// an element too, and declared n times it carries n locations. Returns "<owner>_<string|list>" kinds.
func c08RepeatAnnotations(t *rapid.T, lay c04Layout) ([]string, []string) {
	var kinds, empties []string
	// known finding: a declaration whose value is empty ("" or []) loses its location when a later
	// declaration replaces it; only non-empty annotations are repeated while that is listed
	nonEmpty := func(annos map[string]AttrV) bool {
		for _, v := range annos {
			if (v.IsArr && len(v.A) == 0) || (!v.IsArr && v.S != nil && *v.S == "") {
				return false
			}
		}
		return true
	}
	skipEmpty := knownActive(c08KEmptyAnno)
	note := func(owner string, annos map[string]AttrV) {
		for _, v := range annos {
			if v.IsArr {
				kinds = append(kinds, owner+"_list")
			} else {
				kinds = append(kinds, owner+"_string")
			}
		}
	}
	apps := map[string][]*App{}
	var order []string
	type tkey struct{ app, typ string }
	types := map[tkey][]*TypeDecl{}
	var torder []tkey
	for _, f := range lay.Files {
		for _, b := range f.Blocks {
			k := appKey(b.Name)
			if _, ok := apps[k]; !ok {
				order = append(order, k)
			}
			apps[k] = append(apps[k], b)
			for _, td := range b.Types {
				if td.Kind != "tuple" && td.Kind != "relation" {
					continue
				}
				tk := tkey{k, td.Name}
				if _, ok := types[tk]; !ok {
					torder = append(torder, tk)
				}
				types[tk] = append(types[tk], td)
			}
		}
	}
	for _, k := range order {
		bs := apps[k]
		if len(bs) < 2 || rapid.IntRange(0, 2).Draw(t, "repeatappanno") != 0 {
			continue
		}
		for _, src := range bs {
			if len(src.Meta.Annos) == 0 {
				continue
			}
			dst := bs[rapid.IntRange(0, len(bs)-1).Draw(t, "repeatappdst")]
			if dst != src && len(dst.Meta.Annos) == 0 {
				if skipEmpty && !nonEmpty(src.Meta.Annos) {
					R("C08").Exclude(c08KEmptyAnno)
					break
				}
				dst.Meta.Annos = src.Meta.Annos
				note("app", src.Meta.Annos)
				for kk, v := range src.Meta.Annos {
					if (v.IsArr && len(v.A) == 0) || (!v.IsArr && v.S != nil && *v.S == "") {
						empties = append(empties, "app|"+k+"|attr|"+kk)
					}
				}
			}
			break
		}
	}
	for _, tk := range torder {
		ps := types[tk]
		if len(ps) < 2 || rapid.IntRange(0, 2).Draw(t, "repeattypeanno") != 0 {
			continue
		}
		for _, src := range ps {
			if len(src.Meta.Annos) == 0 {
				continue
			}
			dst := ps[rapid.IntRange(0, len(ps)-1).Draw(t, "repeattypedst")]
			if dst != src && len(dst.Meta.Annos) == 0 {
				if skipEmpty && !nonEmpty(src.Meta.Annos) {
					R("C08").Exclude(c08KEmptyAnno)
					break
				}
				dst.Meta.Annos = src.Meta.Annos
				note("type", src.Meta.Annos)
				for kk, v := range src.Meta.Annos {
					if (v.IsArr && len(v.A) == 0) || (!v.IsArr && v.S != nil && *v.S == "") {
						empties = append(empties, "type|"+tk.app+"|"+unesc(tk.typ)+"|attr|"+kk)
					}
				}
			}
			break
		}
	}
	sort.Strings(empties)
	return kinds, empties
}

// c08RedeclareFields: where a type is re-opened, some fields of one part are declared again (same name
// and type, no attributes) in another part, so that a *field* is declared n times too ("an element
// declared n times carries n locations"). Returns the kinds of type expression that were re-declared.
func c08RedeclareFields(t *rapid.T, lay c04Layout) []string {
	type key struct{ app, typ string }
	parts := map[key][]*TypeDecl{}
	var order []key
	for _, f := range lay.Files {
		for _, b := range f.Blocks {
			for _, td := range b.Types {
				if td.Kind != "tuple" && td.Kind != "relation" {
					continue
				}
				k := key{appKey(b.Name), td.Name}
				if _, ok := parts[k]; !ok {
					order = append(order, k)
				}
				parts[k] = append(parts[k], td)
			}
		}
	}
	var kinds []string
	for _, k := range order {
		ps := parts[k]
		if len(ps) < 2 || rapid.IntRange(0, 3).Draw(t, "redeclare") == 0 {
			continue
		}
		n := rapid.IntRange(1, 3).Draw(t, "nredeclare")
		for i := 0; i < n; i++ {
			from := ps[rapid.IntRange(0, len(ps)-1).Draw(t, "redeclfrom")]
			to := ps[rapid.IntRange(0, len(ps)-1).Draw(t, "redeclto")]
			if from == to || len(from.Fields) == 0 {
				continue
			}
			f := from.Fields[rapid.IntRange(0, len(from.Fields)-1).Draw(t, "redeclfield")]
			dup := false
			for _, g := range to.Fields {
				if g.Name == f.Name {
					dup = true
				}
			}
			if dup {
				continue
			}
			nf := Field{Name: f.Name, T: f.T}
			nf.T.Meta = Meta{}
			to.Fields = append(to.Fields, nf)
			switch {
			case f.T.Wrap != "":
				kinds = append(kinds, "collection")
			case len(f.T.RefPath) > 0:
				kinds = append(kinds, "reference")
			default:
				kinds = append(kinds, "primitive")
			}
		}
	}
	return kinds
}

// ---------- reading locations out of the model ----------

type c08Loc struct {
	File      string
	Line, Col int
}

type c08Got map[string][]c08Loc

func c08Starts(scs []*sysl.SourceContext) []c08Loc {
	out := make([]c08Loc, 0, len(scs))
	for _, sc := range scs {
		out = append(out, c08Loc{sc.GetFile(), int(sc.GetStart().GetLine()), int(sc.GetStart().GetCol())})
	}
	return out
}

func (g c08Got) add(key string, scs []*sysl.SourceContext) {
	if len(scs) > 0 {
		g[key] = c08Starts(scs)
	}
}

func (g c08Got) attrs(prefix string, attrs map[string]*sysl.Attribute) {
	for k, at := range attrs {
		if k == "patterns" {
			// the container itself carries no location; its elements are the ~tags
			for i, e := range at.GetA().GetElt() {
				g.add(fmt.Sprintf("%s|tag|%d", prefix, i), e.GetSourceContexts())
			}
			continue
		}
		g.add(prefix+"|attr|"+k, at.GetSourceContexts())
	}
}

func (g c08Got) stmts(prefix string, ss []*sysl.Statement) {
	for i, s := range ss {
		k := fmt.Sprintf("%s/%d", prefix, i)
		g.add(k, s.GetSourceContexts())
		g.attrs(k, s.GetAttrs())
		switch v := s.Stmt.(type) {
		case *sysl.Statement_Cond:
			g.stmts(k, v.Cond.Stmt)
		case *sysl.Statement_Group:
			g.stmts(k, v.Group.Stmt)
		case *sysl.Statement_Loop:
			g.stmts(k, v.Loop.Stmt)
		case *sysl.Statement_LoopN:
			g.stmts(k, v.LoopN.Stmt)
		case *sysl.Statement_Foreach:
			g.stmts(k, v.Foreach.Stmt)
		case *sysl.Statement_Alt:
			for ci, c := range v.Alt.Choice {
				g.stmts(fmt.Sprintf("%s/c%d", k, ci), c.Stmt)
			}
		}
	}
}

func c08Extract(m *sysl.Module) c08Got {
	g := c08Got{}
	for i, im := range m.GetImports() {
		if im.GetSourceContext() != nil {
			g.add(fmt.Sprintf("import|%d", i), []*sysl.SourceContext{im.GetSourceContext()})
		}
	}
	for an, a := range m.GetApps() {
		g.add("app|"+an, a.GetSourceContexts())
		g.attrs("app|"+an, a.GetAttrs())
		for tn, ty := range a.GetTypes() {
			tk := "type|" + an + "|" + tn
			g.add(tk, ty.GetSourceContexts())
			g.attrs(tk, ty.GetAttrs())
			fields := ty.GetTuple().GetAttrDefs()
			if ty.GetRelation() != nil {
				fields = ty.GetRelation().GetAttrDefs()
			}
			for fn, f := range fields {
				fk := "field|" + an + "|" + tn + "|" + fn
				g.add(fk, f.GetSourceContexts())
				g.attrs(fk, f.GetAttrs())
			}
			for i, u := range ty.GetOneOf().GetType() {
				g.add(fmt.Sprintf("umember|%s|%s|%d", an, tn, i), u.GetSourceContexts())
			}
		}
		for en, e := range a.GetEndpoints() {
			ek := "ep|" + an + "|" + en
			g.add(ek, e.GetSourceContexts())
			if e.GetRestParams() == nil {
				g.attrs(ek, e.GetAttrs())
			}
			for i, p := range e.GetParam() {
				g.add(fmt.Sprintf("%s|param|%d", ek, i), p.GetType().GetSourceContexts())
			}
			for i, p := range e.GetRestParams().GetQueryParam() {
				g.add(fmt.Sprintf("%s|query|%d", ek, i), p.GetType().GetSourceContexts())
			}
			for i, p := range e.GetRestParams().GetUrlParam() {
				g.add(fmt.Sprintf("%s|url|%d", ek, i), p.GetType().GetSourceContexts())
			}
			g.stmts("stmt|"+an+"|"+en+"|", e.GetStmt())
		}
	}
	return g
}

// c08Generic checks every sysl.SourceContext of the model, wherever it is: declaring file is a
// file of the specification, start inside the file at a non-blank character, end not before
// start; and, on every message that has both, deprecated source_context == last source_contexts.
func c08Generic(m protoreflect.Message, path string, files map[string][]string, n *int) error {
	var err error
	var single, last protoreflect.Message
	var all []protoreflect.Message
	hasList := false
	m.Range(func(fd protoreflect.FieldDescriptor, v protoreflect.Value) bool {
		p := path + "." + string(fd.Name())
		switch {
		case fd.IsMap():
			if fd.MapValue().Message() == nil {
				return true
			}
			var keys []string
			byKey := map[string]protoreflect.Message{}
			v.Map().Range(func(k protoreflect.MapKey, mv protoreflect.Value) bool {
				keys = append(keys, k.String())
				byKey[k.String()] = mv.Message()
				return true
			})
			sort.Strings(keys)
			for _, k := range keys {
				if err = c08Generic(byKey[k], fmt.Sprintf("%s[%q]", p, k), files, n); err != nil {
					return false
				}
			}
		case fd.Message() == nil:
		case string(fd.Message().FullName()) == c03SourceContextName:
			if fd.IsList() {
				hasList = true
				for i := 0; i < v.List().Len(); i++ {
					sc := v.List().Get(i).Message()
					if err = c08OneContext(sc.Interface().(*sysl.SourceContext), fmt.Sprintf("%s[%d]", p, i), files); err != nil {
						return false
					}
					*n++
					last = sc
					all = append(all, sc)
				}
			} else {
				single = v.Message()
				if err = c08OneContext(single.Interface().(*sysl.SourceContext), p, files); err != nil {
					return false
				}
				*n++
			}
		case fd.IsList():
			for i := 0; i < v.List().Len(); i++ {
				if err = c08Generic(v.List().Get(i).Message(), fmt.Sprintf("%s[%d]", p, i), files, n); err != nil {
					return false
				}
			}
		default:
			err = c08Generic(v.Message(), p, files, n)
		}
		return err == nil
	})
	if err != nil {
		return err
	}
	// The deprecated single source_context has no documented relation to the list (for a repeated
	// annotation it stays with the first declaration, for an application it follows the last): it is
	// only required to be one of the element's declarations. (A first version demanded "equals the last
	// list entry", which the property does not say: a false alarm met when annotations were repeated.)
	if single != nil && hasList && last != nil {
		a := single.Interface().(*sysl.SourceContext)
		found := false
		for _, e := range all {
			b := e.Interface().(*sysl.SourceContext)
			if a.GetFile() == b.GetFile() && a.GetStart().GetLine() == b.GetStart().GetLine() && a.GetStart().GetCol() == b.GetStart().GetCol() {
				found = true
			}
		}
		if !found {
			return finding("single-context-is-none-of-the-declarations", "%s: deprecated source_context %s starts at none of the %d recorded declarations (last: %s)", path, c08SC(a), len(all), c08SC(last.Interface().(*sysl.SourceContext)))
		}
	}
	return nil
}

func c08SC(sc *sysl.SourceContext) string {
	return fmt.Sprintf("%s %d:%d-%d:%d", sc.GetFile(), sc.GetStart().GetLine(), sc.GetStart().GetCol(), sc.GetEnd().GetLine(), sc.GetEnd().GetCol())
}

func c08OneContext(sc *sysl.SourceContext, path string, files map[string][]string) error {
	lines, ok := files[sc.GetFile()]
	if !ok {
		return fmt.Errorf("%s: location %s names a file that is not part of the specification", path, c08SC(sc))
	}
	sl, scol := int(sc.GetStart().GetLine()), int(sc.GetStart().GetCol())
	el, ecol := int(sc.GetEnd().GetLine()), int(sc.GetEnd().GetCol())
	if sl < 0 || sl >= len(lines) {
		return fmt.Errorf("%s: location %s starts outside the file (%d lines)", path, c08SC(sc), len(lines))
	}
	rs := []rune(lines[sl])
	if scol < 0 || scol >= len(rs) {
		return fmt.Errorf("%s: location %s starts outside its line %q", path, c08SC(sc), lines[sl])
	}
	if rs[scol] == ' ' || rs[scol] == '\t' {
		return fmt.Errorf("%s: location %s starts on white space in line %q", path, c08SC(sc), lines[sl])
	}
	if el < sl || (el == sl && ecol < scol) {
		return finding("end-before-start", "%s: location %s ends before it starts", path, c08SC(sc))
	}
	return nil
}

// ---------- the check ----------

func c08FilesText(c c08Case) string {
	var names []string
	for n := range c.Files {
		names = append(names, n)
	}
	sort.Strings(names)
	var sb strings.Builder
	for _, n := range names {
		fmt.Fprintf(&sb, "==== file %s\n", n)
		for i, l := range strings.Split(strings.TrimSuffix(c.Files[n], "\n"), "\n") {
			fmt.Fprintf(&sb, "%3d|%s\n", i, l)
		}
	}
	return c03Visible(sb.String())
}

func checkC08(x *X, c c08Case) error {
	for _, cl := range c.Classes {
		x.Class(cl)
	}
	var names []string
	for n := range c.Files {
		names = append(names, n)
	}
	sort.Strings(names)
	fs := afero.NewMemMapFs()
	lines := map[string][]string{}
	key := ""
	for _, n := range names {
		key += n + "\x00" + c.Files[n] + "\x00"
		if err := afero.WriteFile(fs, n, []byte(c.Files[n]), 0o644); err != nil {
			return fmt.Errorf("harness: %v", err)
		}
		lines[n] = strings.Split(c.Files[n], "\n")
		if !utf8.ValidString(c.Files[n]) {
			return fmt.Errorf("harness: generated text is not UTF-8")
		}
	}
	if c.NonTrivial {
		x.NonTrivial(key)
	}
	x.Sample(c08FilesText(c))
	o := c03Parse(c.Root, fs)
	if o.kind() != "accepted" {
		return fmt.Errorf("specification does not compile (%s: %v%s) — C02/C04 territory, no locations to check\n%s", o.kind(), o.err, o.panic, c08FilesText(c))
	}
	nctx := 0
	if err := c08Generic(o.mod.ProtoReflect(), "module", lines, &nctx); err != nil {
		if f, ok := err.(*Finding); ok {
			return finding(f.Sig, "%s\n%s", f.Msg, c08FilesText(c))
		}
		return fmt.Errorf("%v\n%s", err, c08FilesText(c))
	}
	x.r.ClassN("source_contexts_checked_generically", int64(nctx))
	got := c08Extract(o.mod)
	want := map[string][]c08Loc{}
	var order []string
	for _, p := range c.Want {
		if _, ok := want[p.Key]; !ok {
			order = append(order, p.Key)
		}
		want[p.Key] = append(want[p.Key], c08Loc{p.File, p.Line, p.Col})
	}
	for _, k := range order {
		kind := strings.SplitN(k, "|", 2)[0]
		if strings.Contains(k, "|attr|") {
			kind += "_attr"
		} else if strings.Contains(k, "|tag|") {
			kind += "_tag"
		} else if strings.Contains(k, "|param|") {
			kind = "param"
		} else if strings.Contains(k, "|query|") {
			kind = "query_param"
		} else if strings.Contains(k, "|url|") {
			kind = "url_param"
		}
		g, ok := got[k]
		if !ok {
			return fmt.Errorf("element %q is declared at %v but the model records no location for it\n%s", k, want[k], c08FilesText(c))
		}
		if fmt.Sprint(g) != fmt.Sprint(want[k]) {
			msg := fmt.Sprintf("element %q: declared at (file line col, in walk order) %v, model records %v\n%s", k, want[k], g, c08FilesText(c))
			for _, e := range c.EmptyRepeated {
				if e == k && len(g) < len(want[k]) {
					return finding("empty-annotation-declaration-loses-its-location", "%s", msg)
				}
			}
			return fmt.Errorf("%s", msg)
		}
		x.r.ClassN("checked_"+kind, int64(len(g)))
	}
	var extra []string
	for k := range got {
		if _, ok := want[k]; !ok {
			extra = append(extra, k)
		}
	}
	if len(extra) > 0 {
		sort.Strings(extra)
		return fmt.Errorf("the model records locations for elements the renderer did not declare: %v (first at %v)\n%s", extra, got[extra[0]], c08FilesText(c))
	}
	return nil
}

var c08Prop = Define("C08", "locations",
	"GenIntent specifications partitioned like C04 (apps in 1..6 blocks, a type's fields over 2-3 re-opened type blocks, re-opened REST paths, simple endpoints declared twice, 1..4 files of a random import DAG) and written by a renderer that records file, zero-based line and rune column (tab = one column) of every element; indent unit from {1,2,3,4,8 spaces, tab, two tabs, space+tab}; optional blank / whitespace-only / comment lines before elements. Checked with exact start positions, one per declaration in walk order (root, then imports depth-first in text order, each file once): imports, applications, !type/!table/!enum/!alias/!union, fields, union members, @annotations and inline k=v attributes and ~tags of apps/types/fields/simple endpoints/events/statements, simple endpoints, events, REST methods (GET POST PUT DELETE PATCH at path depth 0..2), name<:T parameters, query parameters, URL parameters (at '{'), every statement kind. Checked generically on every sysl.SourceContext in the model: file is a file of the spec, start inside the file on a non-blank character, end >= start, deprecated source_context == last source_contexts entry. Carry no location (not checked): the 'patterns' container, the implicit 'rest' tag, enum items, 'one of' choice labels, the docstring made of a REST method's leading '|' lines, the '...' placeholder endpoint; attributes of REST methods are located (generic checks apply) but not matched against positions because they are inherited from path lines. Non-trivial: an element declared >=2 times, or in an imported file, or preceded on its line by a tab; distinct by hash of the files.",
	genC08, checkC08)

func TestC08(t *testing.T) {
	checkKnown(t, "C08")
	c08Prop.Run(t, scale(120, 2000))
}
