package checks

// c10_ref.go — typed abstract syntax of generated view bodies, the renderer to Sysl view
// syntax, and the reference interpreter (immutable values, lexical scoping) that defines
// the expected result of a view independently of pkg/eval.

import (
	"fmt"
	"sort"
	"strings"
)

// ---------- types ----------

// c10Ty: K is one of i s b (scalars), l (list), t (set), m (record), o (optional scalar: El or null).
type c10Ty struct {
	K  string
	El *c10Ty     // element type of l / t
	F  []c10Field // fields of m, in declaration order
}

type c10Field struct {
	Name string
	T    *c10Ty
}

var (
	c10TInt  = &c10Ty{K: "i"}
	c10TStr  = &c10Ty{K: "s"}
	c10TBool = &c10Ty{K: "b"}
)

func c10TList(el *c10Ty) *c10Ty { return &c10Ty{K: "l", El: el} }
func c10TSet(el *c10Ty) *c10Ty  { return &c10Ty{K: "t", El: el} }

func (t *c10Ty) String() string {
	switch t.K {
	case "i":
		return "int"
	case "s":
		return "str"
	case "b":
		return "bool"
	case "l":
		return "list<" + t.El.String() + ">"
	case "t":
		return "set<" + t.El.String() + ">"
	case "m":
		ps := make([]string, len(t.F))
		for i, f := range t.F {
			ps[i] = f.Name + ":" + f.T.String()
		}
		return "rec{" + strings.Join(ps, ",") + "}"
	case "o":
		return "opt<" + t.El.String() + ">"
	}
	return "?"
}

func (t *c10Ty) eq(u *c10Ty) bool { return t.String() == u.String() }

func (t *c10Ty) field(name string) *c10Ty {
	for _, f := range t.F {
		if f.Name == name {
			return f.T
		}
	}
	return nil
}

func (t *c10Ty) isColl() bool { return t.K == "l" || t.K == "t" }

// ---------- expressions and statements ----------

// c10Ex.Op:
//
//	lit            scalar literal (Lit)
//	var            variable reference (Name; "." is the implicit scope variable)
//	bin            A Sym B        (+ - * / % == != < <= > >= && in !in |)
//	neg            -A             (int negation, bool complement)
//	if             if A then B else C
//	count          A count
//	single         A single
//	attr           A.Name
//	call           Name(Args...)  (one of the fixed helper views; yields a record or a collection of records)
//	where          A where(Name: B)   (Name "" = implicit ".")
//	flatten        A flatten(Name: B)
//	listof, setof  [Args...], {Args...}
type c10Ex struct {
	Op      string
	T       *c10Ty
	Lit     *c10Val
	Name    string
	Sym     string
	A, B, C *c10Ex
	Args    []*c10Ex
}

type c10IfCase struct {
	Ctl  []*c10Ex
	Then *c10Ex
}

// c10IfBlock is the multi-line form `if VAR ==:` / `ctl, ctl => expr` / `else expr`.
type c10IfBlock struct {
	Var   *c10Ex
	Cases []c10IfCase
	Else  *c10Ex
}

// c10Tform is a nested transform `ARG -> <type>(var: body)`; Ret is "" (scalar or whole
// record argument: yields one record), "l" (sequence of) or "t" (set of).
type c10Tform struct {
	Arg  *c10Ex
	Ret  string
	Var  string // "" = implicit "."
	Body []*c10Stmt
}

type c10Stmt struct {
	Name string
	Let  bool
	T    *c10Ty // static type of the value
	E    *c10Ex
	IfB  *c10IfBlock
	Tf   *c10Tform
}

// ---------- rendering ----------

func c10RenderLit(v *c10Val) string {
	switch v.K {
	case "i":
		if v.I < 0 {
			return fmt.Sprintf("(-%d)", -v.I)
		}
		return fmt.Sprint(v.I)
	case "s":
		return `"` + v.S + `"`
	case "b":
		return fmt.Sprint(v.B)
	case "null":
		return "null"
	}
	panic("c10RenderLit: " + v.K)
}

func (e *c10Ex) render() string {
	switch e.Op {
	case "lit":
		return c10RenderLit(e.Lit)
	case "var":
		return e.Name
	case "bin":
		return "(" + e.A.render() + " " + e.Sym + " " + e.B.render() + ")"
	case "neg":
		return "(-" + e.A.render() + ")"
	case "if":
		return "(if " + e.A.render() + " then " + e.B.render() + " else " + e.C.render() + ")"
	case "count":
		return "(" + e.A.render() + " count)"
	case "single":
		return "(" + e.A.render() + " single)"
	case "attr":
		if e.A.Op == "var" && e.A.Name == "." {
			return "." + e.Name
		}
		return e.A.render() + "." + e.Name
	case "call":
		ps := make([]string, len(e.Args))
		for i, a := range e.Args {
			ps[i] = a.render()
		}
		return e.Name + "(" + strings.Join(ps, ", ") + ")"
	case "where", "flatten":
		sv := ""
		if e.Name != "" {
			sv = e.Name + ": "
		}
		return "(" + e.A.render() + " " + e.Op + "(" + sv + e.B.render() + "))"
	case "listof", "setof":
		ps := make([]string, len(e.Args))
		for i, a := range e.Args {
			ps[i] = a.render()
		}
		if e.Op == "setof" {
			return "{" + strings.Join(ps, ", ") + "}"
		}
		return "[" + strings.Join(ps, ", ") + "]"
	}
	panic("c10Ex.render: " + e.Op)
}

func c10RenderStmts(sb *strings.Builder, stmts []*c10Stmt, ind string) {
	for _, st := range stmts {
		kw := ""
		if st.Let {
			kw = "let "
		}
		switch {
		case st.E != nil:
			fmt.Fprintf(sb, "%s%s%s = %s\n", ind, kw, st.Name, st.E.render())
		case st.IfB != nil:
			fmt.Fprintf(sb, "%s%s%s = if %s ==:\n", ind, kw, st.Name, st.IfB.Var.render())
			for _, c := range st.IfB.Cases {
				ps := make([]string, len(c.Ctl))
				for i, x := range c.Ctl {
					ps[i] = x.render()
				}
				fmt.Fprintf(sb, "%s  %s => %s\n", ind, strings.Join(ps, ", "), c.Then.render())
			}
			fmt.Fprintf(sb, "%s  else %s\n", ind, st.IfB.Else.render())
		case st.Tf != nil:
			ty := "<Rec>"
			switch st.Tf.Ret {
			case "l":
				ty = "<sequence of Rec>"
			case "t":
				ty = "<set of Rec>"
			}
			fmt.Fprintf(sb, "%s%s%s = %s -> %s(%s:\n", ind, kw, st.Name, st.Tf.Arg.render(), ty, st.Tf.Var)
			c10RenderStmts(sb, st.Tf.Body, ind+"  ")
			fmt.Fprintf(sb, "%s)\n", ind)
		}
	}
}

// fixed helper views; the reference interpreter implements them natively (c10Interp.call).
// Their parameter names deliberately coincide with those of the main view: a call must not
// disturb the caller's bindings.
const c10Helpers = `App:
  !view inc(n <: int) -> int:
    n -> (:
      o = n + 1
    )

  !view cat(xs <: sequence of int, q <: sequence of int) -> int:
    0 -> (:
      o = xs | q
    )

  !view dbl(xs <: sequence of int) -> sequence of Rec:
    xs -> (n:
      o = n * 2
      i = n
    )

  !view down(n <: int) -> int:
    n -> (:
      o = if n <= 0 then 0 else (if down(n / 2).o != -1 && n + 1 > 0 then n else -1)
    )

  !view sumto(n <: int) -> int:
    n -> (:
      o = if n < 1 then 0 else (if sumto(n - 1).o == -1 then -1 else n + (n * (n - 1)) / 2)
    )

  !view par(xs <: sequence of int) -> set of Rec:
    xs -> (s:
      o = s % 2
    )

`

const c10MainHdr = "  !view main(n <: int, s <: string, b <: bool, xs <: sequence of int, ss <: set of string) -> int:\n    n -> (:\n"

func c10RenderView(body []*c10Stmt) string {
	var sb strings.Builder
	sb.WriteString(c10Helpers)
	sb.WriteString(c10MainHdr)
	c10RenderStmts(&sb, body, "      ")
	sb.WriteString("    )\n")
	return sb.String()
}

// ---------- reference interpreter ----------

type c10Env struct {
	names  []string
	vals   []*c10Val
	parent *c10Env
}

func (e *c10Env) get(name string) (*c10Val, bool) {
	for f := e; f != nil; f = f.parent {
		for i := len(f.names) - 1; i >= 0; i-- {
			if f.names[i] == name {
				return f.vals[i], true
			}
		}
	}
	return nil, false
}

func (e *c10Env) bind(name string, v *c10Val) {
	e.names = append(e.names, name)
	e.vals = append(e.vals, v)
}

func (e *c10Env) child() *c10Env { return &c10Env{parent: e} }

// c10Interp evaluates a view body. Values are never modified after construction; the
// pointer of a collection is its identity and flows exactly where the language passes a
// value on unchanged (variable reference, if-branch, attribute, call argument, single),
// which lets the interpreter recognise the two shapes behind the recorded findings:
//
//	list-concat       one list value is the left operand of two or more concatenations
//	nested-scope-var  a nested transform names its scope variable like a name that is
//	                  already bound in the enclosing scope
type c10Interp struct {
	nextGrp  int
	track    bool
	catLeft  map[*c10Val]int
	hazards  map[string]bool
	hazNodes map[*c10Ex]bool // concatenation sites (bin "|" or call cat) whose left operand was used before
	classes  map[string]bool
	err      string // the program left the documented domain (generator defect)
}

func c10NewInterp(track bool) *c10Interp {
	return &c10Interp{track: track, catLeft: map[*c10Val]int{}, hazards: map[string]bool{}, hazNodes: map[*c10Ex]bool{}, classes: map[string]bool{}}
}

func (in *c10Interp) fail(format string, a ...interface{}) {
	if in.err == "" {
		in.err = fmt.Sprintf(format, a...)
	}
}

func (in *c10Interp) class(format string, a ...interface{}) {
	if in.track {
		in.classes[fmt.Sprintf(format, a...)] = true
	}
}

func (in *c10Interp) newGrp() int { in.nextGrp++; return in.nextGrp }

func c10Kind(v *c10Val) string {
	switch v.K {
	case "i":
		return "int"
	case "s":
		return "str"
	case "b":
		return "bool"
	case "l":
		return "list"
	case "t":
		return "set"
	case "m":
		return "map"
	}
	return v.K
}

func c10ElKind(v *c10Val) string {
	if len(v.E) == 0 {
		return "empty"
	}
	return c10Kind(v.E[0])
}

// mkSet builds a duplicate-free set (first occurrence wins).
func c10MkSet(elems []*c10Val) *c10Val {
	out := &c10Val{K: "t", E: []*c10Val{}}
	seen := map[string]bool{}
	for _, e := range elems {
		id := e.ident()
		if !seen[id] {
			seen[id] = true
			out.E = append(out.E, e)
		}
	}
	return out
}

// asGroup returns the group ids for n elements produced by iterating a set / map.
func (in *c10Interp) asGroup(n int) []int {
	g := make([]int, n)
	if n >= 2 {
		id := in.newGrp()
		for i := range g {
			g[i] = id
		}
	}
	return g
}

func c10Groups(v *c10Val) []int {
	g := make([]int, len(v.E))
	copy(g, v.G)
	return g
}

func c10TrimGroups(v *c10Val) *c10Val {
	any := false
	for _, g := range v.G {
		if g != 0 {
			any = true
		}
	}
	if !any {
		v.G = nil
	}
	return v
}

func (in *c10Interp) concat(site *c10Ex, l, r *c10Val) *c10Val {
	if in.track {
		in.catLeft[l]++
		if in.catLeft[l] >= 2 {
			in.hazards["list-concat"] = true
			if site != nil {
				in.hazNodes[site] = true
			}
		}
	}
	if len(r.E) == 0 {
		// nothing is appended: the result is indistinguishable from (and in pkg/eval shares all of
		// its storage with) the left operand
		return l
	}
	out := &c10Val{K: "l", E: append(append([]*c10Val{}, l.E...), r.E...)}
	out.G = c10Groups(l)
	if r.K == "t" {
		out.G = append(out.G, in.asGroup(len(r.E))...)
	} else {
		out.G = append(out.G, c10Groups(r)...)
	}
	return c10TrimGroups(out)
}

func (in *c10Interp) call(e *c10Ex, args []*c10Val) *c10Val {
	switch e.Name {
	case "inc":
		r := c10Map()
		r.M["o"] = c10Int(args[0].I + 1)
		return r
	case "down":
		// the view calls itself (once per level) inside an operand of != : its value is n for n > 0, else 0
		r := c10Map()
		r.M["o"] = c10Int(max(args[0].I, 0))
		return r
	case "sumto":
		// self-recursive (once per level) inside an operand of ==: 1 + 2 + ... + n
		r := c10Map()
		n := max(args[0].I, 0)
		r.M["o"] = c10Int(n * (n + 1) / 2)
		return r
	case "cat":
		r := c10Map()
		r.M["o"] = in.concat(e, args[0], args[1])
		return r
	case "dbl":
		out := &c10Val{K: "l", E: []*c10Val{}}
		for _, x := range args[0].E {
			r := c10Map()
			r.M["o"] = c10Int(x.I * 2)
			r.M["i"] = x
			out.E = append(out.E, r)
		}
		if args[0].K == "t" {
			out.G = in.asGroup(len(out.E))
		} else {
			out.G = c10Groups(args[0])
		}
		return c10TrimGroups(out)
	case "par":
		var rs []*c10Val
		for _, x := range args[0].E {
			r := c10Map()
			r.M["o"] = c10Int(x.I % 2)
			rs = append(rs, r)
		}
		return c10MkSet(rs)
	}
	panic("c10Interp.call: " + e.Name)
}

func (in *c10Interp) eval(e *c10Ex, env *c10Env) *c10Val {
	switch e.Op {
	case "lit":
		return e.Lit
	case "var":
		v, ok := env.get(e.Name)
		if !ok {
			in.fail("unbound variable %s", e.Name)
			return c10Int(0)
		}
		return v
	case "listof":
		out := &c10Val{K: "l", E: []*c10Val{}}
		for _, a := range e.Args {
			out.E = append(out.E, in.eval(a, env))
		}
		in.class("listof:%s", c10ElKind(out))
		return out
	case "setof":
		var es []*c10Val
		for _, a := range e.Args {
			es = append(es, in.eval(a, env))
		}
		out := c10MkSet(es)
		if len(out.E) != len(es) && e.Name != "dup" {
			// what a set literal with repeated items denotes on its own is left open; as an operand of a
			// union (Name "dup", generated only there) the union's value is defined: no duplicates
			in.fail("set constructor with equal items: %s", e.render())
		}
		in.class("setof:%s", c10ElKind(out))
		return out
	case "neg":
		a := in.eval(e.A, env)
		in.class("neg:%s", c10Kind(a))
		if a.K == "b" {
			return c10Bool(!a.B)
		}
		return c10Int(-a.I)
	case "if":
		in.class("if")
		if in.eval(e.A, env).B {
			return in.eval(e.B, env)
		}
		return in.eval(e.C, env)
	case "count":
		a := in.eval(e.A, env)
		in.class("count:%s", c10Kind(a))
		if a.K == "m" {
			return c10Int(int64(len(a.M)))
		}
		return c10Int(int64(len(a.E)))
	case "single":
		a := in.eval(e.A, env)
		in.class("single:%s", c10Kind(a))
		if len(a.E) != 1 {
			in.fail("single applied to %d elements: %s", len(a.E), e.render())
			return c10Int(0)
		}
		return a.E[0]
	case "attr":
		a := in.eval(e.A, env)
		in.class("attr")
		v, ok := a.M[e.Name]
		if a.K != "m" || !ok {
			in.fail("attribute %s missing in %s", e.Name, a)
			return c10Int(0)
		}
		return v
	case "call":
		args := make([]*c10Val, len(e.Args))
		for i, a := range e.Args {
			args[i] = in.eval(a, env)
		}
		in.class("call:%s", e.Name)
		return in.call(e, args)
	case "where":
		src := in.eval(e.A, env)
		in.class("where:%s,%s", c10Kind(src), c10ElKind(src))
		if e.Name != "" {
			if _, bound := env.get(e.Name); bound {
				in.class("shadow:where-scope-var")
			}
		}
		out := &c10Val{K: src.K, E: []*c10Val{}}
		for i, x := range src.E {
			f := env.child()
			f.bind(c10Sv(e.Name), x)
			if in.eval(e.B, f).B {
				out.E = append(out.E, x)
				if src.K == "l" {
					out.G = append(out.G, src.grp(i))
				}
			}
		}
		return c10TrimGroups(out)
	case "flatten":
		return in.flatten(e, env)
	case "bin":
		return in.bin(e, env)
	}
	panic("c10Interp.eval: " + e.Op)
}

func c10Sv(name string) string {
	if name == "" {
		return "."
	}
	return name
}

func (in *c10Interp) flatten(e *c10Ex, env *c10Env) *c10Val {
	src := in.eval(e.A, env)
	in.class("flatten:%s,%s", c10Kind(src), c10ElKind(src))
	if e.Name != "" {
		if _, bound := env.get(e.Name); bound {
			in.class("shadow:flatten-scope-var")
		}
	}
	body := func(x *c10Val) *c10Val {
		f := env.child()
		f.bind(c10Sv(e.Name), x)
		return in.eval(e.B, f)
	}
	out := &c10Val{K: src.K, E: []*c10Val{}}
	if src.K == "l" && c10ElKind(src) == "map" {
		// one result per record, position by position
		for i, x := range src.E {
			out.E = append(out.E, body(x))
			out.G = append(out.G, src.grp(i))
		}
		return c10TrimGroups(out)
	}
	merged := map[int]int{} // group of the outer element -> group of everything it contributes
	for i, inner := range src.E {
		og := 0
		if src.K == "l" {
			og = src.grp(i)
		}
		var ig []int
		switch {
		case og != 0:
			if merged[og] == 0 {
				merged[og] = in.newGrp()
			}
			ig = make([]int, len(inner.E))
			for j := range ig {
				ig[j] = merged[og]
			}
		case inner.K == "t":
			ig = in.asGroup(len(inner.E))
		default:
			ig = c10Groups(inner)
		}
		for j, x := range inner.E {
			out.E = append(out.E, body(x))
			out.G = append(out.G, ig[j])
		}
	}
	if src.K == "t" {
		n := len(out.E)
		out = c10MkSet(out.E)
		if len(out.E) != n {
			in.fail("flatten into a set produced equal elements: %s", e.render())
		}
		return out
	}
	return c10TrimGroups(out)
}

func (in *c10Interp) bin(e *c10Ex, env *c10Env) *c10Val {
	a, b := in.eval(e.A, env), in.eval(e.B, env)
	in.class("bin:%s:%s,%s", e.Sym, c10Kind(a), c10Kind(b))
	switch e.Sym {
	case "+":
		if a.K == "s" {
			return c10Str(a.S + b.S)
		}
		return c10Int(a.I + b.I)
	case "-":
		return c10Int(a.I - b.I)
	case "*":
		return c10Int(a.I * b.I)
	case "/", "%":
		if b.I == 0 {
			in.fail("division by zero: %s", e.render())
			return c10Int(0)
		}
		if e.Sym == "/" {
			return c10Int(a.I / b.I)
		}
		return c10Int(a.I % b.I)
	case "==", "!=":
		eq := false
		switch {
		case a.K == "null" || b.K == "null":
			// null equals only null
			return c10Bool((a.K == b.K) == (e.Sym == "=="))
		}
		switch a.K {
		case "i":
			eq = a.I == b.I
		case "s":
			eq = a.S == b.S
		case "b":
			eq = a.B == b.B
		default:
			in.fail("equality on %s", a.K)
		}
		return c10Bool(eq == (e.Sym == "=="))
	case "<":
		return c10Bool(a.I < b.I)
	case "<=":
		return c10Bool(a.I <= b.I)
	case ">":
		return c10Bool(a.I > b.I)
	case ">=":
		return c10Bool(a.I >= b.I)
	case "&&":
		return c10Bool(a.B && b.B)
	case "in", "!in":
		found := false
		if b.K == "m" {
			_, found = b.M[a.S]
		} else {
			for _, x := range b.E {
				if x.K == "s" && x.S == a.S {
					found = true
				}
			}
		}
		return c10Bool(found == (e.Sym == "in"))
	case "|":
		if a.K == "t" {
			return c10MkSet(append(append([]*c10Val{}, a.E...), b.E...))
		}
		return in.concat(e, a, b)
	}
	panic("c10Interp.bin: " + e.Sym)
}

func (in *c10Interp) tform(tf *c10Tform, env *c10Env) *c10Val {
	arg := in.eval(tf.Arg, env)
	if tf.Var != "" {
		if _, bound := env.get(tf.Var); bound {
			in.hazards["nested-scope-var"] = true
			in.class("shadow:tform-scope-var")
		}
	}
	one := func(x *c10Val) *c10Val {
		f := env.child()
		f.bind(c10Sv(tf.Var), x)
		return in.body(tf.Body, f)
	}
	ret := map[string]string{"": "record", "l": "list", "t": "set"}[tf.Ret]
	in.class("tform:%s->%s", c10Kind(arg), ret)
	var rs []*c10Val
	var grp []int
	switch {
	case arg.K == "l" || arg.K == "t":
		for _, x := range arg.E {
			rs = append(rs, one(x))
		}
		if arg.K == "t" {
			grp = in.asGroup(len(rs))
		} else {
			grp = c10Groups(arg)
		}
	case arg.K == "m" && tf.Var != "":
		ks := make([]string, 0, len(arg.M))
		for k := range arg.M {
			ks = append(ks, k)
		}
		sort.Strings(ks)
		for _, k := range ks {
			kv := c10Map()
			kv.M["key"] = c10Str(k)
			kv.M["value"] = arg.M[k]
			rs = append(rs, one(kv))
		}
		grp = in.asGroup(len(rs))
	default:
		if tf.Ret != "" {
			in.fail("collection-typed transform over a %s", arg.K)
		}
		return one(arg)
	}
	if tf.Ret == "t" {
		out := c10MkSet(rs)
		if arg.K == "m" && len(out.E) != len(rs) {
			in.fail("set-typed transform over a record produced equal elements")
		}
		return out
	}
	if tf.Ret == "" {
		in.fail("record-typed transform over a collection")
	}
	return c10TrimGroups(&c10Val{K: "l", E: append([]*c10Val{}, rs...), G: grp})
}

func (in *c10Interp) ifBlock(ib *c10IfBlock, env *c10Env) *c10Val {
	in.class("ifblock")
	v := in.eval(ib.Var, env)
	for _, c := range ib.Cases {
		for _, ctl := range c.Ctl {
			x := in.eval(ctl, env)
			if (v.K == "i" && v.I == x.I) || (v.K == "s" && v.S == x.S) {
				return in.eval(c.Then, env)
			}
		}
	}
	return in.eval(ib.Else, env)
}

func (in *c10Interp) stmt(st *c10Stmt, env *c10Env) *c10Val {
	switch {
	case st.E != nil:
		return in.eval(st.E, env)
	case st.IfB != nil:
		return in.ifBlock(st.IfB, env)
	default:
		return in.tform(st.Tf, env)
	}
}

// body evaluates the statements of one transform body in frame env and returns the record
// of its assignments. A let is visible to the statements after it in the same body (and in
// bodies nested in those), never outside.
func (in *c10Interp) body(stmts []*c10Stmt, env *c10Env) *c10Val {
	out := c10Map()
	for _, st := range stmts {
		v := in.stmt(st, env)
		if st.Let {
			env.bind(st.Name, v)
		} else {
			out.M[st.Name] = v
		}
	}
	return out
}

// c10RunView evaluates the main view: arguments bound by name, "." bound to n.
func (in *c10Interp) runView(body []*c10Stmt, args map[string]*c10Val) *c10Val {
	env := &c10Env{}
	ks := make([]string, 0, len(args))
	for k := range args {
		ks = append(ks, k)
	}
	sort.Strings(ks)
	for _, k := range ks {
		env.bind(k, args[k])
	}
	f := env.child()
	f.bind(".", args["n"])
	return in.body(body, f)
}
