//go:build !race

package checks

const c07Race = false

func c07RaceErrors() int { return 0 }
