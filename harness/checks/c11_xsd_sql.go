package checks

// c11_xsd_sql.go — foreign intents for XSD schemas and SQL DDL (C11): generators, rendering and
// the facts the imported Sysl must contain. Feature sets follow pkg/importer/tests/xsd and
// pkg/importer/sql/tests: complex types with sequence/all content, element occurrence bounds,
// attributes, references between complex types, simple types by restriction, extension chains,
// a root element; tables with typed columns per dialect, NOT NULL, inline/table-level/trailing
// primary keys, foreign keys, array columns.

import (
	"fmt"
	"sort"
	"strings"

	"pgregory.net/rapid"
)

// ---------- XSD ----------

type c11XElem struct {
	Name string `json:"name"`
	Type string `json:"type"` // "xs:<builtin>" or the name of a complex/simple type of the document
	Min  string `json:"min,omitempty"`
	Max  string `json:"max,omitempty"`
}

type c11XAttr struct {
	Name string `json:"name"`
	Type string `json:"type"`
	Use  string `json:"use,omitempty"`
}

type c11XType struct {
	Name  string     `json:"name"`
	Base  string     `json:"base,omitempty"` // complexContent/extension base
	All   bool       `json:"all,omitempty"`  // xs:all instead of xs:sequence
	Elems []c11XElem `json:"elems,omitempty"`
	Attrs []c11XAttr `json:"attrs,omitempty"`
}

type c11XSimple struct {
	Name string `json:"name"`
	Base string `json:"base"` // xs:integer | xs:string
}

type c11XDoc struct {
	Prefix  string       `json:"prefix"`
	Types   []c11XType   `json:"types"`
	Simples []c11XSimple `json:"simples,omitempty"`
	Root    string       `json:"root,omitempty"` // name of the complex type used by a top-level element
}

// builtin -> kind class per pkg/importer/xsd.go (mapping table and makeXsdBuiltinType)
var c11XBuiltins = map[string]string{"string": "string", "integer": "integer", "int": "integer", "boolean": "bool", "date": "date", "token": "string", "NMTOKEN": "string", "time": "string"}
var c11XBuiltinNames = []string{"string", "string", "integer", "int", "boolean", "date", "token", "NMTOKEN", "time"}
var c11XTypeNames = []string{"User", "Employee", "USAddress", "PurchaseOrderType", "Item", "Line", "Acct-Info", "Order.Line"}
var c11XElemNames = []string{"id", "name", "street", "city", "zip", "grade", "ShipTo", "BillTo", "qty", "note", "my-elem", "a.b", "x_y"}
var c11XAttrNames = []string{"country", "OrderDate", "lang", "version"}

const c11FXsdRecursive = "C11-xsd-recursive-type-stack-overflow"
const c11FXsdTypeName = "C11-xsd-type-name-not-escaped"
const c11FXsdBoolBounds = "C11-xsd-occurrence-bounds-on-boolean"
const c11FXsdSiblings = "C11-xsd-sibling-extensions-share-elements"
const c11FSqlArrayNotNull = "C11-sql-array-column-not-null-lost"
const c11FSqlNameMax = "C11-sql-renamed-column-with-max-length"
const c11FSqlInlinePkFk = "C11-sql-inline-pk-lost-with-table-constraint"

func c11GenXSD(t *rapid.T) c11XDoc {
	cyclesOK := !knownActive(c11FXsdRecursive)
	d := c11XDoc{Prefix: pick(t, []string{"xs", "xsd"}, "prefix")}
	nt := rapid.IntRange(1, 5).Draw(t, "ntypes")
	names := c12Distinct(t, c11XTypeNames, nt, "typenames")
	for i := range names {
		if c11NeedsEscape(names[i]) && knownActive(c11FXsdTypeName) {
			R("C11").Exclude(c11FXsdTypeName)
			names[i] = strings.NewReplacer(".", "_").Replace(names[i])
		}
	}
	ns := rapid.IntRange(0, 2).Draw(t, "nsimple")
	for _, sn := range c12Distinct(t, []string{"SimpleType", "Code", "Qty"}, ns, "simplenames") {
		d.Simples = append(d.Simples, c11XSimple{Name: sn, Base: pick(t, []string{"integer", "string"}, "simplebase")})
	}
	for i, n := range names {
		ty := c11XType{Name: n}
		if i > 0 && rapid.IntRange(0, 2).Draw(t, "extends") == 0 {
			ty.Base = names[rapid.IntRange(0, i-1).Draw(t, "base")]
			for _, o := range d.Types {
				if o.Base == ty.Base && knownActive(c11FXsdSiblings) {
					R("C11").Exclude(c11FXsdSiblings)
					ty.Base = "" // a second extension of the same base
				}
			}
		}
		if ty.Base == "" {
			ty.All = rapid.IntRange(0, 4).Draw(t, "all") == 0
		}
		inherited := map[string]bool{}
		for b := ty.Base; b != ""; {
			for _, o := range d.Types {
				if o.Name == b {
					for _, e := range o.Elems {
						inherited[e.Name] = true
					}
					b = o.Base
					break
				}
			}
		}
		ne := rapid.IntRange(1, 5).Draw(t, "nelems")
		if ty.Base != "" && rapid.IntRange(0, 2).Draw(t, "noownelems") == 0 {
			// an extension that adds attributes only (or nothing): everything it has is inherited
			ne = 0
		}
		for _, en := range c12Distinct(t, c11XElemNames, ne, "elemnames") {
			if inherited[en] {
				continue
			}
			e := c11XElem{Name: en}
			switch k := rapid.IntRange(0, 9).Draw(t, "elemtype"); {
			case k <= 1 && cyclesOK && len(names) > 1:
				e.Type = names[rapid.IntRange(0, len(names)-1).Draw(t, "elemrefany")] // any type: forward references and cycles
			case k <= 1 && i > 0:
				e.Type = names[rapid.IntRange(0, i-1).Draw(t, "elemref")]
			case k == 2 && cyclesOK:
				e.Type = n // self reference
			case k == 2:
				R("C11").Exclude(c11FXsdRecursive)
				e.Type = "xs:string"
			case k == 3 && len(d.Simples) > 0:
				e.Type = d.Simples[rapid.IntRange(0, len(d.Simples)-1).Draw(t, "elemsimple")].Name
			default:
				e.Type = "xs:" + pick(t, c11XBuiltinNames, "builtin")
			}
			e.Min = pick(t, []string{"", "", "0", "1"}, "min")
			if !ty.All {
				e.Max = pick(t, []string{"", "", "1", "3", "10", "unbounded"}, "max")
			}
			if e.Type == "xs:boolean" && (e.Max == "1" || (e.Min == "1" && e.Max == "")) && knownActive(c11FXsdBoolBounds) {
				R("C11").Exclude(c11FXsdBoolBounds)
				e.Min, e.Max = "", ""
			}
			ty.Elems = append(ty.Elems, e)
		}
		na := rapid.IntRange(0, 2).Draw(t, "nattrs")
		for _, an := range c12Distinct(t, c11XAttrNames, na, "attrnames") {
			ty.Attrs = append(ty.Attrs, c11XAttr{Name: an, Type: "xs:" + pick(t, []string{"string", "date", "NMTOKEN", "integer", "boolean"}, "attrtype"), Use: pick(t, []string{"", "required", "optional"}, "use")})
		}
		d.Types = append(d.Types, ty)
	}
	if rapid.Bool().Draw(t, "root") {
		d.Root = names[rapid.IntRange(0, len(names)-1).Draw(t, "roottype")]
	}
	return d
}

func (d c11XDoc) Render() string {
	p := d.Prefix
	var sb strings.Builder
	sb.WriteString("<?xml version=\"1.0\"?>\n")
	fmt.Fprintf(&sb, "<%s:schema xmlns:%s=\"http://www.w3.org/2001/XMLSchema\">\n", p, p)
	tn := func(s string) string {
		if strings.HasPrefix(s, "xs:") {
			return p + ":" + s[3:]
		}
		return s
	}
	if d.Root != "" {
		fmt.Fprintf(&sb, "  <%s:element name=\"Root\" type=\"%s\"/>\n", p, d.Root)
	}
	for _, ty := range d.Types {
		fmt.Fprintf(&sb, "  <%s:complexType name=\"%s\">\n", p, ty.Name)
		ind := "    "
		if ty.Base != "" {
			fmt.Fprintf(&sb, "    <%s:complexContent>\n      <%s:extension base=\"%s\">\n", p, p, ty.Base)
			ind = "        "
		}
		group := "sequence"
		if ty.All {
			group = "all"
		}
		fmt.Fprintf(&sb, "%s<%s:%s>\n", ind, p, group)
		for _, e := range ty.Elems {
			fmt.Fprintf(&sb, "%s  <%s:element name=\"%s\" type=\"%s\"", ind, p, e.Name, tn(e.Type))
			if e.Min != "" {
				fmt.Fprintf(&sb, " minOccurs=\"%s\"", e.Min)
			}
			if e.Max != "" {
				fmt.Fprintf(&sb, " maxOccurs=\"%s\"", e.Max)
			}
			sb.WriteString("/>\n")
		}
		fmt.Fprintf(&sb, "%s</%s:%s>\n", ind, p, group)
		for _, a := range ty.Attrs {
			fmt.Fprintf(&sb, "%s<%s:attribute name=\"%s\" type=\"%s\"", ind, p, a.Name, tn(a.Type))
			if a.Use != "" {
				fmt.Fprintf(&sb, " use=\"%s\"", a.Use)
			}
			sb.WriteString("/>\n")
		}
		if ty.Base != "" {
			fmt.Fprintf(&sb, "      </%s:extension>\n    </%s:complexContent>\n", p, p)
		}
		fmt.Fprintf(&sb, "  </%s:complexType>\n", p)
	}
	for _, s := range d.Simples {
		fmt.Fprintf(&sb, "  <%s:simpleType name=\"%s\">\n    <%s:restriction base=\"%s:%s\"/>\n  </%s:simpleType>\n", p, s.Name, p, p, s.Base, p)
	}
	fmt.Fprintf(&sb, "</%s:schema>\n", p)
	return sb.String()
}

func (d c11XDoc) typeByName(n string) *c11XType {
	for i := range d.Types {
		if d.Types[i].Name == n {
			return &d.Types[i]
		}
	}
	return nil
}

func (d c11XDoc) Want() c11Want {
	w := c11Want{}
	fieldOf := func(name, typ string) c11WField {
		f := c11WField{Tag: name}
		if strings.HasPrefix(typ, "xs:") {
			f.Class = c11XBuiltins[typ[3:]]
		} else {
			f.Class, f.Ref = "ref", typ
		}
		return f
	}
	for _, ty := range d.Types {
		wt := c11WType{Name: ty.Name, Kind: "tuple"}
		if ty.Base != "" && len(ty.Elems) == 0 && len(ty.Attrs) == 0 {
			// an extension that adds nothing is imported as an alias of its base (xsd.go isExtendedType)
			w.Types = append(w.Types, c11WType{Name: ty.Name, Kind: "alias", Alias: &c11WField{Class: "ref", Ref: ty.Base}})
			continue
		}
		var chain []*c11XType
		for cur := d.typeByName(ty.Name); cur != nil; cur = d.typeByName(cur.Base) {
			chain = append([]*c11XType{cur}, chain...)
			if cur.Base == "" {
				break
			}
		}
		for _, c := range chain {
			for _, e := range c.Elems {
				f := fieldOf(e.Name, e.Type)
				f.Opt = e.Min == "0"
				f.Seq = e.Max == "unbounded" || (e.Max != "" && e.Max != "1" && e.Max != "0")
				wt.Fields = append(wt.Fields, f)
			}
		}
		for _, a := range ty.Attrs {
			f := fieldOf(a.Name, a.Type)
			f.Opt = a.Use != "required"
			f.Attr = true
			wt.Fields = append(wt.Fields, f)
		}
		wt.Exact = ty.Base == "" // whether an extension also inherits attributes is not pinned down by the corpus
		w.Types = append(w.Types, wt)
	}
	for _, s := range d.Simples {
		w.Types = append(w.Types, c11WType{Name: s.Name, Kind: "alias", Alias: &c11WField{Class: c11XBuiltins[s.Base]}})
	}
	return w
}

func c11XSDClasses(d c11XDoc) (classes []string, nonTrivial bool) {
	cl := map[string]bool{}
	rich, plural := 0, false
	depth := map[string]int{}
	for _, ty := range d.Types {
		if ty.Base != "" {
			depth[ty.Name] = depth[ty.Base] + 1
			cl[fmt.Sprintf("extension_depth%d", depth[ty.Name])] = true
			for _, o := range d.Types {
				if o.Name != ty.Name && o.Base == ty.Base {
					cl["sibling_extensions"] = true
				}
			}
		}
		if ty.All {
			cl["content_all"] = true
		} else {
			cl["content_sequence"] = true
		}
		if len(ty.Elems)+len(ty.Attrs) >= 2 {
			rich++
		}
		for _, e := range ty.Elems {
			switch {
			case e.Type == ty.Name:
				cl["self_reference"] = true
			case !strings.HasPrefix(e.Type, "xs:") && d.typeByName(e.Type) != nil:
				cl["complex_type_reference"] = true
			case !strings.HasPrefix(e.Type, "xs:"):
				cl["simple_type_reference"] = true
			}
			if e.Min == "0" {
				cl["minOccurs_0"] = true
			}
			if e.Max == "unbounded" {
				cl["maxOccurs_unbounded"] = true
				plural = true
			} else if e.Max != "" && e.Max != "1" {
				cl["maxOccurs_n"] = true
				plural = true
			}
			if c11NeedsEscape(e.Name) {
				cl["element_name_needs_escaping"] = true
			}
		}
		for _, a := range ty.Attrs {
			cl["attribute"] = true
			if a.Use == "required" {
				cl["attribute_required"] = true
			}
		}
		if c11NeedsEscape(ty.Name) {
			cl["type_name_needs_escaping"] = true
		}
	}
	if len(d.Simples) > 0 {
		cl["simple_type"] = true
	}
	if d.Root != "" {
		cl["root_element"] = true
	}
	for k := range cl {
		classes = append(classes, k)
	}
	sort.Strings(classes)
	return classes, rich >= 2 && plural
}

// ---------- SQL DDL ----------

type c11SCol struct {
	Name     string `json:"name"`
	Type     string `json:"type"`  // dialect spelling
	Class    string `json:"class"` // expected kind class
	Bits     int32  `json:"bits,omitempty"`
	NotNull  bool   `json:"not_null,omitempty"`
	Array    bool   `json:"array,omitempty"`
	PkInline bool   `json:"pk_inline,omitempty"`
}

type c11SFK struct {
	Col      string `json:"col"`
	RefTable string `json:"ref_table"`
	RefCol   string `json:"ref_col"`
}

type c11STable struct {
	Name string    `json:"name"`
	Cols []c11SCol `json:"cols"`
	PK   []string  `json:"pk,omitempty"`
	FKs  []c11SFK  `json:"fks,omitempty"`
}

type c11SDoc struct {
	Dialect  string      `json:"dialect"` // postgres | mysql | spanner
	Database string      `json:"database,omitempty"`
	Tables   []c11STable `json:"tables"`
}

type c11SType struct {
	spell, class string
	bits         int32
}

var c11SQLTypes = map[string][]c11SType{
	"postgres": {{"VARCHAR(23)", "string", 0}, {"VARCHAR(256)", "string", 0}, {"TEXT", "string", 0}, {"BIGINT", "integer", 64}, {"INT", "integer", 0}, {"INTEGER", "integer", 0}, {"FLOAT", "number", 0}, {"NUMERIC", "number", 0}, {"NUMERIC(10,2)", "number", 0}, {"DATE", "date", 0}, {"TIMESTAMP", "datetime", 0}, {"BOOLEAN", "bool", 0}, {"BYTEA", "bytes", 0}, {"UUID", "string", 0}},
	"mysql":    {{"VARCHAR(36)", "string", 0}, {"TEXT", "string", 0}, {"BIGINT", "integer", 64}, {"INT", "integer", 0}, {"DOUBLE", "number", 64}, {"FLOAT", "number", 0}, {"DECIMAL(12,4)", "number", 0}, {"DATE", "date", 0}, {"DATETIME", "datetime", 0}, {"BOOL", "bool", 0}, {"BLOB", "bytes", 0}, {"JSON", "string", 0}},
	"spanner":  {{"STRING(36)", "string", 0}, {"STRING(MAX)", "string", 0}, {"INT64", "integer", 64}, {"FLOAT64", "number", 64}, {"NUMERIC", "number", 0}, {"DATE", "date", 0}, {"TIMESTAMP", "datetime", 0}, {"BOOL", "bool", 0}, {"BYTES(100)", "bytes", 0}, {"BYTES(MAX)", "bytes", 0}},
}

var c11STableNames = []string{"Account", "Customer", "PayID", "orders", "line_items", "AccountAddress"}
var c11SColNames = []string{"AccountNum", "BSB", "Balance", "CreationDate", "Email", "id", "customer_id", "note", "LastUpdated", "flags", "Int", "Table"}

func c11GenSQL(t *rapid.T) c11SDoc {
	d := c11SDoc{Dialect: pick(t, []string{"postgres", "mysql", "spanner"}, "dialect")}
	if rapid.Bool().Draw(t, "database") {
		d.Database = pick(t, []string{"customeraccounts", "shop_db"}, "dbname")
	}
	types := c11SQLTypes[d.Dialect]
	nt := rapid.IntRange(1, 4).Draw(t, "ntables")
	for ti, tn := range c12Distinct(t, c11STableNames, nt, "tablenames") {
		tb := c11STable{Name: tn}
		nc := rapid.IntRange(2, 6).Draw(t, "ncols")
		for _, cn := range c12Distinct(t, c11SColNames, nc, "colnames") {
			st := pick(t, types, "coltype")
			if cn == "Int" && strings.Contains(st.spell, "MAX") && knownActive(c11FSqlNameMax) {
				R("C11").Exclude(c11FSqlNameMax)
				st = types[0]
			}
			c := c11SCol{Name: cn, Type: st.spell, Class: st.class, Bits: st.bits, NotNull: rapid.IntRange(0, 2).Draw(t, "notnull") != 0}
			if st.class == "string" && strings.Contains(st.spell, "(") && !strings.Contains(st.spell, "MAX") && rapid.IntRange(0, 7).Draw(t, "arraycol") == 0 {
				c.Array = true
				if c.NotNull && knownActive(c11FSqlArrayNotNull) {
					R("C11").Exclude(c11FSqlArrayNotNull)
					c.NotNull = false
				}
			}
			tb.Cols = append(tb.Cols, c)
		}
		// primary key: the first one or two non-array columns; they are NOT NULL
		npk := rapid.IntRange(1, 2).Draw(t, "npk")
		keyable := func(c c11SCol) bool { // as in the corpus, array columns and the renamed/quoted columns are not keys
			return !c.Array && c.Name != "Int" && c.Name != "Table"
		}
		for i := range tb.Cols {
			if len(tb.PK) < npk && keyable(tb.Cols[i]) {
				tb.Cols[i].NotNull = true
				tb.PK = append(tb.PK, tb.Cols[i].Name)
			}
		}
		if len(tb.PK) == 0 {
			tb.Cols = append([]c11SCol{{Name: "pk_id", Type: types[0].spell, Class: types[0].class, Bits: types[0].bits, NotNull: true}}, tb.Cols...)
			tb.PK = []string{"pk_id"}
		}
		if len(tb.PK) == 1 && d.Dialect != "spanner" && rapid.Bool().Draw(t, "pkinline") {
			for i := range tb.Cols {
				if tb.Cols[i].Name == tb.PK[0] {
					tb.Cols[i].PkInline = true
				}
			}
		}
		// a foreign key to the first primary-key column of an earlier table, through a column of the same type
		if ti > 0 && rapid.Bool().Draw(t, "fk") {
			rt := d.Tables[rapid.IntRange(0, ti-1).Draw(t, "fktable")]
			var rc c11SCol
			for _, c := range rt.Cols {
				if c.Name == rt.PK[0] {
					rc = c
				}
			}
			fkc := c11SCol{Name: strings.ToLower(rt.Name) + "_ref", Type: rc.Type, Class: rc.Class, Bits: rc.Bits, NotNull: rapid.Bool().Draw(t, "fknotnull")}
			tb.Cols = append(tb.Cols, fkc)
			tb.FKs = append(tb.FKs, c11SFK{Col: fkc.Name, RefTable: rt.Name, RefCol: rc.Name})
			for i := range tb.Cols {
				if tb.Cols[i].PkInline && knownActive(c11FSqlInlinePkFk) {
					R("C11").Exclude(c11FSqlInlinePkFk)
					tb.Cols[i].PkInline = false
				}
			}
		}
		d.Tables = append(d.Tables, tb)
	}
	return d
}

func (d c11SDoc) Render() string {
	var sb strings.Builder
	if d.Database != "" {
		fmt.Fprintf(&sb, "CREATE DATABASE %s;\n\n", d.Database)
	}
	q := func(n string) string {
		if d.Dialect == "mysql" || d.Dialect == "spanner" {
			if n == "Table" { // as in the corpus: `Table` quoted, Int unquoted
				return "`" + n + "`"
			}
		}
		return n
	}
	qs := func(ns []string) []string {
		out := make([]string, len(ns))
		for i, n := range ns {
			out[i] = q(n)
		}
		return out
	}
	for _, tb := range d.Tables {
		fmt.Fprintf(&sb, "CREATE TABLE %s (\n", tb.Name)
		var lines []string
		for _, c := range tb.Cols {
			ty := c.Type
			if c.Array {
				if d.Dialect == "spanner" {
					ty = "ARRAY<" + ty + ">"
				} else {
					ty += "[]"
				}
			}
			l := fmt.Sprintf("    %s %s", q(c.Name), ty)
			if c.NotNull {
				l += " NOT NULL"
			}
			if c.PkInline {
				l += " PRIMARY KEY"
			}
			lines = append(lines, l)
		}
		inline := false
		for _, c := range tb.Cols {
			inline = inline || c.PkInline
		}
		if !inline && d.Dialect != "spanner" {
			lines = append(lines, "    PRIMARY KEY ("+strings.Join(qs(tb.PK), ", ")+")")
		}
		for _, fk := range tb.FKs {
			lines = append(lines, fmt.Sprintf("    FOREIGN KEY (%s) REFERENCES %s (%s)", q(fk.Col), fk.RefTable, q(fk.RefCol)))
		}
		sb.WriteString(strings.Join(lines, ",\n"))
		if d.Dialect == "spanner" {
			fmt.Fprintf(&sb, "\n) PRIMARY KEY (%s);\n\n", strings.Join(qs(tb.PK), ", "))
		} else {
			sb.WriteString("\n);\n\n")
		}
	}
	return sb.String()
}

func (d c11SDoc) Want() c11Want {
	w := c11Want{App: d.Database}
	for _, tb := range d.Tables {
		wt := c11WType{Name: tb.Name, Kind: "relation", Exact: true}
		for _, c := range tb.Cols {
			f := c11WField{Tag: c.Name, Class: c.Class, Bits: c.Bits, Opt: !c.NotNull, Seq: c.Array, SQL: true}
			for _, k := range tb.PK {
				if k == c.Name {
					f.Pk = true
					f.PkInlineFk = c.PkInline && len(tb.FKs) > 0
				}
			}
			for _, fk := range tb.FKs {
				if fk.Col == c.Name {
					f.Class, f.Ref, f.Fk, f.Bits = "colref", fk.RefTable+"."+fk.RefCol, true, 0
				}
			}
			wt.Fields = append(wt.Fields, f)
		}
		w.Types = append(w.Types, wt)
	}
	return w
}

func c11SQLClasses(d c11SDoc) (classes []string, nonTrivial bool) {
	cl := map[string]bool{"dialect_" + d.Dialect: true}
	rich := 0
	for _, tb := range d.Tables {
		if len(tb.Cols) >= 2 {
			rich++
		}
		if len(tb.PK) >= 2 {
			cl["composite_primary_key"] = true
		}
		if len(tb.FKs) > 0 {
			cl["foreign_key"] = true
		}
		for _, c := range tb.Cols {
			if c.PkInline {
				cl["inline_primary_key"] = true
			}
			if c.Array {
				cl["array_column"] = true
			}
			if !c.NotNull {
				cl["nullable_column"] = true
			}
			cl["column_"+c.Class] = true
		}
	}
	if d.Database != "" {
		cl["create_database"] = true
	}
	for k := range cl {
		classes = append(classes, k)
	}
	sort.Strings(classes)
	return classes, rich >= 2 && cl["foreign_key"]
}
