package checks

// C15 — data-model diagrams contain every type, field and relationship.
//
// Case: a data-only model (tuples, tables, enums, primitive aliases in 1-3 applications). The
// diagram is produced in the worker subprocess (c15.dm) through GenerateDataModels in direct
// mode (one diagram that covers every application), read back into classes / fields /
// relationship lines and compared with the type graph of the generated model.

import (
	"encoding/json"
	"fmt"
	"io"
	"regexp"
	"runtime/debug"
	"sort"
	"strings"
	"testing"

	"github.com/anz-bank/sysl/pkg/cmdutils"
	"github.com/anz-bank/sysl/pkg/datamodeldiagram"
	"github.com/anz-bank/sysl/pkg/parse"
	"github.com/anz-bank/sysl/pkg/sysl"
	"github.com/sirupsen/logrus"
	"pgregory.net/rapid"
)

const (
	c15FindKey    = "C15-table-alias-key-mismatch"
	c15SigKey     = "datamodel: class of a !table / primitive !alias is keyed by its last name segment while references use App.Type (relationship to an undeclared alias, or one alias shared by two classes)"
	c15FindOneSeg = "C15-drawrelation-one-segment-ref"
	c15SigOneSeg  = "panic@pkg/datamodeldiagram.(*DataModelView).DrawRelation"
)

// ---------- model (plain JSON) ----------

type c15Field struct {
	Name    string `json:"name"`
	Prim    string `json:"prim,omitempty"`    // INT STRING ... when the (element) type is primitive
	Spell   string `json:"spell"`             // spelling of the element type in the text
	RefApp  string `json:"refapp,omitempty"`  // application of the referenced type
	RefType string `json:"reftype,omitempty"` // referenced type name (model name, dots unescaped)
	RefFld  string `json:"reffld,omitempty"`  // table foreign key: referenced field
	Wrap    string `json:"wrap,omitempty"`    // "", set, seq, list (list = sequence converted in the compiled model)
	Opt     bool   `json:"opt,omitempty"`
	PK      bool   `json:"pk,omitempty"`
	// FieldRef: a tuple field typed by a dotted reference to a *field* of another tuple (T.a). Whether such a
	// reference counts as "referring to type T" is not settled by the property: a line to T is allowed,
	// not demanded; a line to anything else (e.g. a type that happens to be called like the field) is not.
	FieldRef bool `json:"fieldref,omitempty"`
}

type c15Type struct {
	Kind   string     `json:"kind"` // tuple table enum alias
	Name   string     `json:"name"` // spelling in the text (%2E for a dot)
	Fields []c15Field `json:"fields,omitempty"`
	Items  []string   `json:"items,omitempty"` // enum
	Alias  string     `json:"alias,omitempty"` // primitive spelling
}

type c15App struct {
	Name  string     `json:"name"`
	Types []*c15Type `json:"types"`
}

type c15Case struct {
	Apps []*c15App `json:"apps"`
	Text string    `json:"text"`
	Excl []string  `json:"excluded,omitempty"`
}

func (t *c15Type) model() string { return unesc(t.Name) }

func c15Last(name string) string {
	p := strings.Split(name, ".")
	return p[len(p)-1]
}

// ---------- rendering ----------

func c15Render(apps []*c15App) string {
	var sb strings.Builder
	for _, a := range apps {
		sb.WriteString(a.Name + ":\n")
		for _, t := range a.Types {
			switch t.Kind {
			case "tuple", "table":
				kw := "!type"
				if t.Kind == "table" {
					kw = "!table"
				}
				sb.WriteString("    " + kw + " " + t.Name + ":\n")
				for _, f := range t.Fields {
					s := f.Spell
					switch f.Wrap {
					case "set":
						s = "set of " + s
					case "seq", "list":
						s = "sequence of " + s
					}
					if f.Opt {
						s += "?"
					}
					if f.PK {
						s += " [~pk]"
					}
					sb.WriteString("        " + f.Name + " <: " + s + "\n")
				}
			case "enum":
				sb.WriteString("    !enum " + t.Name + ":\n")
				for i, it := range t.Items {
					sb.WriteString(fmt.Sprintf("        %s: %d\n", it, i+1))
				}
			case "alias":
				sb.WriteString("    !alias " + t.Name + ":\n        " + t.Alias + "\n")
			}
		}
		sb.WriteString("\n")
	}
	return sb.String()
}

// ---------- generator ----------

var c15AppNames = []string{"Alpha", "AlphaBeta", "Beta", "Gamma"} // one name is a proper prefix of another
var c15TypeNames = []string{"Item", "Order", "User", "Addr", "X", "Ty%2EX", "Ty%2EItem", "a", "b"}
var c15FieldNames = []string{"a", "b", "c", "d", "e", "f", "g"}

type c15Ref struct {
	app *c15App
	t   *c15Type
}

func genC15(t *rapid.T) c15Case {
	c := c15Case{}
	keyActive := knownActive(c15FindKey)
	oneSegActive := knownActive(c15FindOneSeg)
	exKey, exOneSeg := false, false
	na := rapid.IntRange(1, scale(3, 4)).Draw(t, "napps")
	var all []c15Ref
	shortTaken := map[string]bool{} // last segments used by tables / aliases
	for i := 0; i < na; i++ {
		a := &c15App{Name: c15AppNames[i]}
		nt := rapid.IntRange(1, scale(5, 7)).Draw(t, "ntypes")
		used := map[string]bool{}
		for j := 0; j < nt; j++ {
			tn := pick(t, c15TypeNames, "tn")
			if used[tn] {
				continue
			}
			used[tn] = true
			kind := pick(t, []string{"tuple", "tuple", "tuple", "tuple", "table", "table", "enum", "alias"}, "kind")
			if kind == "table" || kind == "alias" {
				last := c15Last(unesc(tn))
				if keyActive && (shortTaken[last] || strings.Contains(unesc(tn), ".")) {
					// known finding: two tables/aliases with the same last segment share one class alias,
					// and a table with a dotted name is declared under its last segment but referenced by its whole name
					kind = "tuple"
					exKey = true
				} else {
					shortTaken[last] = true
				}
			}
			td := &c15Type{Kind: kind, Name: tn}
			a.Types = append(a.Types, td)
			all = append(all, c15Ref{a, td})
		}
		c.Apps = append(c.Apps, a)
	}
	spellRef := func(from *c15App, r c15Ref) (string, string) {
		if r.app == from && !rapid.Bool().Draw(t, "qualified") {
			return r.t.Name, from.Name
		}
		return r.app.Name + "." + r.t.Name, r.app.Name
	}
	for _, x := range all {
		td, a := x.t, x.app
		switch td.Kind {
		case "enum":
			td.Items = []string{"one", "two", "three"}[:rapid.IntRange(1, 3).Draw(t, "nitems")]
		case "alias":
			td.Alias = pick(t, []string{"string", "int", "float", "decimal", "bool", "date", "datetime", "bytes", "any", "int64"}, "aliasprim")
		case "table":
			td.Fields = append(td.Fields, c15Field{Name: "id", Prim: "INT", Spell: "int", PK: true})
			var tables []c15Ref
			for _, o := range all {
				if o.t.Kind == "table" {
					tables = append(tables, o)
				}
			}
			nf := rapid.IntRange(0, 4).Draw(t, "nf")
			var prev *c15Ref
			for k := 0; k < nf; k++ {
				fn := c15FieldNames[k]
				switch rapid.IntRange(0, 5).Draw(t, "tfk") {
				case 0, 1, 2:
					// foreign key Table.id (same application, sometimes another one); repeats wanted
					o := tables[rapid.IntRange(0, len(tables)-1).Draw(t, "fkt")]
					if prev != nil && rapid.Bool().Draw(t, "again") {
						o = *prev
					}
					if o.app != a && rapid.IntRange(0, 2).Draw(t, "xfk") != 2 {
						// mostly keep foreign keys inside the application
						o = x
					}
					oo := o
					prev = &oo
					sp := o.t.Name + ".id"
					if o.app != a {
						sp = o.app.Name + "." + sp
					}
					td.Fields = append(td.Fields, c15Field{Name: fn, Spell: sp, RefApp: o.app.Name, RefType: o.t.model(), RefFld: "id",
						Opt: rapid.IntRange(0, 3).Draw(t, "opt") == 3})
				case 3:
					// one-segment reference to a type (crashes DrawRelation today)
					if oneSegActive {
						exOneSeg = true
						p := genPrim(t)
						td.Fields = append(td.Fields, c15Field{Name: fn, Prim: p.Prim, Spell: p.spelling})
						continue
					}
					o := all[rapid.IntRange(0, len(all)-1).Draw(t, "oneseg")]
					sp, ra := spellRef(a, o)
					td.Fields = append(td.Fields, c15Field{Name: fn, Spell: sp, RefApp: ra, RefType: o.t.model()})
				default:
					p := genPrim(t)
					td.Fields = append(td.Fields, c15Field{Name: fn, Prim: p.Prim, Spell: p.spelling, Opt: rapid.IntRange(0, 3).Draw(t, "opt") == 3})
				}
			}
		case "tuple":
			nf := rapid.IntRange(1, 6).Draw(t, "nf")
			var prev *c15Ref
			for k := 0; k < nf; k++ {
				f := c15Field{Name: c15FieldNames[k]}
				if rapid.IntRange(0, 7).Draw(t, "fieldref") == 0 {
					// reference to a field of a tuple of this application: T.a / T.b (a tuple always has a field a)
					var tuples []c15Ref
					for _, o := range all {
						if o.app == a && o.t.Kind == "tuple" && !strings.Contains(o.t.Name, "%") {
							tuples = append(tuples, o)
						}
					}
					if len(tuples) > 0 {
						o := tuples[rapid.IntRange(0, len(tuples)-1).Draw(t, "fieldreft")]
						f.Spell = o.t.Name + "." + pick(t, []string{"a", "a", "b"}, "fieldrefname")
						f.RefApp, f.RefType, f.FieldRef = a.Name, o.t.model(), true
						f.Opt = rapid.IntRange(0, 3).Draw(t, "opt") == 3
						td.Fields = append(td.Fields, f)
						continue
					}
				}
				if rapid.IntRange(0, 2).Draw(t, "ref") > 0 {
					o := all[rapid.IntRange(0, len(all)-1).Draw(t, "reft")]
					if prev != nil && rapid.IntRange(0, 2).Draw(t, "again") == 2 {
						o = *prev
					}
					if keyActive && (o.t.Kind == "table" || o.t.Kind == "alias") {
						// known finding: a reference from a tuple to a table / primitive alias points at an undeclared alias
						exKey = true
						o = x // refer to the tuple itself instead
					}
					oo := o
					prev = &oo
					f.Spell, f.RefApp = spellRef(a, o)
					f.RefType = o.t.model()
				} else {
					p := genPrim(t)
					f.Prim, f.Spell = p.Prim, p.spelling
				}
				switch rapid.IntRange(0, 5).Draw(t, "wrap") {
				case 3:
					f.Wrap = "set"
				case 4:
					f.Wrap = "seq"
				case 5:
					f.Wrap = "list"
				}
				f.Opt = rapid.IntRange(0, 3).Draw(t, "opt") == 3
				td.Fields = append(td.Fields, f)
			}
		}
	}
	if exKey {
		c.Excl = append(c.Excl, c15FindKey)
	}
	if exOneSeg {
		c.Excl = append(c.Excl, c15FindOneSeg)
	}
	c.Text = c15Render(c.Apps)
	return c
}

// ---------- worker op ----------

type c15Arg struct {
	Text  string      `json:"text"`
	Lists [][3]string `json:"lists"` // (app, type, field): sequence -> list in the compiled model
}

type c15Res struct {
	Out   string `json:"out,omitempty"`
	NOut  int    `json:"nout"`
	Err   string `json:"err,omitempty"`
	Panic string `json:"panic,omitempty"`
	Frame string `json:"frame,omitempty"`
}

var _ = registerOp("c15.dm", func(raw json.RawMessage) (interface{}, error) {
	var a c15Arg
	if err := json.Unmarshal(raw, &a); err != nil {
		return nil, err
	}
	m, err := parse.NewParser().ParseString(a.Text)
	if err != nil {
		return nil, fmt.Errorf("parse: %v", err)
	}
	for _, l := range a.Lists {
		ty := m.GetApps()[l[0]].GetTypes()[l[1]]
		f := ty.GetTuple().GetAttrDefs()[l[2]]
		if f == nil || f.GetSequence() == nil {
			return nil, fmt.Errorf("harness: %v is not a sequence field of the compiled model", l)
		}
		f.Type = &sysl.Type_List_{List: &sysl.Type_List{Type: f.GetSequence()}}
	}
	lg := logrus.New()
	lg.SetOutput(io.Discard)
	res := &c15Res{}
	func() {
		defer func() {
			if r := recover(); r != nil {
				res.Panic = fmt.Sprint(r)
				res.Frame = repoFrame(string(debug.Stack()))
			}
		}()
		out, err := datamodeldiagram.GenerateDataModels(&cmdutils.CmdContextParamDatagen{Direct: true, Output: "out.puml", ClassFormat: "%(classname)"}, m, lg)
		if err != nil {
			res.Err = err.Error()
			return
		}
		res.NOut = len(out)
		res.Out = out["out.puml"]
	}()
	return res, nil
})

type c15PerAppRes struct {
	Outs  map[string]string `json:"outs,omitempty"`
	Err   string            `json:"err,omitempty"`
	Panic string            `json:"panic,omitempty"`
	Frame string            `json:"frame,omitempty"`
}

// per-application output mode: one diagram per application (%(epname) in the output name)
var _ = registerOp("c15.perapp", func(raw json.RawMessage) (interface{}, error) {
	var a c15Arg
	if err := json.Unmarshal(raw, &a); err != nil {
		return nil, err
	}
	m, err := parse.NewParser().ParseString(a.Text)
	if err != nil {
		return nil, fmt.Errorf("parse: %v", err)
	}
	lg := logrus.New()
	lg.SetOutput(io.Discard)
	res := &c15PerAppRes{}
	func() {
		defer func() {
			if r := recover(); r != nil {
				res.Panic = fmt.Sprint(r)
				res.Frame = repoFrame(string(debug.Stack()))
			}
		}()
		out, err := datamodeldiagram.GenerateDataModels(&cmdutils.CmdContextParamDatagen{Direct: true, Output: "%(epname).puml", ClassFormat: "%(classname)"}, m, lg)
		if err != nil {
			res.Err = err.Error()
			return
		}
		res.Outs = out
	}()
	return res, nil
})

// checkC15PerApp: in per-application mode every diagram declares exactly the types of its own
// application (class ownership only: how references that leave the application are drawn in this
// mode is outside the quantified domain).
func checkC15PerApp(x *X, c c15Case) error {
	var res c15PerAppRes
	death, err, inconclusive := sandboxCall("c15.perapp", c15Arg{Text: c.Text}, &res)
	if inconclusive {
		x.Inconclusive("c15.perapp overran once and did not reproduce")
		return nil
	}
	if death != nil {
		return deathErr(death, "data-model diagrams (per-application mode)")
	}
	if err != nil {
		return fmt.Errorf("harness: %v", err)
	}
	if res.Panic != "" {
		return finding("panic@"+res.Frame, "per-application data-model generation panicked: %s\n%s", res.Panic, c.Text)
	}
	if res.Err != "" {
		return fmt.Errorf("per-application data-model generation failed on a valid model: %s\n%s", res.Err, c.Text)
	}
	prefixPair := false
	for _, a := range c.Apps {
		for _, b := range c.Apps {
			if a != b && strings.HasPrefix(b.Name, a.Name) {
				prefixPair = true
			}
		}
	}
	if prefixPair {
		x.Class("perapp_app_name_is_prefix_of_another")
		x.NonTrivial("perapp:" + c.Text)
	}
	for _, a := range c.Apps {
		out, ok := res.Outs[a.Name+".puml"]
		want := map[string]bool{}
		for _, t := range a.Types {
			want[a.Name+"."+t.model()] = true
		}
		if !ok {
			if len(want) == 0 {
				continue
			}
			return fmt.Errorf("no diagram for application %s (outputs: %d)\n%s", a.Name, len(res.Outs), c.Text)
		}
		d := c15Read(out)
		seen := map[string]int{}
		for _, cl := range d.classes {
			seen[cl.Label]++
			if !want[cl.Label] {
				return fmt.Errorf("diagram of application %s declares class %q, which is not one of its types\n---- diagram\n%s\n---- model\n%s", a.Name, cl.Label, out, c.Text)
			}
		}
		for l := range want {
			if seen[l] != 1 {
				return fmt.Errorf("diagram of application %s declares %q %d times, want once\n---- diagram\n%s\n---- model\n%s", a.Name, l, seen[l], out, c.Text)
			}
		}
		x.Class("perapp_diagram_checked")
	}
	return nil
}

var c15PerApp = Define("C15", "perapp",
	"the data models of 'classes' generated in per-application mode (%(epname) in the output name; application names include one that is a proper prefix of another): every application's diagram declares exactly its own types, each once, and no class of another application. Non-trivial: two applications with prefix-related names.",
	genC15, checkC15PerApp)

// ---------- reader ----------

var (
	c15ClassRe = regexp.MustCompile(`^(class|enum) "(.*?)" as (_\d+)( .*)?\{$`)
	c15RelRe   = regexp.MustCompile(`^(_\d+) (\*--|\}--) "(.*?)" (_\d+)$`)
	c15FieldRe = regexp.MustCompile(`^\+ (\S+) : (.*)$`)
)

type c15Class struct {
	Kind, Label, Alias string
	Fields             map[string][]string // name -> type texts (a name listed twice is an error found later)
	Items              []string
}

type c15Diagram struct {
	classes    []*c15Class
	edges      []string // "FromLabel -> ToLabel", only those with declared endpoints
	errs       []string // lines outside the emitted subset
	dupAlias   []string // alias declared by two classes
	undeclared []string // relationship endpoint that no class declares
}

func c15Read(out string) *c15Diagram {
	d := &c15Diagram{}
	byAlias := map[string]*c15Class{}
	var cur *c15Class
	type rel struct{ a, b string }
	var rels []rel
	for _, ln := range strings.Split(out, "\n") {
		s := strings.TrimSpace(ln)
		switch {
		case s == "" || strings.HasPrefix(s, "''") || s == "@startuml" || s == "@enduml":
			continue
		}
		if m := c15ClassRe.FindStringSubmatch(s); m != nil {
			if cur != nil {
				d.errs = append(d.errs, "class opened inside a class: "+s)
			}
			cur = &c15Class{Kind: m[1], Label: m[2], Alias: m[3], Fields: map[string][]string{}}
			d.classes = append(d.classes, cur)
			if prev, dup := byAlias[m[3]]; dup {
				d.dupAlias = append(d.dupAlias, fmt.Sprintf("%s: %s and %s", m[3], prev.Label, m[2]))
			} else {
				byAlias[m[3]] = cur
			}
			continue
		}
		if s == "}" {
			if cur == nil {
				d.errs = append(d.errs, "} without an open class")
			}
			cur = nil
			continue
		}
		if cur != nil {
			if cur.Kind == "enum" {
				cur.Items = append(cur.Items, s)
				continue
			}
			if m := c15FieldRe.FindStringSubmatch(s); m != nil {
				cur.Fields[m[1]] = append(cur.Fields[m[1]], m[2])
				continue
			}
			d.errs = append(d.errs, "unrecognised line in class "+cur.Label+": "+s)
			continue
		}
		if m := c15RelRe.FindStringSubmatch(s); m != nil {
			rels = append(rels, rel{m[1], m[4]})
			continue
		}
		d.errs = append(d.errs, "unrecognised line: "+s)
	}
	if cur != nil {
		d.errs = append(d.errs, "class never closed: "+cur.Label)
	}
	for _, r := range rels {
		a, oka := byAlias[r.a]
		b, okb := byAlias[r.b]
		if !oka {
			d.undeclared = append(d.undeclared, r.a)
		}
		if !okb {
			d.undeclared = append(d.undeclared, r.b)
		}
		if oka && okb {
			d.edges = append(d.edges, a.Label+" -> "+b.Label)
		}
	}
	sort.Strings(d.edges)
	return d
}

// ---------- check ----------

func checkC15(x *X, c c15Case) error {
	for _, e := range c.Excl {
		x.Exclude(e)
	}
	// the model's type graph
	kindOf := map[string]string{} // "App.Type" -> kind
	for _, a := range c.Apps {
		for _, t := range a.Types {
			kindOf[a.Name+"."+t.model()] = t.Kind
		}
	}
	var wantEdges []string
	optEdges := map[string]int{} // lines that may, but need not, be drawn (field references)
	fieldRefs := false
	var lists [][3]string
	shapeTupleToKeyed, shapeShared, shapeOneSeg := false, false, false
	lastSeen := map[string]string{}
	multi, selfRef, crossApp, dotted, shortColl, wrappedRef, listRef, fkRepeat := false, false, false, false, false, false, false, false
	shortApps := map[string]map[string]bool{}
	for _, a := range c.Apps {
		for _, t := range a.Types {
			full := a.Name + "." + t.model()
			if strings.Contains(t.model(), ".") {
				dotted = true
			}
			if shortApps[t.model()] == nil {
				shortApps[t.model()] = map[string]bool{}
			}
			shortApps[t.model()][a.Name] = true
			if t.Kind == "table" || t.Kind == "alias" {
				l := c15Last(t.model())
				if o, ok := lastSeen[l]; ok && o != full {
					shapeShared = true
				}
				lastSeen[l] = full
			}
			perTarget := map[string]int{}
			for _, f := range t.Fields {
				if f.Wrap == "list" {
					lists = append(lists, [3]string{a.Name, t.model(), f.Name})
				}
				if f.RefType == "" {
					continue
				}
				tgt := f.RefApp + "." + f.RefType
				tk, drawn := kindOf[tgt]
				if t.Kind == "table" && f.RefFld == "" {
					shapeOneSeg = true
				}
				if (t.Kind == "tuple" && (tk == "table" || tk == "alias")) || (tk == "table" && strings.Contains(f.RefType, ".")) {
					shapeTupleToKeyed = true
				}
				if f.FieldRef {
					fieldRefs = true
					if drawn {
						optEdges[full+" -> "+tgt]++
					}
					continue
				}
				if drawn {
					wantEdges = append(wantEdges, full+" -> "+tgt)
					perTarget[tgt]++
					if tgt == full {
						selfRef = true
					}
					if f.RefApp != a.Name {
						crossApp = true
					}
					if f.Wrap != "" {
						wrappedRef = true
					}
					if f.Wrap == "list" {
						listRef = true
					}
				}
			}
			for _, n := range perTarget {
				if n >= 2 {
					multi = true
					if t.Kind == "table" {
						fkRepeat = true
					}
				}
			}
		}
	}
	for _, as := range shortApps {
		if len(as) >= 2 {
			shortColl = true
		}
	}
	sort.Strings(wantEdges)
	cls := map[string]bool{"refs_ge2_same_target": multi, "self_reference": selfRef, "cross_app_reference": crossApp, "dotted_type_name": dotted,
		"short_name_in_two_apps": shortColl, "wrapped_reference": wrappedRef, "list_wrapped_reference": listRef, "table_fk_repeated": fkRepeat,
		"shape_tuple_refs_table_or_alias": shapeTupleToKeyed, "shape_tables_share_last_segment": shapeShared, "shape_table_one_segment_ref": shapeOneSeg}
	for k, v := range cls {
		if v {
			x.Class(k)
		}
	}
	for _, k := range kindOf {
		x.Class("type_" + k)
	}

	var res c15Res
	death, err, inconclusive := sandboxCall("c15.dm", c15Arg{Text: c.Text, Lists: lists}, &res)
	if inconclusive {
		x.Inconclusive("c15.dm overran once and did not reproduce")
		return nil
	}
	if death != nil {
		return finding(death.Sig(), "data-model diagram generation did not return (%s: %s)\n---- text\n%s", death.Kind, firstLine(death.Text), c.Text)
	}
	if err != nil {
		return fmt.Errorf("legal specification rejected: %v\n---- text\n%s", err, c.Text)
	}
	if res.Panic != "" {
		return finding("panic@"+res.Frame, "data-model diagram generation panicked: %s\n---- text\n%s", res.Panic, c.Text)
	}
	if res.Err != "" {
		return fmt.Errorf("error for a legal model: %s\n---- text\n%s", res.Err, c.Text)
	}
	if res.NOut != 1 {
		return fmt.Errorf("direct mode produced %d outputs, want 1\n---- text\n%s", res.NOut, c.Text)
	}
	d := c15Read(res.Out)
	fail := func(format string, a ...interface{}) error {
		return fmt.Errorf(format+"\n---- text\n%s\n---- diagram\n%s", append(a, c.Text, res.Out)...)
	}
	if len(d.errs) > 0 {
		return fail("diagram outside the emitted subset: %s", strings.Join(d.errs, "; "))
	}
	// the listed key-scheme defect shows as an alias shared by two classes or a line to an undeclared alias
	if (len(d.dupAlias) > 0 && shapeShared) || (len(d.undeclared) > 0 && shapeTupleToKeyed) {
		return finding(c15SigKey, "alias shared by two classes: %v; relationship endpoints that no class declares: %v\n---- text\n%s\n---- diagram\n%s",
			d.dupAlias, d.undeclared, c.Text, res.Out)
	}
	if len(d.dupAlias) > 0 {
		return fail("one alias declared by two classes: %v", d.dupAlias)
	}
	if len(d.undeclared) > 0 {
		return fail("relationship line to an alias that no class declares: %v", d.undeclared)
	}
	// classes: exactly one per covered type
	got := map[string][]*c15Class{}
	for _, cl := range d.classes {
		got[cl.Label] = append(got[cl.Label], cl)
	}
	var labels []string
	for l := range got {
		labels = append(labels, l)
	}
	sort.Strings(labels)
	for _, l := range labels {
		if _, ok := kindOf[l]; !ok {
			return fail("class %q appears but the model has no such type", l)
		}
	}
	for _, a := range c.Apps {
		for _, t := range a.Types {
			full := a.Name + "." + t.model()
			cs := got[full]
			if len(cs) != 1 {
				return fail("%d classes for %s %s, want exactly 1", len(cs), t.Kind, full)
			}
			cl := cs[0]
			if (t.Kind == "enum") != (cl.Kind == "enum") {
				return fail("%s %s drawn as %s", t.Kind, full, cl.Kind)
			}
			switch t.Kind {
			case "enum":
				gi := append([]string{}, cl.Items...)
				wi := append([]string{}, t.Items...)
				sort.Strings(gi)
				sort.Strings(wi)
				if strings.Join(gi, ",") != strings.Join(wi, ",") {
					return fail("enum %s lists %v, model has %v", full, gi, wi)
				}
			case "alias":
				if len(cl.Fields) != 0 {
					return fail("primitive alias %s drawn with fields", full)
				}
			default:
				want := map[string]c15Field{}
				for _, f := range t.Fields {
					want[f.Name] = f
				}
				var gn []string
				for n := range cl.Fields {
					gn = append(gn, n)
				}
				sort.Strings(gn)
				for _, n := range gn {
					if _, ok := want[n]; !ok {
						return fail("%s lists field %q that the model does not have", full, n)
					}
					if len(cl.Fields[n]) != 1 {
						return fail("%s lists field %q %d times", full, n, len(cl.Fields[n]))
					}
				}
				for _, f := range t.Fields {
					tt, ok := cl.Fields[f.Name]
					if !ok {
						return fail("%s does not list field %q", full, f.Name)
					}
					txt := tt[0]
					// the type must be recognisable: primitive name, or referenced type name; plus the collection word
					var need []string
					if f.FieldRef {
						// how a field reference is worded is not constrained
					} else if f.RefType != "" {
						need = append(need, f.RefType)
					} else if !(t.Kind == "table" && f.Wrap != "") {
						need = append(need, strings.ToLower(f.Prim))
					}
					switch f.Wrap {
					case "set":
						need = append(need, "Set")
					case "seq":
						need = append(need, "Sequence")
					case "list":
						need = append(need, "List")
					}
					for _, n := range need {
						if !strings.Contains(txt, n) {
							return fail("%s.%s is shown with type %q, which does not mention %q (declared: %s)", full, f.Name, txt, n, f.Spell)
						}
					}
				}
			}
		}
	}
	if fieldRefs {
		x.Class("tuple_field_reference")
	}
	// every demanded line is drawn; what is drawn beyond that must be an allowed optional line
	rest := map[string]int{}
	for _, e := range d.edges {
		rest[e]++
	}
	for _, e := range wantEdges {
		if rest[e] == 0 {
			return fail("relationship lines differ from the model's references: %q is missing\nwant %v (optional %v)\ngot  %v", e, wantEdges, optEdges, d.edges)
		}
		rest[e]--
	}
	for e, n := range rest {
		if n > optEdges[e] {
			return fail("relationship lines differ from the model's references: %q is drawn %d time(s) more than the model's references allow\nwant %v (optional %v)\ngot  %v", e, n-optEdges[e], wantEdges, optEdges, d.edges)
		}
	}
	if multi || shortColl {
		x.NonTrivial(c.Text)
		x.Sample(c.Text)
	}
	return nil
}

var c15Diag = Define("C15", "classes",
	"Random data models: 1-3 applications x 1-5 types (thorough tier: 1-4 x 1-7) drawn from a small name pool that contains a short name (X), dotted names (Ty.X, Ty.Item, written with %2E) and names reused across applications; kinds tuple (1/2), table (1/4), enum, primitive alias. Tuple fields (1-6): primitive (every spelling of genPrim) or a reference to any type of any application (local or App.Type spelling; 1 in 3 repeats the previous target, self-references arise) or, 1 in 8, a reference to a *field* of a tuple of the same application (T.a; a line to T is allowed but not demanded, any other line is an error; the name pool lets a type be called like a field), bare / set / sequence / list (a sequence turned into a list in the compiled model), optional or not. Tables: int primary key plus primitive columns, foreign keys Table.id (repeated targets, a few across applications) and one-segment type references. Oracle on the PlantUML of GenerateDataModels (direct mode, one diagram; every line must belong to the emitted subset): exactly one class per type with the right label and kind, no other class, each alias declared once, every field listed once with a type text that names the primitive or the referenced type and the collection word, enum items equal, and the multiset of relationship lines (resolved through the alias table) equal to one line per field that refers to a declared type; a line to an alias no class declares is an error. Non-trivial: >=2 fields of one type refer to the same target, or one short name is declared in two applications; distinct by text.",
	genC15, checkC15)

func TestC15(t *testing.T) {
	checkKnown(t, "C15")
	c15Diag.Run(t, scale(1800, 8000))
	c15PerApp.Run(t, scale(500, 2500))
}
