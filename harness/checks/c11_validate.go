package checks

import (
	"encoding/xml"
	"fmt"
	"io"
	"strings"
)

// c11ValidateForeign checks a generated foreign document before it is handed to an importer:
// OpenAPI documents with the own structural pass and kin-openapi, XSD for XML well-formedness.
func c11ValidateForeign(c c11Case) error {
	switch c.Format {
	case "oas2", "oas3":
		var doc c12Obj
		var err error
		if strings.HasSuffix(c.Path, ".json") {
			doc, err = c12DecodeJSON([]byte(c.Content))
		} else {
			doc, err = c12DecodeYAML([]byte(c.Content))
		}
		if err != nil {
			return err
		}
		v := 2
		if c.Format == "oas3" {
			v = 3
		}
		if err := c12Structural(doc, v, false); err != nil {
			return err
		}
		var lerr error
		if v == 2 {
			lerr, _ = c12LibValidate2(doc)
		} else {
			lerr, _ = c12LibValidate3(doc)
		}
		return lerr
	case "xsd":
		dec := xml.NewDecoder(strings.NewReader(c.Content))
		for {
			_, err := dec.Token()
			if err == io.EOF {
				return nil
			}
			if err != nil {
				return fmt.Errorf("not well-formed XML: %v", err)
			}
		}
	}
	return nil
}
