package checks

// sandbox.go — persistent worker subprocess. Several code paths under test end the
// process (logrus.Fatal, os.Exit in eval, stack exhaustion, panics in goroutines), which
// no recover() can catch; those are called through sandboxCall so that a death is
// attributed to the in-flight case and rapid keeps shrinking.
//
// Protocol: the child is this same test binary started with VERIF_WORKER=1. It reads one
// JSON request per line on stdin and answers one JSON line on fd 3. Its stdout/stderr are
// captured (tail kept) for crash signatures.

import (
	"bufio"
	"bytes"
	"encoding/json"
	"fmt"
	"io"
	"os"
	"os/exec"
	"regexp"
	"runtime"
	"runtime/debug"
	"strings"
	"sync"
	"time"

	"github.com/sirupsen/logrus"
)

type workerReq struct {
	Op  string          `json:"op"`
	Arg json.RawMessage `json:"arg"`
}

type workerResp struct {
	Res   json.RawMessage `json:"res,omitempty"`
	Err   string          `json:"err,omitempty"`
	Panic string          `json:"panic,omitempty"`
	Frame string          `json:"frame,omitempty"`
}

type opFn func(arg json.RawMessage) (interface{}, error)

var workerOps = map[string]opFn{}

func registerOp(name string, fn opFn) struct{} {
	workerOps[name] = fn
	return struct{}{}
}

const exitMarkerLogrus = 97

func workerMain() {
	debug.SetMaxStack(128 << 20)
	debug.SetMemoryLimit(3 << 30)
	logrus.StandardLogger().ExitFunc = func(code int) {
		fmt.Fprintf(os.Stderr, "\nVERIF-EXIT logrus exit(%d)\n%s\n", code, debug.Stack())
		os.Exit(exitMarkerLogrus)
	}
	logrus.SetOutput(io.Discard)
	out := os.NewFile(3, "results")
	in := bufio.NewReaderSize(os.Stdin, 1<<20)
	w := bufio.NewWriter(out)
	for {
		line, err := in.ReadBytes('\n')
		if len(line) == 0 && err != nil {
			return
		}
		var req workerReq
		resp := workerResp{}
		if e := json.Unmarshal(line, &req); e != nil {
			resp.Err = "bad request: " + e.Error()
		} else if fn := workerOps[req.Op]; fn == nil {
			resp.Err = "unknown op " + req.Op
		} else {
			func() {
				defer func() {
					if r := recover(); r != nil {
						st := string(debug.Stack())
						resp.Panic = fmt.Sprint(r)
						resp.Frame = repoFrame(st)
					}
				}()
				res, e := fn(req.Arg)
				if e != nil {
					resp.Err = e.Error()
					if resp.Err == "" {
						resp.Err = "error"
					}
				}
				if res != nil {
					b, me := json.Marshal(res)
					if me != nil {
						resp.Err = "marshal: " + me.Error()
					} else {
						resp.Res = b
					}
				}
			}()
		}
		b, _ := json.Marshal(resp)
		w.Write(b)
		w.WriteByte('\n')
		w.Flush()
		if err != nil {
			return
		}
	}
}

type tailBuf struct {
	mu  sync.Mutex
	buf []byte
}

func (t *tailBuf) Write(p []byte) (int, error) {
	t.mu.Lock()
	t.buf = append(t.buf, p...)
	if len(t.buf) > 1<<16 {
		t.buf = t.buf[len(t.buf)-(1<<16):]
	}
	t.mu.Unlock()
	return len(p), nil
}
func (t *tailBuf) String() string {
	t.mu.Lock()
	defer t.mu.Unlock()
	return string(t.buf)
}
func (t *tailBuf) Reset() { t.mu.Lock(); t.buf = t.buf[:0]; t.mu.Unlock() }

type worker struct {
	cmd   *exec.Cmd
	stdin io.WriteCloser
	res   *bufio.Reader
	resF  *os.File
	tail  *tailBuf
}

var (
	sbMu      sync.Mutex
	sbWorker  *worker
	sbSpawned int
)

func spawnWorker() (*worker, error) {
	exe, err := os.Executable()
	if err != nil {
		return nil, err
	}
	pr, pw, err := os.Pipe()
	if err != nil {
		return nil, err
	}
	cmd := exec.Command(exe, "-test.run", "^$")
	cmd.Env = append(os.Environ(), "VERIF_WORKER=1", "VERIF_OUT=", "GOTRACEBACK=all", "GOMAXPROCS=2")
	cmd.ExtraFiles = []*os.File{pw}
	tail := &tailBuf{}
	cmd.Stdout = tail
	cmd.Stderr = tail
	stdin, err := cmd.StdinPipe()
	if err != nil {
		return nil, err
	}
	if err := cmd.Start(); err != nil {
		return nil, err
	}
	pw.Close()
	sbSpawned++
	return &worker{cmd: cmd, stdin: stdin, res: bufio.NewReaderSize(pr, 1<<20), resF: pr, tail: tail}, nil
}

func (w *worker) kill() {
	w.stdin.Close()
	_ = w.cmd.Process.Kill()
	_ = w.cmd.Wait()
	w.resF.Close()
}

func shutdownSandbox() {
	sbMu.Lock()
	defer sbMu.Unlock()
	if sbWorker != nil {
		sbWorker.kill()
		sbWorker = nil
	}
}

// Death describes how the code under test ended the worker (or a recovered panic inside it).
type Death struct {
	Kind  string // panic | exit | fatal | timeout
	Frame string // first frame inside github.com/anz-bank/sysl
	Text  string
}

func (d *Death) Sig() string { return d.Kind + "@" + d.Frame }

var fatalRe = regexp.MustCompile(`(?m)^(fatal error: .*|panic: .*|VERIF-EXIT .*)$`)

func classifyDeath(tail string, waitErr error) *Death {
	d := &Death{Kind: "exit", Frame: "?", Text: ""}
	if m := fatalRe.FindString(tail); m != "" {
		d.Text = m
		switch {
		case strings.HasPrefix(m, "fatal error"):
			d.Kind = "fatal"
		case strings.HasPrefix(m, "panic"):
			d.Kind = "panic"
		}
		idx := strings.Index(tail, m)
		d.Frame = repoFrame(tail[idx:])
		if d.Kind == "fatal" && strings.Contains(m, "stack overflow") {
			// the top of a runaway recursion: report the most frequent repo frame
			d.Frame = recursionFrame(tail[idx:])
		}
	} else {
		d.Text = fmt.Sprintf("worker ended: %v; tail: %s", waitErr, lastN(tail, 600))
		// os.Exit from library code leaves no trace; keep what we have
	}
	return d
}

func recursionFrame(st string) string {
	counts := map[string]int{}
	best, bestN := "?", 0
	for _, l := range strings.Split(st, "\n") {
		l = strings.TrimSpace(l)
		if strings.HasPrefix(l, "github.com/anz-bank/sysl/") {
			fn := l
			if j := strings.LastIndex(fn, "("); j > 0 {
				fn = fn[:j]
			}
			fn = strings.TrimPrefix(fn, "github.com/anz-bank/sysl/")
			counts[fn]++
			if counts[fn] > bestN {
				best, bestN = fn, counts[fn]
			}
		}
	}
	return best
}

func lastN(s string, n int) string {
	if len(s) > n {
		return s[len(s)-n:]
	}
	return s
}

var sandboxTimeout = 30 * time.Second

// sandboxCall runs op(arg) in the worker. Exactly one of (death, err) may be non-nil:
// err is an error *returned* by the code under test (a legitimate outcome for most
// properties); death means it panicked, exited, overflowed the stack or overran its time bound.
// inconclusive is set when an overrun did not reproduce in a fresh worker.
func sandboxCall(op string, arg interface{}, res interface{}) (death *Death, err error, inconclusive bool) {
	sbMu.Lock()
	defer sbMu.Unlock()
	d, e, timedOut := sandboxCallOnce(op, arg, res)
	if !timedOut {
		return d, e, false
	}
	// retry once in a fresh worker: only a reproduced overrun counts
	d2, e2, timedOut2 := sandboxCallOnce(op, arg, res)
	if timedOut2 {
		return d2, nil, false
	}
	_ = d2
	if d2 != nil {
		return d2, nil, false
	}
	return nil, e2, true
}

func sandboxCallOnce(op string, arg interface{}, res interface{}) (*Death, error, bool) {
	if sbWorker == nil {
		w, err := spawnWorker()
		if err != nil {
			panic("cannot spawn sandbox worker: " + err.Error())
		}
		sbWorker = w
	}
	w := sbWorker
	w.tail.Reset()
	ab, err := json.Marshal(arg)
	if err != nil {
		panic("sandboxCall: marshal arg: " + err.Error())
	}
	rb, _ := json.Marshal(workerReq{Op: op, Arg: ab})
	type rd struct {
		line []byte
		err  error
	}
	ch := make(chan rd, 1)
	go func() {
		if _, err := w.stdin.Write(append(rb, '\n')); err != nil {
			ch <- rd{nil, err}
			return
		}
		line, err := w.res.ReadBytes('\n')
		ch <- rd{line, err}
	}()
	select {
	case r := <-ch:
		if r.err != nil || len(bytes.TrimSpace(r.line)) == 0 {
			werr := w.cmd.Wait()
			time.Sleep(10 * time.Millisecond)
			d := classifyDeath(w.tail.String(), werr)
			w.stdin.Close()
			w.resF.Close()
			sbWorker = nil
			return d, nil, false
		}
		var resp workerResp
		if e := json.Unmarshal(r.line, &resp); e != nil {
			panic("sandbox: bad response: " + e.Error())
		}
		if resp.Panic != "" {
			return &Death{Kind: "panic", Frame: resp.Frame, Text: resp.Panic}, nil, false
		}
		if res != nil && len(resp.Res) > 0 {
			if e := json.Unmarshal(resp.Res, res); e != nil {
				panic("sandbox: bad result: " + e.Error())
			}
		}
		if resp.Err != "" {
			return nil, fmt.Errorf("%s", resp.Err), false
		}
		return nil, nil, false
	case <-time.After(sandboxTimeout):
		// ask for a goroutine dump to learn where it spins, then kill
		_ = w.cmd.Process.Signal(sigQuit)
		time.Sleep(300 * time.Millisecond)
		tail := w.tail.String()
		w.kill()
		sbWorker = nil
		fr := "?"
		if i := strings.Index(tail, "SIGQUIT"); i >= 0 {
			fr = recursionFrame(tail[i:])
		}
		return &Death{Kind: "timeout", Frame: fr, Text: fmt.Sprintf("no answer within %v", sandboxTimeout)}, nil, true
	}
}

// deathErr converts a Death into a Finding keyed by its signature.
func deathErr(d *Death, what string) error {
	return finding(d.Sig(), "%s: %s: %s", what, d.Kind, firstLine(d.Text))
}

func firstLine(s string) string {
	if i := strings.IndexByte(s, '\n'); i >= 0 {
		return s[:i]
	}
	return s
}

var _ = runtime.GOOS
