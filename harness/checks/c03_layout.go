package checks

// c03_layout.go — the layout transformations of C03, applied to text, and the line
// classifiers that decide where a whole-line comment may be inserted.
//
// Width of a leading-whitespace run follows the lexer's documented rule (space = 1,
// tab = 4, pkg/grammar/lexer_impl.go calcSpaces). A transformation never touches
// anything after the first non-blank character of a line.

import (
	"strings"
)

// c03Ops is one composition of layout transformations. The slices are read cyclically
// (index = original line number), so a short slice is a periodic pattern and rapid can
// shrink it.
type c03Ops struct {
	Scale int `json:"scale"` // every line's leading width is multiplied by Scale (1..4)
	// Tabs[i%len]: v%4 = how many 4-space groups of line i's leading run are respelled as
	// tabs (at most what fits); v/4: 0 = the tabs come AFTER the unaligned space remainder
	// ("  \t" for width 6), 1 = tabs first, 2 = remainder, tabs, then the other spaces.
	Tabs []int `json:"tabs"`
	// Blanks[i%len] for the boundary before line i (and i = #lines for the end):
	// 1 = insert an empty line, 2 = a whitespace-only line, 3 = both; anything else nothing.
	Blanks []int `json:"blanks"`
	// Cmts[i%len] for the declaration boundary before line i, only where the classifier
	// says a comment is safe: 1 = "# …" at column 0, 2 = at the indentation of the next
	// line, 3 = oddly indented (spaces, tab, space), 4 = bare "#", 5 = indented bare "#",
	// 6 = two comment lines (column 0 + indented); anything else nothing.
	Cmts []int `json:"cmts"`
}

type c03Stats struct {
	LeadChanged   int // lines whose leading whitespace string changed
	TabLines      int // lines that received at least one tab
	UnalignedTabs int // lines where a tab follows 1..3 spaces (tab=4 vs next-multiple-of-4 differ)
	BlankIns      int
	WsOnlyIns     int
	CommentIns    int
	Boundaries    int // comment boundaries offered
	Unsafe        int // of which the classifier refused
	FrozenLines   int // lines left alone because they start inside a multi-line quoted string
}

func (s c03Stats) inserted() int { return s.BlankIns + s.WsOnlyIns + s.CommentIns }

func c03LeadWidth(l string) (int, string) {
	w, i := 0, 0
	for i < len(l) && (l[i] == ' ' || l[i] == '\t') {
		if l[i] == '\t' {
			w += 4
		} else {
			w++
		}
		i++
	}
	return w, l[i:]
}

func c03Blank(rest string) bool { return rest == "" || rest == "\r" }

func c03At(xs []int, i int) int {
	if len(xs) == 0 {
		return 0
	}
	return xs[i%len(xs)]
}

func c03Lead(width, code int) (string, bool) {
	nt := code % 4
	mode := (code / 4) % 3
	if nt > width/4 {
		nt = width / 4
	}
	sp := width - 4*nt
	rem := sp % 4
	tabs := strings.Repeat("\t", nt)
	switch mode {
	case 1:
		return tabs + strings.Repeat(" ", sp), false
	case 2:
		return strings.Repeat(" ", rem) + tabs + strings.Repeat(" ", sp-rem), nt > 0 && rem > 0
	default:
		if nt == 0 {
			return strings.Repeat(" ", sp), false
		}
		// all the spaces first, then the tabs: "      \t" is width 10 under tab=4 but 8
		// under "next multiple of 4"
		return strings.Repeat(" ", sp) + tabs, sp%4 != 0
	}
}

// c03Plan is what a line classifier says about a text of n lines (both slices have n+1
// entries, the last one standing for the end of the file):
//
//	Safe[i]    a whole-line comment may be put before line i (declaration boundary);
//	Frozen[i]  line i starts inside a quoted string that spans lines: its leading whitespace
//	           is string content, so the line is not re-indented and nothing is inserted before it.
type c03Plan struct {
	Safe   []bool
	Frozen []bool
}

// c03Transform applies ops to text under plan.
func c03Transform(text string, ops c03Ops, plan c03Plan) (string, c03Stats) {
	var st c03Stats
	safe, frozen := plan.Safe, plan.Frozen
	isFrozen := func(i int) bool { return i < len(frozen) && frozen[i] }
	scale := ops.Scale
	if scale < 1 {
		scale = 1
	}
	if scale > 4 {
		scale = 4
	}
	lines, trailingNL, eol := c03SplitLines(text)
	// new leading strings first (a comment may copy the next line's indentation)
	leads := make([]string, len(lines))
	rests := make([]string, len(lines))
	for i, l := range lines {
		w, rest := c03LeadWidth(l)
		rests[i] = rest
		if c03Blank(rest) || isFrozen(i) {
			leads[i] = l[:len(l)-len(rest)]
			continue
		}
		lead, unaligned := c03Lead(w*scale, c03At(ops.Tabs, i))
		leads[i] = lead
		if lead != l[:len(l)-len(rest)] {
			st.LeadChanged++
		}
		if strings.Contains(lead, "\t") {
			st.TabLines++
		}
		if unaligned {
			st.UnalignedTabs++
		}
	}
	var out []string
	boundary := func(i int) {
		if isFrozen(i) {
			st.FrozenLines++
			return
		}
		// comments
		st.Boundaries++
		if i < len(safe) && safe[i] {
			next := ""
			for j := i; j < len(lines); j++ {
				if !c03Blank(rests[j]) {
					next = leads[j]
					break
				}
			}
			switch c03At(ops.Cmts, i) {
			case 1:
				out = append(out, "# c03 comment at column 0"+eol)
				st.CommentIns++
			case 2:
				out = append(out, next+"# c03 comment at the indentation of the next line"+eol)
				st.CommentIns++
			case 3:
				out = append(out, "  \t # c03 oddly indented comment"+eol)
				st.CommentIns++
			case 4:
				out = append(out, "#"+eol)
				st.CommentIns++
			case 5:
				out = append(out, next+"  #"+eol)
				st.CommentIns++
			case 6:
				out = append(out, "# c03 first of two"+eol, next+" # c03 second of two: [x] <- y"+eol)
				st.CommentIns += 2
			}
		} else {
			st.Unsafe++
		}
		switch c03At(ops.Blanks, i) {
		case 1:
			out = append(out, ""+eol)
			st.BlankIns++
		case 2:
			out = append(out, "   \t "+eol)
			st.WsOnlyIns++
		case 3:
			out = append(out, ""+eol, "\t"+eol)
			st.BlankIns++
			st.WsOnlyIns++
		}
	}
	for i := range lines {
		boundary(i)
		out = append(out, leads[i]+rests[i])
	}
	res := strings.Join(out, "\n")
	if trailingNL {
		res += "\n"
		// boundary after the last line: only when the last line is newline-terminated
		save := out
		out = nil
		boundary(len(lines))
		if len(out) > 0 {
			res += strings.Join(out, "\n") + "\n"
		}
		out = save
	}
	return res, st
}

// c03SplitLines splits at "\n"; lines keep a trailing "\r" if the file has CRLF endings.
// eol is "\r" for CRLF files (to be appended to inserted lines) else "".
func c03SplitLines(text string) (lines []string, trailingNL bool, eol string) {
	lines = strings.Split(text, "\n")
	if n := len(lines); n > 0 && lines[n-1] == "" {
		lines = lines[:n-1]
		trailingNL = true
	}
	if len(lines) > 0 && strings.HasSuffix(lines[0], "\r") {
		eol = "\r"
	}
	return
}

// c03SafeGenerated: in text written by Render every line starts an element of its own
// (application, annotation, type, field, enum item, endpoint, REST path, method, statement,
// choice label) except the continuation lines of a "| doc" run, which together are one
// statement. A comment is allowed at every boundary except between two "|" lines.
func c03PlanGenerated(text string) c03Plan {
	lines, _, _ := c03SplitLines(text)
	safe := make([]bool, len(lines)+1)
	prevPipe := false
	for i, l := range lines {
		_, rest := c03LeadWidth(l)
		pipe := strings.HasPrefix(rest, "|")
		safe[i] = !(pipe && prevPipe)
		if !c03Blank(rest) {
			prevPipe = pipe
		}
	}
	safe[len(lines)] = true
	return c03Plan{Safe: safe, Frozen: make([]bool, len(lines)+1)}
}

// c03PlanCorpus is the conservative classifier for hand-written corpus files. A boundary is a
// declaration boundary unless it lies
//   - inside a "!view" body (from the !view line to the next code line indented no deeper:
//     a "#" at column 0 is not a token in the expression mode),
//   - next to a "|" line (doc strings and multi-line annotation text: consecutive "|" lines
//     form one value),
//   - inside an open bracket that spans lines ("[", "(", "{" counted outside quotes).
//
// Lines that start inside a quoted string left open by an earlier line are frozen. A quote
// character opens a string only at the start of the line or after one of " \t=[,(:" (so the
// apostrophe of "it's" in free text does not); "|" lines and comments are free text.
// Bracket counting restarts at every code line in column 0 (free text such as "(see x" must
// not disable the rest of the file). Lines that are blank or comments never end a view.
func c03PlanCorpus(text string) c03Plan {
	lines, _, _ := c03SplitLines(text)
	safe := make([]bool, len(lines)+1)
	frozen := make([]bool, len(lines)+1)
	viewIndent := -1
	depth := 0
	inQuote := byte(0)
	prevPipe := false
	scan := func(rest string) {
		for j := 0; j < len(rest); j++ {
			c := rest[j]
			if inQuote != 0 {
				if c == '\\' && inQuote == '"' {
					j++
				} else if c == inQuote {
					inQuote = 0
				}
				continue
			}
			switch c {
			case '"', '\'':
				if j == 0 || strings.IndexByte(" \t=[,(:", rest[j-1]) >= 0 {
					inQuote = c
				}
			case '[', '(', '{':
				depth++
			case ']', ')', '}':
				if depth > 0 {
					depth--
				}
			}
		}
	}
	for i, l := range lines {
		if inQuote != 0 {
			// continuation of a string: content, not layout
			frozen[i] = true
			scan(strings.TrimSuffix(l, "\r"))
			continue
		}
		w, rest := c03LeadWidth(l)
		rest = strings.TrimSuffix(rest, "\r")
		blank := rest == ""
		comment := strings.HasPrefix(rest, "#")
		code := !blank && !comment
		if code && w == 0 {
			depth = 0
		}
		if viewIndent >= 0 && code && w <= viewIndent && depth == 0 {
			viewIndent = -1
		}
		pipe := strings.HasPrefix(rest, "|")
		safe[i] = viewIndent < 0 && depth == 0 && !pipe && !prevPipe
		if !code {
			continue
		}
		prevPipe = pipe
		if viewIndent < 0 && strings.HasPrefix(rest, "!view") {
			viewIndent = w
		}
		if pipe {
			continue // free text to the end of the line
		}
		scan(rest)
	}
	frozen[len(lines)] = inQuote != 0
	safe[len(lines)] = viewIndent < 0 && depth == 0 && inQuote == 0 && !prevPipe
	return c03Plan{Safe: safe, Frozen: frozen}
}

// c03Nesting returns the deepest indentation level of text (number of distinct open indents).
func c03Nesting(text string) int {
	lines, _, _ := c03SplitLines(text)
	var stack []int
	max := 0
	for _, l := range lines {
		w, rest := c03LeadWidth(l)
		if c03Blank(rest) || strings.HasPrefix(rest, "#") {
			continue
		}
		for len(stack) > 0 && stack[len(stack)-1] >= w {
			stack = stack[:len(stack)-1]
		}
		if w > 0 {
			stack = append(stack, w)
		}
		if len(stack) > max {
			max = len(stack)
		}
	}
	return max
}
