package checks

import (
	"fmt"
	"sort"
	"strconv"
	"strings"
)

type posRec struct {
	Key  string
	Line int
	Col  int
}

type renderer struct {
	sb         strings.Builder
	ind        string
	restPrefix *string
	nline      int
	pos        []posRec
	epKey      string
}

// mark records that the element identified by key starts on the next line written at this depth
func (r *renderer) mark(depth int, key string) {
	r.pos = append(r.pos, posRec{key, r.nline, depth * len([]rune(r.ind))})
}

func (r *renderer) line(depth int, s string) {
	r.nline += 1 + strings.Count(s, "\n")
	r.sb.WriteString(strings.Repeat(r.ind, depth))
	r.sb.WriteString(s)
	r.sb.WriteString("\n")
}

func qstr(s string) string { return strconv.Quote(s) }

func renderAttrV(v AttrV) string {
	if v.IsArr {
		var parts []string
		for _, e := range v.A {
			parts = append(parts, renderAttrV(e))
		}
		return "[" + strings.Join(parts, ", ") + "]"
	}
	return qstr(*v.S)
}

func sortedKeys(m map[string]AttrV) []string {
	var ks []string
	for k := range m {
		ks = append(ks, k)
	}
	sort.Strings(ks)
	return ks
}

func renderMetaInline(m Meta) string {
	var parts []string
	for _, tg := range m.Tags {
		parts = append(parts, "~"+tg)
	}
	for _, k := range sortedKeys(m.Attrs) {
		parts = append(parts, k+"="+renderAttrV(m.Attrs[k]))
	}
	if len(parts) == 0 {
		return ""
	}
	return " [" + strings.Join(parts, ", ") + "]"
}

func (r *renderer) annos(depth int, m Meta) {
	for _, k := range sortedKeys(m.Annos) {
		if v := m.Annos[k]; len(v.lines) > 0 {
			r.line(depth, "@"+k+" =:")
			for _, l := range v.lines {
				if l == "" {
					r.line(depth+1, "|")
				} else {
					r.line(depth+1, "| "+l)
				}
			}
			continue
		}
		r.line(depth, "@"+k+" = "+renderAttrV(m.Annos[k]))
	}
}

func renderTExpr(e TExpr) string {
	s := e.spelling
	switch e.Wrap {
	case "set":
		s = "set of " + s
	case "seq":
		s = "sequence of " + s
	}
	if e.Opt {
		s += "?"
	}
	return s
}

func (r *renderer) stmts(depth int, ss []*Stmt, cur *App) {
	r.stmtsAt(depth, ss, cur, r.epKey)
}

func (r *renderer) stmtsAt(depth int, ss []*Stmt, cur *App, prefix string) {
	idx := -1
	prevDoc := false
	for _, s := range ss {
		if !(s.keyword == "doc" && prevDoc) {
			idx++
			if prefix != "" {
				r.mark(depth, fmt.Sprintf("stmt %s/%d", prefix, idx))
			}
		}
		prevDoc = s.keyword == "doc"
		key := fmt.Sprintf("%s/%d", prefix, idx)
		if prefix == "" {
			key = ""
		}
		meta := renderMetaInline(s.Meta)
		switch s.Kind {
		case "action":
			if s.keyword == "doc" {
				for _, l := range s.docLines {
					r.line(depth, "| "+l)
				}
			} else {
				r.line(depth, s.Text+meta)
			}
		case "call":
			tgt := appKey(s.Target)
			if s.selfDot {
				tgt = "."
			}
			args := ""
			if len(s.Args) > 0 {
				args = "(" + strings.Join(s.Args, ", ") + ")"
			}
			r.line(depth, tgt+" <- "+s.Endpoint+args+meta)
		case "ret":
			r.line(depth, "return "+s.Text)
		case "cond":
			r.line(depth, s.Text+":")
			r.stmtsAt(depth+1, s.Children, cur, key)
		case "group":
			r.line(depth, s.Text+":")
			r.stmtsAt(depth+1, s.Children, cur, key)
		case "loop":
			r.line(depth, s.keyword+" "+s.Text+":")
			r.stmtsAt(depth+1, s.Children, cur, key)
		case "foreach":
			r.line(depth, "for each "+s.Text+":")
			r.stmtsAt(depth+1, s.Children, cur, key)
		case "alt":
			r.line(depth, "one of:")
			for ci, c := range s.Choices {
				r.line(depth+1, c.Cond+":")
				ck := ""
				if key != "" {
					ck = fmt.Sprintf("%s/c%d", key, ci)
				}
				r.stmtsAt(depth+2, c.Stmts, cur, ck)
			}
		}
	}
}

func renderParams(ps []Param) string {
	if len(ps) == 0 {
		return ""
	}
	var parts []string
	for _, p := range ps {
		parts = append(parts, p.Name+" <: "+renderTExpr(p.T)+renderMetaInline(p.T.Meta))
	}
	return " (" + strings.Join(parts, ", ") + ")"
}

func (r *renderer) rest(depth int, n *RestNode, a *App) {
	r.line(depth, n.Seg+renderMetaInline(n.Meta)+":")
	for _, m := range n.Methods {
		q := ""
		if len(m.Query) > 0 {
			var parts []string
			for _, p := range m.Query {
				s := p.Name + "=" + p.T.spelling
				if p.T.Opt {
					s += "?"
				}
				parts = append(parts, s)
			}
			q = " ?" + strings.Join(parts, "&")
		}
		if r.restPrefix != nil {
			k := appKey(a.Name) + " <- " + m.Method + " " + *r.restPrefix + restSegKey(n)
			r.mark(depth+1, "ep "+k)
			r.epKey = k
		}
		r.line(depth+1, m.Method+renderParams(m.Params)+q+renderMetaInline(m.Meta)+":")
		r.stmts(depth+2, m.Stmts, a)
		r.epKey = ""
	}
	for _, c := range n.Children {
		if r.restPrefix != nil {
			old := *r.restPrefix
			np := old + restSegKey(n)
			r.restPrefix = &np
			r.rest(depth+1, c, a)
			r.restPrefix = &old
		} else {
			r.rest(depth+1, c, a)
		}
	}
}

func restSegKey(n *RestNode) string {
	if n.PathVar != nil {
		return "/{" + n.PathVar.Name + "}"
	}
	return n.Seg
}

func Render(in *Intent, indent string) string {
	s, _ := RenderPos(in, indent)
	return s
}

func RenderPos(in *Intent, indent string) (string, []posRec) {
	r := &renderer{ind: indent}
	empty := ""
	r.restPrefix = &empty
	for _, a := range in.Apps {
		r.mark(0, "app "+appKey(a.Name))
		hdr := appKey(a.Name)
		if a.Long != "" {
			hdr += " " + qstr(a.Long)
		}
		hdr += renderMetaInline(a.Meta) + ":"
		r.line(0, hdr)
		r.annos(1, a.Meta)
		body := false
		for _, mx := range a.Mixins {
			r.line(1, "-|> "+appKey(mx))
			body = true
		}
		for _, td := range a.Types {
			body = true
			switch td.Kind {
			case "tuple", "relation":
				kw := "!type"
				if td.Kind == "relation" {
					kw = "!table"
				}
				r.mark(1, "type "+appKey(a.Name)+"."+unesc(td.Name))
				if len(td.Fields) == 0 && len(td.Meta.Annos) == 0 {
					// a declaration without a body: the '...' placeholder form
					r.line(1, kw+" "+td.Name+renderMetaInline(td.Meta)+": ...")
					continue
				}
				r.line(1, kw+" "+td.Name+renderMetaInline(td.Meta)+":")
				r.annos(2, td.Meta)
				for _, f := range td.Fields {
					r.mark(2, "field "+appKey(a.Name)+"."+unesc(td.Name)+"."+f.Name)
					l := f.Name + " <: " + renderTExpr(f.T) + renderMetaInline(f.T.Meta)
					if len(f.T.Annos) > 0 {
						r.line(2, l+":")
						r.annos(3, f.T.Meta)
					} else {
						r.line(2, l)
					}
				}
			case "enum":
				r.line(1, "!enum "+td.Name+renderMetaInline(td.Meta)+":")
				for _, e := range td.Enum {
					r.line(2, fmt.Sprintf("%s: %d", e.Name, e.Val))
				}
			case "alias":
				if td.AliasIndented {
					r.line(1, "!alias "+td.Name+renderMetaInline(td.Meta)+":")
					r.line(2, renderTExpr(*td.Alias))
				} else {
					r.line(1, "!alias "+td.Name+renderMetaInline(td.Meta)+": "+renderTExpr(*td.Alias))
				}
			case "union":
				r.line(1, "!union "+td.Name+renderMetaInline(td.Meta)+":")
				for _, u := range td.Union {
					r.line(2, renderTExpr(u))
				}
			}
		}
		for _, ep := range a.Eps {
			body = true
			r.mark(1, "ep "+appKey(a.Name)+" <- "+ep.Name)
			r.epKey = appKey(a.Name) + " <- " + ep.Name
			if ep.Kind == "sub" {
				name := subName(ep)
				r.pos[len(r.pos)-1].Key = "ep " + appKey(a.Name) + " <- " + name
				r.epKey = appKey(a.Name) + " <- " + name
				h := appKey(ep.Source) + " -> " + ep.Event + renderMetaInline(ep.Meta) + ":"
				if len(ep.Stmts) == 0 {
					r.line(1, h+" ...")
				} else {
					r.line(1, h)
					r.stmts(2, ep.Stmts, a)
				}
				continue
			}
			if ep.Kind == "event" {
				r.epKey = ""
				h := "<-> " + ep.Name + renderMetaInline(ep.Meta) + ":"
				if len(ep.Stmts) == 0 {
					r.line(1, h+" ...")
				} else {
					r.line(1, h)
					r.stmts(2, ep.Stmts, a)
				}
				continue
			}
			hdr := ep.Name
			if ep.Long != "" {
				hdr += " " + qstr(ep.Long)
			}
			hdr += renderParams(ep.Params) + renderMetaInline(ep.Meta) + ":"
			switch {
			case len(ep.Meta.Annos) > 0:
				r.line(1, hdr)
				r.annos(2, ep.Meta)
				r.stmts(2, ep.Stmts, a)
			case len(ep.Stmts) == 0:
				r.line(1, hdr+" ...")
			default:
				r.line(1, hdr)
				r.stmts(2, ep.Stmts, a)
			}
		}
		if len(a.Collector) > 0 {
			body = true
			r.line(1, ".. * <- *:")
			for _, l := range a.Collector {
				if l.Kind == "ep" {
					r.line(2, l.EpName+renderMetaInline(l.Meta))
				} else {
					r.line(2, appKey(l.Target)+" <- "+l.Endpoint+renderMetaInline(l.Meta))
				}
			}
		}
		for _, n := range a.Rest {
			body = true
			r.rest(1, n, a)
		}
		if !body && len(a.Meta.Annos) == 0 {
			r.line(1, "...")
		}
		r.sb.WriteString("\n")
		r.nline++
	}
	return r.sb.String(), r.pos
}

// ---------- expected facts from the intent ----------

func cloneMetaFacts(m Meta) Meta {
	out := Meta{Tags: append([]string(nil), m.Tags...)}
	for k, v := range m.Attrs {
		if out.Attrs == nil {
			out.Attrs = map[string]AttrV{}
		}
		out.Attrs[k] = v
	}
	for k, v := range m.Annos {
		if out.Attrs == nil {
			out.Attrs = map[string]AttrV{}
		}
		out.Attrs[k] = v
	}
	return out
}

func factTExpr(e TExpr) *TExpr {
	o := e
	o.Meta = cloneMetaFacts(e.Meta)
	o.spelling = ""
	return &o
}

func factStmts(ss []*Stmt) []*Stmt {
	var out []*Stmt
	var prevDoc *Stmt
	for _, s := range ss {
		if s.keyword == "doc" && prevDoc != nil {
			// consecutive doc lines are one action
			prevDoc.Text += " " + strings.Join(s.docLines, " ")
			continue
		}
		prevDoc = nil
		o := &Stmt{Kind: s.Kind, Text: s.Text, Target: s.Target, Endpoint: s.Endpoint, Args: s.Args, Mode: s.Mode}
		o.Meta = cloneMetaFacts(s.Meta)
		o.Children = factStmts(s.Children)
		for _, c := range s.Choices {
			o.Choices = append(o.Choices, &Choice{Cond: c.Cond, Stmts: factStmts(c.Stmts)})
		}
		out = append(out, o)
		if s.keyword == "doc" {
			prevDoc = o
		}
	}
	return out
}

func factParams(ps []Param) []Param {
	var out []Param
	for _, p := range ps {
		out = append(out, Param{Name: p.Name, T: *factTExpr(p.T)})
	}
	return out
}

// mergeRestMeta implements the documented inheritance of nested-path attributes by methods:
// tags accumulate (rest, outer..inner, own), scalar attributes: inner overrides outer.
func mergeRestMeta(chain []Meta, own Meta) Meta {
	out := Meta{Tags: []string{"rest"}}
	for _, m := range append(append([]Meta{}, chain...), own) {
		out.Tags = append(out.Tags, m.Tags...)
		for k, v := range m.Attrs {
			if out.Attrs == nil {
				out.Attrs = map[string]AttrV{}
			}
			out.Attrs[k] = v
		}
	}
	return out
}

func restFacts(af *AppF, n *RestNode, prefix string, chain []Meta, urlParams []Param) {
	seg := n.Seg
	if n.PathVar != nil {
		seg = "/{" + n.PathVar.Name + "}"
		urlParams = append(append([]Param{}, urlParams...), Param{Name: n.PathVar.Name, T: *factTExpr(n.PathVar.T)})
	}
	path := prefix + seg
	chain = append(append([]Meta{}, chain...), n.Meta)
	for _, m := range n.Methods {
		ef := &EpF{Meta: mergeRestMeta(chain, m.Meta)}
		ef.Params = factParams(m.Params)
		ef.Rest = &RestF{Method: m.Method, Path: path, Query: factParams(m.Query), URL: urlParams}
		// leading doc lines of a REST method are the endpoint's docstring
		ms := m.Stmts
		var docs []string
		for len(ms) > 0 && ms[0].keyword == "doc" {
			docs = append(docs, ms[0].docLines...)
			ms = ms[1:]
		}
		ef.Doc = strings.Join(docs, " ")
		ef.Stmts = factStmts(ms)
		if af.Eps == nil {
			af.Eps = map[string]*EpF{}
		}
		af.Eps[m.Method+" "+path] = ef
	}
	for _, c := range n.Children {
		restFacts(af, c, path, chain, urlParams)
	}
}

func FactsFromIntent(in *Intent) *Facts {
	f := &Facts{Apps: map[string]*AppF{}}
	for _, a := range in.Apps {
		af := &AppF{Name: a.Name, Long: a.Long, Meta: cloneMetaFacts(a.Meta), Mixins: a.Mixins}
		for _, td := range a.Types {
			tf := &TypeF{Kind: td.Kind, Meta: cloneMetaFacts(td.Meta)}
			switch td.Kind {
			case "tuple", "relation":
				tf.Fields = map[string]*TExpr{}
				for _, fl := range td.Fields {
					tf.Fields[fl.Name] = factTExpr(fl.T)
					if td.Kind == "relation" {
						for _, tg := range fl.T.Tags {
							if tg == "pk" {
								tf.PK = append(tf.PK, fl.Name)
							}
						}
					}
				}
			case "enum":
				tf.Enum = map[string]int64{}
				for _, e := range td.Enum {
					tf.Enum[e.Name] = e.Val
				}
			case "alias":
				tf.Alias = factTExpr(*td.Alias)
			case "union":
				for _, u := range td.Union {
					tf.Union = append(tf.Union, factTExpr(u))
				}
			}
			if af.Types == nil {
				af.Types = map[string]*TypeF{}
			}
			af.Types[unesc(td.Name)] = tf
		}
		for _, ep := range a.Eps {
			ef := &EpF{Long: ep.Long, Meta: cloneMetaFacts(ep.Meta), Params: factParams(ep.Params), Stmts: factStmts(ep.Stmts)}
			ef.Pubsub = ep.Kind == "event"
			if ep.Kind == "event" {
				// the statements of an event join the calls that subscriptions add in walk order (below)
				ef.Stmts = nil
			}
			if af.Eps == nil {
				af.Eps = map[string]*EpF{}
			}
			if ep.Kind == "sub" {
				ef.Source = ep.Source
				af.Eps[subName(ep)] = ef
				continue
			}
			af.Eps[ep.Name] = ef
		}
		for _, n := range a.Rest {
			restFacts(af, n, "", nil, nil)
		}
		f.Apps[appKey(a.Name)] = af
	}
	// A subscription 'P -> E' in application S creates event E in P (if P does not declare it) and
	// appends a call back to S's subscriber endpoint, in walk order (lang-spec: pubsub).
	for _, a := range in.Apps {
		for _, ep := range a.Eps {
			if ep.Kind == "event" {
				ev := f.Apps[appKey(a.Name)].Eps[ep.Name]
				ev.Stmts = append(ev.Stmts, factStmts(ep.Stmts)...)
				continue
			}
			if ep.Kind != "sub" {
				continue
			}
			pf := f.Apps[appKey(ep.Source)]
			if pf == nil {
				continue
			}
			if pf.Eps == nil {
				pf.Eps = map[string]*EpF{}
			}
			ev := pf.Eps[ep.Event]
			if ev == nil {
				ev = &EpF{Pubsub: true}
				pf.Eps[ep.Event] = ev
			}
			ev.Stmts = append(ev.Stmts, &Stmt{Kind: "call", Target: a.Name, Endpoint: subName(ep)})
		}
	}
	// A collector block '.. * <- *' merges the attributes of each of its lines into the named endpoint
	// or into every matching call statement of the application (lang-spec.md, "Collector"): a key the
	// target lacks is added, two arrays (tags included) are concatenated, anything else is replaced.
	for _, a := range in.Apps {
		if len(a.Collector) == 0 {
			continue
		}
		af := f.Apps[appKey(a.Name)]
		cf := &EpF{}
		for _, l := range a.Collector {
			lm := cloneMetaFacts(l.Meta)
			if l.Kind == "ep" {
				cf.Stmts = append(cf.Stmts, &Stmt{Kind: "action", Text: l.EpName, Meta: lm})
				if ef := af.Eps[l.EpName]; ef != nil {
					ef.Meta = mergeCollectorMeta(ef.Meta, lm)
				}
				continue
			}
			cf.Stmts = append(cf.Stmts, &Stmt{Kind: "call", Target: l.Target, Endpoint: l.Endpoint, Meta: lm})
			for _, ef := range af.Eps {
				walkStmts(ef.Stmts, func(s *Stmt, _ int) {
					if s.Kind == "call" && appKey(s.Target) == appKey(l.Target) && s.Endpoint == l.Endpoint {
						s.Meta = mergeCollectorMeta(s.Meta, lm)
					}
				}, 0)
			}
		}
		if af.Eps == nil {
			af.Eps = map[string]*EpF{}
		}
		af.Eps[".. * <- *"] = cf
	}
	// A mixin merges the types of the (abstract) mixed-in application into the mixing one
	// (docs/docs/lang/mixin.md); a type the mixing application declares itself wins.
	for _, a := range in.Apps {
		af := f.Apps[appKey(a.Name)]
		for _, mx := range a.Mixins {
			src := f.Apps[appKey(mx)]
			if src == nil {
				continue
			}
			for tn, tf := range src.Types {
				if af.Types == nil {
					af.Types = map[string]*TypeF{}
				}
				if _, has := af.Types[tn]; !has {
					af.Types[tn] = tf
				}
			}
		}
	}
	return f
}

func mergeCollectorMeta(dst, src Meta) Meta {
	out := Meta{Tags: append(append([]string{}, dst.Tags...), src.Tags...)}
	for k, v := range dst.Attrs {
		if out.Attrs == nil {
			out.Attrs = map[string]AttrV{}
		}
		out.Attrs[k] = v
	}
	for k, v := range src.Attrs {
		if out.Attrs == nil {
			out.Attrs = map[string]AttrV{}
		}
		if d, has := out.Attrs[k]; has && d.IsArr && v.IsArr {
			out.Attrs[k] = AttrV{IsArr: true, A: append(append([]AttrV{}, d.A...), v.A...)}
		} else {
			out.Attrs[k] = v
		}
	}
	return out
}

func subName(ep *Endpoint) string { return appKey(ep.Source) + " -> " + ep.Event }
