package checks

// C03 — layout does not change meaning: indentation scale, tab respelling, blank lines,
// whole-line comments. Relation between two compilations: acceptance agrees, and the two
// modules are proto.Equal once every sysl.SourceContext is cleared.
//
// Two populations:
//   corpus     every .sysl file under cfg.Repo (deterministic sweep through One + rapid-drawn
//              compositions through Run); files are compiled in place through a copy-on-write
//              layer over the real tree so that their imports resolve;
//   generated  GenIntent specs rendered with a random indent unit.

import (
	"fmt"
	"os"
	"path/filepath"
	"sort"
	"strings"
	"sync"
	"testing"
	"time"

	"github.com/anz-bank/sysl/pkg/parse"
	"github.com/anz-bank/sysl/pkg/sysl"
	"github.com/anz-bank/sysl/pkg/syslutil"
	"github.com/sirupsen/logrus"
	"github.com/spf13/afero"
	"google.golang.org/protobuf/proto"
	"pgregory.net/rapid"
)

type c03Case struct {
	// corpus population: File and Root are relative to the tree under test (cfg.Repo);
	// Root "" = the tree itself. generated population: Text is the original specification.
	File string `json:"file,omitempty"`
	Root string `json:"root,omitempty"`
	Text string `json:"text,omitempty"`
	Ops  c03Ops `json:"ops"`
}

// ---------- compiling ----------

type c03Outcome struct {
	mod   *sysl.Module
	err   error
	panic string
}

func (o c03Outcome) kind() string {
	switch {
	case o.panic != "":
		return "panic"
	case o.err != nil:
		return "rejected"
	}
	return "accepted"
}

var c03FatalOnce sync.Once

// c03GuardFatal turns logrus.Fatal (pkg/parse/linter.go) into a panic so that it is
// attributed to the case in flight instead of ending the test process.
func c03GuardFatal() {
	c03FatalOnce.Do(func() {
		logrus.StandardLogger().ExitFunc = func(code int) { panic(fmt.Sprintf("logrus.Fatal exit(%d)", code)) }
	})
}

func c03Parse(file string, fs afero.Fs) (out c03Outcome) {
	c03GuardFatal()
	defer func() {
		if r := recover(); r != nil {
			out = c03Outcome{panic: fmt.Sprint(r)}
		}
	}()
	m, err := parse.NewParser().ParseFromFs(file, fs)
	return c03Outcome{mod: m, err: err}
}

func c03ParseText(text string) c03Outcome {
	fs := afero.NewMemMapFs()
	if err := afero.WriteFile(fs, "temp.sysl", []byte(text), 0o644); err != nil {
		return c03Outcome{err: err}
	}
	return c03Parse("temp.sysl", fs)
}

// c03CorpusFs: the real tree, read-only, under a memory layer that holds the transformed
// file; chrooted at root so that "/abs" imports resolve as the repository's tests expect.
func c03CorpusFs(root string, overlay map[string]string) afero.Fs {
	mem := afero.NewMemMapFs()
	for p, content := range overlay {
		_ = mem.MkdirAll(filepath.Dir(p), 0o755)
		_ = afero.WriteFile(mem, p, []byte(content), 0o644)
	}
	cow := afero.NewCopyOnWriteFs(afero.NewReadOnlyFs(afero.NewOsFs()), mem)
	return syslutil.NewChrootFs(cow, root)
}

// originals are compiled once per (file, root) and process: the outcome is a pure function
// of the tree under test, so the cache cannot couple cases.
var (
	c03OrigMu    sync.Mutex
	c03OrigCache = map[string]c03Outcome{}
)

func c03CompileOriginal(file, root string) c03Outcome {
	key := file + "\x00" + root
	c03OrigMu.Lock()
	o, ok := c03OrigCache[key]
	c03OrigMu.Unlock()
	if ok {
		return o
	}
	o = c03CompileCorpus(file, root, nil)
	c03OrigMu.Lock()
	c03OrigCache[key] = o
	c03OrigMu.Unlock()
	return o
}

func c03CompileCorpus(file, root string, replacement *string) c03Outcome {
	absRoot := filepath.Join(cfg.Repo, root)
	absFile := filepath.Join(cfg.Repo, file)
	rel, err := filepath.Rel(absRoot, absFile)
	if err != nil || strings.HasPrefix(rel, "..") {
		return c03Outcome{err: fmt.Errorf("file %s not under root %s", file, root)}
	}
	overlay := map[string]string{}
	if replacement != nil {
		overlay[absFile] = *replacement
	}
	return c03Parse(rel, c03CorpusFs(absRoot, overlay))
}

// ---------- the oracle (shared by both populations) ----------

func c03Visible(s string) string {
	s = strings.ReplaceAll(s, "\t", "→")
	if len(s) > 6000 {
		s = s[:6000] + "\n…(truncated)"
	}
	return s
}

func c03Compare(x *X, what string, orig, tr c03Outcome, transformed string, ops c03Ops) error {
	opsDesc := fmt.Sprintf("scale=%d tabs=%v blanks=%v cmts=%v", ops.Scale, ops.Tabs, ops.Blanks, ops.Cmts)
	if orig.kind() == "panic" {
		// the original does not compile cleanly at all: C01's subject, nothing to relate
		x.Class("original_panics")
		return nil
	}
	if tr.kind() == "panic" {
		return fmt.Errorf("%s: original %s, transformed text makes the compiler panic: %s\nops: %s\n---- transformed text\n%s",
			what, orig.kind(), tr.panic, opsDesc, c03Visible(transformed))
	}
	if orig.kind() != tr.kind() {
		return fmt.Errorf("%s: acceptance differs: original %s (%v), transformed %s (%v)\nops: %s\n---- transformed text\n%s",
			what, orig.kind(), orig.err, tr.kind(), tr.err, opsDesc, c03Visible(transformed))
	}
	if orig.err != nil {
		x.Class("both_rejected")
		return nil
	}
	x.Class("both_accepted")
	a := proto.Clone(orig.mod).(*sysl.Module)
	b := proto.Clone(tr.mod).(*sysl.Module)
	na := c03StripLocations(a.ProtoReflect())
	nb := c03StripLocations(b.ProtoReflect())
	if na == 0 && len(a.Apps) > 0 {
		return fmt.Errorf("%s: harness: no source context found in a non-empty model (strip walker broken?)", what)
	}
	_ = nb
	if !proto.Equal(a, b) {
		d := c03FirstDiff(a.ProtoReflect(), b.ProtoReflect(), "module")
		return fmt.Errorf("%s: compiled models differ apart from source locations: first difference (original vs transformed) %s\nops: %s\n---- transformed text\n%s",
			what, d, opsDesc, c03Visible(transformed))
	}
	return nil
}

func c03Classes(x *X, pop string, st c03Stats, ops c03Ops, nesting int) bool {
	x.Class(pop)
	x.Class(fmt.Sprintf("scale_%d", ops.Scale))
	if st.TabLines > 0 {
		x.Class("tabs_respelled")
	}
	if st.UnalignedTabs > 0 {
		x.Class("tab_after_unaligned_spaces")
	}
	if st.BlankIns > 0 {
		x.Class("blank_lines_inserted")
	}
	if st.WsOnlyIns > 0 {
		x.Class("whitespace_only_lines_inserted")
	}
	if st.CommentIns > 0 {
		x.Class("comments_inserted")
	}
	if nesting >= 2 {
		x.Class("nesting_ge2")
	}
	if nesting >= 4 {
		x.Class("nesting_ge4")
	}
	x.r.ClassN(pop+"_comment_boundaries_offered", int64(st.Boundaries))
	x.r.ClassN(pop+"_comment_boundaries_refused_by_classifier", int64(st.Unsafe))
	x.r.ClassN(pop+"_lines_frozen_inside_multiline_string", int64(st.FrozenLines))
	x.r.ClassN("lines_inserted", int64(st.inserted()))
	x.r.ClassN("leading_runs_changed", int64(st.LeadChanged))
	changed := st.LeadChanged > 0 || st.inserted() > 0
	if !changed {
		x.Class("identity_transformation")
	}
	return changed && nesting >= 2
}

// ---------- population (b): generated specifications ----------

func c03GenOps(t *rapid.T) c03Ops {
	ops := c03Ops{Scale: rapid.IntRange(1, 4).Draw(t, "scale")}
	// each family is switched off in a quarter of the cases so that single transformations are seen alone too
	if rapid.IntRange(0, 3).Draw(t, "usetabs") != 0 {
		ops.Tabs = rapid.SliceOfN(rapid.IntRange(0, 11), 1, 23).Draw(t, "tabs")
	}
	if rapid.IntRange(0, 3).Draw(t, "useblanks") != 0 {
		ops.Blanks = rapid.SliceOfN(rapid.IntRange(0, 9), 1, 23).Draw(t, "blanks")
	}
	if rapid.IntRange(0, 3).Draw(t, "usecmts") != 0 {
		ops.Cmts = rapid.SliceOfN(rapid.IntRange(0, 13), 1, 23).Draw(t, "cmts")
	}
	return ops
}

func genC03Generated(t *rapid.T) c03Case {
	in := GenIntent(t)
	indent := pick(t, []string{"    ", "  ", "\t", " ", "   ", "        ", " \t", "      "}, "indent")
	return c03Case{Text: Render(in, indent), Ops: c03GenOps(t)}
}

func checkC03Generated(x *X, c c03Case) error {
	if c.File != "" {
		return fmt.Errorf("harness: corpus case given to C03/generated")
	}
	transformed, st := c03Transform(c.Text, c.Ops, c03PlanGenerated(c.Text))
	if c03Classes(x, "generated", st, c.Ops, c03Nesting(c.Text)) {
		x.NonTrivial(transformed)
	}
	x.Sample(c03Visible(transformed))
	orig := c03ParseText(c.Text)
	if orig.kind() == "rejected" {
		// generated specs are legal by construction (that is C02's claim); still a relation case
		x.Class("generated_original_rejected")
	}
	tr := c03ParseText(transformed)
	return c03Compare(x, "generated spec", orig, tr, transformed, c.Ops)
}

// ---------- generated multi-file specifications ----------

type c03MultiCase struct {
	Files map[string]string `json:"files"`
	Root  string            `json:"root"`
	Ops   c03Ops            `json:"ops"`
}

func genC03Multi(t *rapid.T) c03MultiCase {
	c := genC04(t) // the split specification of C04: 1-4 files, import lines first, re-opened blocks
	return c03MultiCase{Files: c.Files, Root: c.Root, Ops: c03GenOps(t)}
}

func c03ParseFiles(files map[string]string, root string) c03Outcome {
	fs := afero.NewMemMapFs()
	for n, s := range files {
		_ = afero.WriteFile(fs, n, []byte(s), 0o644)
	}
	return c03Parse(root, fs)
}

func checkC03Multi(x *X, c c03MultiCase) error {
	tr := map[string]string{}
	var total c03Stats
	var names []string
	for n := range c.Files {
		names = append(names, n)
	}
	sort.Strings(names)
	var shown strings.Builder
	nimports, cmtBetweenImports := 0, false
	for _, n := range names {
		text := c.Files[n]
		out, st := c03Transform(text, c.Ops, c03PlanGenerated(text))
		tr[n] = out
		total.LeadChanged += st.LeadChanged
		total.TabLines += st.TabLines
		total.UnalignedTabs += st.UnalignedTabs
		total.BlankIns += st.BlankIns
		total.WsOnlyIns += st.WsOnlyIns
		total.CommentIns += st.CommentIns
		total.Boundaries += st.Boundaries
		total.Unsafe += st.Unsafe
		fmt.Fprintf(&shown, "==== file %s\n%s", n, c03Visible(out))
		// did a comment or blank line land between two import lines?
		seenImport, gap := false, false
		for _, l := range strings.Split(out, "\n") {
			switch {
			case strings.HasPrefix(l, "import "):
				nimports++
				if seenImport && gap {
					cmtBetweenImports = true
				}
				seenImport, gap = true, false
			case seenImport && strings.HasPrefix(strings.TrimLeft(l, " \t"), "#"):
				gap = true
			}
		}
	}
	if len(c.Files) >= 2 {
		x.Class("multi_files_ge2")
	}
	if nimports >= 2 {
		x.Class("multi_imports_ge2")
	}
	if cmtBetweenImports {
		x.Class("multi_comment_between_import_lines")
	}
	if c03Classes(x, "multi", total, c.Ops, 2) && len(c.Files) >= 2 {
		x.NonTrivial(shown.String())
	}
	orig := c03ParseFiles(c.Files, c.Root)
	trd := c03ParseFiles(tr, c.Root)
	return c03Compare(x, "generated multi-file spec (root "+c.Root+")", orig, trd, shown.String(), c.Ops)
}

var c03Multi = Define("C03", "multifile",
	"the split specifications of C04 (1-4 files of a random import DAG, import lines first, re-opened application blocks) with every file transformed by the same rapid-drawn composition as in 'generated' (so comments and blank lines also land before, between and after import lines); both versions are compiled from an in-memory filesystem and the whole modules compared. Non-trivial: >=2 files and a changed leading run or an inserted line; class multi_comment_between_import_lines counts cases with a comment between two import lines.",
	genC03Multi, checkC03Multi)

var c03Generated = Define("C03", "generated",
	"GenIntent specifications (apps, all type kinds, simple/REST/event endpoints, statement trees to depth 4) rendered with a random indent unit (1,2,3,4,6,8 spaces, tab, space+tab), then transformed by a rapid-drawn composition: leading width x1..4; per line 0-3 four-space groups respelled as tabs placed after the unaligned space remainder, before it, or in between; empty / whitespace-only lines at a periodic subset of line boundaries incl. file start and end; whole-line comments (column 0, next line's indentation, odd indentation, bare '#', two in a row) at a periodic subset of all line boundaries except between two '|' doc lines. Oracle: acceptance agrees and proto.Equal after clearing every sysl.SourceContext found by a protoreflect walk. Non-trivial: >=1 leading run changed or >=1 line inserted, and nesting depth >=2; distinct by hash of the transformed text.",
	genC03Generated, checkC03Generated)

// ---------- population (a): the repository corpus ----------

type c03CorpusFile struct {
	File string // relative to cfg.Repo
	Root string // accepted root relative to cfg.Repo ("" = repo), or own directory when rejected everywhere
	OK   bool
}

var (
	c03CorpusOnce sync.Once
	c03CorpusList []c03CorpusFile // this shard's slice of the corpus
	c03CorpusAll  int
)

func c03ListCorpus() []string {
	var files []string
	_ = filepath.Walk(cfg.Repo, func(p string, info os.FileInfo, err error) error {
		if err != nil {
			return nil
		}
		if info.IsDir() {
			if n := info.Name(); n == ".git" || n == "node_modules" {
				return filepath.SkipDir
			}
			return nil
		}
		if strings.HasSuffix(p, ".sysl") {
			if rel, e := filepath.Rel(cfg.Repo, p); e == nil {
				files = append(files, rel)
			}
		}
		return nil
	})
	sort.Strings(files)
	return files
}

// c03Corpus finds, for every corpus file of this shard, the first root under which it compiles
// on the current tree: its own directory, <repo>/tests, <repo>.
func c03Corpus() []c03CorpusFile {
	c03CorpusOnce.Do(func() {
		all := c03ListCorpus()
		c03CorpusAll = len(all)
		n := cfg.NShards
		if n < 1 {
			n = 1
		}
		for i, f := range all {
			if i%n != cfg.Shard%n {
				continue
			}
			own := filepath.Dir(f)
			if own == "." {
				own = ""
			}
			e := c03CorpusFile{File: f, Root: own}
			for _, root := range []string{own, "tests", ""} {
				if root != "" && !strings.HasPrefix(f, root+string(filepath.Separator)) {
					continue
				}
				if o := c03CompileOriginal(f, root); o.kind() == "accepted" {
					e.Root, e.OK = root, true
					break
				}
			}
			c03CorpusList = append(c03CorpusList, e)
		}
	})
	return c03CorpusList
}

func checkC03Corpus(x *X, c c03Case) error {
	if c.File == "" {
		return fmt.Errorf("harness: case without file given to C03/corpus")
	}
	raw, err := os.ReadFile(filepath.Join(cfg.Repo, c.File))
	if err != nil {
		return fmt.Errorf("harness: cannot read corpus file %s: %v", c.File, err)
	}
	text := string(raw)
	transformed, st := c03Transform(text, c.Ops, c03PlanCorpus(text))
	if c03Classes(x, "corpus", st, c.Ops, c03Nesting(text)) {
		x.NonTrivial(c.File + "\x00" + transformed)
	}
	if len(transformed) < 1500 {
		x.Sample(c.File + ":\n" + c03Visible(transformed))
	}
	orig := c03CompileOriginal(c.File, c.Root)
	tr := c03CompileCorpus(c.File, c.Root, &transformed)
	return c03Compare(x, "corpus file "+c.File+" (root "+c.Root+")", orig, tr, transformed, c.Ops)
}

func genC03Corpus(t *rapid.T) c03Case {
	files := c03Corpus()
	var ok []c03CorpusFile
	for _, f := range files {
		if f.OK {
			ok = append(ok, f)
		}
	}
	if len(ok) == 0 {
		// nothing accepted in this shard (tiny shard): fall back to any file; acceptance is still related
		ok = files
	}
	f := ok[rapid.IntRange(0, len(ok)-1).Draw(t, "file")]
	return c03Case{File: f.File, Root: f.Root, Ops: c03GenOps(t)}
}

var c03CorpusProp = Define("C03", "corpus",
	"Every .sysl file under the tree (sorted, dealt to shards by index), compiled in place through a copy-on-write layer with the first accepting root of {own directory, tests/, tree root}; files no root accepts are kept (root = own directory) to relate acceptance. (1) deterministic sweep: every file x the enumerated compositions c03EnumOps(0..k-1) (k=2 quick, 24 thorough: x2 + unaligned tabs + blank/whitespace-only lines; x3 + comments of every kind at every safe boundary + tabs in every position; then each family alone; then splitmix-patterned mixes); (2) rapid-drawn (file, composition) pairs over accepted files. Comments only at boundaries a conservative classifier accepts (not inside !view bodies, not next to '|' lines, not inside brackets spanning lines; refused boundaries are counted); lines that continue a quoted string left open by an earlier line are content and stay untouched. Oracle as C03/generated. Non-trivial: >=1 leading run changed or >=1 line inserted, and nesting depth >=2; distinct by hash of (file, transformed text).",
	genC03Corpus, checkC03Corpus)

// c03EnumOps is the deterministic enumeration of compositions used by the corpus sweep.
func c03EnumOps(j int) c03Ops {
	switch j {
	case 0: // double indentation, tabs after the unaligned remainder wherever a group fits, blank and whitespace-only lines
		return c03Ops{Scale: 2, Tabs: []int{1, 3, 2, 1}, Blanks: []int{0, 1, 0, 2}}
	case 1: // triple, comments of every kind at every safe boundary, tabs in every position, blank+tab lines
		return c03Ops{Scale: 3, Tabs: []int{0, 5, 9, 2}, Cmts: []int{1, 2, 3, 4, 5, 6}, Blanks: []int{0, 0, 3}}
	case 2: // tab respelling alone
		return c03Ops{Scale: 1, Tabs: []int{1, 2, 3, 9, 6}}
	case 3: // scaling alone
		return c03Ops{Scale: 4}
	case 4: // blank and whitespace-only lines alone, at every boundary
		return c03Ops{Scale: 1, Blanks: []int{1, 2, 3}}
	case 5: // comments alone, at every safe boundary
		return c03Ops{Scale: 1, Cmts: []int{1, 2, 3, 4, 5, 6}}
	}
	z := splitmix(uint64(j) * 0x9e3779b1)
	next := func(n int) int {
		z = splitmix(z)
		return int(z % uint64(n))
	}
	ops := c03Ops{Scale: 1 + next(4)}
	fill := func(max, lo, hi int) []int {
		n := lo + next(hi-lo+1)
		out := make([]int, n)
		for i := range out {
			out[i] = next(max)
		}
		return out
	}
	ops.Tabs = fill(12, 1, 13)
	ops.Blanks = fill(8, 1, 13)
	ops.Cmts = fill(12, 1, 13)
	return ops
}

func TestC03(t *testing.T) {
	checkKnown(t, "C03")
	r := R("C03")
	t0 := time.Now()
	if os.Getenv("VERIF_C03_POP") == "generated" { // development knob: generated population only
		c03Generated.Run(t, scale(80, 600))
		return
	}
	files := c03Corpus()
	t.Logf("corpus discovery: %d files of this shard in %v", len(files), time.Since(t0))
	acc, rej := 0, 0
	var rejected []string
	for _, f := range files {
		if f.OK {
			acc++
		} else {
			rej++
			rejected = append(rejected, f.File)
		}
	}
	r.ClassN("corpus_files_accepted", int64(acc))
	r.ClassN("corpus_files_rejected", int64(rej))
	if len(rejected) > 0 {
		r.Note(fmt.Sprintf("corpus-rejected-shard-%d", cfg.Shard), strings.Join(rejected, " "))
	}
	k := scale(2, 16)
	bad := 0
sweep:
	for _, f := range files {
		for j := 0; j < k; j++ {
			if !c03CorpusProp.One(t, c03Case{File: f.File, Root: f.Root, Ops: c03EnumOps(j)}) {
				if bad++; bad >= 3 {
					break sweep // enough replay files; the verdict is settled
				}
			}
		}
	}
	t.Logf("corpus sweep done at %v", time.Since(t0))
	if t.Failed() {
		return // rapid refuses a *testing.T that has already failed
	}
	if len(files) > 0 {
		c03CorpusProp.Run(t, scale(20, 200))
	}
	t.Logf("corpus rapid done at %v", time.Since(t0))
	if t.Failed() {
		return
	}
	c03Generated.Run(t, scale(80, 600))
	t.Logf("generated done at %v", time.Since(t0))
	c03Multi.Run(t, scale(60, 400))
	t.Logf("multi-file done at %v", time.Since(t0))
}
