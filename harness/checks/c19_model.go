package checks

// c19_model.go — models and foreign documents for C19 with several entries in every map the
// generators walk: REST-only API apps (OpenAPI/Swagger), service apps with call graphs
// (sequence/integration diagrams), a database app with tables and foreign keys in two versions
// (create/delta scripts, spanner), a project app (integration views), enums, attributes.

import (
	"encoding/json"
	"fmt"
	"strings"

	"pgregory.net/rapid"
)

var c19Prims = []string{"int", "int32", "int64", "string", "string(20)", "bool", "date", "datetime", "decimal(10.2)", "float", "bytes"}
var c19FieldNames = []string{"id", "name", "amount", "qty", "owner", "created", "note", "kind", "ref", "zip", "code", "flag"}
var c19TypeNames = []string{"Thing", "Order", "User", "Addr", "Acct", "Line", "Error", "Page"}
var c19AttrKeys = []string{"description", "owner", "team", "version", "x-tag", "json_tag"}
var c19Words = []string{"alpha", "beta", "gamma", "delta", "one two", "x", "Long text here"}

func c19Distinct(t *rapid.T, pool []string, lo, hi int, label string) []string {
	n := rapid.IntRange(lo, hi).Draw(t, label+"_n")
	p := append([]string{}, pool...)
	var out []string
	for i := 0; i < n && len(p) > 0; i++ {
		j := rapid.IntRange(0, len(p)-1).Draw(t, label)
		out = append(out, p[j])
		p = append(p[:j], p[j+1:]...)
	}
	return out
}

func c19Attrs(t *rapid.T, label string) string {
	ks := c19Distinct(t, c19AttrKeys, 0, 3, label+"k")
	var parts []string
	for _, tg := range c19Distinct(t, []string{"t1", "t2", "db", "ui"}, 0, 2, label+"tag") {
		parts = append(parts, "~"+tg)
	}
	for _, k := range ks {
		parts = append(parts, k+"="+c09q(pick(t, c19Words, label+"v")))
	}
	if len(parts) == 0 {
		return ""
	}
	return " [" + strings.Join(parts, ", ") + "]"
}

type c19Sys struct {
	Text, Text2 string
	Classes     []string
	SdEps       []string // "App <- Endpoint" of the first service app (sequence diagram start points)
	APIApp      string
}

func c19GenSystem(t *rapid.T) c19Sys {
	w := &c09w{ind: "    "}
	out := c19Sys{}

	// ----- API apps: REST only -----
	nAPI := rapid.IntRange(1, 2).Draw(t, "napi")
	apiNames := []string{"ApiA", "Api :: B", "ApiC"}[:nAPI]
	nSvc := rapid.IntRange(2, 3).Draw(t, "nsvc")
	svcNames := []string{"SvcOne", "Svc :: Two", "SvcThree", "SvcFour"}[:nSvc]
	svcEps := map[string][]string{}
	for _, s := range svcNames {
		svcEps[s] = c19Distinct(t, []string{"Get", "Put", "List", "Check", "Sync"}, 2, 3, "svcep")
	}
	anyCall := func(label string, not string) string {
		s := pick(t, svcNames, label+"s")
		if s == not && len(svcNames) > 1 {
			s = svcNames[(indexOf(svcNames, s)+1)%len(svcNames)]
		}
		return s + " <- " + pick(t, svcEps[s], label+"e")
	}
	apiTypes := map[string][]string{}
	for _, a := range apiNames {
		tn := c19Distinct(t, c19TypeNames, 2, 4, "apitypes")
		apiTypes[a] = tn
		long := ""
		if rapid.Bool().Draw(t, "apilong") {
			long = " " + c09q(pick(t, c19Words, "apilongv"))
		}
		w.l(0, a+long+c19Attrs(t, "apiattr")+":")
		w.l(1, "@version = "+c09q(fmt.Sprintf("1.%d", rapid.IntRange(0, 9).Draw(t, "ver"))))
		if rapid.Bool().Draw(t, "apidesc") {
			w.l(1, "@description =:")
			w.l(2, "| "+pick(t, c19Words, "d1"))
			w.l(2, "| "+pick(t, c19Words, "d2"))
		}
		// types
		for i, n := range tn {
			w.l(1, "!type "+n+c19Attrs(t, "tattr")+":")
			fs := c19Distinct(t, c19FieldNames, 2, 5, "fields")
			for _, f := range fs {
				ty := pick(t, c19Prims, "ftype")
				switch rapid.IntRange(0, 5).Draw(t, "fkind") {
				case 0:
					if i > 0 {
						ty = tn[rapid.IntRange(0, i-1).Draw(t, "fref")]
					}
				case 1:
					ty = "sequence of " + pick(t, []string{"string", "int", tn[0]}, "fseq")
				case 2:
					ty = "set of " + pick(t, []string{"string", "int"}, "fset")
				}
				opt := ""
				if rapid.IntRange(0, 2).Draw(t, "fopt") == 0 {
					opt = "?"
				}
				if rapid.IntRange(0, 2).Draw(t, "fanno") == 0 {
					w.l(2, f+" <: "+ty+opt+":")
					w.l(3, "@json_tag = "+c09q(f))
					if rapid.Bool().Draw(t, "fdesc") {
						w.l(3, "@description = "+c09q(pick(t, c19Words, "fdescv")))
					}
				} else {
					w.l(2, f+" <: "+ty+opt+c19Attrs(t, "fattr"))
				}
			}
		}
		w.l(1, "!enum Kind"+":")
		for i, e := range c19Distinct(t, []string{"ACTIVE", "CLOSED", "PENDING", "LOST", "NEW"}, 2, 5, "enum") {
			w.l(2, fmt.Sprintf("%s: %d", e, i+1))
		}
		w.l(1, "!alias Tags:")
		w.l(2, "sequence of string")
		// rest endpoints
		segs := c19Distinct(t, []string{"things", "orders", "users", "v1/items", "accts"}, 2, 3, "segs")
		for _, sg := range segs {
			w.l(1, "/"+sg+c19Attrs(t, "pathattr")+":")
			q := ""
			qs := c19Distinct(t, []string{"limit=int?", "offset=int", "q=string?", "tag=string", "since=date?"}, 0, 4, "query")
			if len(qs) > 0 {
				q = " ?" + strings.Join(qs, "&")
			}
			w.l(2, "GET"+q+":")
			if rapid.Bool().Draw(t, "getsummary") {
				w.l(3, "@summary = "+c09q(pick(t, c19Words, "sum")))
			}
			w.l(3, "| "+pick(t, c19Words, "doc"))
			for i := rapid.IntRange(0, 3).Draw(t, "ncalls"); i > 0; i-- {
				w.l(3, anyCall("apicall", ""))
			}
			w.l(3, "return ok <: sequence of "+pick(t, tn, "retty"))
			w.l(3, "return error <: "+pick(t, tn, "errty"))
			hdr := ""
			if rapid.Bool().Draw(t, "hdr") {
				hdr = ", auth <: string [~header, ~required, name=\"Authorization\"]"
			}
			if rapid.Bool().Draw(t, "hdr2") {
				hdr += ", trace <: string [~header, ~optional, name=\"X-Trace\"]"
			}
			w.l(2, "POST (body <: "+pick(t, tn, "bodyty")+" [mediatype=\"application/json\", ~body]"+hdr+"):")
			w.l(3, anyCall("postcall", ""))
			w.l(3, "return 201 <: "+pick(t, tn, "ret2"))
			if rapid.Bool().Draw(t, "ret400") {
				w.l(3, "return 400 <: "+pick(t, tn, "ret3"))
			}
			w.l(2, "/{id <: "+pick(t, []string{"int", "string", "int64"}, "idty")+"}:")
			w.l(3, "GET:")
			w.l(4, "return 200 <: "+pick(t, tn, "ret4"))
			w.l(4, "return 404 <: "+pick(t, tn, "ret5"))
			if rapid.Bool().Draw(t, "del") {
				w.l(3, "DELETE:")
				w.l(4, "return ok")
			}
			if rapid.Bool().Draw(t, "put") {
				w.l(3, "PUT (body <: "+pick(t, tn, "putty")+" [~body]):")
				w.l(4, "return ok <: "+pick(t, tn, "ret6"))
			}
		}
		w.l(0, "")
	}

	// ----- database app, two versions -----
	nT := rapid.IntRange(2, 5).Draw(t, "ntables")
	tnames := []string{"Customer", "Account", "Txn", "Branch", "Product"}[:nT]
	type col struct{ name, ty, attrs string }
	tables := make([][]col, nT)
	for i := range tables {
		tables[i] = append(tables[i], col{"id", pick(t, []string{"int", "int64", "string(36)"}, "pkty"), "~pk"})
		if tables[i][0].ty != "string(36)" && rapid.Bool().Draw(t, "autoinc") {
			tables[i][0].attrs = "~pk, ~autoinc"
		}
		for _, c := range c19Distinct(t, c19FieldNames[1:], 1, 5, "cols") {
			tables[i] = append(tables[i], col{c, pick(t, c19Prims, "colty"), ""})
		}
		// foreign keys to earlier tables only (acyclic)
		for j := 0; j < i; j++ {
			if rapid.IntRange(0, 2).Draw(t, "fk") == 0 {
				tables[i] = append(tables[i], col{strings.ToLower(tnames[j]) + "_id", tnames[j] + ".id", ""})
			}
		}
	}
	if nT >= 4 && rapid.Bool().Draw(t, "fkladder") {
		// a chain 0 <- 1 <- 2 and a table that refers both to the head and to the tail of it: its place in
		// the scripts is decided by the deepest of its targets, whichever foreign key is looked at last
		hasFk := func(i, j int) bool {
			for _, c := range tables[i] {
				if c.ty == tnames[j]+".id" {
					return true
				}
			}
			return false
		}
		for _, e := range [][2]int{{1, 0}, {2, 1}, {3, 0}, {3, 2}} {
			if !hasFk(e[0], e[1]) {
				tables[e[0]] = append(tables[e[0]], col{strings.ToLower(tnames[e[1]]) + "_id", tnames[e[1]] + ".id", ""})
			}
		}
		out.Classes = append(out.Classes, "db_table_refers_to_tables_of_depths_0_and_2")
	}
	renderDb := func(ww *c09w, tabs [][]col, names []string) {
		ww.l(0, "Db [~db]:")
		for i, cols := range tabs {
			ww.l(1, "!table "+names[i]+":")
			for _, c := range cols {
				opt := ""
				if c.attrs == "" && len(c.name)%2 == 0 {
					opt = "?"
				}
				a := ""
				if c.attrs != "" {
					a = " [" + c.attrs + "]"
				}
				ww.l(2, c.name+" <: "+c.ty+opt+a)
			}
		}
		ww.l(1, "Read:")
		ww.l(2, "return ok")
		ww.l(1, "Write (x <: int):")
		ww.l(2, "return ok")
		ww.l(0, "")
	}
	renderDb(w, tables, tnames)
	// version 2: added columns, an added table, a dropped column
	w2 := &c09w{ind: "    "}
	t2 := make([][]col, nT)
	changes := 0
	for i := range tables {
		t2[i] = append([]col{}, tables[i]...)
		if rapid.Bool().Draw(t, "addcol") {
			t2[i] = append(t2[i], col{"added_" + fmt.Sprint(i), pick(t, c19Prims, "addty"), ""})
			changes++
		}
		if len(t2[i]) > 2 && rapid.IntRange(0, 2).Draw(t, "dropcol") == 0 {
			last := t2[i][len(t2[i])-1]
			if !strings.Contains(last.ty, ".") {
				t2[i] = t2[i][:len(t2[i])-1]
				changes++
			}
		}
	}
	n2 := append([]string{}, tnames...)
	for _, extra := range []string{"Ledger", "Audit"} {
		if rapid.Bool().Draw(t, "addtable") {
			t2 = append(t2, []col{{"id", "int", "~pk"}, {"customer_id", tnames[0] + ".id", ""}, {"note", "string", ""}})
			n2 = append(n2, extra)
			changes++
		}
	}
	renderDb(w2, t2, n2)
	if changes >= 2 {
		out.Classes = append(out.Classes, "delta_changes>=2")
	}

	// ----- service apps with a call graph (every call target exists) -----
	// two abstract applications that service applications mix in (their mixin lines and the alias
	// numbers of the mixed-in applications are part of the integration diagram)
	useMixins := rapid.IntRange(0, 2).Draw(t, "svcmixins") != 0
	if useMixins {
		for _, mx := range []string{"MixAudit", "MixObserve"} {
			w.l(0, mx+" [~abstract]:")
			w.l(1, "!type "+mx+"Info:")
			w.l(2, "id <: int")
			w.l(0, "")
		}
		out.Classes = append(out.Classes, "service_apps_with_mixins")
	}
	for si, s := range svcNames {
		w.l(0, s+c19Attrs(t, "svcattr")+":")
		if useMixins && rapid.IntRange(0, 2).Draw(t, "hasmixin") != 0 {
			w.l(1, "-|> "+pick(t, []string{"MixAudit", "MixObserve"}, "mixinof"))
		}
		for _, e := range svcEps[s] {
			params := ""
			if rapid.Bool().Draw(t, "svcparams") {
				params = " (x <: int, y <: " + apiNames[0] + "." + apiTypes[apiNames[0]][0] + ")"
			}
			w.l(1, e+params+c19Attrs(t, "epattr")+":")
			n := rapid.IntRange(1, 4).Draw(t, "nst")
			for i := 0; i < n; i++ {
				switch rapid.IntRange(0, 5).Draw(t, "st") {
				case 0:
					w.l(2, pick(t, []string{"validate", "log it", "compute total"}, "act"))
				case 1, 2:
					// calls go "forward" (to later services or the database) so that the graph is acyclic
					if si+1 < len(svcNames) {
						tg := svcNames[rapid.IntRange(si+1, len(svcNames)-1).Draw(t, "fwd")]
						w.l(2, tg+" <- "+pick(t, svcEps[tg], "fwde"))
					} else {
						w.l(2, "Db <- "+pick(t, []string{"Read", "Write"}, "dbep"))
					}
				case 3:
					w.l(2, "if "+pick(t, []string{"ok", "found", "big"}, "cond")+":")
					w.l(3, "Db <- Read")
					w.l(2, "else:")
					w.l(3, "Db <- Write")
				case 4:
					w.l(2, "for each item:")
					w.l(3, "Db <- Write")
				default:
					w.l(2, "one of:")
					w.l(3, "case a:")
					w.l(4, "Db <- Read")
					w.l(3, "case b:")
					w.l(4, "log it")
				}
			}
			w.l(2, "return ok <: "+apiNames[0]+"."+apiTypes[apiNames[0]][0])
		}
		w.l(0, "")
	}

	// ----- project app -----
	w.l(0, "Proj"+c19Attrs(t, "projattr")+":")
	w.l(1, "All:")
	for _, a := range apiNames {
		w.l(2, a)
	}
	for _, s := range svcNames {
		w.l(2, s)
	}
	w.l(2, "Db")
	w.l(1, "Services [exclude=[\"Db\"]]:")
	for _, s := range svcNames {
		w.l(2, s)
	}
	w.l(0, "")
	// ----- project app for sequence diagrams (project mode: one diagram per endpoint, app-level and
	// endpoint-level blackboxes; a one-character comment and a key repeated by a diagram included) -----
	anyEp := func(label string) string {
		s := pick(t, svcNames, label+"s")
		return s + " <- " + pick(t, svcEps[s], label+"e")
	}
	bb := func(label string) string {
		return "['" + anyEp(label) + "', '" + pick(t, []string{"-", "x", "stop here", "see other page"}, label+"c") + "']"
	}
	appBB := ""
	var appKeys []string
	if rapid.IntRange(0, 3).Draw(t, "sdappbb") != 0 {
		n := rapid.IntRange(1, 2).Draw(t, "nsdappbb")
		var parts []string
		for i := 0; i < n; i++ {
			k := anyEp(fmt.Sprintf("sdappbb%d", i))
			appKeys = append(appKeys, k)
			parts = append(parts, "['"+k+"', '"+pick(t, []string{"-", "x", "stop here"}, "sdappbbc")+"']")
		}
		appBB = " [blackboxes=[" + strings.Join(parts, ", ") + "]]"
	}
	w.l(0, "ProjSeq"+appBB+":")
	nd := rapid.IntRange(2, 4).Draw(t, "nsddiagrams")
	for i := 0; i < nd; i++ {
		attr := ""
		switch rapid.IntRange(0, 3).Draw(t, "sdepbb") {
		case 0:
			attr = " [blackboxes=[" + bb(fmt.Sprintf("sdepbb%d", i)) + "]]"
		case 1:
			if len(appKeys) > 0 {
				attr = " [blackboxes=[['" + pick(t, appKeys, "sdrepeat") + "', 'again']]]"
			}
		}
		w.l(1, fmt.Sprintf("D%d%s:", i, attr))
		for j := 0; j < rapid.IntRange(1, 2).Draw(t, "nsdstarts"); j++ {
			w.l(2, anyEp(fmt.Sprintf("sdstart%d_%d", i, j)))
		}
	}
	w.l(0, "")
	for _, e := range svcEps[svcNames[0]] {
		out.SdEps = append(out.SdEps, svcNames[0]+" <- "+e)
	}
	out.APIApp = apiNames[0]
	out.Text = w.sb.String()
	out.Text2 = w2.sb.String()
	return out
}

func indexOf(xs []string, s string) int {
	for i, x := range xs {
		if x == s {
			return i
		}
	}
	return 0
}

// ---------- foreign documents ----------

type c19Doc struct {
	Doc    string
	Census map[string]int
}

func c19GenOAS2(t *rapid.T) c19Doc {
	defs := c19Distinct(t, c19TypeNames, 2, 5, "oasdefs")
	definitions := map[string]interface{}{}
	maxProps := 0
	for i, d := range defs {
		props := map[string]interface{}{}
		names := c19Distinct(t, c19FieldNames, 2, 6, "oasprops")
		if len(names) > maxProps {
			maxProps = len(names)
		}
		for _, p := range names {
			switch rapid.IntRange(0, 5).Draw(t, "oasprop") {
			case 0:
				props[p] = map[string]interface{}{"type": "integer", "format": pick(t, []string{"int32", "int64"}, "ifmt")}
			case 1:
				props[p] = map[string]interface{}{"type": "array", "items": map[string]interface{}{"type": "string"}}
			case 2:
				if i > 0 {
					props[p] = map[string]interface{}{"$ref": "#/definitions/" + defs[rapid.IntRange(0, i-1).Draw(t, "oasref")]}
				} else {
					props[p] = map[string]interface{}{"type": "boolean"}
				}
			case 3:
				props[p] = map[string]interface{}{"type": "string", "enum": []string{"A", "B", "C"}}
			default:
				props[p] = map[string]interface{}{"type": "string", "description": pick(t, c19Words, "oasdesc")}
			}
		}
		def := map[string]interface{}{"type": "object", "properties": props}
		if req := c19Distinct(t, names, 0, len(names), "oasreq"); len(req) > 0 {
			def["required"] = req
		}
		definitions[d] = def
	}
	paths := map[string]interface{}{}
	segs := c19Distinct(t, []string{"/things", "/orders", "/users/{id}", "/v1/items", "/accts/{id}/lines"}, 2, 5, "oaspaths")
	for _, sg := range segs {
		item := map[string]interface{}{}
		for _, m := range c19Distinct(t, []string{"get", "post", "put", "delete"}, 1, 3, "oasmeth") {
			var params []interface{}
			if strings.Contains(sg, "{id}") {
				params = append(params, map[string]interface{}{"name": "id", "in": "path", "required": true, "type": "string"})
			}
			for _, q := range c19Distinct(t, []string{"limit", "offset", "q", "tag"}, 0, 3, "oasq") {
				params = append(params, map[string]interface{}{"name": q, "in": "query", "required": rapid.Bool().Draw(t, "oasqreq"), "type": pick(t, []string{"string", "integer"}, "oasqty")})
			}
			if rapid.Bool().Draw(t, "oashdr") {
				params = append(params, map[string]interface{}{"name": "X-Trace", "in": "header", "required": false, "type": "string"})
			}
			if m == "post" || m == "put" {
				params = append(params, map[string]interface{}{"name": "body", "in": "body", "required": true, "schema": map[string]interface{}{"$ref": "#/definitions/" + pick(t, defs, "oasbody")}})
			}
			resp := map[string]interface{}{
				"200": map[string]interface{}{"description": "ok", "schema": map[string]interface{}{"$ref": "#/definitions/" + pick(t, defs, "oasok")}},
			}
			for _, code := range c19Distinct(t, []string{"400", "404", "500", "default"}, 0, 3, "oascodes") {
				resp[code] = map[string]interface{}{"description": "err", "schema": map[string]interface{}{"$ref": "#/definitions/" + pick(t, defs, "oaserr")}}
			}
			op := map[string]interface{}{"responses": resp, "description": pick(t, c19Words, "oasopdesc")}
			if len(params) > 0 {
				op["parameters"] = params
			}
			item[m] = op
		}
		paths[sg] = item
	}
	doc := map[string]interface{}{
		"swagger": "2.0", "info": map[string]interface{}{"title": "Shop", "version": "1.0", "description": "d"},
		"host": "example.com", "basePath": "/api", "consumes": []string{"application/json"}, "produces": []string{"application/json"},
		"paths": paths, "definitions": definitions,
	}
	b, _ := json.MarshalIndent(doc, "", " ")
	return c19Doc{Doc: string(b), Census: map[string]int{"doc_defs": len(defs), "doc_props": maxProps, "doc_paths": len(segs)}}
}

func c19GenXSD(t *rapid.T) c19Doc {
	var sb strings.Builder
	sb.WriteString("<?xml version=\"1.0\"?>\n<xs:schema xmlns:xs=\"http://www.w3.org/2001/XMLSchema\">\n")
	types := c19Distinct(t, c19TypeNames, 2, 5, "xsdtypes")
	maxEl := 0
	for i, tn := range types {
		els := c19Distinct(t, c19FieldNames, 2, 6, "xsdels")
		if len(els) > maxEl {
			maxEl = len(els)
		}
		sb.WriteString("  <xs:complexType name=\"" + tn + "\">\n")
		ext := i > 0 && rapid.IntRange(0, 3).Draw(t, "xsdext") == 0
		ind := "    "
		if ext {
			sb.WriteString("    <xs:complexContent>\n    <xs:extension base=\"" + types[rapid.IntRange(0, i-1).Draw(t, "xsdbase")] + "\">\n")
			ind = "      "
		}
		sb.WriteString(ind + "<xs:sequence>\n")
		for _, e := range els {
			ty := pick(t, []string{"xs:string", "xs:int", "xs:boolean", "xs:date", "xs:decimal"}, "xsdty")
			if i > 0 && rapid.IntRange(0, 3).Draw(t, "xsdref") == 0 {
				ty = types[rapid.IntRange(0, i-1).Draw(t, "xsdreft")]
			}
			occ := pick(t, []string{"", " minOccurs=\"0\"", " minOccurs=\"1\" maxOccurs=\"1\"", " minOccurs=\"0\" maxOccurs=\"10\"", " maxOccurs=\"unbounded\""}, "xsdocc")
			sb.WriteString(ind + "  <xs:element name=\"" + e + "\" type=\"" + ty + "\"" + occ + "/>\n")
		}
		sb.WriteString(ind + "</xs:sequence>\n")
		if !ext {
			for _, a := range c19Distinct(t, []string{"lang", "version", "unit"}, 0, 3, "xsdattrs") {
				sb.WriteString("    <xs:attribute name=\"" + a + "\" type=\"xs:string\"/>\n")
			}
		}
		if ext {
			sb.WriteString("    </xs:extension>\n    </xs:complexContent>\n")
		}
		sb.WriteString("  </xs:complexType>\n")
	}
	for _, e := range c19Distinct(t, []string{"root", "message", "envelope"}, 1, 3, "xsdroots") {
		sb.WriteString("  <xs:element name=\"" + e + "\" type=\"" + pick(t, types, "xsdroott") + "\"/>\n")
	}
	sb.WriteString("</xs:schema>\n")
	return c19Doc{Doc: sb.String(), Census: map[string]int{"doc_defs": len(types), "doc_props": maxEl}}
}
