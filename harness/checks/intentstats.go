package checks

import "fmt"

// intentstats.go — class labels measured on a generated Intent (what did the generator
// actually produce?), shared by the intent-oracle checks.

func stmtDepth(ss []*Stmt) int {
	d := 0
	for _, s := range ss {
		c := stmtDepth(s.Children)
		for _, ch := range s.Choices {
			if x := stmtDepth(ch.Stmts); x > c {
				c = x
			}
		}
		if 1+c > d {
			d = 1 + c
		}
	}
	return d
}

func walkStmts(ss []*Stmt, f func(s *Stmt, depth int), depth int) {
	for _, s := range ss {
		f(s, depth)
		walkStmts(s.Children, f, depth+1)
		for _, c := range s.Choices {
			walkStmts(c.Stmts, f, depth+1)
		}
	}
}

func restMethods(ns []*RestNode, depth int, f func(ep *Endpoint, depth int)) {
	for _, n := range ns {
		for _, m := range n.Methods {
			f(m, depth)
		}
		restMethods(n.Children, depth+1, f)
	}
}

type intentStats struct {
	Classes    []string
	NonTrivial bool
}

func statsOf(in *Intent) intentStats {
	cl := map[string]bool{}
	typeGE2, epDepth2 := false, false
	texpr := func(e TExpr, where string) {
		if e.Opt && e.Wrap != "" && len(e.RefApp) > 0 {
			cl["opt_wrapped_xapp_ref"] = true
		}
		if e.Opt && e.Wrap == "seq" && len(e.RefApp) > 0 {
			cl["opt_seq_xapp_ref"] = true
		}
		if e.Wrap != "" && (e.LenMax > 0 || e.Prec > 0) {
			cl["wrapped_sized"] = true
		}
		if e.Bits != 0 {
			cl["bitwidth"] = true
		}
		if len(e.Tags) > 0 || len(e.Attrs) > 0 || len(e.Annos) > 0 {
			cl[where+"_meta"] = true
		}
	}
	stm := func(ss []*Stmt, where string) {
		if stmtDepth(ss) >= 2 {
			epDepth2 = true
		}
		if stmtDepth(ss) >= 4 {
			cl["stmt_depth_ge4"] = true
		}
		walkStmts(ss, func(s *Stmt, d int) {
			cl["stmt_"+s.Kind] = true
			if s.keyword == "else" && len(s.Children) >= 5 {
				cl["else_branch_ge5"] = true
			}
			if len(s.Children) >= 5 {
				cl["block_ge5"] = true
			}
			if s.keyword == "doc" {
				cl["stmt_doc"] = true
			}
			if len(s.Tags) > 0 || len(s.Attrs) > 0 {
				cl["stmt_meta"] = true
			}
		}, 0)
	}
	for _, a := range in.Apps {
		if len(a.Name) > 1 {
			cl["namespaced_app"] = true
		}
		if len(a.Meta.Annos) > 0 {
			cl["app_annotation"] = true
		}
		for _, v := range a.Meta.Annos {
			if len(v.lines) > 0 {
				cl["multi_line_annotation"] = true
			}
		}
		if len(a.Collector) > 0 {
			cl["collector"] = true
			for _, l := range a.Collector {
				cl["collector_"+l.Kind] = true
			}
		}
		var walkRest func(ns []*RestNode)
		walkRest = func(ns []*RestNode) {
			for _, n := range ns {
				if n.PathVar != nil && len(n.PathVar.T.RefPath) > 0 {
					cl[fmt.Sprintf("path_var_typed_by_ref_%d", len(n.PathVar.T.RefPath))] = true
				}
				walkRest(n.Children)
			}
		}
		walkRest(a.Rest)
		if len(a.Mixins) > 0 {
			cl["mixin"] = true
		}
		for _, td := range a.Types {
			cl["type_"+td.Kind] = true
			if len(td.Fields) >= 2 {
				typeGE2 = true
			}
			if td.Name != unesc(td.Name) {
				cl["urlescaped_type_name"] = true
			}
			for _, f := range td.Fields {
				texpr(f.T, "field")
			}
			for _, e := range td.Enum {
				if e.Val > 65535 {
					cl["enum_value_gt_65535"] = true
				}
			}
		}
		for _, ep := range a.Eps {
			cl["ep_"+ep.Kind] = true
			for _, p := range ep.Params {
				texpr(p.T, "param")
			}
			stm(ep.Stmts, "ep")
		}
		restMethods(a.Rest, 0, func(ep *Endpoint, depth int) {
			cl["ep_rest"] = true
			if ep.Method == "PATCH" {
				cl["rest_patch"] = true
			}
			if depth >= 1 && len(ep.Query) > 0 {
				cl["rest_query_in_nested_path"] = true
			}
			stm(ep.Stmts, "rest")
		})
	}
	out := intentStats{NonTrivial: typeGE2 && epDepth2}
	for k := range cl {
		out.Classes = append(out.Classes, k)
	}
	return out
}
