package checks

// c19_ops.go — the output kinds of C19 and the worker operation that produces them.
// Everything here runs in the sandbox worker (fresh processes are part of the property,
// and several generators can end the process).

import (
	"bytes"
	"context"
	"encoding/json"
	"fmt"
	"io"
	"os"
	"path/filepath"
	"reflect"
	"runtime"
	"sort"
	"strings"
	"time"

	"github.com/anz-bank/sysl/pkg/arrai/relmod"
	"github.com/anz-bank/sysl/pkg/cmdutils"
	"github.com/anz-bank/sysl/pkg/database"
	"github.com/anz-bank/sysl/pkg/datamodeldiagram"
	"github.com/anz-bank/sysl/pkg/exporter"
	"github.com/anz-bank/sysl/pkg/importer"
	"github.com/anz-bank/sysl/pkg/integrationdiagram"
	mdata "github.com/anz-bank/sysl/pkg/mermaid/datamodeldiagram"
	mepa "github.com/anz-bank/sysl/pkg/mermaid/endpointanalysisdiagram"
	mints "github.com/anz-bank/sysl/pkg/mermaid/integrationdiagram"
	mseq "github.com/anz-bank/sysl/pkg/mermaid/sequencediagram"
	"github.com/anz-bank/sysl/pkg/parse"
	"github.com/anz-bank/sysl/pkg/pbutil"
	"github.com/anz-bank/sysl/pkg/sequencediagram"
	"github.com/anz-bank/sysl/pkg/sysl"
	"github.com/anz-bank/sysl/pkg/syslwrapper"
	"github.com/sirupsen/logrus"
	"github.com/spf13/afero"
)

type c19Env struct {
	m, m2 *sysl.Module // m2: second version for delta scripts (may be nil)
	mB    *sysl.Module // the same text compiled a second time (used by the last execution of every kind)
	lg    *logrus.Logger
	oas2  string
	xsd   string
}

type c19Kind struct {
	Name    string
	Slow    bool                            // arr.ai based: seconds per run; sampled sparsely
	Medium  bool                            // ~0.3 s per run: sampled in one case of four
	MaxRuns int                             // cap on executions per process for expensive kinds (0 = none)
	Need    string                          // model | model2 | oas2 | xsd
	Gen     func(e *c19Env) (string, error) // one execution of the generator
	NT      func(s map[string]int) bool     // non-trivial: >=2 entries in a map feeding this output
}

func c19SortedApps(m *sysl.Module) []string {
	var ns []string
	for n := range m.Apps {
		ns = append(ns, n)
	}
	sort.Strings(ns)
	return ns
}

func c19JoinMap(mm map[string]string) string {
	var ks []string
	for k := range mm {
		ks = append(ks, k)
	}
	sort.Strings(ks)
	var sb strings.Builder
	for _, k := range ks {
		sb.WriteString("## " + k + "\n" + mm[k] + "\n")
	}
	return sb.String()
}

func c19PB(enc string, compact bool) func(e *c19Env) (string, error) {
	return func(e *c19Env) (string, error) {
		var b bytes.Buffer
		var err error
		switch enc {
		case "textpb":
			err = pbutil.FTextPBWithOpt(&b, e.m, pbutil.OutputOptions{Compact: compact})
		case "json":
			err = pbutil.FJSONPBWithOpt(&b, e.m, pbutil.OutputOptions{Compact: compact})
		default:
			err = pbutil.GeneratePBBinaryMessage(&b, e.m)
			return fmt.Sprintf("%x", b.Bytes()), err
		}
		return b.String(), err
	}
}

func c19RestOnly(app *sysl.Application) bool {
	n := 0
	for en, ep := range app.Endpoints {
		if ep.GetRestParams() == nil || !strings.Contains(en, " /") {
			return false
		}
		n++
	}
	return n > 0
}

func c19Ints(epa, clustered bool) func(e *c19Env) (string, error) {
	return func(e *c19Env) (string, error) {
		proj := ""
		for _, n := range c19SortedApps(e.m) {
			if strings.HasPrefix(n, "Proj") {
				proj = n
				break
			}
		}
		if proj == "" {
			return "", fmt.Errorf("no project application")
		}
		r, err := integrationdiagram.GenerateIntegrations(&cmdutils.CmdContextParamIntgen{Project: proj, Output: "%(epname).puml", Title: "t", EPA: epa, Clustered: clustered}, e.m, e.lg)
		if err != nil {
			return "", err
		}
		return c19JoinMap(r), nil
	}
}

func c19OpenAPI3(format string) func(e *c19Env) (string, error) {
	return func(e *c19Env) (string, error) {
		var sb strings.Builder
		n := 0
		for _, an := range c19SortedApps(e.m) {
			if !c19RestOnly(e.m.Apps[an]) {
				continue
			}
			n++
			mod := &sysl.Module{Apps: map[string]*sysl.Application{an: e.m.Apps[an]}}
			mp := syslwrapper.MakeAppMapper(mod)
			mp.IndexTypes()
			apps, err := mp.Map()
			if err != nil {
				return "", err
			}
			ex := exporter.MakeOpenAPI3Exporter(apps, e.lg)
			if err := ex.Export(); err != nil {
				return "", err
			}
			o, err := ex.SerializeOutput(an, format)
			if err != nil {
				return "", err
			}
			sb.WriteString("## " + an + "\n" + string(o) + "\n")
		}
		if n == 0 {
			return "", fmt.Errorf("no REST-only application")
		}
		return sb.String(), nil
	}
}

func c19Swagger(format string) func(e *c19Env) (string, error) {
	return func(e *c19Env) (string, error) {
		var sb strings.Builder
		n := 0
		for _, an := range c19SortedApps(e.m) {
			if !c19RestOnly(e.m.Apps[an]) {
				continue
			}
			n++
			sw := exporter.MakeSwaggerExporter(e.m.Apps[an], e.lg)
			if err := sw.GenerateSwagger(); err != nil {
				return "", err
			}
			o, err := sw.SerializeOutput(format)
			if err != nil {
				return "", err
			}
			sb.WriteString("## " + an + "\n" + string(o) + "\n")
		}
		if n == 0 {
			return "", fmt.Errorf("no REST-only application")
		}
		return sb.String(), nil
	}
}

func c19Transform(name string) func(e *c19Env) (string, error) {
	return func(e *c19Env) (string, error) {
		var b bytes.Buffer
		x := exporter.MakeTransformExporter(afero.NewMemMapFs(), e.lg, ".", "out."+name, name)
		if err := x.ExportToWriter(&b, []*sysl.Module{e.m}, []string{"spec.sysl"}); err != nil {
			return "", err
		}
		return b.String(), nil
	}
}

func c19TableApps(m *sysl.Module) []string {
	var out []string
	for _, an := range c19SortedApps(m) {
		for _, ty := range m.Apps[an].Types {
			if ty.GetRelation() != nil {
				out = append(out, an)
				break
			}
		}
	}
	return out
}

// canonical form of a relmod value: slices tagged `arrai:",unordered"` are multisets and are
// sorted by the JSON of their (already canonical) elements; all other slices keep their order.
func c19Canon(v reflect.Value, unordered bool) interface{} {
	for v.Kind() == reflect.Ptr || v.Kind() == reflect.Interface {
		if v.IsNil() {
			return nil
		}
		v = v.Elem()
	}
	switch v.Kind() {
	case reflect.Struct:
		out := map[string]interface{}{}
		for i := 0; i < v.NumField(); i++ {
			f := v.Type().Field(i)
			if f.IsExported() {
				out[f.Name] = c19Canon(v.Field(i), strings.Contains(f.Tag.Get("arrai"), "unordered"))
			}
		}
		return out
	case reflect.Map:
		out := map[string]interface{}{}
		for _, k := range v.MapKeys() {
			out[fmt.Sprint(k.Interface())] = c19Canon(v.MapIndex(k), false)
		}
		return out
	case reflect.Slice, reflect.Array:
		if v.Kind() == reflect.Slice && v.Type().Elem().Kind() == reflect.Uint8 {
			return fmt.Sprintf("%x", v.Bytes())
		}
		elems := make([]interface{}, v.Len())
		for i := range elems {
			elems[i] = c19Canon(v.Index(i), false)
		}
		if unordered {
			keys := make([]string, len(elems))
			for i, e := range elems {
				b, _ := json.Marshal(e)
				keys[i] = string(b)
			}
			sort.Strings(keys)
			raw := make([]interface{}, len(keys))
			for i, k := range keys {
				raw[i] = json.RawMessage(k)
			}
			return raw
		}
		return elems
	default:
		if v.CanInterface() {
			return v.Interface()
		}
		return fmt.Sprint(v)
	}
}

func c19SchemaJSON(s *relmod.Schema) string {
	b, err := json.MarshalIndent(c19Canon(reflect.ValueOf(s), false), "", " ")
	if err != nil {
		return "marshal: " + err.Error()
	}
	return string(b)
}

func c19Import(name string, doc func(e *c19Env) string) func(e *c19Env) (string, error) {
	return func(e *c19Env) (string, error) {
		d := doc(e)
		im, err := importer.Factory("/x/"+name, false, "", []byte(d), e.lg)
		if err != nil {
			return "", err
		}
		im, err = im.Configure(&importer.ImporterArg{AppName: "Imp", PackageName: "pkg"})
		if err != nil {
			return "", err
		}
		return im.Load(d)
	}
}

func c19ge(keys ...string) func(s map[string]int) bool {
	return func(s map[string]int) bool {
		for _, k := range keys {
			if s[k] < 2 {
				return false
			}
		}
		return true
	}
}

var c19Kinds = []c19Kind{
	{Name: "pb-textpb", Need: "model", Gen: c19PB("textpb", false), NT: c19ge("apps", "types", "fields")},
	{Name: "pb-textpb-compact", Need: "model", Gen: c19PB("textpb", true), NT: c19ge("apps", "types", "fields")},
	{Name: "pb-json", Need: "model", Gen: c19PB("json", false), NT: c19ge("apps", "types", "fields")},
	{Name: "pb-json-compact", Need: "model", Gen: c19PB("json", true), NT: c19ge("apps", "types", "fields")},
	{Name: "pb-binary", Need: "model", Gen: c19PB("pb", false), NT: c19ge("apps", "types", "fields")},
	{Name: "sd-plantuml", Need: "model", NT: c19ge("apps", "calls_in_ep"), Gen: func(e *c19Env) (string, error) {
		var sb strings.Builder
		for _, an := range c19SortedApps(e.m) {
			if strings.HasPrefix(an, "Proj") {
				continue
			}
			var eps []string
			for en := range e.m.Apps[an].Endpoints {
				eps = append(eps, en)
			}
			sort.Strings(eps)
			for _, en := range eps {
				if en == `.. * <- *` || en == "..." {
					continue
				}
				p := &sequencediagram.SequenceDiagParam{
					AppLabeler:      cmdutils.MakeFormatParser("%(appname)"),
					EndpointLabeler: cmdutils.MakeFormatParser("%(epname) %(args)"),
					Endpoints:       []string{an + " <- " + en},
					Blackboxes:      map[string]*cmdutils.Upto{},
					Title:           "t",
				}
				out, err := sequencediagram.GenerateSequenceDiag(e.m, p, e.lg)
				if err != nil {
					return "", err
				}
				sb.WriteString("## " + an + " <- " + en + "\n" + out + "\n")
			}
		}
		return sb.String(), nil
	}},
	{Name: "sd-project-plantuml", Need: "model", NT: c19ge("apps", "calls_in_ep"), Gen: func(e *c19Env) (string, error) {
		if e.m.Apps["ProjSeq"] == nil {
			return "", fmt.Errorf("no sequence project application")
		}
		r, err := sequencediagram.DoConstructSequenceDiagrams(&cmdutils.CmdContextParamSeqgen{
			EndpointFormat: "%(epname) %(args)", AppFormat: "%(appname)", Title: "t", Output: "%(epname).puml",
			AppsFlag: []string{"ProjSeq"}, BlackboxesFlag: map[string]string{}}, e.m, e.lg)
		if err != nil {
			return "", err
		}
		return c19JoinMap(r), nil
	}},
	{Name: "ints-plantuml", Need: "model", Gen: c19Ints(false, false), NT: c19ge("apps", "call_edges")},
	{Name: "ints-plantuml-epa", Need: "model", Gen: c19Ints(true, false), NT: c19ge("apps", "call_edges")},
	{Name: "ints-plantuml-clustered", Need: "model", Gen: c19Ints(false, true), NT: c19ge("apps", "call_edges")},
	{Name: "datamodel-plantuml", Need: "model", NT: c19ge("types", "fields"), Gen: func(e *c19Env) (string, error) {
		r, err := datamodeldiagram.GenerateDataModels(&cmdutils.CmdContextParamDatagen{Direct: true, Output: "%(epname).puml", ClassFormat: "%(classname)", Title: "t"}, e.m, e.lg)
		if err != nil {
			return "", err
		}
		return c19JoinMap(r), nil
	}},
	{Name: "mermaid-sd", Need: "model", NT: c19ge("apps", "calls_in_ep"), Gen: func(e *c19Env) (string, error) {
		var sb strings.Builder
		for _, an := range c19SortedApps(e.m) {
			var eps []string
			for en := range e.m.Apps[an].Endpoints {
				eps = append(eps, en)
			}
			sort.Strings(eps)
			for _, en := range eps {
				out, err := mseq.GenerateSequenceDiagram(e.m, an, en)
				if err != nil {
					return "", err
				}
				sb.WriteString("## " + an + " <- " + en + "\n" + out + "\n")
			}
		}
		return sb.String(), nil
	}},
	{Name: "mermaid-ints", Need: "model", NT: c19ge("apps", "call_edges"), Gen: func(e *c19Env) (string, error) {
		return mints.GenerateFullIntegrationDiagram(e.m)
	}},
	{Name: "mermaid-data", Need: "model", NT: c19ge("types", "fields"), Gen: func(e *c19Env) (string, error) {
		return mdata.GenerateFullDataDiagram(e.m)
	}},
	{Name: "mermaid-epa", Need: "model", NT: c19ge("apps", "call_edges"), Gen: func(e *c19Env) (string, error) {
		return mepa.GenerateEndpointAnalysisDiagram(e.m)
	}},
	{Name: "openapi3-yaml", Need: "model", Gen: c19OpenAPI3("yaml"), NT: c19ge("rest_eps", "rest_types", "rest_fields")},
	{Name: "openapi3-json", Need: "model", Gen: c19OpenAPI3("json"), NT: c19ge("rest_eps", "rest_types", "rest_fields")},
	{Name: "swagger-yaml", Need: "model", Gen: c19Swagger("yaml"), NT: c19ge("rest_eps", "rest_types", "rest_fields")},
	{Name: "swagger-json", Need: "model", Gen: c19Swagger("json"), NT: c19ge("rest_eps", "rest_types", "rest_fields")},
	{Name: "export-spanner", Slow: true, MaxRuns: 2, Need: "model", Gen: c19Transform("spanner"), NT: c19ge("tables", "table_cols")},
	{Name: "export-proto", Slow: true, MaxRuns: 2, Need: "model", Gen: c19Transform("proto"), NT: c19ge("types", "fields")},
	{Name: "sql-create", Need: "model", NT: c19ge("tables", "table_cols"), Gen: func(e *c19Env) (string, error) {
		apps := c19TableApps(e.m)
		if len(apps) == 0 {
			return "", fmt.Errorf("no application with tables")
		}
		var sb strings.Builder
		for _, an := range apps {
			v := database.MakeDatabaseScriptView("t", e.lg)
			sb.WriteString("## " + an + "\n" + v.GenerateDatabaseScriptCreate(e.m.Apps[an].GetTypes(), "postgres", an) + "\n")
		}
		return sb.String(), nil
	}},
	{Name: "sql-delta", Need: "model2", NT: c19ge("tables", "table_cols", "delta_changes"), Gen: func(e *c19Env) (string, error) {
		apps := c19TableApps(e.m2)
		if len(apps) == 0 {
			return "", fmt.Errorf("no application with tables")
		}
		v := database.MakeDatabaseScriptView("t", e.lg)
		outs := v.ProcessModSysls(e.m.GetApps(), e.m2.GetApps(), apps, "out", "postgres")
		fs := afero.NewMemMapFs()
		if err := database.GenerateFromSQLMap(outs, fs, e.lg); err != nil {
			return "", err
		}
		res := map[string]string{}
		_ = afero.Walk(fs, "out", func(p string, info os.FileInfo, err error) error {
			if err == nil && !info.IsDir() {
				b, _ := afero.ReadFile(fs, p)
				res[filepath.ToSlash(p)] = string(b)
			}
			return nil
		})
		return c19JoinMap(res), nil
	}},
	{Name: "relmod", Medium: true, MaxRuns: 3, Need: "model", NT: c19ge("apps", "types", "fields"), Gen: func(e *c19Env) (string, error) {
		s, err := relmod.Normalize(context.Background(), e.m)
		if err != nil {
			return "", err
		}
		return c19SchemaJSON(s), nil
	}},
	{Name: "import-oas2", Need: "oas2", Gen: c19Import("doc.json", func(e *c19Env) string { return e.oas2 }), NT: c19ge("doc_defs", "doc_props", "doc_paths")},
	{Name: "import-xsd", Need: "xsd", Gen: c19Import("doc.xsd", func(e *c19Env) string { return e.xsd }), NT: c19ge("doc_defs", "doc_props")},
}

func c19KindByName(n string) *c19Kind {
	for i := range c19Kinds {
		if c19Kinds[i].Name == n {
			return &c19Kinds[i]
		}
	}
	return nil
}

// ---------- model census ----------

func c19Census(m *sysl.Module) map[string]int {
	s := map[string]int{}
	mx := func(k string, v int) {
		if v > s[k] {
			s[k] = v
		}
	}
	s["apps"] = len(m.Apps)
	edges := map[string]bool{}
	for an, app := range m.Apps {
		mx("types", len(app.Types))
		mx("eps", len(app.Endpoints))
		mx("attrs", len(app.Attrs))
		tables := 0
		rest := c19RestOnly(app)
		if rest {
			mx("rest_eps", len(app.Endpoints))
			mx("rest_types", len(app.Types))
		}
		for _, ty := range app.Types {
			n := len(ty.GetTuple().GetAttrDefs()) + len(ty.GetRelation().GetAttrDefs())
			mx("fields", n)
			if rest {
				mx("rest_fields", n)
			}
			if ty.GetRelation() != nil {
				tables++
				mx("table_cols", n)
			}
			mx("enum_items", len(ty.GetEnum().GetItems()))
			seen := map[int64]bool{}
			for _, v := range ty.GetEnum().GetItems() {
				if seen[v] {
					s["enum_dup_values"] = 1
				}
				seen[v] = true
			}
		}
		mx("tables", tables)
		for _, ep := range app.Endpoints {
			mx("params", len(ep.Param))
			mx("query", len(ep.GetRestParams().GetQueryParam()))
			targets := map[string]bool{}
			var walk func(ss []*sysl.Statement)
			walk = func(ss []*sysl.Statement) {
				for _, st := range ss {
					if c := st.GetCall(); c != nil {
						tn := strings.Join(c.Target.GetPart(), " :: ")
						targets[tn+"<-"+c.Endpoint] = true
						if tn != an {
							edges[an+"->"+tn] = true
						}
					}
					walk(st.GetCond().GetStmt())
					walk(st.GetLoop().GetStmt())
					walk(st.GetLoopN().GetStmt())
					walk(st.GetForeach().GetStmt())
					walk(st.GetGroup().GetStmt())
					for _, ch := range st.GetAlt().GetChoice() {
						walk(ch.Stmt)
					}
				}
			}
			walk(ep.Stmt)
			mx("calls_in_ep", len(targets))
		}
	}
	s["call_edges"] = len(edges)
	return s
}

// ---------- worker operation ----------

type c19Arg struct {
	Path  string   `json:"path,omitempty"` // corpus file (absolute)
	Text  string   `json:"text,omitempty"`
	Text2 string   `json:"text2,omitempty"`
	OAS2  string   `json:"oas2,omitempty"`
	XSD   string   `json:"xsd,omitempty"`
	Kinds []string `json:"kinds"`
	Runs  int      `json:"runs"`
	// Recompile: compile the text again before the last run (compilation is part of every command)
	Recompile bool `json:"recompile,omitempty"`
}

type c19KindRes struct {
	First  string   `json:"first"`            // output of the first run
	Others []string `json:"others,omitempty"` // outputs of later runs that differ from the first
	Err    string   `json:"err,omitempty"`    // error of the first run ("" = success)
	ErrMix bool     `json:"errmix,omitempty"` // some runs failed, others succeeded
	Panic  string   `json:"panic,omitempty"`  // recovered panic (first frame): the kind is skipped for this model
	Runs   int      `json:"runs"`
	Ms     int64    `json:"ms"`
}

type c19Res struct {
	CompileMs int64                 `json:"compile_ms"`
	Rejected  string                `json:"rejected,omitempty"`
	Census    map[string]int        `json:"census,omitempty"`
	Kinds     map[string]c19KindRes `json:"kinds"`
}

func c19CompileArg(path, text string) (*sysl.Module, error) {
	if path != "" {
		fs := afero.NewBasePathFs(afero.NewOsFs(), filepath.Dir(path))
		return parse.NewParser().ParseFromFs(filepath.Base(path), fs)
	}
	return parse.NewParser().ParseString(text)
}

func c19Run(a c19Arg) (*c19Res, error) {
	lg := logrus.New()
	lg.SetOutput(io.Discard)
	lg.ExitFunc = logrus.StandardLogger().ExitFunc
	res := &c19Res{Kinds: map[string]c19KindRes{}}
	env := &c19Env{lg: lg, oas2: a.OAS2, xsd: a.XSD}
	needModel := false
	for _, kn := range a.Kinds {
		if k := c19KindByName(kn); k != nil && (k.Need == "model" || k.Need == "model2") {
			needModel = true
		}
	}
	compile := func() error {
		var err error
		env.m, err = c19CompileArg(a.Path, a.Text)
		if err != nil {
			return err
		}
		if a.Text2 != "" {
			env.m2, err = parse.NewParser().ParseString(a.Text2)
			if err != nil {
				return err
			}
		}
		return nil
	}
	t0 := time.Now()
	if needModel {
		if err := compile(); err != nil {
			res.Rejected = err.Error()
			return res, nil
		}
		res.Census = c19Census(env.m)
		if a.Recompile {
			// compilation is part of every command: the last execution of each kind runs on a second compilation
			var err error
			if env.mB, err = c19CompileArg(a.Path, a.Text); err != nil {
				res.Rejected = "second compilation failed: " + err.Error()
				return res, nil
			}
		}
	}
	mA := env.m
	res.CompileMs = time.Since(t0).Milliseconds()
	for _, kn := range a.Kinds {
		k := c19KindByName(kn)
		if k == nil {
			return nil, fmt.Errorf("unknown output kind %q", kn)
		}
		if k.Need == "model2" && env.m2 == nil || k.Need == "oas2" && a.OAS2 == "" || k.Need == "xsd" && a.XSD == "" {
			continue
		}
		kr := c19KindRes{}
		runs := a.Runs
		if k.MaxRuns > 0 && runs > k.MaxRuns {
			runs = k.MaxRuns
		}
		tk := time.Now()
		func() {
			defer func() {
				if r := recover(); r != nil {
					buf := make([]byte, 1<<16)
					n := runtime.Stack(buf, false)
					kr.Panic = fmt.Sprintf("%v @%s", r, repoFrame(string(buf[:n])))
				}
			}()
			for i := 0; i < runs; i++ {
				env.m = mA
				if env.mB != nil && i == runs-1 && i > 0 {
					env.m = env.mB
				}
				out, err := k.Gen(env)
				kr.Runs++
				es := ""
				if err != nil {
					es = "error: " + err.Error()
					out = ""
				}
				if i == 0 {
					kr.First, kr.Err = out, es
					continue
				}
				if (es == "") != (kr.Err == "") {
					kr.ErrMix = true
				}
				if out != kr.First && len(kr.Others) < 3 {
					kr.Others = append(kr.Others, out)
				}
			}
		}()
		env.m = mA
		kr.Ms = time.Since(tk).Milliseconds()
		res.Kinds[kn] = kr
	}
	return res, nil
}

var _ = registerOp("c19.run", func(arg json.RawMessage) (interface{}, error) {
	var a c19Arg
	if err := json.Unmarshal(arg, &a); err != nil {
		return nil, err
	}
	return c19Run(a)
})
