package checks

import (
	"io"
	"os"
	"testing"

	"github.com/sirupsen/logrus"
)

func TestMain(m *testing.M) {
	if os.Getenv("VERIF_WORKER") == "1" {
		workerMain()
		os.Exit(0)
	}
	logrus.SetOutput(io.Discard)
	code := m.Run()
	shutdownSandbox()
	dumpRecs()
	os.Exit(code)
}

// TestReplay re-decides one saved case without rapid: VERIF_REPLAY=<path>.
func TestReplay(t *testing.T) {
	path := os.Getenv("VERIF_REPLAY")
	if path == "" {
		t.Skip("VERIF_REPLAY not set")
	}
	if err := replayFile(path); err != nil {
		t.Fatalf("REPLAY-FAIL %s: %v", path, err)
	}
	t.Logf("REPLAY-PASS %s", path)
}
