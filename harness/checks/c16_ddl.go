package checks

// c16_ddl.go — reference interpreter for exactly the DDL subset the database script
// generator can emit, with PostgreSQL's rules for those statements. It is strict: a
// statement or a column type outside the subset is recorded in Unknown (harness cannot
// judge => inconclusive, never a pass); a statement PostgreSQL would refuse is recorded
// in Errs. Identifiers are folded to lower case as PostgreSQL does for unquoted names.

import (
	"fmt"
	"regexp"
	"sort"
	"strings"
)

type c16CatCol struct {
	Typ     string // integer | bigint | date | varchar (n)
	Autoinc bool   // bigserial, or a nextval default
}

type c16CatFK struct {
	Name, Col, RefT, RefC string
}

type c16CatTable struct {
	Name   string
	Cols   map[string]*c16CatCol
	PKName string
	PK     []string
	FKs    map[string]*c16CatFK // by constraint name
}

type c16Catalog struct {
	Tables  map[string]*c16CatTable
	Seqs    map[string]bool
	Errs    []string
	Unknown []string
	Creates []string // table names in CREATE TABLE order (including refused duplicates)
}

func c16NewCatalog() *c16Catalog {
	return &c16Catalog{Tables: map[string]*c16CatTable{}, Seqs: map[string]bool{}}
}

func (c *c16Catalog) errf(f string, a ...interface{}) { c.Errs = append(c.Errs, fmt.Sprintf(f, a...)) }

var (
	c16ReComment  = regexp.MustCompile(`(?s)/\*.*?\*/`)
	c16ReCreate   = regexp.MustCompile(`(?s)^create table (\w+)\s*\((.*)\)$`)
	c16ReColDef   = regexp.MustCompile(`(?s)^(\w+)(?:\s+(.*))?$`)
	c16RePK       = regexp.MustCompile(`^constraint (\w+) primary key\s*\((.*)\)$`)
	c16ReFK       = regexp.MustCompile(`^constraint (\w+) foreign key\s*\(\s*(\w+)\s*\) references (\w+)\s*\(\s*(\w+)\s*\)$`)
	c16ReAddCol   = regexp.MustCompile(`^alter table (\w+) add column (\w+)(?:\s+(.*))?$`)
	c16ReDropCol  = regexp.MustCompile(`^alter table (\w+) drop column (\w+)$`)
	c16ReAltType  = regexp.MustCompile(`^alter table (\w+) alter column (\w+) type(?:\s+(.*))?$`)
	c16ReAddCons  = regexp.MustCompile(`^alter table (\w+) add (constraint .+)$`)
	c16ReDropCons = regexp.MustCompile(`^alter table (\w+) drop constraint (\w+)$`)
	c16ReSetDef   = regexp.MustCompile(`^alter table (\w+) alter column (\w+) set default nextval\('(\w+)'\)$`)
	c16ReCreSeq   = regexp.MustCompile(`^create sequence (\w+)$`)
	c16ReAltSeq   = regexp.MustCompile(`^alter sequence (\w+) owned by (\w+)\.(\w+)$`)
	c16ReSetval   = regexp.MustCompile(`^select setval\('(\w+)', coalesce\(max\((\w+)\), 1\)\) from (\w+)$`)
	c16ReVarchar  = regexp.MustCompile(`^varchar\s*\(\s*(\d+)\s*\)$`)
	c16ReSpace    = regexp.MustCompile(`[ \t]+`)
)

// c16NormType maps a written column type to (catalog type, autoinc, ok). ok=false: the type is
// not one PostgreSQL knows among those the generator may emit (empty, garbage).
func c16NormType(t string, allowSerial bool) (string, bool, bool) {
	t = strings.TrimSpace(t)
	switch t {
	case "integer", "bigint", "date":
		return t, false, true
	case "bigserial":
		if !allowSerial {
			return "", false, false
		}
		return "bigint", true, true
	}
	if m := c16ReVarchar.FindStringSubmatch(t); m != nil {
		if m[1] == "0" {
			return "", false, false
		}
		return "varchar (" + strings.TrimLeft(m[1], "0") + ")", false, true
	}
	return "", false, false
}

// c16SplitTop splits s on commas that are outside parentheses.
func c16SplitTop(s string) []string {
	var out []string
	depth, start := 0, 0
	for i, r := range s {
		switch r {
		case '(':
			depth++
		case ')':
			depth--
		case ',':
			if depth == 0 {
				out = append(out, s[start:i])
				start = i + 1
			}
		}
	}
	return append(out, s[start:])
}

func (c *c16Catalog) addConstraint(tn, cons string) {
	tb := c.Tables[tn]
	if tb == nil {
		c.errf("constraint on missing table %s", tn)
		return
	}
	cons = strings.TrimSpace(cons)
	if m := c16RePK.FindStringSubmatch(cons); m != nil {
		if tb.PKName != "" {
			c.errf("multiple primary keys for table %s", tn)
			return
		}
		if _, dup := tb.FKs[m[1]]; dup {
			c.errf("constraint %s for relation %s already exists", m[1], tn)
			return
		}
		var cols []string
		seen := map[string]bool{}
		for _, col := range strings.Split(m[2], ",") {
			col = strings.TrimSpace(col)
			if col == "" {
				c.errf("syntax error: empty column in primary key of %s", tn)
				return
			}
			if tb.Cols[col] == nil {
				c.errf("primary key column %s.%s does not exist", tn, col)
				return
			}
			if seen[col] {
				c.errf("column %s appears twice in primary key of %s", col, tn)
				return
			}
			seen[col] = true
			cols = append(cols, col)
		}
		tb.PKName, tb.PK = m[1], cols
		return
	}
	if m := c16ReFK.FindStringSubmatch(cons); m != nil {
		if _, dup := tb.FKs[m[1]]; dup || tb.PKName == m[1] {
			c.errf("constraint %s for relation %s already exists", m[1], tn)
			return
		}
		if tb.Cols[m[2]] == nil {
			c.errf("foreign key column %s.%s does not exist", tn, m[2])
			return
		}
		ref := c.Tables[m[3]]
		if ref == nil {
			c.errf("foreign key %s: relation %s does not exist", m[1], m[3])
			return
		}
		if ref.Cols[m[4]] == nil {
			c.errf("foreign key %s: column %s.%s does not exist", m[1], m[3], m[4])
			return
		}
		tb.FKs[m[1]] = &c16CatFK{Name: m[1], Col: m[2], RefT: m[3], RefC: m[4]}
		return
	}
	c.Unknown = append(c.Unknown, "constraint: "+cons)
}

// Exec runs a script. It never panics on malformed input.
func (c *c16Catalog) Exec(sql string) {
	sql = c16ReComment.ReplaceAllString(sql, "")
	for _, raw := range strings.Split(sql, ";") {
		st := strings.TrimSpace(raw)
		if st == "" {
			continue
		}
		st = strings.ToLower(st)
		if m := c16ReCreate.FindStringSubmatch(st); m != nil {
			c.execCreate(m[1], m[2])
			continue
		}
		st = c16ReSpace.ReplaceAllString(st, " ")
		if strings.ContainsAny(st, "\n\r") {
			c.Unknown = append(c.Unknown, raw)
			continue
		}
		if m := c16ReAddCol.FindStringSubmatch(st); m != nil {
			tb := c.Tables[m[1]]
			if tb == nil {
				c.errf("add column: relation %s does not exist", m[1])
				continue
			}
			if tb.Cols[m[2]] != nil {
				c.errf("column %s of relation %s already exists", m[2], m[1])
				continue
			}
			ty, ai, ok := c16NormType(m[3], true)
			if !ok {
				c.errf("add column %s.%s: invalid type %q", m[1], m[2], m[3])
				continue
			}
			tb.Cols[m[2]] = &c16CatCol{Typ: ty, Autoinc: ai}
			continue
		}
		if m := c16ReDropCol.FindStringSubmatch(st); m != nil {
			c.execDropCol(m[1], m[2])
			continue
		}
		if m := c16ReSetDef.FindStringSubmatch(st); m != nil {
			tb := c.Tables[m[1]]
			if tb == nil || tb.Cols[m[2]] == nil {
				c.errf("set default: column %s.%s does not exist", m[1], m[2])
				continue
			}
			if !c.Seqs[m[3]] {
				c.errf("set default: sequence %s does not exist", m[3])
				continue
			}
			tb.Cols[m[2]].Autoinc = true
			continue
		}
		if m := c16ReAltType.FindStringSubmatch(st); m != nil {
			tb := c.Tables[m[1]]
			if tb == nil || tb.Cols[m[2]] == nil {
				c.errf("alter type: column %s.%s does not exist", m[1], m[2])
				continue
			}
			ty, _, ok := c16NormType(m[3], false)
			if !ok {
				c.errf("alter type of %s.%s: invalid type %q", m[1], m[2], m[3])
				continue
			}
			tb.Cols[m[2]].Typ = ty
			continue
		}
		if m := c16ReDropCons.FindStringSubmatch(st); m != nil {
			tb := c.Tables[m[1]]
			if tb == nil {
				c.errf("drop constraint: relation %s does not exist", m[1])
				continue
			}
			if tb.PKName == m[2] {
				// a primary key that other tables' foreign keys depend on cannot be dropped without CASCADE;
				// that dependency is on the unique index, which this catalog does not model (see c16 notes)
				tb.PKName, tb.PK = "", nil
			} else if _, ok := tb.FKs[m[2]]; ok {
				delete(tb.FKs, m[2])
			} else {
				c.errf("constraint %s of relation %s does not exist", m[2], m[1])
			}
			continue
		}
		if m := c16ReAddCons.FindStringSubmatch(st); m != nil {
			c.addConstraint(m[1], m[2])
			continue
		}
		if m := c16ReCreSeq.FindStringSubmatch(st); m != nil {
			if c.Seqs[m[1]] {
				c.errf("relation %s already exists", m[1])
			}
			c.Seqs[m[1]] = true
			continue
		}
		if m := c16ReAltSeq.FindStringSubmatch(st); m != nil {
			if !c.Seqs[m[1]] {
				c.errf("sequence %s does not exist", m[1])
			} else if tb := c.Tables[m[2]]; tb == nil || tb.Cols[m[3]] == nil {
				c.errf("alter sequence: column %s.%s does not exist", m[2], m[3])
			}
			continue
		}
		if m := c16ReSetval.FindStringSubmatch(st); m != nil {
			if !c.Seqs[m[1]] {
				c.errf("sequence %s does not exist", m[1])
			} else if tb := c.Tables[m[3]]; tb == nil || tb.Cols[m[2]] == nil {
				c.errf("setval: column %s.%s does not exist", m[3], m[2])
			}
			continue
		}
		c.Unknown = append(c.Unknown, raw)
	}
}

func (c *c16Catalog) execCreate(name, body string) {
	c.Creates = append(c.Creates, name)
	if c.Tables[name] != nil {
		c.errf("relation %s already exists", name)
		return
	}
	tb := &c16CatTable{Name: name, Cols: map[string]*c16CatCol{}, FKs: map[string]*c16CatFK{}}
	var cons []string
	ok := true
	for _, item := range c16SplitTop(body) {
		item = strings.TrimSpace(c16ReSpace.ReplaceAllString(strings.ReplaceAll(item, "\n", " "), " "))
		if item == "" {
			c.errf("syntax error in CREATE TABLE %s: empty element (stray comma)", name)
			ok = false
			continue
		}
		if strings.HasPrefix(item, "constraint ") {
			cons = append(cons, item)
			continue
		}
		m := c16ReColDef.FindStringSubmatch(item)
		if m == nil {
			c.Unknown = append(c.Unknown, "column definition: "+item)
			ok = false
			continue
		}
		if tb.Cols[m[1]] != nil {
			c.errf("column %s specified more than once in %s", m[1], name)
			ok = false
			continue
		}
		ty, ai, tok := c16NormType(m[2], true)
		if !tok {
			c.errf("column %s.%s: invalid type %q", name, m[1], m[2])
			ok = false
			continue
		}
		tb.Cols[m[1]] = &c16CatCol{Typ: ty, Autoinc: ai}
	}
	if len(tb.Cols) == 0 && ok {
		// legal in PostgreSQL, nothing to refuse
		_ = ok
	}
	// the statement is atomic: constraints are evaluated against the new table; a failure refuses the whole statement
	c.Tables[name] = tb
	before := len(c.Errs)
	for _, k := range cons {
		c.addConstraint(name, k)
	}
	if !ok || len(c.Errs) > before {
		delete(c.Tables, name)
	}
}

func (c *c16Catalog) execDropCol(tn, col string) {
	tb := c.Tables[tn]
	if tb == nil || tb.Cols[col] == nil {
		c.errf("drop column: column %s.%s does not exist", tn, col)
		return
	}
	// other tables' foreign keys that reference the column block the drop (no CASCADE is emitted)
	for _, on := range c.sortedTables() {
		o := c.Tables[on]
		for _, fk := range o.FKs {
			if fk.RefT == tn && fk.RefC == col && !(on == tn && fk.Col == col) {
				c.errf("cannot drop column %s.%s: constraint %s on %s depends on it", tn, col, fk.Name, on)
				return
			}
		}
	}
	delete(tb.Cols, col)
	for k, fk := range tb.FKs {
		if fk.Col == col {
			delete(tb.FKs, k)
		}
	}
	for _, p := range tb.PK {
		if p == col {
			tb.PKName, tb.PK = "", nil
			break
		}
	}
}

func (c *c16Catalog) sortedTables() []string {
	var names []string
	for n := range c.Tables {
		names = append(names, n)
	}
	sort.Strings(names)
	return names
}

func (c *c16Catalog) Clone() *c16Catalog {
	o := c16NewCatalog()
	for n, t := range c.Tables {
		nt := &c16CatTable{Name: t.Name, Cols: map[string]*c16CatCol{}, PKName: t.PKName, PK: append([]string(nil), t.PK...), FKs: map[string]*c16CatFK{}}
		for k, v := range t.Cols {
			cc := *v
			nt.Cols[k] = &cc
		}
		for k, v := range t.FKs {
			cc := *v
			nt.FKs[k] = &cc
		}
		o.Tables[n] = nt
	}
	for s := range c.Seqs {
		o.Seqs[s] = true
	}
	return o
}

// c16Diff is one difference between two catalogs (or a catalog and an expectation).
type c16Diff struct {
	Table string `json:"table"`
	Col   string `json:"col,omitempty"`
	What  string `json:"what"` // table-missing table-extra col-missing col-extra type autoinc pk fk
	Got   string `json:"got,omitempty"`
	Want  string `json:"want,omitempty"`
}

func (d c16Diff) String() string {
	s := d.What + " " + d.Table
	if d.Col != "" {
		s += "." + d.Col
	}
	return fmt.Sprintf("%s: got %q want %q", s, d.Got, d.Want)
}

func c16PKString(t *c16CatTable) string {
	pk := append([]string(nil), t.PK...)
	sort.Strings(pk)
	return strings.Join(pk, ",")
}

func c16FKStrings(t *c16CatTable) []string {
	var out []string
	for _, fk := range t.FKs {
		out = append(out, fk.Col+"->"+fk.RefT+"."+fk.RefC)
	}
	sort.Strings(out)
	return out
}

// c16CompareCatalogs compares got and want on the tables named in only (nil = all tables of either).
func c16CompareCatalogs(got, want *c16Catalog, only map[string]bool) []c16Diff {
	var diffs []c16Diff
	names := map[string]bool{}
	for n := range got.Tables {
		names[n] = true
	}
	for n := range want.Tables {
		names[n] = true
	}
	var ns []string
	for n := range names {
		if only == nil || only[n] {
			ns = append(ns, n)
		}
	}
	sort.Strings(ns)
	for _, n := range ns {
		g, w := got.Tables[n], want.Tables[n]
		if g == nil {
			diffs = append(diffs, c16Diff{Table: n, What: "table-missing"})
			continue
		}
		if w == nil {
			diffs = append(diffs, c16Diff{Table: n, What: "table-extra"})
			continue
		}
		cols := map[string]bool{}
		for k := range g.Cols {
			cols[k] = true
		}
		for k := range w.Cols {
			cols[k] = true
		}
		var cs []string
		for k := range cols {
			cs = append(cs, k)
		}
		sort.Strings(cs)
		for _, k := range cs {
			gc, wc := g.Cols[k], w.Cols[k]
			switch {
			case gc == nil:
				diffs = append(diffs, c16Diff{Table: n, Col: k, What: "col-missing", Want: wc.Typ})
			case wc == nil:
				diffs = append(diffs, c16Diff{Table: n, Col: k, What: "col-extra", Got: gc.Typ})
			default:
				if gc.Typ != wc.Typ {
					diffs = append(diffs, c16Diff{Table: n, Col: k, What: "type", Got: gc.Typ, Want: wc.Typ})
				}
				if gc.Autoinc != wc.Autoinc {
					diffs = append(diffs, c16Diff{Table: n, Col: k, What: "autoinc", Got: fmt.Sprint(gc.Autoinc), Want: fmt.Sprint(wc.Autoinc)})
				}
			}
		}
		if gp, wp := c16PKString(g), c16PKString(w); gp != wp {
			diffs = append(diffs, c16Diff{Table: n, What: "pk", Got: gp, Want: wp})
		}
		if gf, wf := strings.Join(c16FKStrings(g), " "), strings.Join(c16FKStrings(w), " "); gf != wf {
			diffs = append(diffs, c16Diff{Table: n, What: "fk", Got: gf, Want: wf})
		}
	}
	return diffs
}

func (c *c16Catalog) Dump() string {
	var sb strings.Builder
	for _, n := range c.sortedTables() {
		t := c.Tables[n]
		fmt.Fprintf(&sb, "table %s\n", n)
		var cs []string
		for cn, col := range t.Cols {
			cs = append(cs, fmt.Sprintf("  col %s %s autoinc=%v", cn, col.Typ, col.Autoinc))
		}
		sort.Strings(cs)
		if len(cs) > 0 {
			sb.WriteString(strings.Join(cs, "\n") + "\n")
		}
		fmt.Fprintf(&sb, "  pk [%s]\n  fk %v\n", c16PKString(t), c16FKStrings(t))
	}
	return sb.String()
}
