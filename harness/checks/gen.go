package checks

import (
	"fmt"
	"strings"

	"pgregory.net/rapid"
)

var appPool = []string{"Alpha", "Beta", "Cust", "Ord", "Pay", "Stock", "Web", "Zed"}
var nsPool = [][]string{nil, nil, {"Ns"}, {"Org", "Team"}}
var typePool = []string{"Item", "Order", "User", "Addr", "Acct", "Line", "Ty%2EX", "my-type"}
var fieldPool = []string{"id", "name", "amount", "qty", "owner", "f1", "f2", "f3", "created-at", "x_y"}
var epPool = []string{"Get", "Put", "Login", "Check Out", "Do-It", "List All Things", "ep_1", "ep2"}
var wordPool = []string{"validate", "input", "load", "data", "step-2", "compute", "total", "x", "the", "thing", "now"}
var tagPool = []string{"t1", "t2", "db", "ui", "old"}
var keyPool = []string{"k1", "k2", "owner", "team"}
var valPool = []string{"v", "some value", "a-b", "x.y", "1", "", "say \"hi\"", "back\\slash", "tab\there", "caf\u00e9 \u4e2d", "a: b  c", "[x]", "it's", "%41 percent", "line1\nline2"}
var segPool = []string{"a", "things", "v1", "orders", "x-y"}
var eventPool = []string{"Ev1", "Created", "Done"}

func pick[T any](t *rapid.T, xs []T, label string) T {
	return xs[rapid.IntRange(0, len(xs)-1).Draw(t, label)]
}

func unesc(s string) string { return strings.ReplaceAll(s, "%2E", ".") }

func genAttrV(t *rapid.T, depth int) AttrV {
	k := rapid.IntRange(0, 3).Draw(t, "attrkind")
	if k <= 1 || depth >= 2 {
		s := pick(t, valPool, "val")
		return AttrV{S: &s}
	}
	n := rapid.IntRange(0, 3).Draw(t, "arrlen")
	out := AttrV{IsArr: true}
	for i := 0; i < n; i++ {
		out.A = append(out.A, genAttrV(t, depth+1))
	}
	return out
}

func genMeta(t *rapid.T, allowAnnos bool) Meta {
	m := Meta{}
	if rapid.IntRange(0, 2).Draw(t, "hasmeta") == 0 {
		return m
	}
	nt := rapid.IntRange(0, 2).Draw(t, "ntags")
	used := map[string]bool{}
	for i := 0; i < nt; i++ {
		tg := pick(t, tagPool, "tag")
		if !used[tg] {
			used[tg] = true
			m.Tags = append(m.Tags, tg)
		}
	}
	na := rapid.IntRange(0, 2).Draw(t, "nattrs")
	for i := 0; i < na; i++ {
		k := pick(t, keyPool, "key")
		if _, has := m.Attrs[k]; has {
			continue
		}
		if _, has := m.Annos[k]; has {
			continue
		}
		v := genAttrV(t, 0)
		if allowAnnos && rapid.Bool().Draw(t, "asanno") {
			if m.Annos == nil {
				m.Annos = map[string]AttrV{}
			}
			m.Annos[k] = v
		} else {
			if m.Attrs == nil {
				m.Attrs = map[string]AttrV{}
			}
			m.Attrs[k] = v
		}
	}
	return m
}

type typeRefTarget struct {
	app  []string
	name string // raw spelling
}

type genCtx struct {
	pathVarRefs bool // REST path variables may be typed by type references (IntentOpts.PathVarRefs)
	epAnnos     bool // IntentOpts.EpAnnos
	apps        []*App
	types       map[string][]string // app key -> raw type names
	appKeys     []string
}

func appKey(parts []string) string { return strings.Join(parts, " :: ") }

// genPrim draws a built-in type. The keywords are case-insensitive in the grammar (fixtures write `String`,
// `Date`): a quarter of the spellings are capitalised, upper-cased or mixed.
func genPrim(t *rapid.T) TExpr {
	e := genPrimLower(t)
	switch rapid.IntRange(0, 11).Draw(t, "primcase") {
	case 0:
		e.spelling = strings.ToUpper(e.spelling[:1]) + e.spelling[1:]
	case 1:
		e.spelling = strings.ToUpper(e.spelling)
	case 2:
		b := []byte(e.spelling)
		for i := range b {
			if i%2 == 1 {
				b[i] = strings.ToUpper(string(b[i]))[0]
			}
		}
		e.spelling = string(b)
	}
	return e
}

func genPrimLower(t *rapid.T) TExpr {
	switch rapid.IntRange(0, 15).Draw(t, "prim") {
	case 0:
		return TExpr{Prim: "INT", spelling: "int"}
	case 1:
		return TExpr{Prim: "INT", Bits: 32, spelling: "int32"}
	case 2:
		return TExpr{Prim: "INT", Bits: 64, spelling: "int64"}
	case 3:
		return TExpr{Prim: "FLOAT", spelling: "float"}
	case 4:
		return TExpr{Prim: "FLOAT", Bits: 32, spelling: "float32"}
	case 5:
		return TExpr{Prim: "FLOAT", Bits: 64, spelling: "float64"}
	case 6:
		return TExpr{Prim: "DECIMAL", spelling: "decimal"}
	case 7:
		p := rapid.IntRange(1, 38).Draw(t, "prec")
		s := rapid.IntRange(0, p).Draw(t, "scale")
		return TExpr{Prim: "DECIMAL", LenMax: int64(p), Prec: int32(p), Scale: int32(s), spelling: fmt.Sprintf("decimal(%d.%d)", p, s)}
	case 8:
		return TExpr{Prim: "STRING", spelling: "string"}
	case 9:
		n := rapid.Int64Range(1, 100000).Draw(t, "strmax")
		return TExpr{Prim: "STRING", LenMax: n, spelling: fmt.Sprintf("string(%d)", n)}
	case 10:
		a := rapid.Int64Range(0, 50).Draw(t, "strmin")
		b := rapid.Int64Range(a, 5000).Draw(t, "strmax2")
		return TExpr{Prim: "STRING", LenMin: a, LenMax: b, spelling: fmt.Sprintf("string(%d..%d)", a, b)}
	case 11:
		return TExpr{Prim: "BYTES", spelling: "bytes"}
	case 12:
		return TExpr{Prim: "DATE", spelling: "date"}
	case 13:
		return TExpr{Prim: "DATETIME", spelling: "datetime"}
	case 14:
		return TExpr{Prim: "BOOL", spelling: "bool"}
	default:
		return TExpr{Prim: "ANY", spelling: "any"}
	}
}

// genTExpr generates a field type. cur is the current app.
func (g *genCtx) genTExpr(t *rapid.T, cur *App, allowWrap bool) TExpr {
	var e TExpr
	if rapid.IntRange(0, 2).Draw(t, "isref") == 0 {
		// reference
		ai := rapid.IntRange(0, len(g.apps)-1).Draw(t, "refapp")
		target := g.apps[ai]
		names := g.types[appKey(target.Name)]
		if len(names) == 0 {
			e = genPrim(t)
		} else {
			tn := pick(t, names, "reftype")
			if target == cur && rapid.Bool().Draw(t, "localref") {
				e = TExpr{RefPath: []string{unesc(tn)}, spelling: tn}
			} else {
				e = TExpr{RefApp: target.Name, RefPath: []string{unesc(tn)}, spelling: appKey(target.Name) + "." + tn}
			}
		}
	} else {
		e = genPrim(t)
	}
	if allowWrap {
		switch rapid.IntRange(0, 4).Draw(t, "wrap") {
		case 0:
			e.Wrap = "set"
		case 1:
			e.Wrap = "seq"
		}
	}
	e.Opt = rapid.IntRange(0, 2).Draw(t, "opt") == 0
	return e
}

func genWords(t *rapid.T, lo, hi int) string {
	n := rapid.IntRange(lo, hi).Draw(t, "nwords")
	var ws []string
	for i := 0; i < n; i++ {
		ws = append(ws, pick(t, wordPool, "word"))
	}
	return strings.Join(ws, " ")
}

func (g *genCtx) genStmts(t *rapid.T, cur *App, depth int, maxN int) []*Stmt {
	n := rapid.IntRange(1, maxN).Draw(t, "nstmts")
	var out []*Stmt
	for i := 0; i < n; i++ {
		k := rapid.IntRange(0, 13).Draw(t, "stmtkind")
		if depth >= 3 && k >= 6 {
			k = k % 6
		}
		var s *Stmt
		switch k {
		case 0:
			s = &Stmt{Kind: "action", Text: genWords(t, 1, 4)}
		case 1:
			txt := genWords(t, 1, 3)
			s = &Stmt{Kind: "action", Text: `"` + txt + `"`}
		case 2, 3:
			target := g.apps[rapid.IntRange(0, len(g.apps)-1).Draw(t, "calltarget")]
			ep := pick(t, epPool, "callep")
			s = &Stmt{Kind: "call", Target: target.Name, Endpoint: ep}
			if target == cur && rapid.Bool().Draw(t, "selfdot") {
				s.selfDot = true
			}
			if rapid.IntRange(0, 3).Draw(t, "hasargs") == 0 {
				na := rapid.IntRange(1, 3).Draw(t, "nargs")
				for j := 0; j < na; j++ {
					s.Args = append(s.Args, pick(t, fieldPool, "arg"))
				}
			}
		case 4, 5:
			payloads := []string{"ok", "error", "200", "ok <: string", "error <: Item", "404 <: sequence of Order", "ok <: set of Addr", "200 <: Web.User"}
			s = &Stmt{Kind: "ret", Text: pick(t, payloads, "payload")}
		case 6:
			s = &Stmt{Kind: "cond", Text: "if " + genWords(t, 1, 3), keyword: "if"}
			s.Children = g.genStmts(t, cur, depth+1, 7)
			out = append(out, s)
			// optional else-if / else chain
			ne := rapid.IntRange(0, 2).Draw(t, "nelse")
			for j := 0; j < ne; j++ {
				var e *Stmt
				if j < ne-1 || rapid.Bool().Draw(t, "elseif") {
					e = &Stmt{Kind: "cond", Text: "else if " + genWords(t, 1, 2), keyword: "else"}
				} else {
					e = &Stmt{Kind: "cond", Text: "else", keyword: "else"}
				}
				e.Children = g.genStmts(t, cur, depth+1, 7)
				out = append(out, e)
			}
			continue
		case 7:
			kw := pick(t, []string{"for", "loop", "alt"}, "groupkw")
			s = &Stmt{Kind: "group", Text: kw + " " + genWords(t, 1, 3), keyword: kw}
			s.Children = g.genStmts(t, cur, depth+1, 4)
		case 8:
			kw := pick(t, []string{"while", "until"}, "loopkw")
			s = &Stmt{Kind: "loop", Text: genWords(t, 1, 3), Mode: strings.ToUpper(kw), keyword: kw}
			s.Children = g.genStmts(t, cur, depth+1, 4)
		case 9:
			s = &Stmt{Kind: "foreach", Text: genWords(t, 1, 3), keyword: "for each"}
			s.Children = g.genStmts(t, cur, depth+1, 4)
		case 10:
			s = &Stmt{Kind: "alt", keyword: "one of"}
			nc := rapid.IntRange(1, 3).Draw(t, "nchoices")
			for j := 0; j < nc; j++ {
				s.Choices = append(s.Choices, &Choice{Cond: fmt.Sprintf("case%d %s", j, genWords(t, 0, 2)), Stmts: g.genStmts(t, cur, depth+1, 3)})
				s.Choices[j].Cond = strings.TrimSpace(s.Choices[j].Cond)
			}
		case 11:
			s = &Stmt{Kind: "group", Text: "grp " + genWords(t, 0, 2), keyword: "group"}
			s.Text = strings.TrimSpace(s.Text)
			s.Children = g.genStmts(t, cur, depth+1, 4)
		case 12:
			// doc string lines coalesce into one action "| a b"
			nl := rapid.IntRange(1, 3).Draw(t, "ndoc")
			var ls []string
			for j := 0; j < nl; j++ {
				ls = append(ls, genWords(t, 1, 3))
			}
			s = &Stmt{Kind: "action", Text: "| " + strings.Join(ls, " "), keyword: "doc"}
			s.Args = nil
			s.docLines = ls
		default:
			target := g.apps[rapid.IntRange(0, len(g.apps)-1).Draw(t, "rcalltarget")]
			m := pick(t, []string{"GET", "POST", "DELETE"}, "rcallm")
			s = &Stmt{Kind: "call", Target: target.Name, Endpoint: m + " /" + pick(t, segPool, "rseg") + "/{id}"}
		}
		if (s.Kind == "action" || s.Kind == "call") && s.keyword != "doc" && rapid.IntRange(0, 4).Draw(t, "stmtmeta") == 0 {
			s.Meta = genMeta(t, false)
		}
		out = append(out, s)
	}
	return out
}

func (g *genCtx) genParams(t *rapid.T, cur *App, max int) []Param {
	n := rapid.IntRange(0, max).Draw(t, "nparams")
	var ps []Param
	used := map[string]bool{}
	for i := 0; i < n; i++ {
		nm := pick(t, fieldPool, "pname")
		if used[nm] {
			continue
		}
		used[nm] = true
		e := g.genTExpr(t, cur, true)
		ps = append(ps, Param{Name: nm, T: e})
	}
	return ps
}

// IntentOpts switches optional generator features on (they draw *after* everything else, so the
// default generator's draw sequence is unchanged).
type IntentOpts struct {
	Mixins         bool // single-level mixins of ~abstract apps
	Subs           bool // subscriptions 'Src -> Ev' to events of applications declared earlier
	Collectors     bool // '.. * <- *' blocks merging attributes into endpoints and call statements
	PathVarRefs    bool // REST path variables typed by a bare local type name or App.Type
	MultiLineAnnos bool // string annotations written in the multi-line form '@k =:' + '| text' lines
	EpAnnos        bool // simple endpoints may carry annotations ('@k = v' lines at the top of their body)
	SubsBeforePub  bool // a subscriber may be written above its publisher (the event's statements follow walk order)
	PlusText       bool // a literal '+' in return payloads, call endpoints and action text
	// SubsOrderFree: at most one subscriber per (publisher, event) in the whole specification, and only to
	// events the publisher does not give statements of its own - then no statement order depends on the
	// order in which blocks are walked (needed by the partition relation of C04)
	SubsOrderFree bool
}

func GenIntent(t *rapid.T) *Intent { return GenIntentOpt(t, IntentOpts{}) }

func GenIntentOpt(t *rapid.T, opts IntentOpts) *Intent {
	in := genIntentBase(t, opts)
	g := &genCtx{apps: in.Apps}
	if opts.Mixins && len(in.Apps) >= 2 {
		// the mixed-in application has no mixins of its own (chains depend on post-processing
		// order, which C07 owns) and carries ~abstract as the docs require
		for i, a := range in.Apps {
			if rapid.IntRange(0, 2).Draw(t, "hasmixin") != 0 {
				continue
			}
			j := rapid.IntRange(0, len(in.Apps)-1).Draw(t, "mixinsrc")
			src := in.Apps[j]
			if j == i || len(src.Mixins) > 0 || isMixedIn(in, a) {
				continue
			}
			hasAbstract := false
			for _, tg := range src.Meta.Tags {
				if tg == "abstract" {
					hasAbstract = true
				}
			}
			if !hasAbstract {
				src.Meta.Tags = append(src.Meta.Tags, "abstract")
			}
			a.Mixins = append(a.Mixins, src.Name)
		}
	}
	if opts.Subs {
		usedAll := map[string]bool{}
		first := 1
		if opts.SubsBeforePub && len(in.Apps) > 1 {
			first = 0
		}
		for i := first; i < len(in.Apps); i++ {
			a := in.Apps[i]
			ns := rapid.IntRange(0, 2).Draw(t, "nsubs")
			used := map[string]bool{}
			if opts.SubsOrderFree {
				used = usedAll
			}
			for k := 0; k < ns; k++ {
				pi := 0
				if opts.SubsBeforePub {
					// any other application, also one that is written further down
					pi = rapid.IntRange(0, len(in.Apps)-2).Draw(t, "pubapp")
					if pi >= i {
						pi++
					}
				} else {
					pi = rapid.IntRange(0, i-1).Draw(t, "pubapp")
				}
				pub := in.Apps[pi]
				ev := pick(t, eventPool, "subev")
				key := appKey(pub.Name) + "->" + ev
				// the publisher must not declare a non-event endpoint of that name
				clash := false
				for _, ep := range pub.Eps {
					if ep.Name == ev && ep.Kind != "event" {
						clash = true
					}
					if opts.SubsOrderFree && ep.Name == ev && len(ep.Stmts) > 0 {
						clash = true
					}
				}
				if used[key] || clash {
					continue
				}
				used[key] = true
				ep := &Endpoint{Kind: "sub", Source: pub.Name, Event: ev}
				ep.Meta = genMeta(t, false)
				if rapid.Bool().Draw(t, "substmts") {
					ep.Stmts = g.genStmts(t, a, 1, 3)
				}
				a.Eps = append(a.Eps, ep)
			}
		}
	}
	if opts.MultiLineAnnos {
		// docs/docs/lang/annotation.md: "A long string can be split over multiple lines, with two
		// newlines to separate paragraphs": every '| text' line contributes its text and a newline
		multi := func(m *Meta) {
			for _, k := range sortedKeys(m.Annos) {
				v := m.Annos[k]
				if v.IsArr || rapid.IntRange(0, 2).Draw(t, "multiline") != 0 {
					continue
				}
				n := rapid.IntRange(1, 4).Draw(t, "nannolines")
				var lines []string
				for i := 0; i < n; i++ {
					if i > 0 && i < n-1 && rapid.IntRange(0, 3).Draw(t, "emptyannoline") == 0 {
						lines = append(lines, "")
					} else {
						lines = append(lines, genWords(t, 1, 4))
					}
				}
				val := ""
				for _, l := range lines {
					val += l + "\n"
				}
				m.Annos[k] = AttrV{S: &val, lines: lines}
			}
		}
		for _, a := range in.Apps {
			multi(&a.Meta)
			for _, td := range a.Types {
				multi(&td.Meta)
				for i := range td.Fields {
					multi(&td.Fields[i].T.Meta)
				}
			}
		}
	}
	if opts.PlusText {
		// '+' is an ordinary character of free text (media types, "C++", "A+B"): it must arrive in the
		// model as written (names and payloads go through URL-unescaping, where '+' is not an escape)
		plus := func(ss []*Stmt) {
			walkStmts(ss, func(s *Stmt, _ int) {
				if s.keyword == "doc" || rapid.IntRange(0, 5).Draw(t, "plus") != 0 {
					return
				}
				switch s.Kind {
				case "ret":
					s.Text = pick(t, []string{`ok <: string [mediatype="application/vnd.api+json"]`, "ok <: a+b", "200 <: Item [note=\"1+1\"]"}, "plusret")
				case "call":
					if !strings.Contains(s.Endpoint, " /") {
						s.Endpoint = pick(t, []string{"Charge A+B", "C++", "a+b"}, "plusep")
					}
				case "action":
					if !strings.HasPrefix(s.Text, "\"") {
						s.Text += " c++ a+b"
					}
				}
			}, 0)
		}
		for _, a := range in.Apps {
			for _, ep := range a.Eps {
				plus(ep.Stmts)
			}
			restMethods(a.Rest, 0, func(ep *Endpoint, _ int) { plus(ep.Stmts) })
		}
	}
	if opts.Collectors {
		for _, a := range in.Apps {
			if rapid.IntRange(0, 2).Draw(t, "hascollector") != 0 {
				continue
			}
			type cand struct{ line CollectorLine }
			var cands []CollectorLine
			seen := map[string]bool{}
			for _, ep := range a.Eps {
				if ep.Kind == "simple" || ep.Kind == "event" {
					cands = append(cands, CollectorLine{Kind: "ep", EpName: ep.Name})
				}
			}
			addCalls := func(ss []*Stmt) {
				walkStmts(ss, func(s *Stmt, _ int) {
					if s.Kind != "call" || strings.Contains(s.Endpoint, " /") {
						return
					}
					k := appKey(s.Target) + " <- " + s.Endpoint
					if !seen[k] {
						seen[k] = true
						cands = append(cands, CollectorLine{Kind: "call", Target: s.Target, Endpoint: s.Endpoint})
					}
				}, 0)
			}
			for _, ep := range a.Eps {
				addCalls(ep.Stmts)
			}
			restMethods(a.Rest, 0, func(ep *Endpoint, _ int) { addCalls(ep.Stmts) })
			if len(cands) == 0 {
				continue
			}
			n := rapid.IntRange(1, 3).Draw(t, "ncollectorlines")
			used := map[int]bool{}
			for i := 0; i < n; i++ {
				k := rapid.IntRange(0, len(cands)-1).Draw(t, "collectortarget")
				if used[k] {
					continue
				}
				used[k] = true
				l := cands[k]
				for len(l.Meta.Tags) == 0 && len(l.Meta.Attrs) == 0 {
					l.Meta = genMeta(t, false)
					if len(l.Meta.Tags) == 0 && len(l.Meta.Attrs) == 0 {
						l.Meta.Tags = []string{pick(t, tagPool, "collectortag")}
					}
				}
				a.Collector = append(a.Collector, l)
			}
		}
	}
	return in
}

func isMixedIn(in *Intent, a *App) bool {
	for _, b := range in.Apps {
		for _, mx := range b.Mixins {
			if appKey(mx) == appKey(a.Name) {
				return true
			}
		}
	}
	return false
}

func genIntentBase(t *rapid.T, opts IntentOpts) *Intent {
	g := &genCtx{types: map[string][]string{}, pathVarRefs: opts.PathVarRefs, epAnnos: opts.EpAnnos}
	na := rapid.IntRange(1, 4).Draw(t, "napps")
	usedApp := map[string]bool{}
	for i := 0; i < na; i++ {
		nm := pick(t, appPool, "appname")
		ns := pick(t, nsPool, "ns")
		parts := append(append([]string{}, ns...), nm)
		if usedApp[appKey(parts)] {
			continue
		}
		usedApp[appKey(parts)] = true
		a := &App{Name: parts}
		if rapid.IntRange(0, 3).Draw(t, "haslong") == 0 {
			a.Long = "Long " + genWords(t, 1, 2)
		}
		a.Meta = genMeta(t, true)
		g.apps = append(g.apps, a)
	}
	// declare type names first so refs can point anywhere
	for _, a := range g.apps {
		nt := rapid.IntRange(0, 4).Draw(t, "ntypes")
		used := map[string]bool{}
		for i := 0; i < nt; i++ {
			tn := pick(t, typePool, "typename")
			if used[tn] {
				continue
			}
			used[tn] = true
			kind := pick(t, []string{"tuple", "tuple", "relation", "enum", "alias", "union"}, "tkind")
			if kind == "enum" && strings.ContainsAny(tn, "-%") {
				kind = "tuple"
			}
			a.Types = append(a.Types, &TypeDecl{Kind: kind, Name: tn})
			g.types[appKey(a.Name)] = append(g.types[appKey(a.Name)], tn)
		}
	}
	for _, a := range g.apps {
		for _, td := range a.Types {
			td.Meta = genMeta(t, td.Kind == "tuple" || td.Kind == "relation")
			switch td.Kind {
			case "tuple", "relation":
				nf := rapid.IntRange(1, 6).Draw(t, "nfields")
				used := map[string]bool{}
				for i := 0; i < nf; i++ {
					fn := pick(t, fieldPool, "fname")
					if used[fn] {
						continue
					}
					used[fn] = true
					e := g.genTExpr(t, a, true)
					if rapid.IntRange(0, 3).Draw(t, "fieldmeta") == 0 {
						e.Meta = genMeta(t, true)
					}
					if td.Kind == "relation" && rapid.IntRange(0, 2).Draw(t, "ispk") == 0 {
						has := false
						for _, tg := range e.Tags {
							if tg == "pk" {
								has = true
							}
						}
						if !has {
							e.Tags = append(e.Tags, "pk")
						}
					}
					td.Fields = append(td.Fields, Field{Name: fn, T: e})
				}
			case "enum":
				ne := rapid.IntRange(1, 5).Draw(t, "nenum")
				used := map[string]bool{}
				for i := 0; i < ne; i++ {
					nm := pick(t, []string{"one", "two", "big", "ACTIVE", "x_1", "closed"}, "ename")
					if used[nm] {
						continue
					}
					used[nm] = true
					var v int64
					if rapid.Bool().Draw(t, "bigenum") {
						v = rapid.Int64Range(0, 1<<62).Draw(t, "eval")
					} else {
						v = rapid.Int64Range(0, 300).Draw(t, "evalsmall")
					}
					td.Enum = append(td.Enum, EnumItem{nm, v})
				}
			case "alias":
				e := g.genTExpr(t, a, true)
				e.Opt = false
				if e.Wrap == "" && strings.Contains(e.spelling, "(") {
					e = TExpr{Prim: "STRING", spelling: "string"}
				}
				td.Alias = &e
				td.AliasIndented = true
			case "union":
				nu := rapid.IntRange(1, 4).Draw(t, "nunion")
				used := map[string]bool{}
				for i := 0; i < nu; i++ {
					e := g.genTExpr(t, a, false)
					e.Opt = false
					if strings.Contains(e.spelling, "(") {
						e = TExpr{Prim: "STRING", spelling: "string"}
					}
					if used[e.spelling] {
						continue
					}
					used[e.spelling] = true
					td.Union = append(td.Union, e)
				}
			}
		}
		// endpoints
		ne := rapid.IntRange(0, 4).Draw(t, "neps")
		used := map[string]bool{}
		for i := 0; i < ne; i++ {
			en := pick(t, epPool, "epname")
			if used[en] {
				continue
			}
			used[en] = true
			ep := &Endpoint{Kind: "simple", Name: en}
			if rapid.IntRange(0, 4).Draw(t, "eplong") == 0 {
				ep.Long = "EP " + genWords(t, 1, 2)
			}
			ep.Meta = genMeta(t, g.epAnnos)
			ep.Params = g.genParams(t, a, 3)
			if rapid.IntRange(0, 5).Draw(t, "shortcut") != 0 {
				ep.Stmts = g.genStmts(t, a, 0, 6)
			}
			a.Eps = append(a.Eps, ep)
		}
		// events
		nev := rapid.IntRange(0, 2).Draw(t, "nevents")
		usedEv := map[string]bool{}
		for i := 0; i < nev; i++ {
			en := pick(t, eventPool, "evname")
			if usedEv[en] || used[en] {
				continue
			}
			usedEv[en] = true
			ep := &Endpoint{Kind: "event", Name: en}
			ep.Meta = genMeta(t, false)
			if rapid.Bool().Draw(t, "evstmts") {
				ep.Stmts = g.genStmts(t, a, 1, 3)
			}
			a.Eps = append(a.Eps, ep)
		}
		// rest
		if rapid.IntRange(0, 1).Draw(t, "hasrest") == 0 {
			nr := rapid.IntRange(1, 2).Draw(t, "nrest")
			usedSeg := map[string]bool{}
			for i := 0; i < nr; i++ {
				if n := g.genRest(t, a, 0, usedSeg, ""); n != nil {
					a.Rest = append(a.Rest, n)
				}
			}
		}
	}
	return &Intent{Apps: g.apps}
}

// KNOWN: a doc-string statement nested in a block of a REST method panics at listener_impl.go:1433
func stripNestedDocs(ss []*Stmt, depth int) []*Stmt {
	var out []*Stmt
	for _, s := range ss {
		if s.keyword == "doc" && depth > 0 {
			s = &Stmt{Kind: "action", Text: "nodoc"}
		}
		s.Children = stripNestedDocs(s.Children, depth+1)
		for _, c := range s.Choices {
			c.Stmts = stripNestedDocs(c.Stmts, depth+1)
		}
		out = append(out, s)
	}
	return out
}

func prefixKeys(m map[string]AttrV, p string) map[string]AttrV {
	if m == nil {
		return nil
	}
	out := map[string]AttrV{}
	for k, v := range m {
		out[p+k] = v
	}
	return out
}

func (g *genCtx) genRest(t *rapid.T, a *App, depth int, usedSeg map[string]bool, prefix string) *RestNode {
	n := &RestNode{}
	if rapid.IntRange(0, 3).Draw(t, "pathvar") == 0 {
		nm := pick(t, []string{"id", "key", "oid"}, "pvname")
		e := TExpr{Prim: "INT", spelling: "int"}
		if rapid.Bool().Draw(t, "pvstr") {
			e = TExpr{Prim: "STRING", spelling: "string"}
		}
		if g.pathVarRefs && rapid.IntRange(0, 2).Draw(t, "pvref") == 0 {
			// a path variable typed by a type: bare name of a type of this application, or App.Type
			plain := func(names []string) []string {
				var out []string
				for _, nm := range names {
					if !strings.ContainsAny(nm, "%-") {
						out = append(out, nm)
					}
				}
				return out
			}
			if own := plain(g.types[appKey(a.Name)]); len(own) > 0 && rapid.Bool().Draw(t, "pvbare") {
				tn := pick(t, own, "pvbaretype")
				e = TExpr{RefPath: []string{tn}, spelling: tn}
			} else {
				var cands [][2]string
				for _, o := range g.apps {
					if len(o.Name) != 1 {
						continue
					}
					for _, tn := range plain(g.types[appKey(o.Name)]) {
						cands = append(cands, [2]string{o.Name[0], tn})
					}
				}
				if len(cands) > 0 {
					c := pick(t, cands, "pvdotted")
					e = TExpr{RefPath: []string{c[0], c[1]}, spelling: c[0] + "." + c[1]}
				}
			}
		}
		n.PathVar = &Param{Name: nm, T: e}
		n.Seg = "/{" + nm + "<:" + e.spelling + "}"
	} else {
		n.Seg = "/" + pick(t, segPool, "seg")
		if rapid.IntRange(0, 3).Draw(t, "twoseg") == 0 {
			n.Seg += "/" + pick(t, segPool, "seg2")
		}
	}
	key := n.Seg
	if n.PathVar != nil {
		key = "/{" + n.PathVar.Name + "}"
	}
	key = prefix + key
	if usedSeg[key] {
		return nil
	}
	usedSeg[key] = true
	for i := 1; i < len(key); i++ { // also reserve every prefix ending at a slash boundary
		if key[i] == '/' {
			usedSeg[key[:i]+"#"] = true
		}
	}
	if usedSeg[key+"#"] {
		return nil
	}
	if rapid.IntRange(0, 3).Draw(t, "restmeta") == 0 {
		n.Meta = genMeta(t, false)
		n.Meta.Attrs = prefixKeys(n.Meta.Attrs, fmt.Sprintf("p%d", depth))
	}
	nm := rapid.IntRange(0, 3).Draw(t, "nmethods")
	usedM := map[string]bool{}
	for i := 0; i < nm; i++ {
		m := pick(t, []string{"GET", "POST", "PUT", "DELETE", "PATCH"}, "method")
		if usedM[m] {
			continue
		}
		usedM[m] = true
		ep := &Endpoint{Kind: "rest", Method: m}
		ep.Meta = genMeta(t, false)
		ep.Params = g.genParams(t, a, 2)
		nq := rapid.IntRange(0, 3).Draw(t, "nquery")
		usedQ := map[string]bool{}
		for j := 0; j < nq; j++ {
			qn := pick(t, []string{"q", "limit", "offset", "tag"}, "qname")
			if usedQ[qn] {
				continue
			}
			usedQ[qn] = true
			e := genPrim(t)
			if strings.Contains(e.spelling, "(") { // no size specs in query params
				e = TExpr{Prim: "STRING", spelling: "string"}
			}
			e.Opt = rapid.Bool().Draw(t, "qopt")
			ep.Query = append(ep.Query, Param{Name: qn, T: e})
		}
		ep.Stmts = g.genStmts(t, a, 0, 4)
		n.Methods = append(n.Methods, ep)
	}
	if depth < 2 {
		nc := rapid.IntRange(0, 2).Draw(t, "nrestchildren")
		for i := 0; i < nc; i++ {
			if c := g.genRest(t, a, depth+1, usedSeg, key); c != nil {
				n.Children = append(n.Children, c)
			}
		}
	}
	if len(n.Methods) == 0 && len(n.Children) == 0 {
		ep := &Endpoint{Kind: "rest", Method: "GET"}
		ep.Stmts = []*Stmt{{Kind: "ret", Text: "ok"}}
		n.Methods = append(n.Methods, ep)
	}
	return n
}
