package checks

// c10_gen.go — typed generator of view bodies for C10. Only (operator, left kind, right
// kind) triples of the documented domain are produced (c10Triples lists them); the
// generator tracks static types, keeps divisors non-zero, applies `single` to singletons
// and keeps set constructors duplicate-free by construction.

import (
	"fmt"
	"sort"
	"strings"

	"pgregory.net/rapid"
)

// The supported domain, written down as data: the statement's inventory of C10 x the *keys*
// of the dispatch tables in pkg/eval/binexprEval.go (never their functions), in the notation
// of the reference interpreter's class counters. A body that applies an operator to kinds
// not listed here is a generator defect (c10Finish panics); a listed triple that the
// implementation no longer supports shows up as "evaluation ended the process".
var c10Triples = map[string]bool{}

func init() {
	for _, k := range []string{
		"bin:+:int,int", "bin:-:int,int", "bin:*:int,int", "bin:/:int,int", "bin:%:int,int",
		"bin:==:int,int", "bin:!=:int,int", "bin:<:int,int", "bin:<=:int,int", "bin:>:int,int", "bin:>=:int,int",
		"bin:+:str,str", "bin:==:str,str", "bin:!=:str,str",
		"bin:&&:bool,bool", "bin:==:bool,bool", "bin:!=:bool,bool",
		// an optional int or string (an attribute that some records carry as null) compared with null
		"bin:==:int,null", "bin:==:null,int", "bin:==:str,null", "bin:==:null,str", "bin:==:null,null",
		"bin:!=:int,null", "bin:!=:null,int", "bin:!=:str,null", "bin:!=:null,str", "bin:!=:null,null",
		"bin:|:list,list", "bin:|:set,set", "bin:|:list,set",
		"bin:in:str,list", "bin:in:str,set", "bin:in:str,map", "bin:!in:str,list", "bin:!in:str,set", "bin:!in:str,map",
		"where:list,str", "where:list,map", "where:list,list", "where:list,empty",
		"where:set,int", "where:set,str", "where:set,map", "where:set,empty",
		"flatten:list,list", "flatten:list,set", "flatten:list,map", "flatten:list,empty",
		"flatten:set,list", "flatten:set,set", "flatten:set,empty",
		"neg:int", "neg:bool", "count:list", "count:set", "count:map", "single:list", "single:set",
		"tform:list->list", "tform:list->set", "tform:set->list", "tform:set->set", "tform:map->list", "tform:map->set",
		"tform:int->record", "tform:str->record", "tform:map->record",
	} {
		c10Triples[k] = true
	}
}

// c10InDomain reports whether an operator class observed by the reference interpreter is
// listed (classes of constructs that have no kind dispatch — if, attr, calls, constructors — always are).
func c10InDomain(class string) bool {
	for _, p := range []string{"bin:", "where:", "flatten:", "neg:", "count:", "single:", "tform:"} {
		if strings.HasPrefix(class, p) {
			return c10Triples[class]
		}
	}
	return true
}

var (
	c10TLInt = c10TList(c10TInt)
	c10TLStr = c10TList(c10TStr)
	c10TSInt = c10TSet(c10TInt)
	c10TSStr = c10TSet(c10TStr)
	c10TOInt = &c10Ty{K: "o", El: c10TInt}
	c10TOStr = &c10Ty{K: "o", El: c10TStr}
	c10TInc  = &c10Ty{K: "m", F: []c10Field{{"o", c10TInt}}}
	c10TCat  = &c10Ty{K: "m", F: []c10Field{{"o", c10TLInt}}}
	c10TDbl  = c10TList(&c10Ty{K: "m", F: []c10Field{{"o", c10TInt}, {"i", c10TInt}}})
	c10TPar  = c10TSet(&c10Ty{K: "m", F: []c10Field{{"o", c10TInt}}})
)

// ids of the recorded findings whose shapes the generator can leave out (known_findings.json)
const (
	c10FindConcat = "C10-concat-aliases-left-operand"
	c10FindShadow = "C10-nested-transform-scope-var-deletes-outer"
)

type c10Var struct {
	Name string
	T    *c10Ty
}

type c10Gen struct {
	t         *rapid.T
	maxDepth  int
	ctr       int
	inBody    int     // >0 while generating inside a transform / where / flatten body
	probe     *c10Env // concrete values of the top-level bindings generated so far
	noShadow  bool    // the nested-scope-var finding is listed: never name a transform scope variable like a visible name
	excluded  map[string]int
	templates []string
}

func (g *c10Gen) fresh(prefix string) string {
	g.ctr++
	return fmt.Sprintf("%s%d", prefix, g.ctr)
}

func (g *c10Gen) intn(n int, label string) int { return rapid.IntRange(0, n-1).Draw(g.t, label) }
func (g *c10Gen) coin(label string) bool       { return rapid.Bool().Draw(g.t, label) }

// visible returns the variables reachable by name (innermost binding wins).
func c10Visible(vars []c10Var) []c10Var {
	seen := map[string]bool{}
	var out []c10Var
	for i := len(vars) - 1; i >= 0; i-- {
		if !seen[vars[i].Name] {
			seen[vars[i].Name] = true
			out = append(out, vars[i])
		}
	}
	return out
}

func c10VarsOf(vars []c10Var, pred func(*c10Ty) bool) []c10Var {
	var out []c10Var
	for _, v := range c10Visible(vars) {
		if pred(v.T) {
			out = append(out, v)
		}
	}
	sort.Slice(out, func(i, j int) bool { return out[i].Name < out[j].Name })
	return out
}

func c10VarEx(v c10Var) *c10Ex { return &c10Ex{Op: "var", T: v.T, Name: v.Name} }

var (
	c10IntPool = []int64{0, 1, 2, 3, 4, 5, 6, 7, 8, 9}
	c10StrPool = []string{"a", "b", "c", "d", ""}
)

func (g *c10Gen) litInt() *c10Ex {
	return &c10Ex{Op: "lit", T: c10TInt, Lit: c10Int(c10IntPool[g.intn(len(c10IntPool), "int")])}
}
func (g *c10Gen) litStr() *c10Ex {
	return &c10Ex{Op: "lit", T: c10TStr, Lit: c10Str(c10StrPool[g.intn(len(c10StrPool), "str")])}
}

// distinct literal items for a set constructor / for disjoint inner collections
func (g *c10Gen) distinctLits(el *c10Ty, n int) []*c10Ex {
	var out []*c10Ex
	if el.K == "i" {
		start := g.intn(6, "dstart")
		step := 1 + g.intn(2, "dstep")
		for i := 0; i < n; i++ {
			out = append(out, &c10Ex{Op: "lit", T: c10TInt, Lit: c10Int(int64(start + i*step))})
		}
	} else {
		off := g.intn(len(c10StrPool), "doff")
		for i := 0; i < n && i < len(c10StrPool); i++ {
			out = append(out, &c10Ex{Op: "lit", T: c10TStr, Lit: c10Str(c10StrPool[(off+i)%len(c10StrPool)])})
		}
	}
	// shuffle so that a set's internal order differs from the sorted order
	for i := len(out) - 1; i > 0; i-- {
		j := g.intn(i+1, "shuf")
		out[i], out[j] = out[j], out[i]
	}
	return out
}

func (g *c10Gen) collLit(ty *c10Ty) *c10Ex {
	n := 1 + g.intn(4, "clen")
	if ty.K == "t" {
		return &c10Ex{Op: "setof", T: ty, Args: g.distinctLits(ty.El, n)}
	}
	e := &c10Ex{Op: "listof", T: ty}
	for i := 0; i < n; i++ {
		if ty.El.K == "i" {
			e.Args = append(e.Args, g.litInt())
		} else {
			e.Args = append(e.Args, g.litStr())
		}
	}
	return e
}

func (g *c10Gen) leaf(ty *c10Ty, vars []c10Var) *c10Ex {
	cands := c10VarsOf(vars, func(t *c10Ty) bool { return t.eq(ty) })
	if ty.K == "o" {
		// a variable or attribute of the optional type, null, or a plain value of the base type
		srcs := g.attrSources(ty, vars)
		for _, v := range c10VarsOf(vars, func(t *c10Ty) bool { return t.eq(ty) }) {
			srcs = append(srcs, c10VarEx(v))
		}
		if len(srcs) > 0 && g.intn(4, "optsrc") > 0 {
			return srcs[g.intn(len(srcs), "optvar")]
		}
		if g.coin("optnull") {
			return &c10Ex{Op: "lit", T: ty, Lit: &c10Val{K: "null"}}
		}
		return g.leaf(ty.El, vars)
	}
	constructible := ty.K != "m" && !(ty.isColl() && ty.El.K != "i" && ty.El.K != "s")
	if len(cands) > 0 && (!constructible || g.intn(3, "usevar") > 0) {
		return c10VarEx(cands[g.intn(len(cands), "var")])
	}
	switch ty.K {
	case "i":
		return g.litInt()
	case "s":
		return g.litStr()
	case "b":
		return &c10Ex{Op: "lit", T: c10TBool, Lit: c10Bool(g.coin("bool"))}
	case "l", "t":
		if constructible {
			return g.collLit(ty)
		}
	}
	switch {
	case ty.eq(c10TDbl):
		return &c10Ex{Op: "call", T: ty, Name: "dbl", Args: []*c10Ex{g.leaf(c10TLInt, vars)}}
	case ty.eq(c10TPar):
		return &c10Ex{Op: "call", T: ty, Name: "par", Args: []*c10Ex{g.leaf(c10TLInt, vars)}}
	case ty.eq(c10TInc):
		return &c10Ex{Op: "call", T: ty, Name: "inc", Args: []*c10Ex{g.leaf(c10TInt, vars)}}
	case ty.eq(c10TCat):
		return &c10Ex{Op: "call", T: ty, Name: "cat", Args: []*c10Ex{g.leaf(c10TLInt, vars), g.leaf(c10TLInt, vars)}}
	}
	panic("c10Gen.leaf: no way to build " + ty.String())
}

// attrSources lists expressions `x.f` of type ty available from record-typed variables.
func (g *c10Gen) attrSources(ty *c10Ty, vars []c10Var) []*c10Ex {
	var out []*c10Ex
	for _, v := range c10VarsOf(vars, func(t *c10Ty) bool { return t.K == "m" }) {
		for _, f := range v.T.F {
			if f.T.eq(ty) {
				out = append(out, &c10Ex{Op: "attr", T: ty, A: c10VarEx(v), Name: f.Name})
			}
		}
	}
	return out
}

func (g *c10Gen) probeVal(e *c10Ex) *c10Val {
	if g.inBody > 0 || g.probe == nil {
		return nil
	}
	in := c10NewInterp(false)
	v := in.eval(e, g.probe)
	if in.err != "" {
		return nil
	}
	return v
}

// expr generates an expression of static type ty.
func (g *c10Gen) expr(ty *c10Ty, d int, vars []c10Var) *c10Ex {
	if d <= 0 || g.intn(5, "leaf") == 0 {
		return g.leaf(ty, vars)
	}
	d--
	switch ty.K {
	case "i":
		return g.intExpr(d, vars)
	case "s":
		return g.strExpr(d, vars)
	case "b":
		return g.boolExpr(d, vars)
	case "l", "t":
		return g.collExpr(ty, d, vars)
	case "o":
		return g.optExpr(ty, d, vars)
	}
	// records: a variable, an if between two of them, or a helper call
	if ty.eq(c10TInc) && g.coin("inc") {
		return &c10Ex{Op: "call", T: c10TInc, Name: "inc", Args: []*c10Ex{g.expr(c10TInt, d, vars)}}
	}
	if g.intn(4, "recif") == 0 {
		return &c10Ex{Op: "if", T: ty, A: g.expr(c10TBool, d, vars), B: g.leaf(ty, vars), C: g.leaf(ty, vars)}
	}
	return g.leaf(ty, vars)
}

// optExpr yields a value that is null under a condition and of the base type otherwise.
func (g *c10Gen) optExpr(ty *c10Ty, d int, vars []c10Var) *c10Ex {
	null := &c10Ex{Op: "lit", T: ty, Lit: &c10Val{K: "null"}}
	switch g.intn(4, "optop") {
	case 0, 1:
		if g.coin("optswap") {
			return &c10Ex{Op: "if", T: ty, A: g.expr(c10TBool, d, vars), B: g.expr(ty.El, d, vars), C: null}
		}
		return &c10Ex{Op: "if", T: ty, A: g.expr(c10TBool, d, vars), B: null, C: g.expr(ty.El, d, vars)}
	case 2:
		return &c10Ex{Op: "if", T: ty, A: g.expr(c10TBool, d, vars), B: g.leaf(ty, vars), C: g.leaf(ty, vars)}
	}
	return g.leaf(ty, vars)
}

// nullTest yields `X == null`, `null == X` or the != forms over an optional X.
func (g *c10Gen) nullTest(d int, vars []c10Var) *c10Ex {
	ty := c10TOInt
	if g.coin("optstr") {
		ty = c10TOStr
	}
	x := g.expr(ty, d, vars)
	null := &c10Ex{Op: "lit", T: ty, Lit: &c10Val{K: "null"}}
	sym := []string{"==", "==", "!="}[g.intn(3, "nullcmp")]
	if g.intn(4, "nullleft") == 0 {
		return &c10Ex{Op: "bin", T: c10TBool, Sym: sym, A: null, B: x}
	}
	return &c10Ex{Op: "bin", T: c10TBool, Sym: sym, A: x, B: null}
}

// orDefault yields `if X == null then D else X` of the base type of the optional X.
func (g *c10Gen) orDefault(base *c10Ty, d int, vars []c10Var) *c10Ex {
	ty := &c10Ty{K: "o", El: base}
	x := g.leaf(ty, vars)
	null := &c10Ex{Op: "lit", T: ty, Lit: &c10Val{K: "null"}}
	test := &c10Ex{Op: "bin", T: c10TBool, Sym: "==", A: x, B: null}
	return &c10Ex{Op: "if", T: base, A: test, B: g.expr(base, d, vars), C: c10CloneEx(x)}
}

func (g *c10Gen) pickCollTy(label string) *c10Ty {
	return []*c10Ty{c10TLInt, c10TLStr, c10TSInt, c10TSStr}[g.intn(4, label)]
}

func (g *c10Gen) intExpr(d int, vars []c10Var) *c10Ex {
	switch g.intn(10, "iop") {
	case 0, 1:
		return &c10Ex{Op: "bin", T: c10TInt, Sym: []string{"+", "-", "*"}[g.intn(3, "arith")], A: g.expr(c10TInt, d, vars), B: g.expr(c10TInt, d, vars)}
	case 2:
		div := &c10Ex{Op: "lit", T: c10TInt, Lit: c10Int(int64(1 + g.intn(9, "div")))}
		return &c10Ex{Op: "bin", T: c10TInt, Sym: []string{"/", "%"}[g.intn(2, "divop")], A: g.expr(c10TInt, d, vars), B: div}
	case 3:
		return &c10Ex{Op: "neg", T: c10TInt, A: g.expr(c10TInt, d, vars)}
	case 4:
		return &c10Ex{Op: "if", T: c10TInt, A: g.expr(c10TBool, d, vars), B: g.expr(c10TInt, d, vars), C: g.expr(c10TInt, d, vars)}
	case 5:
		// count of a list, a set or a record
		others := c10VarsOf(vars, func(t *c10Ty) bool { return t.K == "m" || (t.isColl() && t.El.K == "m") })
		if len(others) > 0 && g.coin("countrec") {
			return &c10Ex{Op: "count", T: c10TInt, A: c10VarEx(others[g.intn(len(others), "cv")])}
		}
		return &c10Ex{Op: "count", T: c10TInt, A: g.expr(g.pickCollTy("countty"), d, vars)}
	case 6:
		return g.singleExpr(c10TInt, d, vars)
	case 7:
		if g.intn(3, "reccall") == 0 {
			// a self-recursive helper; the argument is clamped so that the recursion stays shallow
			name, mod := "down", int64(40)
			if g.coin("recsum") {
				name, mod = "sumto", 10
			}
			arg := &c10Ex{Op: "bin", T: c10TInt, Sym: "%", A: g.expr(c10TInt, d, vars), B: &c10Ex{Op: "lit", T: c10TInt, Lit: c10Int(mod)}}
			return &c10Ex{Op: "attr", T: c10TInt, Name: "o", A: &c10Ex{Op: "call", T: c10TInc, Name: name, Args: []*c10Ex{arg}}}
		}
		return &c10Ex{Op: "attr", T: c10TInt, Name: "o", A: &c10Ex{Op: "call", T: c10TInc, Name: "inc", Args: []*c10Ex{g.expr(c10TInt, d, vars)}}}
	case 8:
		if as := g.attrSources(c10TInt, vars); len(as) > 0 {
			return as[g.intn(len(as), "attr")]
		}
	case 9:
		if g.coin("intordefault") {
			return g.orDefault(c10TInt, d, vars)
		}
	}
	return g.leaf(c10TInt, vars)
}

// singleExpr yields `C single` of scalar type ty where C is known to hold exactly one element.
func (g *c10Gen) singleExpr(ty *c10Ty, d int, vars []c10Var) *c10Ex {
	collTy := c10TSet(ty)
	if g.coin("singlelist") {
		collTy = c10TList(ty)
	}
	c := g.expr(collTy, d, vars)
	if v := g.probeVal(c); v != nil {
		if len(v.E) == 1 {
			return &c10Ex{Op: "single", T: ty, A: c}
		}
		// `where` is defined on sets of scalars and on lists of strings
		if len(v.E) > 1 && (collTy.K == "t" || ty.K == "s") {
			k := v.E[g.intn(len(v.E), "singlepick")]
			n := 0
			for _, x := range v.E {
				if x.ident() == k.ident() {
					n++
				}
			}
			if n == 1 {
				pred := &c10Ex{Op: "bin", T: c10TBool, Sym: "==", A: &c10Ex{Op: "var", T: ty, Name: "."}, B: &c10Ex{Op: "lit", T: ty, Lit: k}}
				return &c10Ex{Op: "single", T: ty, A: &c10Ex{Op: "where", T: collTy, A: c, B: pred}}
			}
		}
	}
	op := "listof"
	if collTy.K == "t" {
		op = "setof"
	}
	return &c10Ex{Op: "single", T: ty, A: &c10Ex{Op: op, T: collTy, Args: []*c10Ex{g.expr(ty, d, vars)}}}
}

func (g *c10Gen) strExpr(d int, vars []c10Var) *c10Ex {
	switch g.intn(6, "sop") {
	case 5:
		if g.coin("strordefault") {
			return g.orDefault(c10TStr, d, vars)
		}
	case 0, 1:
		return &c10Ex{Op: "bin", T: c10TStr, Sym: "+", A: g.expr(c10TStr, d, vars), B: g.expr(c10TStr, d, vars)}
	case 2:
		return &c10Ex{Op: "if", T: c10TStr, A: g.expr(c10TBool, d, vars), B: g.expr(c10TStr, d, vars), C: g.expr(c10TStr, d, vars)}
	case 3:
		if as := g.attrSources(c10TStr, vars); len(as) > 0 {
			return as[g.intn(len(as), "attr")]
		}
		return g.singleExpr(c10TStr, d, vars)
	}
	return g.leaf(c10TStr, vars)
}

func (g *c10Gen) boolExpr(d int, vars []c10Var) *c10Ex {
	switch g.intn(10, "bop") {
	case 9:
		return g.nullTest(d, vars)
	case 0, 1:
		return &c10Ex{Op: "bin", T: c10TBool, Sym: []string{"==", "!=", "<", "<=", ">", ">="}[g.intn(6, "cmp")], A: g.expr(c10TInt, d, vars), B: g.expr(c10TInt, d, vars)}
	case 2:
		return &c10Ex{Op: "bin", T: c10TBool, Sym: []string{"==", "!="}[g.intn(2, "scmp")], A: g.expr(c10TStr, d, vars), B: g.expr(c10TStr, d, vars)}
	case 3:
		return &c10Ex{Op: "bin", T: c10TBool, Sym: "&&", A: g.expr(c10TBool, d, vars), B: g.expr(c10TBool, d, vars)}
	case 4, 5:
		sym := []string{"in", "!in"}[g.intn(2, "in")]
		recs := c10VarsOf(vars, func(t *c10Ty) bool { return t.K == "m" })
		if len(recs) > 0 && g.intn(3, "inmap") == 0 {
			r := recs[g.intn(len(recs), "inrec")]
			// half of the time ask for a field that exists
			key := g.litStr()
			if len(r.T.F) > 0 && g.coin("inhit") {
				key = &c10Ex{Op: "lit", T: c10TStr, Lit: c10Str(r.T.F[g.intn(len(r.T.F), "infield")].Name)}
			}
			return &c10Ex{Op: "bin", T: c10TBool, Sym: sym, A: key, B: c10VarEx(r)}
		}
		ct := c10TLStr
		if g.coin("inset") {
			ct = c10TSStr
		}
		return &c10Ex{Op: "bin", T: c10TBool, Sym: sym, A: g.expr(c10TStr, d, vars), B: g.expr(ct, d, vars)}
	case 6:
		return &c10Ex{Op: "bin", T: c10TBool, Sym: []string{"==", "!="}[g.intn(2, "bcmp")], A: g.expr(c10TBool, d, vars), B: g.expr(c10TBool, d, vars)}
	case 7:
		return &c10Ex{Op: "neg", T: c10TBool, A: g.expr(c10TBool, d, vars)}
	case 8:
		return &c10Ex{Op: "if", T: c10TBool, A: g.expr(c10TBool, d, vars), B: g.expr(c10TBool, d, vars), C: g.expr(c10TBool, d, vars)}
	}
	return g.leaf(c10TBool, vars)
}

// scopeVar chooses the scope variable of a where / flatten: implicit ".", a fresh name, or
// (legal, and restored by the evaluator) the name of a visible variable.
func (g *c10Gen) scopeVar(vars []c10Var) string {
	switch g.intn(4, "sv") {
	case 0:
		return g.fresh("e")
	case 1:
		vis := c10VarsOf(vars, func(t *c10Ty) bool { return true })
		var names []string
		for _, v := range vis {
			if v.Name != "." {
				names = append(names, v.Name)
			}
		}
		if len(names) > 0 {
			return names[g.intn(len(names), "svshadow")]
		}
	}
	return ""
}

func (g *c10Gen) withVar(vars []c10Var, name string, ty *c10Ty) []c10Var {
	out := append([]c10Var{}, vars...)
	return append(out, c10Var{Name: c10Sv(name), T: ty})
}

// predicate over one element of type el (records: over one of its scalar fields)
func (g *c10Gen) where(src *c10Ex, d int, vars []c10Var) *c10Ex {
	sv := g.scopeVar(vars)
	inner := g.withVar(vars, sv, src.T.El)
	g.inBody++
	defer func() { g.inBody-- }()
	if d > 2 {
		d = 2
	}
	elem := &c10Ex{Op: "var", T: src.T.El, Name: c10Sv(sv)}
	var pred *c10Ex
	switch src.T.El.K {
	case "i":
		pred = &c10Ex{Op: "bin", T: c10TBool, Sym: []string{">", "<", "==", ">=", "!=", "<="}[g.intn(6, "wcmp")], A: elem, B: g.expr(c10TInt, d, inner)}
	case "s":
		pred = &c10Ex{Op: "bin", T: c10TBool, Sym: []string{"==", "!="}[g.intn(2, "wscmp")], A: elem, B: g.expr(c10TStr, d, inner)}
		if g.intn(4, "win") == 0 {
			pred = &c10Ex{Op: "bin", T: c10TBool, Sym: []string{"in", "!in"}[g.intn(2, "winop")], A: elem, B: g.expr(c10TSStr, d, inner)}
		}
	case "m":
		var fs []c10Field
		for _, f := range src.T.El.F {
			if f.T.K == "i" || f.T.K == "s" {
				fs = append(fs, f)
			}
		}
		if len(fs) == 0 {
			pred = g.expr(c10TBool, d, inner)
			break
		}
		f := fs[g.intn(len(fs), "wfield")]
		fa := &c10Ex{Op: "attr", T: f.T, A: elem, Name: f.Name}
		if f.T.K == "i" {
			pred = &c10Ex{Op: "bin", T: c10TBool, Sym: []string{">", "<", "==", "!="}[g.intn(4, "wrcmp")], A: fa, B: g.expr(c10TInt, d, inner)}
		} else {
			pred = &c10Ex{Op: "bin", T: c10TBool, Sym: []string{"==", "!="}[g.intn(2, "wrscmp")], A: fa, B: g.expr(c10TStr, d, inner)}
		}
	default: // list of lists: predicate on the element's size
		pred = &c10Ex{Op: "bin", T: c10TBool, Sym: []string{">", "==", "<"}[g.intn(3, "wlcmp")], A: &c10Ex{Op: "count", T: c10TInt, A: elem}, B: g.litInt()}
	}
	if g.intn(4, "wand") == 0 {
		pred = &c10Ex{Op: "bin", T: c10TBool, Sym: "&&", A: pred, B: g.expr(c10TBool, d, inner)}
	}
	return &c10Ex{Op: "where", T: src.T, A: src, Name: sv, B: pred}
}

// flattenOf builds `[A, B, ...] flatten(body)` (or `{A, B} flatten(body)`) of result type ty.
func (g *c10Gen) flattenOf(ty *c10Ty, d int, vars []c10Var) *c10Ex {
	el := ty.El
	sv := g.scopeVar(vars)
	elem := &c10Ex{Op: "var", T: el, Name: c10Sv(sv)}
	if ty.K == "t" {
		// set result: inner collections are disjoint constructors and the body is injective, so no
		// equal elements can arise (whether a flattened set would drop them is not specified)
		n := 2 + g.intn(2, "fparts")
		lits := g.distinctLits(el, 2*n)
		outer := &c10Ex{Op: "setof"}
		innerK := []string{"listof", "setof"}[g.intn(2, "finner")]
		for i := 0; i < n && 2*i < len(lits); i++ {
			it := lits[2*i : min(2*i+1+g.intn(2, "fpart"), len(lits))]
			innerTy := c10TList(el)
			if innerK == "setof" {
				innerTy = c10TSet(el)
			}
			outer.Args = append(outer.Args, &c10Ex{Op: innerK, T: innerTy, Args: it})
		}
		outer.T = c10TSet(outer.Args[0].T)
		body := elem
		if el.K == "i" {
			switch g.intn(3, "fbody") {
			case 1:
				body = &c10Ex{Op: "bin", T: el, Sym: "+", A: elem, B: g.litInt()}
			case 2:
				body = &c10Ex{Op: "bin", T: el, Sym: "*", A: elem, B: &c10Ex{Op: "lit", T: c10TInt, Lit: c10Int(int64(1 + g.intn(4, "fmul")))}}
			}
		} else if g.coin("fsbody") {
			body = &c10Ex{Op: "bin", T: el, Sym: "+", A: elem, B: g.litStr()}
		}
		return &c10Ex{Op: "flatten", T: ty, A: outer, Name: sv, B: body}
	}
	n := 1 + g.intn(3, "fparts")
	outer := &c10Ex{Op: "listof"}
	innerTy := c10TList(el)
	if g.intn(3, "finnerset") == 0 {
		innerTy = c10TSet(el)
	}
	for i := 0; i < n; i++ {
		outer.Args = append(outer.Args, g.expr(innerTy, d, vars))
	}
	outer.T = c10TList(innerTy)
	g.inBody++
	defer func() { g.inBody-- }()
	if d > 2 {
		d = 2
	}
	body := elem
	if g.coin("fbodyexpr") {
		body = g.expr(el, d, g.withVar(vars, sv, el))
	}
	return &c10Ex{Op: "flatten", T: ty, A: outer, Name: sv, B: body}
}

func (g *c10Gen) collExpr(ty *c10Ty, d int, vars []c10Var) *c10Ex {
	scalarEl := ty.El.K == "i" || ty.El.K == "s"
	switch g.intn(8, "cop") {
	case 0, 1:
		// concatenation / union; prefer a variable on the left so that one value is used repeatedly
		if ty.K == "t" && !c10ScalarOnly(ty.El) {
			// no union of sets of records that hold collections (see tform: equality of such records
			// depends on the internal order of the sets inside)
			return g.leaf(ty, vars)
		}
		left := g.expr(ty, d, vars)
		if cands := c10VarsOf(vars, func(t *c10Ty) bool { return t.eq(ty) }); len(cands) > 0 && g.intn(4, "reuse") > 0 {
			left = c10VarEx(cands[g.intn(len(cands), "reusevar")])
		}
		right := g.expr(ty, d, vars)
		if ty.K == "l" && scalarEl && g.intn(4, "listset") == 0 {
			right = g.expr(c10TSet(ty.El), d, vars)
		}
		return &c10Ex{Op: "bin", T: ty, Sym: "|", A: left, B: right}
	case 2, 3:
		// where: sets of ints / strings / records, lists of strings / records / lists
		if !(ty.K == "l" && ty.El.K == "i") {
			return g.where(g.expr(ty, d, vars), d, vars)
		}
		return g.flattenOf(ty, d, vars)
	case 4:
		if scalarEl {
			return g.flattenOf(ty, d, vars)
		}
	case 5:
		return &c10Ex{Op: "if", T: ty, A: g.expr(c10TBool, d, vars), B: g.expr(ty, d, vars), C: g.expr(ty, d, vars)}
	case 6:
		switch {
		case ty.eq(c10TLInt):
			if g.coin("catcall") {
				left := g.expr(c10TLInt, d, vars)
				if cands := c10VarsOf(vars, func(t *c10Ty) bool { return t.eq(ty) }); len(cands) > 0 && g.coin("catreuse") {
					left = c10VarEx(cands[g.intn(len(cands), "catvar")])
				}
				return &c10Ex{Op: "attr", T: ty, Name: "o", A: &c10Ex{Op: "call", T: c10TCat, Name: "cat", Args: []*c10Ex{left, g.expr(c10TLInt, d, vars)}}}
			}
			// flatten over a list of records
			if rs := c10VarsOf(vars, func(t *c10Ty) bool {
				return t.K == "l" && t.El.K == "m" && t.El.field("o") != nil && t.El.field("o").K == "i"
			}); len(rs) > 0 {
				r := rs[g.intn(len(rs), "frec")]
				return &c10Ex{Op: "flatten", T: ty, A: c10VarEx(r), B: &c10Ex{Op: "attr", T: c10TInt, A: &c10Ex{Op: "var", T: r.T.El, Name: "."}, Name: "o"}}
			}
		case ty.eq(c10TDbl):
			return &c10Ex{Op: "call", T: ty, Name: "dbl", Args: []*c10Ex{g.expr(c10TLInt, d, vars)}}
		case ty.eq(c10TPar):
			at := c10TLInt
			if g.coin("parset") {
				at = c10TSInt
			}
			return &c10Ex{Op: "call", T: ty, Name: "par", Args: []*c10Ex{g.expr(at, d, vars)}}
		}
		if as := g.attrSources(ty, vars); len(as) > 0 {
			return as[g.intn(len(as), "attr")]
		}
	}
	return g.leaf(ty, vars)
}

// ---------- statements ----------

func (g *c10Gen) stmtType(vars []c10Var) *c10Ty {
	base := []*c10Ty{c10TInt, c10TInt, c10TStr, c10TBool, c10TLInt, c10TLInt, c10TLInt, c10TLStr, c10TSInt, c10TSStr, c10TDbl, c10TPar, c10TOInt, c10TOStr}
	// types of record-ish variables already in scope take part too
	for _, v := range c10VarsOf(vars, func(t *c10Ty) bool { return t.K == "m" || (t.isColl() && t.El.K == "m") }) {
		base = append(base, v.T)
	}
	return base[g.intn(len(base), "stype")]
}

func (g *c10Gen) ifBlock(d int, vars []c10Var) (*c10IfBlock, *c10Ty) {
	vt := c10TInt
	if g.coin("ifbstr") {
		vt = c10TStr
	}
	rt := []*c10Ty{c10TInt, c10TStr, c10TLInt, c10TSStr}[g.intn(4, "ifbret")]
	ib := &c10IfBlock{Var: g.expr(vt, d, vars), Else: g.expr(rt, d, vars)}
	n := 1 + g.intn(3, "ifbcases")
	for i := 0; i < n; i++ {
		c := c10IfCase{Then: g.expr(rt, d, vars)}
		m := 1 + g.intn(2, "ifbctl")
		for j := 0; j < m; j++ {
			if g.intn(4, "ifbctlexpr") == 0 {
				c.Ctl = append(c.Ctl, g.expr(vt, 1, vars))
			} else if vt.K == "i" {
				c.Ctl = append(c.Ctl, g.litInt())
			} else {
				c.Ctl = append(c.Ctl, g.litStr())
			}
		}
		ib.Cases = append(ib.Cases, c)
	}
	return ib, rt
}

// tform generates a nested transform statement body and its result type.
func (g *c10Gen) tform(d, nest int, vars []c10Var) (*c10Tform, *c10Ty) {
	tf := &c10Tform{}
	var elemTy *c10Ty
	// the bare "." is never the argument: `. -> (...)` is what the parser also produces for an
	// omitted argument, and the evaluator answers it with no value at all
	notDot := func(vs []c10Var) []c10Var {
		var out []c10Var
		for _, v := range vs {
			if v.Name != "." {
				out = append(out, v)
			}
		}
		return out
	}
	recColls := notDot(c10VarsOf(vars, func(t *c10Ty) bool { return t.isColl() && t.El.K == "m" }))
	recs := notDot(c10VarsOf(vars, func(t *c10Ty) bool { return t.K == "m" && len(t.F) > 0 }))
	switch k := g.intn(10, "tfarg"); {
	case k < 5:
		at := g.pickCollTy("tfcoll")
		tf.Arg = g.expr(at, d, vars)
		elemTy = at.El
	case k < 7 && len(recColls) > 0:
		v := recColls[g.intn(len(recColls), "tfrc")]
		tf.Arg, elemTy = c10VarEx(v), v.T.El
	case k < 9 && len(recs) > 0:
		// iterate the entries of a record: kv.key, and kv.value when all fields have one type
		v := recs[g.intn(len(recs), "tfrec")]
		kv := &c10Ty{K: "m", F: []c10Field{{"key", c10TStr}}}
		same := true
		for _, f := range v.T.F {
			if !f.T.eq(v.T.F[0].T) {
				same = false
			}
		}
		if same {
			kv.F = append(kv.F, c10Field{"value", v.T.F[0].T})
		}
		tf.Arg, elemTy = c10VarEx(v), kv
	default:
		// scalar argument: the body runs once and yields one record
		st := []*c10Ty{c10TInt, c10TStr}[g.intn(2, "tfscalar")]
		tf.Arg, elemTy = g.expr(st, d, vars), st
		if tf.Arg.Op == "var" && tf.Arg.Name == "." {
			tf.Arg = &c10Ex{Op: "bin", T: st, Sym: "+", A: tf.Arg, B: map[string]*c10Ex{"i": g.litInt(), "s": g.litStr()}[st.K]}
		}
	}
	if tf.Arg.Op == "var" && tf.Arg.Name == "." {
		tf.Arg = &c10Ex{Op: "if", T: tf.Arg.T, A: &c10Ex{Op: "lit", T: c10TBool, Lit: c10Bool(true)}, B: tf.Arg, C: tf.Arg}
	}
	isMap := tf.Arg.T.K == "m"
	if tf.Arg.T.isColl() || isMap {
		tf.Ret = []string{"l", "l", "t"}[g.intn(3, "tfret")]
		// Whether two records that hold a set (or a list ordered by a set's iteration) are "the
		// same element" depends on the sets' internal order, which the language leaves open. A
		// set-typed transform therefore never collects records that could coincide that way:
		// elements that themselves hold collections are collected into a sequence ...
		if tf.Ret == "t" && !isMap && !c10ScalarOnly(elemTy) {
			tf.Ret = "l"
		}
	}
	// scope variable: implicit ".", fresh, or the name of something visible
	switch k := g.intn(5, "tfsv"); {
	case isMap || k == 0 || k == 1:
		tf.Var = g.fresh("e")
	case k == 2:
		vis := c10VarsOf(vars, func(t *c10Ty) bool { return true })
		var names []string
		for _, v := range vis {
			if v.Name != "." {
				names = append(names, v.Name)
			}
		}
		if len(names) > 0 {
			if g.noShadow {
				g.excluded[c10FindShadow]++
				tf.Var = g.fresh("e")
			} else {
				tf.Var = names[g.intn(len(names), "tfshadow")]
			}
		}
	}
	inner := g.withVar(vars, tf.Var, elemTy)
	g.inBody++
	defer func() { g.inBody-- }()
	export := g.intn(3, "tfexport") == 0
	if tf.Ret == "t" && isMap {
		// keeps the records of a set-typed transform over a record pairwise different
		tf.Body = append(tf.Body, &c10Stmt{Name: "fk", T: c10TStr, E: &c10Ex{Op: "attr", T: c10TStr, A: &c10Ex{Op: "var", T: elemTy, Name: tf.Var}, Name: "key"}})
	}
	sv := &c10Ex{Op: "var", T: elemTy, Name: c10Sv(tf.Var)}
	svName := strings.ReplaceAll(c10Sv(tf.Var), ".", "dot")
	n := 1 + g.intn(3, "tfn")
	bd := d
	if bd > 3 {
		bd = 3
	}
	bb := &c10Body{g: g, nest: nest + 1, vars: inner, outPrefix: "f", letPrefix: "w"}
	bb.random(n, bd)
	stmts := bb.finish()
	if tf.Ret == "t" && !isMap {
		// ... and records that hold collections also carry the element they were computed from,
		// so only equal elements (same computation, same representation) give equal records
		for _, st := range stmts {
			if !st.Let && !c10ScalarOnly(st.T) {
				export = true
			}
		}
	}
	if export {
		tf.Body = append(tf.Body, &c10Stmt{Name: "now_" + svName, T: elemTy, E: sv})
	}
	tf.Body = append(tf.Body, stmts...)
	if export {
		tf.Body = append(tf.Body, &c10Stmt{Name: "chk_" + svName, T: elemTy, E: sv})
	}
	rec := &c10Ty{K: "m"}
	hasAssign := false
	for _, st := range tf.Body {
		if !st.Let {
			hasAssign = true
		}
	}
	if !hasAssign {
		tf.Body = append(tf.Body, &c10Stmt{Name: g.fresh("f"), T: c10TInt, E: g.expr(c10TInt, 1, inner)})
	}
	for _, st := range tf.Body {
		if !st.Let {
			rec.F = append(rec.F, c10Field{st.Name, st.T})
		}
	}
	switch tf.Ret {
	case "l":
		return tf, c10TList(rec)
	case "t":
		return tf, c10TSet(rec)
	}
	return tf, rec
}

// c10ScalarOnly: the type holds no collection anywhere (scalars and records of scalars).
func c10ScalarOnly(t *c10Ty) bool {
	switch t.K {
	case "i", "s", "b":
		return true
	case "m":
		for _, f := range t.F {
			if !c10ScalarOnly(f.T) {
				return false
			}
		}
		return true
	}
	return false
}

// c10Body accumulates the statements of one transform body. Every let is re-exported right
// after its binding (now_x) and again at the end of the body (chk_x), so that a binding
// that changes after the fact shows in the result.
type c10Body struct {
	g                    *c10Gen
	nest                 int
	vars                 []c10Var
	out                  []*c10Stmt
	lets                 []c10Var
	outPrefix, letPrefix string
}

// add names the statement, appends it and, for a let, extends the scope.
func (b *c10Body) add(st *c10Stmt, ty *c10Ty, isLet bool) c10Var {
	g := b.g
	st.T = ty
	v := c10Var{T: ty}
	if isLet {
		st.Let, st.Name = true, g.fresh(b.letPrefix)
		v.Name = st.Name
		b.out = append(b.out, st)
		b.vars = append(append([]c10Var{}, b.vars...), v)
		b.lets = append(b.lets, v)
		b.out = append(b.out, &c10Stmt{Name: "now_" + st.Name, T: ty, E: c10VarEx(v)})
	} else {
		st.Name = g.fresh(b.outPrefix)
		v.Name = st.Name
		b.out = append(b.out, st)
	}
	if b.nest == 0 && g.probe != nil {
		in := c10NewInterp(false)
		val := in.stmt(st, g.probe)
		if in.err != "" {
			panic("C10 generator left the domain: " + in.err)
		}
		if st.Let {
			g.probe.bind(st.Name, val)
		}
	}
	return v
}

func (b *c10Body) addExpr(e *c10Ex, isLet bool) c10Var {
	return b.add(&c10Stmt{E: e}, e.T, isLet)
}

// random appends n random statements.
func (b *c10Body) random(n, d int) {
	g := b.g
	for i := 0; i < n; i++ {
		st := &c10Stmt{}
		isLet := g.intn(5, "islet") < 2
		var ty *c10Ty
		switch k := g.intn(10, "skind"); {
		case k < 6 || (b.nest >= 2 && k >= 7):
			ty = g.stmtType(b.vars)
			st.E = g.expr(ty, d, b.vars)
		case k < 7:
			st.IfB, ty = g.ifBlock(min(d, 2), b.vars)
		default:
			st.Tf, ty = g.tform(min(d, 3), b.nest, b.vars)
		}
		b.add(st, ty, isLet)
	}
}

func (b *c10Body) finish() []*c10Stmt {
	for _, v := range b.lets {
		b.out = append(b.out, &c10Stmt{Name: "chk_" + v.Name, T: v.T, E: c10VarEx(v)})
	}
	return b.out
}
