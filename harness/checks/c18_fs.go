package checks

// c18_fs.go — observation point and reference model of C18: a recording afero.Fs placed
// underneath syslutil.ChrootFs, and a path resolver that works on segment stacks only
// (no path/filepath calls), deciding whether a spelled path stays inside the root.

import (
	"os"
	"strings"
	"time"

	"github.com/spf13/afero"
)

type c18Call struct {
	Op    string   `json:"op"`
	Paths []string `json:"paths"`
}

// c18Rec records every call that reaches the filesystem below the wrapper. With a nil
// inner filesystem it answers "does not exist" itself (enumeration: only the calls matter).
type c18Rec struct {
	inner afero.Fs
	calls []c18Call
}

var _ afero.Fs = &c18Rec{}

func (r *c18Rec) rec(op string, paths ...string) {
	r.calls = append(r.calls, c18Call{Op: op, Paths: paths})
}

func (r *c18Rec) Create(n string) (afero.File, error) {
	r.rec("Create", n)
	if r.inner == nil {
		return nil, os.ErrNotExist
	}
	return r.inner.Create(n)
}
func (r *c18Rec) Mkdir(n string, m os.FileMode) error {
	r.rec("Mkdir", n)
	if r.inner == nil {
		return os.ErrNotExist
	}
	return r.inner.Mkdir(n, m)
}
func (r *c18Rec) MkdirAll(n string, m os.FileMode) error {
	r.rec("MkdirAll", n)
	if r.inner == nil {
		return os.ErrNotExist
	}
	return r.inner.MkdirAll(n, m)
}
func (r *c18Rec) Open(n string) (afero.File, error) {
	r.rec("Open", n)
	if r.inner == nil {
		return nil, os.ErrNotExist
	}
	return r.inner.Open(n)
}
func (r *c18Rec) OpenFile(n string, f int, m os.FileMode) (afero.File, error) {
	r.rec("OpenFile", n)
	if r.inner == nil {
		return nil, os.ErrNotExist
	}
	return r.inner.OpenFile(n, f, m)
}
func (r *c18Rec) Remove(n string) error {
	r.rec("Remove", n)
	if r.inner == nil {
		return os.ErrNotExist
	}
	return r.inner.Remove(n)
}
func (r *c18Rec) RemoveAll(n string) error {
	r.rec("RemoveAll", n)
	if r.inner == nil {
		return os.ErrNotExist
	}
	return r.inner.RemoveAll(n)
}
func (r *c18Rec) Rename(a, b string) error {
	r.rec("Rename", a, b)
	if r.inner == nil {
		return os.ErrNotExist
	}
	return r.inner.Rename(a, b)
}
func (r *c18Rec) Stat(n string) (os.FileInfo, error) {
	r.rec("Stat", n)
	if r.inner == nil {
		return nil, os.ErrNotExist
	}
	return r.inner.Stat(n)
}
func (r *c18Rec) Name() string { return "c18Rec" }
func (r *c18Rec) Chmod(n string, m os.FileMode) error {
	r.rec("Chmod", n)
	if r.inner == nil {
		return os.ErrNotExist
	}
	return r.inner.Chmod(n, m)
}
func (r *c18Rec) Chown(n string, u, g int) error {
	r.rec("Chown", n)
	if r.inner == nil {
		return os.ErrNotExist
	}
	return r.inner.Chown(n, u, g)
}
func (r *c18Rec) Chtimes(n string, a, m time.Time) error {
	r.rec("Chtimes", n)
	if r.inner == nil {
		return os.ErrNotExist
	}
	return r.inner.Chtimes(n, a, m)
}

// c18Resolve is the reference: walk the segments of name on a stack that starts at base
// (the root for a wrapper operation; the importing file's directory for an import). An
// absolute name is taken relative to the root, like a relative one; "" and "." stay;
// ".." pops, and stays at "/" when the stack is empty. It reports whether the walk ever
// stood above the root (climbed), the final location, and whether that is inside the root.
func c18Resolve(root, base []string, name string) (inside bool, canon string, climbed bool) {
	stack := append([]string{}, base...)
	for _, seg := range strings.Split(name, "/") {
		switch seg {
		case "", ".":
		case "..":
			if len(stack) > 0 {
				stack = stack[:len(stack)-1]
			}
			if len(stack) < len(root) {
				climbed = true
			}
		default:
			stack = append(stack, seg)
		}
	}
	canon = "/" + strings.Join(stack, "/")
	return c18Under(root, stack), canon, climbed
}

func c18Under(root, stack []string) bool {
	if len(stack) < len(root) {
		return false
	}
	for i := range root {
		if stack[i] != root[i] {
			return false
		}
	}
	return true
}

// c18Segments splits a path that reached the recorder; ok is false when it is not an
// absolute path free of "", "." and ".." segments (the wrapper hands on cleaned paths).
func c18Segments(p string) (segs []string, ok bool) {
	if p == "/" {
		return nil, true
	}
	if !strings.HasPrefix(p, "/") {
		return nil, false
	}
	segs = strings.Split(p[1:], "/")
	for _, s := range segs {
		if s == "" || s == "." || s == ".." {
			return segs, false
		}
	}
	return segs, true
}

// c18RecL is the recorder with afero's optional Lstater interface (what OsFs and MemMapFs offer below a
// wrapper in practice).
type c18RecL struct{ *c18Rec }

func (r c18RecL) LstatIfPossible(n string) (os.FileInfo, bool, error) {
	r.rec("Lstat", n)
	if r.inner == nil {
		return nil, true, os.ErrNotExist
	}
	if l, ok := r.inner.(afero.Lstater); ok {
		return l.LstatIfPossible(n)
	}
	fi, err := r.inner.Stat(n)
	return fi, false, err
}
