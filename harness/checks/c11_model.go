package checks

// c11_model.go — projection of a compiled Sysl application onto the facts that the import
// (C11) and export/re-import (C12) oracles compare: types with fields (name, json_tag,
// primitive kind, optionality, collection-ness, reference target) and REST endpoints with
// their parameters by location and their return statements.

import (
	"fmt"
	"regexp"
	"sort"
	"strings"

	"github.com/anz-bank/sysl/pkg/sysl"
	"github.com/anz-bank/sysl/pkg/syslutil"
)

type c11MField struct {
	Name string // sysl field name
	Tag  string // @json_tag, or Name when absent
	Opt  bool
	Coll string // "", "seq", "set", "list"
	Prim string // INT, STRING, ... ("" when a reference)
	Bits int32
	Ref  string // dotted reference path
	Pk   bool
	Pats []string // ~patterns
	Attr map[string]string
}

type c11MType struct {
	Kind   string // tuple | relation | enum | alias | union | other
	Fields []c11MField
	Alias  *c11MField // target of an alias
	Enum   map[string]int64
	Pats   []string
	Attr   map[string]string
}

func (t *c11MType) byTag(tag string) *c11MField {
	for i := range t.Fields {
		if t.Fields[i].Tag == tag {
			return &t.Fields[i]
		}
	}
	return nil
}

type c11MRet struct {
	Code string // first token of the payload when "<:" is present, else ""
	Type string // type expression with attributes and "sequence of " stripped
	Seq  bool
	Raw  string
}

type c11MEp struct {
	Name    string
	Method  string
	Path    string
	Vars    []c11MField
	Query   []c11MField
	Headers []c11MField // Name = wire name (name= attribute) when present
	Body    []c11MField
	Other   []c11MField
	Rets    []c11MRet
}

type c11Model struct {
	Types map[string]*c11MType
	Eps   map[string]*c11MEp
}

func c11Patterns(attrs map[string]*sysl.Attribute) []string {
	var out []string
	for _, e := range attrs["patterns"].GetA().GetElt() {
		out = append(out, e.GetS())
	}
	sort.Strings(out)
	return out
}

func c11StrAttrs(attrs map[string]*sysl.Attribute) map[string]string {
	out := map[string]string{}
	for k, v := range attrs {
		if k == "patterns" {
			continue
		}
		if _, ok := v.GetAttribute().(*sysl.Attribute_S); ok {
			out[k] = v.GetS()
		}
	}
	return out
}

func c11HasPat(ps []string, p string) bool {
	for _, x := range ps {
		if x == p {
			return true
		}
	}
	return false
}

func c11FieldOf(name string, t *sysl.Type) c11MField {
	f := c11MField{Name: name, Tag: name, Opt: t.GetOpt(), Pats: c11Patterns(t.GetAttrs()), Attr: c11StrAttrs(t.GetAttrs())}
	if tag, ok := f.Attr["json_tag"]; ok {
		f.Tag = tag
	} else if n, ok := f.Attr["name"]; ok {
		f.Tag = n // SQL columns and header parameters whose foreign name is not an identifier
	}
	f.Pk = c11HasPat(f.Pats, "pk")
	inner := t
	switch {
	case t.GetSequence() != nil:
		f.Coll, inner = "seq", t.GetSequence()
	case t.GetSet() != nil:
		f.Coll, inner = "set", t.GetSet()
	case t.GetList() != nil:
		f.Coll, inner = "list", t.GetList().GetType()
	}
	if inner.GetOpt() {
		f.Opt = true
	}
	// `name(0..n) <: sequence of T` (the XSD importer's spelling of maxOccurs) compiles to a list of a
	// sequence: one collection as far as the foreign document is concerned
	if f.Coll == "list" && (inner.GetSequence() != nil || inner.GetSet() != nil) {
		if inner.GetSequence() != nil {
			inner = inner.GetSequence()
		} else {
			inner = inner.GetSet()
		}
		if inner.GetOpt() {
			f.Opt = true
		}
	}
	switch x := inner.GetType().(type) {
	case *sysl.Type_Primitive_:
		f.Prim = x.Primitive.String()
		for _, c := range inner.GetConstraint() {
			if c.GetBitWidth() != 0 {
				f.Bits = c.GetBitWidth()
			}
		}
	case *sysl.Type_TypeRef:
		r := x.TypeRef.GetRef()
		parts := append([]string{}, r.GetPath()...)
		if r.GetAppname() != nil && len(parts) > 0 {
			parts = append([]string{syslutil.GetAppName(r.GetAppname())}, parts...)
		} else if r.GetAppname() != nil {
			parts = []string{syslutil.GetAppName(r.GetAppname())}
		}
		f.Ref = strings.Join(parts, ".")
	default:
		f.Prim = fmt.Sprintf("%T", x)
	}
	return f
}

var c11RetAttrs = regexp.MustCompile(`\s*\[[^\]]*\]\s*$`)

func c11RetOf(payload string) c11MRet {
	r := c11MRet{Raw: payload}
	p := strings.TrimSpace(payload)
	ty := p
	if i := strings.Index(p, "<:"); i >= 0 {
		r.Code = strings.TrimSpace(p[:i])
		ty = strings.TrimSpace(p[i+2:])
	} else if regexp.MustCompile(`^(\d{3}|ok|error)$`).MatchString(p) {
		r.Code, ty = p, ""
	}
	// attributes may contain nested brackets (examples=[[..]]): cut at the first " ["
	if i := strings.Index(ty, " ["); i >= 0 {
		ty = ty[:i]
	}
	ty = c11RetAttrs.ReplaceAllString(ty, "")
	if strings.HasPrefix(ty, "sequence of ") {
		r.Seq = true
		ty = strings.TrimPrefix(ty, "sequence of ")
	}
	r.Type = strings.TrimSpace(ty)
	return r
}

func c11ModelOf(app *sysl.Application) *c11Model {
	m := &c11Model{Types: map[string]*c11MType{}, Eps: map[string]*c11MEp{}}
	for name, t := range app.GetTypes() {
		mt := &c11MType{Pats: c11Patterns(t.GetAttrs()), Attr: c11StrAttrs(t.GetAttrs())}
		var defs map[string]*sysl.Type
		switch x := t.GetType().(type) {
		case *sysl.Type_Tuple_:
			mt.Kind, defs = "tuple", x.Tuple.GetAttrDefs()
		case *sysl.Type_Relation_:
			mt.Kind, defs = "relation", x.Relation.GetAttrDefs()
		case *sysl.Type_Enum_:
			mt.Kind, mt.Enum = "enum", x.Enum.GetItems()
		case *sysl.Type_OneOf_:
			mt.Kind = "union"
			for _, o := range x.OneOf.GetType() {
				mt.Fields = append(mt.Fields, c11FieldOf("", o))
			}
		default:
			mt.Kind = "alias"
			f := c11FieldOf(name, t)
			mt.Alias = &f
		}
		names := make([]string, 0, len(defs))
		for k := range defs {
			names = append(names, k)
		}
		sort.Strings(names)
		for _, k := range names {
			f := c11FieldOf(k, defs[k])
			if rel := t.GetRelation(); rel != nil {
				for _, pk := range rel.GetPrimaryKey().GetAttrName() {
					if pk == k {
						f.Pk = true
					}
				}
			}
			mt.Fields = append(mt.Fields, f)
		}
		m.Types[name] = mt
	}
	for name, ep := range app.GetEndpoints() {
		me := &c11MEp{Name: name}
		if rp := ep.GetRestParams(); rp != nil {
			me.Method, me.Path = rp.GetMethod().String(), rp.GetPath()
			for _, q := range rp.GetQueryParam() {
				me.Query = append(me.Query, c11FieldOf(q.GetName(), q.GetType()))
			}
			for _, q := range rp.GetUrlParam() {
				me.Vars = append(me.Vars, c11FieldOf(q.GetName(), q.GetType()))
			}
		}
		for _, p := range ep.GetParam() {
			f := c11FieldOf(p.GetName(), p.GetType())
			switch {
			case c11HasPat(f.Pats, "body"):
				me.Body = append(me.Body, f)
			case c11HasPat(f.Pats, "header"):
				if w, ok := f.Attr["name"]; ok {
					f.Tag = w
				}
				me.Headers = append(me.Headers, f)
			default:
				me.Other = append(me.Other, f)
			}
		}
		var walk func(ss []*sysl.Statement)
		walk = func(ss []*sysl.Statement) {
			for _, s := range ss {
				if r := s.GetRet(); r != nil {
					me.Rets = append(me.Rets, c11RetOf(r.GetPayload()))
				}
			}
		}
		walk(ep.GetStmt())
		m.Eps[name] = me
	}
	return m
}

// c11KindClass maps a model field to the lossy kind classes that survive an export/import cycle.
func c11KindClass(f *c11MField) string {
	switch f.Prim {
	case "INT":
		return "integer"
	case "FLOAT", "DECIMAL":
		return "number"
	case "STRING", "STRING_8":
		return "string"
	case "BOOL":
		return "bool"
	case "DATE":
		return "date"
	case "DATETIME":
		return "datetime"
	case "BYTES":
		return "bytes"
	case "":
		return "ref:" + f.Ref
	}
	return strings.ToLower(f.Prim)
}

// c11SpellClass: kind class of a Sysl primitive spelling.
func c11SpellClass(k string) string {
	switch k {
	case "int", "int32", "int64":
		return "integer"
	case "float", "float32", "float64", "decimal":
		return "number"
	case "string":
		return "string"
	case "bool":
		return "bool"
	}
	return k // date datetime bytes
}
