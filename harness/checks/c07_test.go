package checks

// C07 — compilation is deterministic and safe to run concurrently in one process.
//
// The driver runs this test with the -race build (PROPS["C07"].race); the check is written to be
// meaningful in both builds: byte comparison against the sequential baseline always, plus — in the
// race build — the number of race-detector reports before/after every case (runtime.RaceErrors).

import (
	"bytes"
	"encoding/json"
	"fmt"
	"os"
	"path/filepath"
	"runtime"
	"sort"
	"strings"
	"sync"
	"sync/atomic"
	"testing"
	"time"

	"github.com/anz-bank/sysl/pkg/parse"
	"github.com/anz-bank/sysl/pkg/pbutil"
	"github.com/anz-bank/sysl/pkg/sysl"
	"github.com/spf13/afero"
	"pgregory.net/rapid"
)

type c07Spec struct {
	Text string `json:"text,omitempty"`
	Path string `json:"path,omitempty"` // corpus file below the tree under test
	Kind string `json:"kind"`           // chain | tmpl | intent | corpus | rejected | module
	// module: a specification spread over files of an in-memory filesystem, compiled from Root
	Files map[string]string `json:"files,omitempty"`
	Root  string            `json:"root,omitempty"`
}

type c07Case struct {
	Specs      []c07Spec `json:"specs"`
	Assign     []int     `json:"assign"` // goroutine i compiles Specs[Assign[i]]
	Spin       []int     `json:"spin"`   // start offset of goroutine i (busy iterations, no sleeps)
	Rounds     int       `json:"rounds"` // compilations per goroutine
	GoMaxProcs int       `json:"gomaxprocs"`
	SeqRepeats int       `json:"seq_repeats"` // sequential re-compilations of Specs[0]
	// ColdFirst: the concurrent phase runs first, in a process that has compiled nothing yet, and the
	// sequential baseline afterwards (state that is lazily initialised on first use and then only read
	// is raced on only while it is cold: a baseline computed first would warm it up and hide the race)
	ColdFirst bool `json:"cold_first,omitempty"`
	// GCRounds > 0: after the baseline, GCRounds times: compile every rejected specification, run a garbage
	// collection, then re-compile accepted ones (state keyed by an object's address must not outlive a
	// compilation that ended in an error: the collector hands the address to a later compilation)
	GCRounds int      `json:"gc_rounds,omitempty"`
	Classes  []string `json:"classes,omitempty"`
}

// corpus files that compile on their own (decided once per process, sequentially)
var (
	c07CorpusOnce sync.Once
	c07CorpusOK   []string
)

func c07Corpus() []string {
	c07CorpusOnce.Do(func() {
		for _, f := range c09Corpus() {
			b, err := os.ReadFile(filepath.Join(cfg.Repo, f))
			if err != nil || bytes.Contains(b, []byte("import //")) || len(b) > 6000 {
				continue
			}
			if _, err := c07Compile(c07Spec{Path: f}); err == nil {
				c07CorpusOK = append(c07CorpusOK, f)
			}
			if len(c07CorpusOK) >= 60 {
				break
			}
		}
	})
	return c07CorpusOK
}

func genC07(t *rapid.T) c07Case {
	maxK, maxG := 24, 64
	if c07Race {
		maxK, maxG = 6, 16 // the race build is ~10x slower
	}
	k := rapid.IntRange(2, maxK).Draw(t, "k")
	c := c07Case{GoMaxProcs: rapid.IntRange(1, 16).Draw(t, "gomaxprocs"), SeqRepeats: 20}
	c.ColdFirst = rapid.IntRange(0, 2).Draw(t, "coldfirst") != 0
	classes := map[string]bool{}
	// Specs[0]: always a mixin chain of >=3 apps (post-processing order matters for it)
	for i := 0; i < k; i++ {
		kind := rapid.IntRange(0, 5).Draw(t, "speckind")
		if i == 0 {
			kind = 0
		}
		if c07Race && i == 1 {
			// the race build runs few cases: each has a specification in several files (the retrievals of one
			// compilation run concurrently and share the table of claimed files)
			kind = 2
		}
		var s c07Spec
		switch {
		case kind == 0:
			tm := c09GenTmpl(t, c09TmplOpt{Mixin: true, MinChain: 2, Collector: rapid.Bool().Draw(t, "coll")})
			s = c07Spec{Text: tm.Text, Kind: "chain"}
			for _, cl := range tm.Classes {
				classes[cl] = true
			}
		case kind == 1:
			tm := c09GenTmpl(t, c09TmplOpt{Collector: true, Views: rapid.Bool().Draw(t, "views"), Nested: rapid.Bool().Draw(t, "nested"), Names: rapid.Bool().Draw(t, "names")})
			s = c07Spec{Text: tm.Text, Kind: "tmpl"}
			for _, cl := range tm.Classes {
				classes[cl] = true
			}
		case kind == 2 || kind == 3 && rapid.Bool().Draw(t, "moremodules"):
			s = c07GenModule(t)
			classes["spec_in_several_files"] = true
		case kind <= 3 || len(c07Corpus()) == 0:
			s = c07Spec{Text: Render(GenIntent(t), pick(t, indentPool, "indent")), Kind: "intent"}
		default:
			s = c07Spec{Path: pick(t, c07Corpus(), "corpus"), Kind: "corpus"}
		}
		c.Specs = append(c.Specs, s)
	}
	if classes["spec_in_several_files"] {
		// the first line of a file is where a lexer state left over from another file shows: a specification
		// whose first line is a multi-word application name goes with every module
		name := pick(t, []string{"Payment Gateway Service", "Mx Front Door", "A B", "Order Entry 2"}, "victimname")
		c.Specs = append(c.Specs, c07Spec{Text: name + " [~x]:\n    !type T:\n        id <: int\n    Ep: ...\n", Kind: "tmpl"})
		k = len(c.Specs)
	}
	if rapid.IntRange(0, 2).Draw(t, "gc") != 0 {
		c.GCRounds = rapid.IntRange(2, 12).Draw(t, "gcrounds")
		nrej := rapid.IntRange(1, 3).Draw(t, "nrej")
		for i := 0; i < nrej; i++ {
			c.Specs = append(c.Specs, c07Spec{Text: c07GenRejected(t), Kind: "rejected"})
		}
		k = len(c.Specs)
		classes["rejected_specs_and_gc_rounds"] = true
	}
	g := rapid.IntRange(k, maxG).Draw(t, "g")
	for i := 0; i < g; i++ {
		a := i
		if i >= k {
			a = rapid.IntRange(0, k-1).Draw(t, "assign")
		}
		c.Assign = append(c.Assign, a)
		c.Spin = append(c.Spin, rapid.IntRange(0, 200000).Draw(t, "spin"))
	}
	c.Rounds = rapid.IntRange(1, 2).Draw(t, "rounds")
	if c07Race {
		c.Rounds = 1
	}
	for cl := range classes {
		c.Classes = append(c.Classes, cl)
	}
	sortStrings(c.Classes)
	return c
}

// c07GenRejected draws a specification with a syntax error: an accepted template with a defect at a drawn
// place (unbalanced brackets, a missing colon, a stray token), so that the lexer is abandoned in a drawn
// state (inside brackets, after the import section, at some indentation depth).
func c07GenRejected(t *rapid.T) string {
	tm := c09GenTmpl(t, c09TmplOpt{Views: rapid.Bool().Draw(t, "rviews"), Nested: true, Names: rapid.Bool().Draw(t, "rnames")})
	bad := pick(t, []string{
		"Rej [a=\"b\":\n    !type T:\n        id <: int\n",
		"Rej:\n    !type T [~x:\n        id <: int\n",
		"Rej:\n    Ep [[~x:\n        ...\n",
		"Rej:\n    !type T:\n        id <: int [a=[\"x\", \"y\"\n    !type U:\n        id <: int\n",
		"Rej:\n    Ep (a <: int:\n        ...\n",
		"Rej:\n    !type T\n        id <: int\n",
		"Rej:\n    /x/{id<:int:\n        GET:\n            ...\n",
		"Rej:\n  Ep:\n      return ok <: [\n",
	}, "defect")
	if rapid.Bool().Draw(t, "defectfirst") {
		return bad + "\n" + tm.Text
	}
	return tm.Text + "\n" + bad
}

// c07GenModule draws a specification in several files (C04's partitions) whose files end in different ways —
// with or without a final newline, with trailing blank lines, with a comment — and, in half of the cases,
// with an import-only bundle file as the last file of the closure (its last line an import statement): the
// lexer is left in a different state at the end of each.
func c07GenModule(t *rapid.T) c07Spec {
	c := genC04(t)
	s := c07Spec{Kind: "module", Files: map[string]string{}, Root: c.Root}
	var names []string
	for n := range c.Files {
		names = append(names, n)
	}
	sort.Strings(names)
	for _, n := range names {
		txt := c.Files[n]
		switch rapid.IntRange(0, 4).Draw(t, "fileend") {
		case 0:
			txt = strings.TrimRight(txt, "\n")
		case 1:
			txt += "\n\n"
		case 2:
			txt = strings.TrimRight(txt, "\n") + "\n# end"
		}
		s.Files[n] = txt
	}
	if len(names) > 1 && rapid.IntRange(0, 3).Draw(t, "bundle") != 0 {
		var b strings.Builder
		for _, n := range names {
			if n != c.Root {
				b.WriteString("import /" + strings.TrimSuffix(n, ".sysl") + "\n")
			}
		}
		bundle := b.String()
		if rapid.IntRange(0, 3).Draw(t, "bundlenl") != 0 {
			bundle = strings.TrimRight(bundle, "\n")
		}
		s.Files["bundle.sysl"] = bundle
		lines := strings.Split(s.Files[c.Root], "\n")
		last := -1
		for i, l := range lines {
			if strings.HasPrefix(l, "import ") {
				last = i
			}
		}
		lines = append(lines[:last+1], append([]string{"import /bundle"}, lines[last+1:]...)...)
		s.Files[c.Root] = strings.Join(lines, "\n")
	}
	return s
}

func sortStrings(s []string) {
	for i := 1; i < len(s); i++ {
		for j := i; j > 0 && s[j] < s[j-1]; j-- {
			s[j], s[j-1] = s[j-1], s[j]
		}
	}
}

func c07Compile(s c07Spec) (*sysl.Module, error) {
	if len(s.Files) > 0 {
		fs := afero.NewMemMapFs()
		for n, txt := range s.Files {
			if err := afero.WriteFile(fs, n, []byte(txt), 0o644); err != nil {
				return nil, err
			}
		}
		return parse.NewParser().ParseFromFs(s.Root, fs)
	}
	if s.Path != "" {
		full := filepath.Join(cfg.Repo, s.Path)
		fs := afero.NewBasePathFs(afero.NewOsFs(), filepath.Dir(full))
		return parse.NewParser().ParseFromFs(filepath.Base(full), fs)
	}
	return parse.NewParser().ParseString(s.Text)
}

type c07Out struct {
	Text, JSON []byte
	Err        string
	Panic      string
}

func c07Run(s c07Spec) (o c07Out) {
	defer func() {
		if r := recover(); r != nil {
			buf := make([]byte, 1<<15)
			n := runtime.Stack(buf, false)
			o.Panic = fmt.Sprintf("%v @%s", r, repoFrame(string(buf[:n])))
		}
	}()
	m, err := c07Compile(s)
	if err != nil {
		o.Err = "error"
		return o
	}
	// The writers take any io.Writer: a writer that accepts its input in pieces and yields in between
	// (a pipe, a socket) keeps the caller's byte slice in use for a while, so a serialiser that hands
	// out storage it still references shows up as cross-talk or as a race report.
	tb, jb := &c07SlowWriter{}, &c07SlowWriter{}
	if err := pbutil.FTextPB(tb, m); err != nil {
		o.Err = "text writer: " + err.Error()
	}
	if err := pbutil.FJSONPB(jb, m); err != nil {
		o.Err = "json writer: " + err.Error()
	}
	o.Text, o.JSON = tb.buf.Bytes(), jb.buf.Bytes()
	return o
}

type c07SlowWriter struct{ buf bytes.Buffer }

func (w *c07SlowWriter) Write(p []byte) (int, error) {
	for off := 0; off < len(p); off += 256 {
		end := off + 256
		if end > len(p) {
			end = len(p)
		}
		w.buf.Write(p[off:end])
		runtime.Gosched()
	}
	return len(p), nil
}

func (a c07Out) diff(b c07Out) string {
	switch {
	case a.Panic != b.Panic:
		return fmt.Sprintf("panic %q vs %q", a.Panic, b.Panic)
	case a.Err != b.Err:
		return fmt.Sprintf("outcome %q vs %q", a.Err, b.Err)
	case !bytes.Equal(a.Text, b.Text):
		return "text serialisation: " + c19FirstDiff(string(a.Text), string(b.Text))
	case !bytes.Equal(a.JSON, b.JSON):
		return "JSON serialisation: " + c19FirstDiff(string(a.JSON), string(b.JSON))
	}
	return ""
}

func c07Label(s c07Spec) string {
	if len(s.Files) > 0 {
		return c04SplitText(c04Case{Files: s.Files, Root: s.Root})
	}
	if s.Path != "" {
		return "corpus file " + s.Path
	}
	return s.Text
}

var c07Sink uint64

type c07ConcRes struct {
	Violation    string           `json:"violation,omitempty"`
	Classes      []string         `json:"classes,omitempty"`
	ClassN       map[string]int64 `json:"class_n,omitempty"`
	Peak         int64            `json:"peak"`
	DistinctPeak int64            `json:"distinct_peak"`
	Races        int              `json:"races"`
	Key          string           `json:"key,omitempty"`
	RaceBuild    bool             `json:"race_build"`
}

// c07Concurrent does the whole case inside the calling process (the worker): corrupted shared state can end
// the process in ways no recover() catches (fatal errors, panics in goroutines started by the parser).
func c07Concurrent(c c07Case) *c07ConcRes {
	res := &c07ConcRes{ClassN: map[string]int64{}, RaceBuild: c07Race}
	cl := func(s string) { res.ClassN[s]++ }
	if len(c.Specs) < 2 || len(c.Assign) != len(c.Spin) {
		res.Violation = "malformed case"
		return res
	}
	races0 := c07RaceErrors()
	base := make([]c07Out, len(c.Specs))
	sequential := func() bool {
		// ---- sequential baseline
		for i, s := range c.Specs {
			base[i] = c07Run(s)
			cl("spec_" + s.Kind)
			if base[i].Panic != "" {
				// crashes of the compiler are C01's/C20's subject; without a baseline there is nothing to compare
				cl("baseline_panic")
				return false
			}
			if base[i].Err != "" {
				cl("baseline_rejected_" + s.Kind)
			}
		}
		// ---- sequential repetition (catches order-dependent post-processing)
		for r := 0; r < c.SeqRepeats; r++ {
			i := 0
			if r%4 == 3 {
				i = (r / 4) % len(c.Specs)
			}
			if d := base[i].diff(c07Run(c.Specs[i])); d != "" {
				res.Violation = fmt.Sprintf("sequential compilation %d of spec %d differs from the first one: %s\n---- %s", r+2, i, d, c07Label(c.Specs[i]))
				return false
			}
			cl("sequential_repeat")
		}
		// ---- pairs: what one compilation leaves behind must not reach the next one (a specification in several
		// files ends its lexers in many different states: mid-import, without a final newline, after a comment)
		pairs := 0
		for i, s := range c.Specs {
			if s.Kind != "module" {
				continue
			}
			for j := 0; j < len(c.Specs) && pairs < 12; j++ {
				if j == i {
					continue
				}
				pairs++
				for _, k := range []int{i, j} {
					if d := base[k].diff(c07Run(c.Specs[k])); d != "" {
						res.Violation = fmt.Sprintf("compilation of spec %d right after spec %d differs from its first compilation: %s\n---- %s\n---- compiled before it:\n%s", k, i, d, c07Label(c.Specs[k]), c07Label(c.Specs[i]))
						return false
					}
				}
				cl("compiled_right_after_a_multi_file_spec")
			}
		}
		// ---- rejected compilations, a collection, accepted compilations
		for r := 0; r < c.GCRounds; r++ {
			for i, s := range c.Specs {
				if s.Kind != "rejected" {
					continue
				}
				if d := base[i].diff(c07Run(s)); d != "" {
					res.Violation = fmt.Sprintf("sequential compilation of spec %d differs from the first one: %s\n---- %s", i, d, c07Label(s))
					return false
				}
			}
			runtime.GC()
			n := 0
			for j := 0; j < len(c.Specs) && n < 4; j++ {
				i := (r + j) % len(c.Specs)
				if c.Specs[i].Kind == "rejected" {
					continue
				}
				n++
				if d := base[i].diff(c07Run(c.Specs[i])); d != "" {
					res.Violation = fmt.Sprintf("compilation of spec %d after rejected compilations and a garbage collection (round %d) differs from the first one: %s\n---- %s\n---- rejected before it:\n%s", i, r, d, c07Label(c.Specs[i]), c07Label(c.Specs[len(c.Specs)-1]))
					return false
				}
				cl("accepted_after_rejected_and_gc")
			}
		}

		return true
	}
	if c.ColdFirst {
		cl("concurrent_phase_first_in_cold_process")
	} else if !sequential() {
		return res
	}
	// ---- concurrent compilations
	prev := runtime.GOMAXPROCS(c.GoMaxProcs)
	defer runtime.GOMAXPROCS(prev)
	g := len(c.Assign)
	results := make([][]c07Out, g)
	var inflight, peak int64
	perSpec := make([]int64, len(c.Specs))
	var distinctPeak int64
	var wg sync.WaitGroup
	start := make(chan struct{})
	for gi := 0; gi < g; gi++ {
		wg.Add(1)
		go func(gi int) {
			defer wg.Done()
			si := c.Assign[gi]
			<-start
			var acc uint64
			for n := 0; n < c.Spin[gi]; n++ {
				acc += uint64(n) * 2654435761
			}
			atomic.AddUint64(&c07Sink, acc)
			for r := 0; r < c.Rounds; r++ {
				now := atomic.AddInt64(&inflight, 1)
				for {
					p := atomic.LoadInt64(&peak)
					if now <= p || atomic.CompareAndSwapInt64(&peak, p, now) {
						break
					}
				}
				atomic.AddInt64(&perSpec[si], 1)
				var distinct int64
				for j := range perSpec {
					if atomic.LoadInt64(&perSpec[j]) > 0 {
						distinct++
					}
				}
				for {
					p := atomic.LoadInt64(&distinctPeak)
					if distinct <= p || atomic.CompareAndSwapInt64(&distinctPeak, p, distinct) {
						break
					}
				}
				out := c07Run(c.Specs[si])
				atomic.AddInt64(&perSpec[si], -1)
				atomic.AddInt64(&inflight, -1)
				results[gi] = append(results[gi], out)
			}
		}(gi)
	}
	close(start)
	wg.Wait()
	runtime.GOMAXPROCS(prev)
	res.Peak, res.DistinctPeak = peak, distinctPeak
	res.ClassN["concurrent_compilations"] += int64(g * c.Rounds)
	if peak >= 4 {
		cl("inflight_peak>=4")
	}
	if peak >= 8 {
		cl("inflight_peak>=8")
	}
	if distinctPeak >= 2 {
		cl("distinct_specs_inflight>=2")
	}
	cl(fmt.Sprintf("gomaxprocs_%s", map[bool]string{true: "1", false: ">1"}[c.GoMaxProcs == 1]))
	if c.ColdFirst && !sequential() {
		return res
	}
	for gi := range results {
		for r, out := range results[gi] {
			si := c.Assign[gi]
			if d := base[si].diff(out); d != "" {
				res.Violation = fmt.Sprintf("concurrent compilation (goroutine %d of %d, round %d, GOMAXPROCS %d, in-flight peak %d) of spec %d differs from its sequential result: %s\n---- %s",
					gi, g, r, c.GoMaxProcs, peak, si, d, c07Label(c.Specs[si]))
				return res
			}
		}
	}
	res.Races = c07RaceErrors() - races0
	h := ""
	for _, b := range base {
		h += fmt.Sprintf("%x.", hash64(string(b.Text)))
	}
	res.Key = fmt.Sprintf("%s|%v|%v|%d", h, c.Assign, c.Spin, c.GoMaxProcs)
	return res
}

var _ = registerOp("c07.concurrent", func(arg json.RawMessage) (interface{}, error) {
	var c c07Case
	if err := json.Unmarshal(arg, &c); err != nil {
		return nil, err
	}
	return c07Concurrent(c), nil
})

func c07RaceExcerpt(tail string) string {
	i := strings.Index(tail, "WARNING: DATA RACE")
	if i < 0 {
		return "(no report text captured)"
	}
	t := tail[i:]
	if j := strings.Index(t, "=================="); j > 0 {
		t = t[:j]
	}
	if len(t) > 2500 {
		t = t[:2500] + "…"
	}
	return t
}

func checkC07(x *X, c c07Case) error {
	for _, cl := range c.Classes {
		x.Class(cl)
	}
	var r c07ConcRes
	death, err, timedOut, _, tail := c07Exec("c07.concurrent", c, &r, 300*time.Second, false)
	if timedOut {
		x.Inconclusive(fmt.Sprintf("%d goroutines x %d specs did not finish within 300 s", len(c.Assign), len(c.Specs)))
		return nil
	}
	if death != nil {
		return finding("crash-under-concurrency:"+death.Sig(), "the process ended while %d goroutines compiled %d specifications (GOMAXPROCS %d): %s\n---- spec 0:\n%s", len(c.Assign), len(c.Specs), c.GoMaxProcs, firstLine(death.Text), c07Label(c.Specs[0]))
	}
	if err != nil {
		return fmt.Errorf("c07.concurrent: %v", err)
	}
	for k, n := range r.ClassN {
		x.r.ClassN(k, n)
	}
	if r.Violation != "" {
		return fmt.Errorf("%s", r.Violation)
	}
	if r.Races > 0 {
		return finding("data-race", "the race detector reported %d data race(s) while %d goroutines compiled %d specifications (replay with the -race build):\n%s", r.Races, len(c.Assign), len(c.Specs), c07RaceExcerpt(tail))
	}
	if r.RaceBuild {
		x.Class("race_detector_on")
	}
	if r.Peak >= 4 && r.DistinctPeak >= 2 {
		x.NonTrivial(r.Key)
	}
	x.Sample(map[string]interface{}{"specs": len(c.Specs), "goroutines": len(c.Assign), "rounds": c.Rounds, "gomaxprocs": c.GoMaxProcs, "inflight_peak": r.Peak, "distinct_specs_peak": r.DistinctPeak, "race_build": r.RaceBuild})
	return nil
}

var c07Prop = Define("C07", "concurrent",
	"k in [2,24] (race build: [2,6]) specifications — Specs[0] always a mixin chain of >=3 apps with rapid-drawn name order (chain order != sorted order in most cases) optionally with a collector; the others drawn from collector/view/nested-type/hostile-name templates, specgen intents and corpus files that compile — are compiled sequentially (baseline = text and JSON bytes via pbutil.FTextPB/FJSONPB), Specs[0] and others are re-compiled 20 times sequentially (must be byte-identical), then g in [k,64] (race: [k,16]) goroutines released together compile their assigned spec 1..2 times after rapid-drawn spin counts under a rapid-drawn GOMAXPROCS in [1,16] (set per case, restored); every concurrent result must be byte-identical to the baseline (same outcome for rejected specs); in the race build the race detector's report counter (runtime.RaceErrors) must not move during the case. The whole case runs in a process of its own: if that process dies (fatal error, panic in a parser goroutine) the case is a violation; a time-out (300 s) is inconclusive. Non-trivial: measured in-flight peak >=4 and >=2 distinct specs in flight at once (atomic counters); distinct by hash of the baselines + schedule parameters.",
	genC07, checkC07)

// ---------- fresh processes: the same bytes in every process ----------

type c07ProcCase struct {
	Spec c07Spec `json:"spec"`
}

type c07ProcRes struct {
	Text, JSON string
	Err        string
}

var _ = registerOp("c07.compile", func(arg json.RawMessage) (interface{}, error) {
	var s c07Spec
	if err := json.Unmarshal(arg, &s); err != nil {
		return nil, err
	}
	o := c07Run(s)
	if o.Panic != "" {
		panic(o.Panic)
	}
	return c07ProcRes{Text: string(o.Text), JSON: string(o.JSON), Err: o.Err}, nil
})

func genC07Proc(t *rapid.T) c07ProcCase {
	tm := c09GenTmpl(t, c09TmplOpt{Mixin: true, MinChain: 2, Collector: rapid.Bool().Draw(t, "coll"), Views: rapid.Bool().Draw(t, "views")})
	return c07ProcCase{Spec: c07Spec{Text: tm.Text, Kind: "chain"}}
}

func checkC07Proc(x *X, c c07ProcCase) error {
	here := c07Run(c.Spec)
	if here.Panic != "" || here.Err != "" {
		x.Class("proc_rejected")
		return nil
	}
	for p := 0; p < 2; p++ {
		shutdownSandbox()
		var r c07ProcRes
		death, err, inc := sandboxCall("c07.compile", c.Spec, &r)
		if inc {
			x.Inconclusive("fresh-process compile overran its time bound once")
			return nil
		}
		if death != nil {
			return deathErr(death, "compile in a fresh process")
		}
		if err != nil {
			return fmt.Errorf("fresh process: %v", err)
		}
		x.Class("fresh_process_compile")
		if r.Text != string(here.Text) {
			return fmt.Errorf("process %d compiles the same text to another model: %s\n---- %s", p+1, c19FirstDiff(string(here.Text), r.Text), c.Spec.Text)
		}
		if r.JSON != string(here.JSON) {
			return fmt.Errorf("process %d writes other JSON for the same text: %s\n---- %s", p+1, c19FirstDiff(string(here.JSON), r.JSON), c.Spec.Text)
		}
	}
	x.NonTrivial("proc|" + fmt.Sprintf("%x", hash64(string(here.Text))))
	return nil
}

var c07ProcProp = Define("C07", "processes",
	"A mixin-chain template (>=3 apps, random name order, optional collector/views) compiled in this process and in 2 fresh worker processes: text and JSON bytes must be identical (map iteration seeds differ per process). Non-trivial: always (chain depth >=2); distinct by hash of the text serialisation.",
	genC07Proc, checkC07Proc)

func TestC07(t *testing.T) {
	checkKnown(t, "C07")
	t.Run("concurrent", func(t *testing.T) {
		q, th := 20, 120
		if c07Race {
			q, th = 5, 25
		}
		c07Prop.Run(t, scale(q, th))
	})
	t.Run("processes", func(t *testing.T) {
		q, th := 10, 60
		if c07Race {
			q, th = 3, 12
		}
		c07ProcProp.Run(t, scale(q, th))
	})
	t.Run("soak", func(t *testing.T) {
		c07SoakProp.Run(t, scale(1, 2))
	})
}
