package checks

import (
	"fmt"
	"sort"
	"strings"
	"testing"

	"pgregory.net/rapid"
)

// C10 — view/transform evaluation follows the expression semantics and is pure.
//
// A case is the rendered specification (fixed helper views + one generated main view), the
// drawn arguments and the result expected by the reference interpreter (c10_ref.go). The
// sandbox worker compiles the text with the real parser and evaluates the view with
// eval.EvaluateView, twice on the one compiled module.

type c10Case struct {
	Text       string             `json:"text"`
	Args       map[string]*c10Val `json:"args"`
	Want       *c10Val            `json:"want"`
	Hazards    []string           `json:"hazards"` // shapes behind recorded findings present in this body (c10Interp)
	Classes    []string           `json:"classes"`
	NonTrivial bool               `json:"nontrivial"`
}

// ---------- purity templates ----------

func c10Lit(v *c10Val) *c10Ex {
	t := map[string]*c10Ty{"i": c10TInt, "s": c10TStr, "b": c10TBool}[v.K]
	return &c10Ex{Op: "lit", T: t, Lit: v}
}

func c10IntList(vals ...int64) *c10Ex {
	e := &c10Ex{Op: "listof", T: c10TLInt}
	for _, v := range vals {
		e.Args = append(e.Args, c10Lit(c10Int(v)))
	}
	return e
}

func c10Dot(t *c10Ty) *c10Ex { return &c10Ex{Op: "var", T: t, Name: "."} }

// shadowName picks a visible non-"." name (a parameter or an earlier let).
func (g *c10Gen) shadowName(vars []c10Var) string {
	var names []string
	for _, v := range c10VarsOf(vars, func(*c10Ty) bool { return true }) {
		if v.Name != "." {
			names = append(names, v.Name)
		}
	}
	return names[g.intn(len(names), "shadowname")]
}

// Every purity-sensitive operator gets a template in which one let-bound collection is
// used by several later operators whose results all stay observable.
var c10Templates = []string{"list-concat", "cat-call", "list-set-concat", "set-union", "where-reuse", "flatten-reuse",
	"loop-concat", "tform-shadow", "tform-shadow-nested", "tform-dedup", "rec-reuse", "rec-map", "opt-attr", "union-empty-dup"}

func (b *c10Body) template(name string) {
	g := b.g
	g.templates = append(g.templates, name)
	baseList := func() c10Var {
		if g.intn(4, "usexs") == 0 {
			return c10Var{Name: "xs", T: c10TLInt}
		}
		n := 1 + g.intn(9, "tlen")
		vals := make([]int64, n)
		for i := range vals {
			vals[i] = int64(i)
		}
		return b.addExpr(c10IntList(vals...), true)
	}
	switch name {
	case "list-concat":
		base := baseList()
		k := 2 + g.intn(3, "treuse")
		for i := 0; i < k; i++ {
			b.addExpr(&c10Ex{Op: "bin", T: c10TLInt, Sym: "|", A: c10VarEx(base), B: g.collLit(c10TLInt)}, g.intn(4, "tlet") > 0)
		}
	case "cat-call":
		base := baseList()
		k := 2 + g.intn(2, "treuse")
		for i := 0; i < k; i++ {
			call := &c10Ex{Op: "call", T: c10TCat, Name: "cat", Args: []*c10Ex{c10VarEx(base), g.collLit(c10TLInt)}}
			b.addExpr(&c10Ex{Op: "attr", T: c10TLInt, Name: "o", A: call}, g.intn(4, "tlet") > 0)
		}
	case "list-set-concat":
		base := baseList()
		k := 2 + g.intn(2, "treuse")
		for i := 0; i < k; i++ {
			b.addExpr(&c10Ex{Op: "bin", T: c10TLInt, Sym: "|", A: c10VarEx(base), B: g.collLit(c10TSInt)}, g.intn(4, "tlet") > 0)
		}
	case "set-union":
		ty := []*c10Ty{c10TSInt, c10TSStr}[g.intn(2, "tsety")]
		base := b.addExpr(g.collLit(ty), true)
		k := 2 + g.intn(3, "treuse")
		for i := 0; i < k; i++ {
			b.addExpr(&c10Ex{Op: "bin", T: ty, Sym: "|", A: c10VarEx(base), B: g.expr(ty, 2, b.vars)}, g.intn(4, "tlet") > 0)
		}
		b.addExpr(&c10Ex{Op: "count", T: c10TInt, A: c10VarEx(base)}, false)
	case "where-reuse":
		var base c10Var
		switch g.intn(6, "twsrc") {
		case 4, 5:
			// a list of lists, filtered on the size of its elements
			lol := &c10Ex{Op: "listof", T: c10TList(c10TLInt)}
			for i, n := 0, 2+g.intn(3, "twlol"); i < n; i++ {
				lol.Args = append(lol.Args, g.collLit(c10TLInt))
			}
			base = b.addExpr(lol, true)
			b.addExpr(&c10Ex{Op: "flatten", T: c10TLInt, A: g.where(c10VarEx(base), 1, b.vars), B: c10Dot(c10TInt)}, g.coin("tlet"))
		case 0:
			base = b.addExpr(g.collLit(c10TSInt), true)
		case 1:
			base = b.addExpr(g.collLit(c10TLStr), true)
		case 2:
			base = b.addExpr(&c10Ex{Op: "call", T: c10TDbl, Name: "dbl", Args: []*c10Ex{c10VarEx(c10Var{Name: "xs", T: c10TLInt})}}, true)
		default:
			base = c10Var{Name: "ss", T: c10TSStr}
		}
		k := 2 + g.intn(2, "treuse")
		for i := 0; i < k; i++ {
			b.addExpr(g.where(c10VarEx(base), 2, b.vars), g.intn(4, "tlet") > 0)
		}
		b.addExpr(&c10Ex{Op: "count", T: c10TInt, A: c10VarEx(base)}, false)
	case "flatten-reuse":
		base := baseList()
		other := g.collLit(c10TLInt)
		outer := &c10Ex{Op: "listof", T: c10TList(c10TLInt), Args: []*c10Ex{c10VarEx(base), c10VarEx(base), other}}
		b.addExpr(&c10Ex{Op: "flatten", T: c10TLInt, A: outer, B: &c10Ex{Op: "bin", T: c10TInt, Sym: "+", A: c10Dot(c10TInt), B: g.litInt()}}, g.coin("tlet"))
		sv := g.shadowName(b.vars)
		outer2 := &c10Ex{Op: "listof", T: c10TList(c10TLInt), Args: []*c10Ex{g.collLit(c10TLInt), c10VarEx(base)}}
		b.addExpr(&c10Ex{Op: "flatten", T: c10TLInt, A: outer2, Name: sv, B: &c10Ex{Op: "bin", T: c10TInt, Sym: "*", A: &c10Ex{Op: "var", T: c10TInt, Name: sv}, B: g.litInt()}}, g.coin("tlet"))
	case "loop-concat":
		// the same left operand in every iteration of a nested transform
		base := baseList()
		sv := g.fresh("e")
		el := &c10Ex{Op: "var", T: c10TInt, Name: sv}
		body := []*c10Stmt{{Name: g.fresh("f"), T: c10TLInt, E: &c10Ex{Op: "bin", T: c10TLInt, Sym: "|", A: c10VarEx(base), B: &c10Ex{Op: "listof", T: c10TLInt, Args: []*c10Ex{el}}}}}
		tf := &c10Tform{Arg: g.collLit(c10TLInt), Ret: "l", Var: sv, Body: body}
		b.add(&c10Stmt{Tf: tf}, c10TList(&c10Ty{K: "m", F: []c10Field{{body[0].Name, c10TLInt}}}), g.coin("tlet"))
	case "tform-shadow":
		// a transform whose scope variable is named like an outer let / parameter
		outer := b.addExpr(g.expr(c10TInt, 2, b.vars), true)
		name := outer.Name
		if g.coin("tshadowparam") {
			name = "n"
		}
		if g.noShadow {
			g.excluded[c10FindShadow]++
			name = g.fresh("e")
		}
		el := &c10Ex{Op: "var", T: c10TInt, Name: name}
		body := []*c10Stmt{{Name: g.fresh("f"), T: c10TInt, E: &c10Ex{Op: "bin", T: c10TInt, Sym: "+", A: el, B: g.litInt()}}}
		tf := &c10Tform{Arg: g.expr(c10TLInt, 1, b.vars), Ret: []string{"l", "t"}[g.intn(2, "tret")], Var: name, Body: body}
		rec := &c10Ty{K: "m", F: []c10Field{{body[0].Name, c10TInt}}}
		rt := c10TList(rec)
		if tf.Ret == "t" {
			rt = c10TSet(rec)
		}
		b.add(&c10Stmt{Tf: tf}, rt, g.coin("tlet"))
		b.addExpr(&c10Ex{Op: "bin", T: c10TInt, Sym: "+", A: c10VarEx(outer), B: c10Lit(c10Int(0))}, false)
	case "tform-shadow-nested":
		// inner and outer transform use the same scope variable name; the outer body reads it afterwards
		name := g.fresh("e")
		innerName := name
		if g.noShadow {
			g.excluded[c10FindShadow]++
			innerName = g.fresh("e")
		}
		el := &c10Ex{Op: "var", T: c10TInt, Name: name}
		iel := &c10Ex{Op: "var", T: c10TInt, Name: innerName}
		ibody := []*c10Stmt{{Name: g.fresh("f"), T: c10TInt, E: &c10Ex{Op: "bin", T: c10TInt, Sym: "*", A: iel, B: g.litInt()}}}
		itf := &c10Tform{Arg: g.collLit(c10TLInt), Ret: "l", Var: innerName, Body: ibody}
		irec := c10TList(&c10Ty{K: "m", F: []c10Field{{ibody[0].Name, c10TInt}}})
		obody := []*c10Stmt{
			{Name: "now_" + name, T: c10TInt, E: el},
			{Name: g.fresh("f"), T: irec, Tf: itf},
			{Name: "chk_" + name, T: c10TInt, E: el},
		}
		otf := &c10Tform{Arg: g.expr(c10TLInt, 1, b.vars), Ret: "l", Var: name, Body: obody}
		orec := &c10Ty{K: "m", F: []c10Field{{obody[0].Name, c10TInt}, {obody[1].Name, irec}, {obody[2].Name, c10TInt}}}
		b.add(&c10Stmt{Tf: otf}, c10TList(orec), g.coin("tlet"))
	case "tform-dedup":
		// a set-typed transform whose body maps different elements to equal records
		a, c := g.litInt(), g.litInt()
		arg := &c10Ex{Op: "listof", T: c10TLInt, Args: []*c10Ex{a, a, c, g.litInt()}}
		sv := g.fresh("e")
		el := &c10Ex{Op: "var", T: c10TInt, Name: sv}
		body := []*c10Stmt{{Name: g.fresh("f"), T: c10TInt, E: &c10Ex{Op: "bin", T: c10TInt, Sym: "%", A: el, B: c10Lit(c10Int(int64(1 + g.intn(3, "tmod"))))}}}
		tf := &c10Tform{Arg: arg, Ret: "t", Var: sv, Body: body}
		v := b.add(&c10Stmt{Tf: tf}, c10TSet(&c10Ty{K: "m", F: []c10Field{{body[0].Name, c10TInt}}}), true)
		b.addExpr(&c10Ex{Op: "count", T: c10TInt, A: c10VarEx(v)}, false)
		pv := b.addExpr(&c10Ex{Op: "call", T: c10TPar, Name: "par", Args: []*c10Ex{c10VarEx(c10Var{Name: "xs", T: c10TLInt})}}, true)
		b.addExpr(&c10Ex{Op: "count", T: c10TInt, A: c10VarEx(pv)}, false)
	case "rec-reuse":
		// a let-bound list of records consumed by where, flatten, a transform and count
		rv := b.addExpr(&c10Ex{Op: "call", T: c10TDbl, Name: "dbl", Args: []*c10Ex{g.expr(c10TLInt, 1, b.vars)}}, true)
		b.addExpr(g.where(c10VarEx(rv), 2, b.vars), g.coin("tlet"))
		b.addExpr(&c10Ex{Op: "flatten", T: c10TLInt, A: c10VarEx(rv), B: &c10Ex{Op: "attr", T: c10TInt, A: c10Dot(rv.T.El), Name: "o"}}, g.coin("tlet"))
		b.addExpr(&c10Ex{Op: "bin", T: c10TDbl, Sym: "|", A: c10VarEx(rv), B: c10VarEx(rv)}, g.coin("tlet"))
		b.addExpr(&c10Ex{Op: "count", T: c10TInt, A: c10VarEx(rv)}, false)
	case "rec-map":
		// a let-bound record: attribute access, key membership, count, iteration of its entries
		// into a sequence and into a set
		var body []*c10Stmt
		rec := &c10Ty{K: "m"}
		for i, n := 0, 2+g.intn(2, "trfields"); i < n; i++ {
			st := &c10Stmt{Name: g.fresh("f"), T: c10TInt, E: g.expr(c10TInt, 2, b.vars)}
			body = append(body, st)
			rec.F = append(rec.F, c10Field{st.Name, c10TInt})
		}
		arg := &c10Ex{Op: "bin", T: c10TInt, Sym: "+", A: c10VarEx(c10Var{Name: "n", T: c10TInt}), B: g.litInt()}
		rv := b.add(&c10Stmt{Tf: &c10Tform{Arg: arg, Body: body}}, rec, true)
		kvT := &c10Ty{K: "m", F: []c10Field{{"key", c10TStr}, {"value", c10TInt}}}
		for _, ret := range []string{"l", "t"} {
			sv := g.fresh("e")
			kv := &c10Ex{Op: "var", T: kvT, Name: sv}
			ib := []*c10Stmt{
				{Name: "fk", T: c10TStr, E: &c10Ex{Op: "attr", T: c10TStr, A: kv, Name: "key"}},
				{Name: g.fresh("f"), T: c10TInt, E: &c10Ex{Op: "bin", T: c10TInt, Sym: "+", A: &c10Ex{Op: "attr", T: c10TInt, A: kv, Name: "value"}, B: g.expr(c10TInt, 1, b.vars)}},
			}
			it := &c10Ty{K: "m", F: []c10Field{{"fk", c10TStr}, {ib[1].Name, c10TInt}}}
			rt := c10TList(it)
			if ret == "t" {
				rt = c10TSet(it)
			}
			b.add(&c10Stmt{Tf: &c10Tform{Arg: c10VarEx(rv), Ret: ret, Var: sv, Body: ib}}, rt, g.coin("tlet"))
		}
		b.addExpr(&c10Ex{Op: "count", T: c10TInt, A: c10VarEx(rv)}, false)
		key := c10Lit(c10Str(rec.F[g.intn(len(rec.F), "trkey")].Name))
		b.addExpr(&c10Ex{Op: "bin", T: c10TBool, Sym: []string{"in", "!in"}[g.intn(2, "trin")], A: key, B: c10VarEx(rv)}, false)
		b.addExpr(&c10Ex{Op: "bin", T: c10TBool, Sym: []string{"in", "!in"}[g.intn(2, "trin2")], A: g.expr(c10TStr, 1, b.vars), B: c10VarEx(rv)}, false)
		b.addExpr(&c10Ex{Op: "bin", T: c10TInt, Sym: "+", A: &c10Ex{Op: "attr", T: c10TInt, A: c10VarEx(rv), Name: rec.F[0].Name}, B: &c10Ex{Op: "attr", T: c10TInt, A: c10VarEx(rv), Name: rec.F[1].Name}}, false)
	case "union-empty-dup":
		// "set union without duplicates" at its edges: an operand that is empty at run time (a where that
		// keeps nothing) and an operand whose literal repeats items, on either side
		ty := []*c10Ty{c10TSInt, c10TSStr}[g.intn(2, "tudty")]
		items := g.distinctLits(ty.El, 2+g.intn(2, "tudn"))
		dup := &c10Ex{Op: "setof", T: ty, Name: "dup", Args: append(append([]*c10Ex{}, items...), c10CloneEx(items[g.intn(len(items), "tuddup")]))}
		var never *c10Ex
		if ty.El.K == "i" {
			never = &c10Ex{Op: "bin", T: c10TBool, Sym: ">", A: c10Dot(c10TInt), B: c10Lit(c10Int(1000))}
		} else {
			never = &c10Ex{Op: "bin", T: c10TBool, Sym: "==", A: c10Dot(c10TStr), B: c10Lit(c10Str("zz"))}
		}
		empty := b.addExpr(&c10Ex{Op: "where", T: ty, A: g.collLit(ty), B: never}, true)
		b.addExpr(&c10Ex{Op: "count", T: c10TInt, A: c10VarEx(empty)}, false)
		u1 := b.addExpr(&c10Ex{Op: "bin", T: ty, Sym: "|", A: c10VarEx(empty), B: dup}, true)
		u2 := b.addExpr(&c10Ex{Op: "bin", T: ty, Sym: "|", A: c10CloneEx(dup), B: c10VarEx(empty)}, true)
		b.addExpr(&c10Ex{Op: "count", T: c10TInt, A: c10VarEx(u1)}, false)
		b.addExpr(&c10Ex{Op: "count", T: c10TInt, A: c10VarEx(u2)}, false)
		b.addExpr(&c10Ex{Op: "bin", T: ty, Sym: "|", A: c10VarEx(empty), B: c10VarEx(empty)}, false)
		b.addExpr(&c10Ex{Op: "bin", T: ty, Sym: "|", A: c10VarEx(empty), B: g.expr(ty, 2, b.vars)}, g.coin("tlet"))
		b.addExpr(&c10Ex{Op: "bin", T: ty, Sym: "|", A: c10CloneEx(dup), B: g.expr(ty, 2, b.vars)}, g.coin("tlet"))
	case "opt-attr":
		// records whose attribute is null for some elements and a value for the others, consumed element by
		// element: the same comparison sees a null and a non-null operand in one evaluation
		base := baseList()
		sv := g.fresh("e")
		el := &c10Ex{Op: "var", T: c10TInt, Name: sv}
		k := 2 + g.intn(2, "toptmod")
		cond := &c10Ex{Op: "bin", T: c10TBool, Sym: "==", A: &c10Ex{Op: "bin", T: c10TInt, Sym: "%", A: el, B: c10Lit(c10Int(int64(k)))}, B: c10Lit(c10Int(int64(g.intn(k, "toptrem"))))}
		ot, val := c10TOInt, &c10Ex{Op: "bin", T: c10TInt, Sym: "+", A: c10CloneEx(el), B: g.litInt()}
		if g.coin("toptstr") {
			ot, val = c10TOStr, g.litStr()
		}
		null := func() *c10Ex { return &c10Ex{Op: "lit", T: ot, Lit: &c10Val{K: "null"}} }
		opt := &c10Ex{Op: "if", T: ot, A: cond, B: null(), C: val}
		if g.coin("toptswap") {
			opt.B, opt.C = opt.C, opt.B
		}
		fo, fi := g.fresh("f"), g.fresh("f")
		recT := &c10Ty{K: "m", F: []c10Field{{fo, ot}, {fi, c10TInt}}}
		mk := &c10Tform{Arg: c10VarEx(base), Ret: "l", Var: sv, Body: []*c10Stmt{{Name: fo, T: ot, E: opt}, {Name: fi, T: c10TInt, E: c10CloneEx(el)}}}
		recs := b.add(&c10Stmt{Tf: mk}, c10TList(recT), true)
		rv := g.fresh("e")
		attr := func() *c10Ex {
			return &c10Ex{Op: "attr", T: ot, A: &c10Ex{Op: "var", T: recT, Name: rv}, Name: fo}
		}
		test := func(x *c10Ex) *c10Ex {
			sym := []string{"==", "==", "!="}[g.intn(3, "toptcmp")]
			if g.intn(4, "toptleft") == 0 {
				return &c10Ex{Op: "bin", T: c10TBool, Sym: sym, A: null(), B: x}
			}
			return &c10Ex{Op: "bin", T: c10TBool, Sym: sym, A: x, B: null()}
		}
		def := g.litInt()
		if ot.El.K == "s" {
			def = g.litStr()
		}
		fz, fd := g.fresh("f"), g.fresh("f")
		use := &c10Tform{Arg: c10VarEx(recs), Ret: "l", Var: rv, Body: []*c10Stmt{
			{Name: fz, T: c10TBool, E: test(attr())},
			{Name: fd, T: ot.El, E: &c10Ex{Op: "if", T: ot.El, A: &c10Ex{Op: "bin", T: c10TBool, Sym: "==", A: attr(), B: null()}, B: def, C: attr()}},
		}}
		b.add(&c10Stmt{Tf: use}, c10TList(&c10Ty{K: "m", F: []c10Field{{fz, c10TBool}, {fd, ot.El}}}), g.coin("tlet"))
		dotAttr := &c10Ex{Op: "attr", T: ot, A: c10Dot(recT), Name: fo}
		b.addExpr(&c10Ex{Op: "where", T: recs.T, A: c10VarEx(recs), B: test(dotAttr)}, g.coin("tlet"))
		b.addExpr(&c10Ex{Op: "count", T: c10TInt, A: c10VarEx(recs)}, false)
	default:
		panic("c10: unknown template " + name)
	}
}

// ---------- AST walks ----------

// c10WalkStmts calls f for every expression node with the operator of its parent
// ("" at the root of a statement, "tform-arg" for a transform argument).
func c10WalkStmts(stmts []*c10Stmt, f func(e *c10Ex, parent string)) {
	var walk func(e *c10Ex, parent string)
	walk = func(e *c10Ex, parent string) {
		if e == nil {
			return
		}
		f(e, parent)
		me := e.Op
		if e.Op == "bin" {
			me = e.Sym
		}
		if e.Op == "call" {
			me = "call:" + e.Name
		}
		walk(e.A, me)
		walk(e.B, me)
		walk(e.C, me)
		for _, a := range e.Args {
			walk(a, me)
		}
	}
	for _, st := range stmts {
		switch {
		case st.E != nil:
			walk(st.E, "")
		case st.IfB != nil:
			walk(st.IfB.Var, "ifblock")
			for _, c := range st.IfB.Cases {
				for _, x := range c.Ctl {
					walk(x, "ifblock")
				}
				walk(c.Then, "ifblock")
			}
			walk(st.IfB.Else, "ifblock")
		case st.Tf != nil:
			walk(st.Tf.Arg, "tform-arg")
			c10WalkStmts(st.Tf.Body, f)
		}
	}
}

// c10IsNonTrivial: a let-bound collection is used by >=2 later operators of which >=1 builds
// a new collection (| where flatten, a transform over it, a helper call, a constructor).
func c10IsNonTrivial(body []*c10Stmt) bool {
	lets := map[string]bool{}
	var collect func(stmts []*c10Stmt)
	collect = func(stmts []*c10Stmt) {
		for _, st := range stmts {
			if st.Let && st.T != nil && st.T.isColl() {
				lets[st.Name] = true
			}
			if st.Tf != nil {
				collect(st.Tf.Body)
			}
		}
	}
	collect(body)
	uses := map[string][]string{}
	c10WalkStmts(body, func(e *c10Ex, parent string) {
		if e.Op == "var" && lets[e.Name] && parent != "" {
			uses[e.Name] = append(uses[e.Name], parent)
		}
	})
	for _, us := range uses {
		if len(us) < 2 {
			continue
		}
		for _, u := range us {
			switch {
			case u == "|", u == "where", u == "flatten", u == "tform-arg", u == "listof", u == "setof", strings.HasPrefix(u, "call:"):
				return true
			}
		}
	}
	return false
}

func c10CopyOf(x *c10Ex) *c10Ex {
	// `[x] flatten(.)` — a fresh list holding the elements of x
	return &c10Ex{Op: "flatten", T: x.T, A: &c10Ex{Op: "listof", T: c10TList(x.T), Args: []*c10Ex{x}}, B: c10Dot(x.T.El)}
}

// ---------- generator ----------

func c10Args(t *rapid.T) map[string]*c10Val {
	args := map[string]*c10Val{
		"n": c10Int(int64(rapid.IntRange(-3, 9).Draw(t, "argn"))),
		"s": c10Str(pick(t, []string{"a", "b", "c", "", "zz"}, "args")),
		"b": c10Bool(rapid.Bool().Draw(t, "argb")),
	}
	xs := c10List()
	xs.E = []*c10Val{}
	for i, n := 0, rapid.IntRange(1, 6).Draw(t, "xslen"); i < n; i++ {
		xs.E = append(xs.E, c10Int(int64(rapid.IntRange(0, 6).Draw(t, "xsel"))))
	}
	args["xs"] = xs
	ss := c10Set()
	ss.E = []*c10Val{}
	pool := []string{"a", "b", "c", "d"}
	off := rapid.IntRange(0, 3).Draw(t, "ssoff")
	for i, n := 0, rapid.IntRange(1, 3).Draw(t, "sslen"); i < n; i++ {
		ss.E = append(ss.E, c10Str(pool[(off+i)%4]))
	}
	args["ss"] = ss
	return args
}

var c10Params = []c10Var{{"n", c10TInt}, {"s", c10TStr}, {"b", c10TBool}, {"xs", c10TLInt}, {"ss", c10TSStr}}

func genC10(t *rapid.T) c10Case {
	args := c10Args(t)
	g := &c10Gen{t: t, maxDepth: scale(4, 5), noShadow: knownActive(c10FindShadow), excluded: map[string]int{}}
	g.probe = (&c10Env{}).child()
	for _, p := range c10Params {
		g.probe.bind(p.Name, args[p.Name])
	}
	g.probe.bind(".", args["n"])
	vars := append(append([]c10Var{}, c10Params...), c10Var{Name: ".", T: c10TInt})
	b := &c10Body{g: g, nest: 0, vars: vars, outPrefix: "o", letPrefix: "v"}
	// 0..2 purity templates interleaved with random statements
	nt := rapid.IntRange(0, 2).Draw(t, "ntemplates")
	b.random(rapid.IntRange(0, 2).Draw(t, "npre"), g.maxDepth)
	for i := 0; i < nt; i++ {
		b.template(pick(t, c10Templates, "template"))
		b.random(rapid.IntRange(0, 2).Draw(t, "nmid"), g.maxDepth)
	}
	if len(b.out) == 0 {
		b.random(1+rapid.IntRange(0, 3).Draw(t, "nonly"), g.maxDepth)
	}
	body := b.finish()
	for _, p := range c10Params {
		body = append(body, &c10Stmt{Name: "chk_" + p.Name, T: p.T, E: c10VarEx(p)})
	}
	body = append(body, &c10Stmt{Name: "chk_dot", T: c10TInt, E: c10Dot(c10TInt)})
	return c10Finish(g, body, args)
}

// c10Finish runs the reference interpreter over the finished body, removes (and counts) the
// shapes of listed findings, and assembles the case.
func c10Finish(g *c10Gen, body []*c10Stmt, args map[string]*c10Val) c10Case {
	var in *c10Interp
	var want *c10Val
	for round := 0; ; round++ {
		in = c10NewInterp(true)
		want = in.runView(body, args)
		if in.err != "" {
			panic("C10 generator left the domain: " + in.err + "\n" + c10RenderView(body))
		}
		if !knownActive(c10FindConcat) || len(in.hazNodes) == 0 {
			break
		}
		if round > 8 {
			panic("C10: cannot remove the shared concatenation operand\n" + c10RenderView(body))
		}
		// listed finding: give every repeated use its own copy of the left operand
		for site := range in.hazNodes {
			if site.Op == "call" {
				site.Args[0] = c10CopyOf(site.Args[0])
			} else {
				site.A = c10CopyOf(site.A)
			}
			g.excluded[c10FindConcat]++
		}
	}
	for id, n := range g.excluded {
		for i := 0; i < n; i++ {
			R("C10").Exclude(id)
		}
	}
	c := c10Case{Text: c10RenderView(body), Args: args, Want: want, NonTrivial: c10IsNonTrivial(body)}
	for h := range in.hazards {
		c.Hazards = append(c.Hazards, h)
	}
	sort.Strings(c.Hazards)
	for cl := range in.classes {
		if !c10InDomain(cl) {
			panic("C10 generator produced an operator/kind combination outside the documented domain: " + cl + "\n" + c.Text)
		}
		c.Classes = append(c.Classes, cl)
	}
	for _, tp := range g.templates {
		c.Classes = append(c.Classes, "template:"+tp)
	}
	sort.Strings(c.Classes)
	return c
}

// ---------- check ----------

// c10Diffs walks expected and observed results and reports every differing leaf with its
// path (records key by key, ungrouped lists of equal length element by element).
func c10Diffs(path string, want, got *c10Val, report func(path, msg string)) {
	if want != nil && got != nil && want.K == got.K {
		switch want.K {
		case "m":
			keys := map[string]bool{}
			for k := range want.M {
				keys[k] = true
			}
			for k := range got.M {
				keys[k] = true
			}
			ks := make([]string, 0, len(keys))
			for k := range keys {
				ks = append(ks, k)
			}
			sort.Strings(ks)
			for _, k := range ks {
				w, wok := want.M[k]
				gv, gok := got.M[k]
				switch {
				case !wok:
					report(path+"."+k, fmt.Sprintf("unexpected key (value %s)", gv))
				case !gok:
					report(path+"."+k, fmt.Sprintf("missing (want %s)", w))
				default:
					c10Diffs(path+"."+k, w, gv, report)
				}
			}
			return
		case "l":
			if len(want.G) == 0 && len(want.E) == len(got.E) {
				for i := range want.E {
					c10Diffs(fmt.Sprintf("%s[%d]", path, i), want.E[i], got.E[i], report)
				}
				return
			}
		}
	}
	if d := c10Cmp(path, want, got); d != "" {
		report(path, d)
	}
}

func checkC10(x *X, c c10Case) error {
	for _, cl := range c.Classes {
		x.Class(cl)
	}
	for _, h := range c.Hazards {
		x.Class("hazard:" + h)
	}
	if c.NonTrivial {
		x.Class("nontrivial")
		x.NonTrivial(c.Text + "\x00" + c.Args["n"].String() + c.Args["s"].String() + c.Args["xs"].String() + c.Args["ss"].String() + c.Args["b"].String())
	}
	x.Sample(c.Text)
	arg := c10EvalArg{Text: c.Text, App: "App", View: "main", Args: c.Args, Runs: 2}
	var res c10EvalRes
	death, err, inconclusive := sandboxCall("c10.eval", arg, &res)
	if inconclusive {
		x.Inconclusive("C10: evaluation overran its time bound once")
		return nil
	}
	if death != nil {
		if death.Kind == "timeout" {
			return deathErr(death, "view evaluation\n---- text\n"+c.Text)
		}
		return finding(death.Sig(), "evaluation of a view over supported operators ended the process (%s: %s)\n---- args %v\n---- text\n%s",
			death.Kind, lastN(death.Text, 900), c10ArgString(c.Args), c.Text)
	}
	if err != nil {
		return fmt.Errorf("worker: %v", err)
	}
	if res.ParseErr != "" {
		return fmt.Errorf("generated view does not compile: %s\n---- text\n%s", res.ParseErr, c.Text)
	}
	var diffs []string
	changed := map[string]bool{} // parent path + name of bindings whose chk_ export differs
	now := map[string]bool{}
	c10Diffs("result", c.Want, res.Res, func(path, msg string) {
		diffs = append(diffs, msg)
		i := strings.LastIndex(path, ".")
		if i < 0 {
			return
		}
		key := path[i+1:]
		if j := strings.IndexAny(key, "["); j >= 0 {
			key = key[:j]
		}
		switch {
		case strings.HasPrefix(key, "chk_"):
			changed[path[:i]+"."+key[4:]] = true
		case strings.HasPrefix(key, "now_"):
			now[path[:i]+"."+key[4:]] = true
		}
	})
	bindingChanged := len(res.ArgDiff) > 0
	for k := range changed {
		// certain when the export taken right after the binding still agrees; when both exports
		// differ alike the binding's storage was overwritten in place, which only the recorded
		// shapes (c.Hazards) are known to do
		if !now[k] || len(c.Hazards) > 0 {
			bindingChanged = true
		}
	}
	diffs = append(diffs, res.ArgDiff...)
	if res.Again != "" {
		diffs = append(diffs, res.Again)
	}
	if len(diffs) == 0 {
		if thorough() && hash64(c.Text)%16 == 0 {
			return c10FreshWorker(x, c, arg, res.Res)
		}
		return nil
	}
	if len(diffs) > 12 {
		diffs = append(diffs[:12], fmt.Sprintf("… %d more", len(diffs)-12))
	}
	msg := fmt.Sprintf("view result differs from the reference semantics:\n  %s\n---- args %s\n---- text\n%s", strings.Join(diffs, "\n  "), c10ArgString(c.Args), c.Text)
	if bindingChanged {
		tag := "unexplained"
		if len(c.Hazards) > 0 {
			tag = strings.Join(c.Hazards, "+")
		}
		return finding("binding-changed:"+tag, "a value bound earlier changed during the evaluation; %s", msg)
	}
	return fmt.Errorf("%s", msg)
}

// c10FreshWorker repeats the evaluation in a newly started worker process: equal inputs must
// give equal results across processes too (different map seeds, address space).
func c10FreshWorker(x *X, c c10Case, arg c10EvalArg, first *c10Val) error {
	shutdownSandbox()
	x.Class("fresh-worker-repeat")
	var res c10EvalRes
	arg.Runs = 1
	death, err, inconclusive := sandboxCall("c10.eval", arg, &res)
	if inconclusive || err != nil {
		x.Inconclusive("C10: fresh-worker repetition did not complete")
		return nil
	}
	if death != nil {
		return finding(death.Sig(), "evaluation ended a fresh worker although it succeeded before (%s)\n---- text\n%s", death.Kind, c.Text)
	}
	if d := c10Cmp("result", first, res.Res); d != "" {
		return fmt.Errorf("equal inputs gave different results in two processes: %s\n---- args %s\n---- text\n%s", d, c10ArgString(c.Args), c.Text)
	}
	return nil
}

func c10ArgString(args map[string]*c10Val) string {
	ks := make([]string, 0, len(args))
	for k := range args {
		ks = append(ks, k)
	}
	sort.Strings(ks)
	ps := make([]string, len(ks))
	for i, k := range ks {
		ps[i] = k + "=" + args[k].String()
	}
	return strings.Join(ps, " ")
}

var c10Views = Define("C10", "views",
	"Typed generator of view bodies over the explicit table of supported (operator, left kind, right kind) triples (c10Triples; a body outside the table is a generator defect): int arithmetic/comparison, string + == !=, && and bool == !=, unary minus, if/else and the `if x ==:` block, | on set|set, list|list, list|set, in/!in against list/set/record, count, single (on singletons by construction), where (named, implicit and shadowing scope variables), flatten, attribute access, calls to four helper views, nested transforms over lists, sets and records with sequence/set/record results up to three levels, let bindings; random depth <=4 (quick) / 5 (thorough); 0-2 reuse templates per body (one let-bound collection consumed by several concatenations / unions / where / flatten / helper calls / transforms; transforms whose scope variable shadows an outer name; set-typed transforms that must de-duplicate; record iteration). Arguments n, s, b, xs, ss drawn. Kept out of the domain because the language leaves them open: divisor 0, single on !=1 elements, set constructors with equal items, flatten into a set unless inner collections are disjoint and the body injective, a bare `.` as transform argument, an inner let reusing an outer name, and set-typed transforms/unions whose records could be equal up to the internal order of a set they hold (such records carry their element). Oracle: independent reference interpreter (immutable values, lexical scoping; lists in order except segments whose order derives from iterating a set or record, which compare as multisets; sets as multisets so that a duplicate shows); every let and (one time in three) scope variable re-exported right after binding (now_x) and at the end of its body (chk_x), every parameter and `.` re-exported at the end, argument values deep-compared before/after; each case evaluated twice on one compiled module, thorough: every 16th also in a fresh worker. Non-trivial: a let-bound collection is used by >=2 later operators of which >=1 builds a new collection; distinct by text+arguments.",
	genC10, checkC10)

var c10Depth2 = Define("C10", "depth2",
	"Bounded-exhaustive: every well-typed expression of operator depth 1 and 2 (c10_enum.go: arithmetic, comparisons, string +/==/!=, &&, bool ==/!=, unary minus, in/!in, count, single where the operand is a singleton, | on list|list, set|set, list|set, where, flatten of two-element lists of lists/sets, calls to inc and cat, if/else with the restriction that at depth 2 either the condition or the branches come from the pool) over a pool of 16 let-bound values (3 ints, 3 strings, 2 bools, 2 lists and 2 sets of ints, 2 lists and 2 sets of strings); divisions by a zero-valued operand are outside the domain and skipped. One case = one view holding the pool as lets, 60 expressions as outputs and the pool re-exported at the end, so every let is consumed by many operators. thorough: all batches, split over the shards by index; quick: every 40th batch.",
	func(t *rapid.T) c10Case { panic("C10/depth2 is enumerated, not drawn") }, checkC10)

const c10BatchSize = 60

func c10RunEnumeration(t *testing.T) {
	pool, exprs := c10Enumerate()
	args := map[string]*c10Val{"n": c10Int(3), "s": c10Str("a"), "b": c10Bool(true),
		"xs": c10List(c10Int(1), c10Int(2), c10Int(3)), "ss": c10Set(c10Str("a"), c10Str("b"))}
	nb := (len(exprs) + c10BatchSize - 1) / c10BatchSize
	r := R("C10")
	r.Note("depth2-space", fmt.Sprintf("%d expressions in %d batches of %d", len(exprs), nb, c10BatchSize))
	failed, mine := 0, 0
	for i := 0; i < nb && failed < 3; i++ {
		if thorough() {
			if i%cfg.NShards != cfg.Shard {
				continue
			}
		} else if i%40 != 0 || (i/40)%cfg.NShards != cfg.Shard {
			continue
		}
		lo, hi := i*c10BatchSize, min((i+1)*c10BatchSize, len(exprs))
		mine += hi - lo
		if !c10Depth2.One(t, c10EnumBatch(pool, exprs[lo:hi], args)) {
			failed++
		}
	}
	r.ClassN("enumerated-expressions", int64(mine))
	if thorough() && failed == 0 {
		r.mu.Lock()
		r.Exhaustive["expressions of depth<=2 over the literal pool"] = true
		r.mu.Unlock()
	}
}

func TestC10(t *testing.T) {
	checkKnown(t, "C10")
	c10RunEnumeration(t)
	if t.Failed() {
		return // rapid refuses a *testing.T that has already failed; the violations are recorded
	}
	c10Views.Run(t, scale(300, 1200))
}
