package checks

// c12_doc.go — helpers over decoded JSON/YAML documents (map[string]interface{} trees), the
// library validation wrappers and an own structural validator used where the library cannot
// follow reference cycles.

import (
	"bytes"
	"context"
	"encoding/json"
	"fmt"
	"reflect"
	"regexp"
	"sort"
	"strings"

	"github.com/getkin/kin-openapi/openapi2"
	"github.com/getkin/kin-openapi/openapi2conv"
	"github.com/getkin/kin-openapi/openapi3"
	yaml3 "gopkg.in/yaml.v3"
)

type c12Obj = map[string]interface{}

func c12Map(v interface{}) c12Obj {
	m, _ := v.(map[string]interface{})
	return m
}

func c12Slice(v interface{}) []interface{} {
	s, _ := v.([]interface{})
	return s
}

func c12Str(v interface{}) string {
	s, _ := v.(string)
	return s
}

func c12Get(v interface{}, path ...string) interface{} {
	for _, k := range path {
		m := c12Map(v)
		if m == nil {
			return nil
		}
		v = m[k]
	}
	return v
}

func c12Keys(m c12Obj) []string {
	ks := make([]string, 0, len(m))
	for k := range m {
		ks = append(ks, k)
	}
	sort.Strings(ks)
	return ks
}

func c12StrSet(v interface{}) []string {
	var out []string
	for _, e := range c12Slice(v) {
		out = append(out, fmt.Sprint(e))
	}
	sort.Strings(out)
	return out
}

func c12SameSet(a, b []string) bool {
	a = append([]string{}, a...)
	b = append([]string{}, b...)
	sort.Strings(a)
	sort.Strings(b)
	return reflect.DeepEqual(a, b) || (len(a) == 0 && len(b) == 0)
}

func c12DecodeJSON(b []byte) (c12Obj, error) {
	dec := json.NewDecoder(bytes.NewReader(b))
	var v interface{}
	if err := dec.Decode(&v); err != nil {
		return nil, err
	}
	if dec.More() {
		return nil, fmt.Errorf("trailing data after the JSON document")
	}
	m := c12Map(v)
	if m == nil {
		return nil, fmt.Errorf("top level is not an object")
	}
	return m, nil
}

// c12DecodeYAML decodes with gopkg.in/yaml.v3 (not the library the exporter serialises with) and
// converts to the shape encoding/json produces.
func c12DecodeYAML(b []byte) (c12Obj, error) {
	var v interface{}
	if err := yaml3.Unmarshal(b, &v); err != nil {
		return nil, err
	}
	n, err := c12YAMLToJSONShape(v)
	if err != nil {
		return nil, err
	}
	m := c12Map(n)
	if m == nil {
		return nil, fmt.Errorf("top level is not a mapping")
	}
	return m, nil
}

func c12YAMLToJSONShape(v interface{}) (interface{}, error) {
	switch x := v.(type) {
	case map[string]interface{}:
		out := c12Obj{}
		for k, e := range x {
			n, err := c12YAMLToJSONShape(e)
			if err != nil {
				return nil, err
			}
			out[k] = n
		}
		return out, nil
	case map[interface{}]interface{}:
		out := c12Obj{}
		for k, e := range x {
			n, err := c12YAMLToJSONShape(e)
			if err != nil {
				return nil, err
			}
			out[fmt.Sprint(k)] = n
		}
		return out, nil
	case []interface{}:
		out := make([]interface{}, len(x))
		for i, e := range x {
			n, err := c12YAMLToJSONShape(e)
			if err != nil {
				return nil, err
			}
			out[i] = n
		}
		return out, nil
	case int:
		return float64(x), nil
	case int64:
		return float64(x), nil
	case uint64:
		return float64(x), nil
	case float64, bool, string, nil:
		return x, nil
	default:
		return nil, fmt.Errorf("YAML value of unexpected type %T", v)
	}
}

// c12Canonical renders a decoded document with every array sorted by the JSON text of its
// elements: export order follows Go map iteration (C19's subject), and a failure message must
// be the same for the same case or rapid cannot shrink it.
func c12Canonical(v interface{}) string {
	var canon func(x interface{}) interface{}
	canon = func(x interface{}) interface{} {
		switch n := x.(type) {
		case map[string]interface{}:
			out := c12Obj{}
			for k, e := range n {
				out[k] = canon(e)
			}
			return out
		case []interface{}:
			out := make([]interface{}, len(n))
			keys := make([]string, len(n))
			for i, e := range n {
				out[i] = canon(e)
				b, _ := json.Marshal(out[i])
				keys[i] = string(b)
			}
			sort.Sort(&c12ByKey{keys, out})
			return out
		}
		return x
	}
	b, _ := json.MarshalIndent(canon(v), "", " ")
	return string(b)
}

type c12ByKey struct {
	keys []string
	vals []interface{}
}

func (s *c12ByKey) Len() int           { return len(s.keys) }
func (s *c12ByKey) Less(i, j int) bool { return s.keys[i] < s.keys[j] }
func (s *c12ByKey) Swap(i, j int) {
	s.keys[i], s.keys[j] = s.keys[j], s.keys[i]
	s.vals[i], s.vals[j] = s.vals[j], s.vals[i]
}

func c12DeepCopy(m c12Obj) c12Obj {
	b, _ := json.Marshal(m)
	var out c12Obj
	_ = json.Unmarshal(b, &out)
	return out
}

// c12NormaliseEmptyRequired replaces empty strings in the three REQUIRED string fields that the
// OpenAPI JSON schema types as plain "string" (so "" is schema-legal, and an empty server URL is a
// legal relative reference) but kin-openapi rejects as "must be a non-empty string". Returns the
// names of the fields touched. Only the copy handed to the library is changed.
func c12NormaliseEmptyRequired(doc c12Obj) []string {
	var touched []string
	if info := c12Map(doc["info"]); info != nil {
		if s, ok := info["title"].(string); ok && s == "" {
			info["title"] = "untitled"
			touched = append(touched, "info.title")
		}
		if s, ok := info["version"].(string); ok && s == "" {
			info["version"] = "0"
			touched = append(touched, "info.version")
		}
	}
	for _, s := range c12Slice(doc["servers"]) {
		if sm := c12Map(s); sm != nil {
			if u, ok := sm["url"].(string); ok && u == "" {
				sm["url"] = "/"
				touched = append(touched, "servers.url")
			}
		}
	}
	return touched
}

// c12LibValidate3 loads and validates an OpenAPI 3 document with kin-openapi. cycleSkip is set
// when the library gives up on a reference cycle (its own limitation, reported as such).
func c12LibValidate3(doc c12Obj) (err error, cycleSkip bool) {
	b, _ := json.Marshal(doc)
	loader := openapi3.NewLoader()
	d, lerr := loader.LoadFromData(b)
	if lerr != nil {
		if strings.Contains(lerr.Error(), openapi3.CircularReferenceError) {
			return nil, true
		}
		return fmt.Errorf("library loader rejects the document: %v", lerr), false
	}
	if verr := d.Validate(context.Background()); verr != nil {
		if strings.Contains(verr.Error(), openapi3.CircularReferenceError) {
			return nil, true
		}
		return fmt.Errorf("library validator rejects the document: %v", verr), false
	}
	return nil, false
}

// c12LibValidate2 decodes a Swagger 2 document with kin-openapi's openapi2 model, converts it to
// OpenAPI 3 and validates the result.
func c12LibValidate2(doc c12Obj) (err error, cycleSkip bool) {
	b, _ := json.Marshal(doc)
	var v2 openapi2.T
	if e := json.Unmarshal(b, &v2); e != nil {
		return fmt.Errorf("library cannot decode the Swagger document: %v", e), false
	}
	v3, e := openapi2conv.ToV3(&v2)
	if e != nil {
		if strings.Contains(e.Error(), openapi3.CircularReferenceError) {
			return nil, true
		}
		return fmt.Errorf("library cannot resolve the Swagger document: %v", e), false
	}
	if v3.Paths == nil { // the conversion drops an empty (legal) paths object
		v3.Paths = openapi3.NewPaths()
	}
	if e := v3.Validate(context.Background()); e != nil {
		if strings.Contains(e.Error(), openapi3.CircularReferenceError) {
			return nil, true
		}
		return fmt.Errorf("library validator rejects the Swagger document: %v", e), false
	}
	return nil, false
}

var c12TplVar = regexp.MustCompile(`\{([^{}/]+)\}`)

var c12HTTPMethods = map[string]bool{"get": true, "put": true, "post": true, "delete": true, "patch": true, "options": true, "head": true, "trace": true}

// c12Structural checks the MUSTs of the OpenAPI/Swagger specification that the completeness
// oracle relies on, over the decoded tree, resolving "$ref" itself (cycles are no obstacle).
// v is 2 or 3. pathRequiredWaived: do not demand required:true on path parameters.
func c12Structural(doc c12Obj, v int, pathRequiredWaived bool) error {
	if v == 3 {
		if !strings.HasPrefix(c12Str(doc["openapi"]), "3.") {
			return fmt.Errorf("openapi version field is %q", doc["openapi"])
		}
	} else if c12Str(doc["swagger"]) != "2.0" {
		return fmt.Errorf("swagger version field is %q", doc["swagger"])
	}
	info := c12Map(doc["info"])
	if info == nil {
		return fmt.Errorf("no info object")
	}
	if _, ok := info["title"].(string); !ok {
		return fmt.Errorf("info.title missing")
	}
	if _, ok := info["version"].(string); !ok {
		return fmt.Errorf("info.version missing")
	}
	// every $ref resolves inside the document
	var refErr error
	var walk func(x interface{}, at string)
	walk = func(x interface{}, at string) {
		switch n := x.(type) {
		case map[string]interface{}:
			if r, ok := n["$ref"]; ok {
				rs, isStr := r.(string)
				if !isStr || !strings.HasPrefix(rs, "#/") {
					if refErr == nil {
						refErr = fmt.Errorf("%s: $ref %v is not a local reference", at, r)
					}
				} else if c12Get(doc, strings.Split(strings.ReplaceAll(strings.ReplaceAll(rs[2:], "~1", "/"), "~0", "~"), "/")...) == nil {
					if refErr == nil {
						refErr = fmt.Errorf("%s: $ref %q does not resolve", at, rs)
					}
				}
			}
			for _, k := range c12Keys(n) {
				walk(n[k], at+"/"+k)
			}
		case []interface{}:
			for i, e := range n {
				walk(e, fmt.Sprintf("%s/%d", at, i))
			}
		}
	}
	walk(doc, "#")
	if refErr != nil {
		return refErr
	}
	paths := c12Map(doc["paths"])
	if paths == nil {
		return fmt.Errorf("no paths object")
	}
	for _, p := range c12Keys(paths) {
		if !strings.HasPrefix(p, "/") {
			return fmt.Errorf("path %q does not start with /", p)
		}
		item := c12Map(paths[p])
		if item == nil {
			return fmt.Errorf("path item %q is not an object", p)
		}
		var vars []string
		for _, m := range c12TplVar.FindAllStringSubmatch(p, -1) {
			vars = append(vars, m[1])
		}
		for _, k := range c12Keys(item) {
			if !c12HTTPMethods[k] {
				continue
			}
			op := c12Map(item[k])
			if op == nil {
				return fmt.Errorf("%s %s: operation is not an object", k, p)
			}
			params := append(append([]interface{}{}, c12Slice(item["parameters"])...), c12Slice(op["parameters"])...)
			declared := map[string]bool{}
			seen := map[string]bool{}
			bodies := 0
			for _, pr := range params {
				pm := c12Map(pr)
				if r := c12Str(pm["$ref"]); r != "" {
					pm = c12Map(c12Get(doc, strings.Split(r[2:], "/")...))
				}
				if pm == nil {
					return fmt.Errorf("%s %s: parameter is not an object", k, p)
				}
				name, in := c12Str(pm["name"]), c12Str(pm["in"])
				switch in {
				case "path", "query", "header", "cookie":
				case "body", "formData":
					if v == 3 {
						return fmt.Errorf("%s %s: parameter %q has in=%q (not allowed in OpenAPI 3)", k, p, name, in)
					}
				default:
					return fmt.Errorf("%s %s: parameter %q has in=%q", k, p, name, in)
				}
				if name == "" {
					return fmt.Errorf("%s %s: parameter in %q has no name", k, p, in)
				}
				if seen[in+":"+name] {
					return fmt.Errorf("%s %s: parameter %s %q declared twice", k, p, in, name)
				}
				seen[in+":"+name] = true
				if in == "path" {
					declared[name] = true
					if req, _ := pm["required"].(bool); !req && !pathRequiredWaived {
						return fmt.Errorf("%s %s: path parameter %q is not marked required", k, p, name)
					}
				}
				if v == 3 {
					if pm["schema"] == nil && pm["content"] == nil {
						return fmt.Errorf("%s %s: parameter %q has neither schema nor content", k, p, name)
					}
				} else if in == "body" {
					bodies++
					if c12Map(pm["schema"]) == nil {
						return fmt.Errorf("%s %s: body parameter %q has no schema", k, p, name)
					}
				} else if c12Str(pm["type"]) == "" {
					return fmt.Errorf("%s %s: %s parameter %q has no type", k, p, in, name)
				} else if pm["schema"] != nil {
					return fmt.Errorf("%s %s: %s parameter %q carries a schema (only body parameters may)", k, p, in, name)
				}
			}
			if bodies > 1 {
				return fmt.Errorf("%s %s: %d body parameters", k, p, bodies)
			}
			for _, vn := range vars {
				if !declared[vn] {
					return fmt.Errorf("%s %s: template variable {%s} has no path parameter", k, p, vn)
				}
			}
			for dn := range declared {
				found := false
				for _, vn := range vars {
					if vn == dn {
						found = true
					}
				}
				if !found {
					return fmt.Errorf("%s %s: path parameter %q is not in the template", k, p, dn)
				}
			}
			resps := c12Map(op["responses"])
			if len(resps) == 0 {
				return fmt.Errorf("%s %s: no responses", k, p)
			}
			for _, code := range c12Keys(resps) {
				if strings.HasPrefix(code, "x-") {
					continue
				}
				r := c12Map(resps[code])
				if r == nil {
					return fmt.Errorf("%s %s: response %s is not an object", k, p, code)
				}
				if _, ok := r["description"].(string); !ok && r["$ref"] == nil {
					return fmt.Errorf("%s %s: response %s has no description", k, p, code)
				}
			}
		}
	}
	return nil
}
