package checks

import (
	"encoding/json"
	"fmt"
	"os"
	"path/filepath"
	"regexp"
	"sort"
	"strings"
	"sync"
	"testing"

	"github.com/anz-bank/sysl/pkg/parse"
	"github.com/spf13/afero"
	"pgregory.net/rapid"
)

// C01 — compilation is total: any input yields a model or an error, never a crash.
// The code under test runs in the sandbox worker: a panic, process exit, stack overflow or
// overrun is attributed to the in-flight case.

type c01Case struct {
	Files map[string]string `json:"files"`
	Root  string            `json:"root"`
	How   string            `json:"how"` // which generator / mutations produced it
}

type c01Result struct {
	Status string `json:"status"` // accepted | syntax | other | both | neither
	Err    string `json:"err,omitempty"`
}

var _ = registerOp("c01.parse", func(arg json.RawMessage) (interface{}, error) {
	var c c01Case
	if err := json.Unmarshal(arg, &c); err != nil {
		return nil, err
	}
	fs := afero.NewMemMapFs()
	for k, v := range c.Files {
		_ = afero.WriteFile(fs, k, []byte(v), 0o644)
	}
	m, err := parse.NewParser().ParseFromFs(c.Root, fs)
	res := &c01Result{}
	switch {
	case err != nil && m == nil:
		res.Err = err.Error()
		if strings.Contains(res.Err, "syntax errors") {
			res.Status = "syntax"
		} else {
			res.Status = "other"
		}
	case err == nil && m != nil:
		res.Status = "accepted"
	case err != nil && m != nil:
		res.Status = "both"
	default:
		res.Status = "neither"
	}
	return res, nil
})

func checkC01(x *X, c c01Case) error {
	var res c01Result
	death, err, inconcl := sandboxCall("c01.parse", c, &res)
	how := strings.Split(c.How, ":")[0]
	if inconcl {
		x.Inconclusive("a compile that overran its time bound did not reproduce")
		return nil
	}
	if death != nil {
		return finding(death.Sig(), "compilation did not end with a model or an error: %s %s\n---- root %s (%s)\n%s", death.Kind, firstLine(death.Text), c.Root, c.How, c.Files[c.Root])
	}
	if err != nil {
		return fmt.Errorf("harness: %v", err)
	}
	x.Class(how + "_" + res.Status)
	switch res.Status {
	case "both", "neither":
		return fmt.Errorf("compile returned %s a model and an error\n%s", res.Status, c.Files[c.Root])
	case "accepted", "other":
		// the input passed the ANTLR stage: the unguarded listener ran
		x.NonTrivial(c.Root + "\x00" + fmt.Sprint(c.Files))
	}
	x.Sample(map[string]interface{}{"how": c.How, "status": res.Status, "root": c.Files[c.Root]})
	return nil
}

// ---------- generator 1: grammar-directed programs ----------

func genC01Grammar(t *rapid.T) c01Case {
	return c01Case{Files: map[string]string{"r.sysl": GenGrammarProgram(t)}, Root: "r.sysl", How: "grammar"}
}

// ---------- generator 2: near-misses of valid specs ----------

var (
	c01CorpusOnce sync.Once
	c01Corpus     []string
)

func c01CorpusFiles() []string {
	c01CorpusOnce.Do(func() {
		for _, pat := range []string{"pkg/parse/tests/*.sysl", "tests/*.sysl", "demo/examples/*/*.sysl", "pkg/importer/tests/*/*.sysl"} {
			fs, _ := filepath.Glob(filepath.Join(cfg.Repo, pat))
			c01Corpus = append(c01Corpus, fs...)
		}
		sort.Strings(c01Corpus)
	})
	return c01Corpus
}

var c01PrimRe = regexp.MustCompile(`\b(int|int32|int64|float|float32|float64|string|bool|date|datetime|decimal|bytes|any)\b(\([0-9.]+\))?`)
var c01NameRe = regexp.MustCompile(`\b[A-Za-z_][A-Za-z0-9_]{2,}\b`)

func c01Mutate(t *rapid.T, text string) (string, string) {
	lines := strings.Split(text, "\n")
	pickLine := func() int { return rapid.IntRange(0, len(lines)-1).Draw(t, "line") }
	indentOf := func(i int) string { return lines[i][:len(lines[i])-len(strings.TrimLeft(lines[i], " \t"))] }
	insert := func(i int, s string) {
		lines = append(lines[:i], append([]string{s}, lines[i:]...)...)
	}
	op := rapid.IntRange(0, 16).Draw(t, "mop")
	switch op {
	case 0: // odd size spec on a primitive
		repl := pick(t, []string{"float(5)", "bool(3)", "any(2..3)", "int(99999999999999999999)", "decimal(1.99999999999999999999)", "string(5..99999999999999999999)", "date(4)", "bytes(3.2)", "int64(7)", "float32(1..2)", "datetime(0..0)", "decimal(0)", "string(0)", "int(3..)", "string(99999999999999999999)", "decimal(99999999999999999999.1)", "int(1..2)(3..4)"}, "sizespec")
		for tries := 0; tries < 20; tries++ {
			i := pickLine()
			if loc := c01PrimRe.FindStringIndex(lines[i]); loc != nil {
				lines[i] = lines[i][:loc[0]] + repl + lines[i][loc[1]:]
				return strings.Join(lines, "\n"), "sizespec"
			}
		}
	case 1: // bad escape in a name
		esc := pick(t, []string{"%zz", "%", "%4", "%%", "%2", "%GG", "%0", "%ff%"}, "esc")
		for tries := 0; tries < 20; tries++ {
			i := pickLine()
			if loc := c01NameRe.FindStringIndex(lines[i]); loc != nil {
				lines[i] = lines[i][:loc[1]] + esc + lines[i][loc[1]:]
				return strings.Join(lines, "\n"), "escape"
			}
		}
	case 2:
		i := pickLine()
		insert(i, lines[i])
		return strings.Join(lines, "\n"), "dupline"
	case 3:
		i := pickLine()
		lines = append(lines[:i], lines[i+1:]...)
		return strings.Join(lines, "\n"), "delline"
	case 4:
		i := pickLine()
		if rapid.Bool().Draw(t, "more") {
			lines[i] = pick(t, []string{"    ", "  ", "\t", " "}, "indunit") + lines[i]
		} else {
			lines[i] = strings.TrimPrefix(lines[i], "    ")
		}
		return strings.Join(lines, "\n"), "indent"
	case 5:
		i := pickLine()
		if i+1 < len(lines) {
			lines[i], lines[i+1] = lines[i+1], lines[i]
		}
		return strings.Join(lines, "\n"), "swap"
	case 6:
		i := pickLine()
		insert(i, indentOf(i)+"| some doc")
		return strings.Join(lines, "\n"), "doc"
	case 7:
		i := pickLine()
		ind := indentOf(i)
		insert(i, ind+pick(t, []string{`@a = "b"`, `@a = ["b", ["c"]]`, "@a =:\n" + ind + "    | text", `@a.b = "c"`, `@a = []`}, "anno"))
		return strings.Join(lines, "\n"), "anno"
	case 8:
		return strings.Replace(text, "sequence of", "set of", 1), "setof"
	case 9:
		for tries := 0; tries < 20; tries++ {
			i := pickLine()
			if strings.HasSuffix(lines[i], ":") {
				lines[i] = strings.TrimSuffix(lines[i], ":") + pick(t, []string{" [~x]:", ` [a="b"]:`, " []:", " [~x+y]:", ` [a=[]]:`, ` [a=[["b"]]]:`, ` [~x, ~x]:`}, "attr")
				return strings.Join(lines, "\n"), "attr"
			}
		}
	case 10:
		kw := pick(t, []string{"if", "else", "for", "loop", "return", "import", "set of", "one of", "int", "string", "as", "any", "alt", "until", "while", "each", "!type", "!table", ".. * <- *"}, "kw")
		for tries := 0; tries < 20; tries++ {
			i := pickLine()
			if loc := c01NameRe.FindStringIndex(lines[i]); loc != nil {
				lines[i] = lines[i][:loc[0]] + kw + lines[i][loc[1]:]
				return strings.Join(lines, "\n"), "keyword"
			}
		}
	case 11:
		for tries := 0; tries < 20; tries++ {
			i := pickLine()
			if strings.HasSuffix(lines[i], ":") {
				lines[i] += " ..."
				return strings.Join(lines, "\n"), "shortcut"
			}
		}
	case 12:
		i := pickLine()
		ind := indentOf(i)
		ins := pick(t, []string{".. * <- *:\n" + ind + "    Foo [~x]", "<-> Ev(a <: int): ...", "Pub -> Ev: ...", "-|> Mix", "!wrap W:\n" + ind + "    !table T",
			"/x/{a<:int}/{b<:Foo.bar}:\n" + ind + "    GET: ...", "!union U:\n" + ind + "    int\n" + ind + "    string", "!alias A:\n" + ind + "    set of int(5)",
			"!view v(a <: int) -> int:\n" + ind + "    a -> (:\n" + ind + "        x = a + 1\n" + ind + "    )", "!enum E:\n" + ind + "    a: 99999999999999999999",
			"f(1..3) <: int", "g <: Foo.bar.baz?", "h <:\n" + ind + "    i <: int", "/{x}:\n" + ind + "    GET ?a={b}&c=int?: ...", "one of:\n" + ind + "    x:\n" + ind + "        y"}, "special")
		insert(i, ind+ins)
		return strings.Join(lines, "\n"), "special"
	case 13: // delete / duplicate / swap a token
		for tries := 0; tries < 20; tries++ {
			i := pickLine()
			toks := strings.Fields(lines[i])
			if len(toks) < 2 {
				continue
			}
			ind := indentOf(i)
			k := rapid.IntRange(0, len(toks)-1).Draw(t, "tok")
			switch rapid.IntRange(0, 2).Draw(t, "tokop") {
			case 0:
				toks = append(toks[:k], toks[k+1:]...)
			case 1:
				toks = append(toks[:k+1], toks[k:]...)
			default:
				if k+1 < len(toks) {
					toks[k], toks[k+1] = toks[k+1], toks[k]
				}
			}
			lines[i] = ind + strings.Join(toks, " ")
			return strings.Join(lines, "\n"), "token"
		}
	case 14: // unbalance a bracket / drop a colon
		for tries := 0; tries < 20; tries++ {
			i := pickLine()
			for _, ch := range []string{"]", ")", ":", "}", "[", "(", "{", "\""} {
				if j := strings.LastIndex(lines[i], ch); j >= 0 {
					lines[i] = lines[i][:j] + lines[i][j+1:]
					return strings.Join(lines, "\n"), "unbalance"
				}
			}
		}
	case 15: // hostile constants spliced in
		i := pickLine()
		h := pick(t, []string{"\x00", "\t\t", "\r", "\ufeff", "<:", "<-", "->", "::", "@", "|", "#", "~", "..", "...", "!", "%", "'", "\"", "\\", "[[", "]]", "{{", "<:<:", "0x1F", "1e99", "-1", "\u2028"}, "hostile")
		k := rapid.IntRange(0, len(lines[i])).Draw(t, "at")
		lines[i] = lines[i][:k] + h + lines[i][k:]
		return strings.Join(lines, "\n"), "hostile"
	default:
		cut := rapid.IntRange(0, len(text)).Draw(t, "cut")
		return text[:cut], "truncate"
	}
	return text, "none"
}

func c01BaseText(t *rapid.T) (string, string) {
	corpus := c01CorpusFiles()
	switch rapid.IntRange(0, 3).Draw(t, "base") {
	case 0:
		if len(corpus) > 0 {
			b, _ := os.ReadFile(pick(t, corpus, "file"))
			s := string(b)
			if len(s) > 5000 {
				s = s[:5000]
			}
			return s, "corpus"
		}
		fallthrough
	case 1:
		return GenGrammarProgram(t), "grammarbase"
	default:
		return Render(GenIntent(t), pick(t, indentPool, "indent")), "specgen"
	}
}

func genC01Mutant(t *rapid.T) c01Case {
	base, src := c01BaseText(t)
	hows := []string{"mutant", src}
	nm := rapid.IntRange(1, 3).Draw(t, "nmut")
	for i := 0; i < nm; i++ {
		var h string
		base, h = c01Mutate(t, base)
		hows = append(hows, h)
	}
	return c01Case{Files: map[string]string{"r.sysl": base}, Root: "r.sysl", How: strings.Join(hows, ":")}
}

// ---------- generator 3: import closures ----------

// genC01BigClosure: many trivial files in a long import chain, a wide fan whose members import further
// files, or both (nothing bounds the depth or width of an import closure; resources that are held per
// retrieval in flight run out here).
func genC01BigClosure(t *rapid.T) c01Case {
	c := c01Case{Files: map[string]string{}, Root: "r.sysl", How: "closure"}
	depth := rapid.IntRange(1, 16).Draw(t, "chaindepth")
	width := rapid.IntRange(1, 14).Draw(t, "fanwidth")
	var root strings.Builder
	for w := 0; w < width; w++ {
		for d := 0; d < depth; d++ {
			name := fmt.Sprintf("w%dd%d.sysl", w, d)
			txt := ""
			if d+1 < depth {
				txt = fmt.Sprintf("import w%dd%d\n\n", w, d+1)
			} else if rapid.IntRange(0, 3).Draw(t, "backedge") == 0 {
				txt = "import /r\n\n" // back to the root
			}
			c.Files[name] = txt + fmt.Sprintf("W%dD%d:\n    Ep: ...\n", w, d)
		}
		root.WriteString(fmt.Sprintf("import w%dd0\n", w))
	}
	c.Files["r.sysl"] = root.String() + "\nRoot:\n    Ep: ...\n"
	return c
}

func genC01Closure(t *rapid.T) c01Case {
	if rapid.IntRange(0, 5).Draw(t, "bigclosure") == 0 {
		return genC01BigClosure(t)
	}
	n := rapid.IntRange(2, 4).Draw(t, "nfiles")
	c := c01Case{Files: map[string]string{}, Root: "r.sysl", How: "closure"}
	names := []string{"r.sysl"}
	for i := 1; i < n; i++ {
		names = append(names, pick(t, []string{"", "sub/", "a b/"}, "dir")+fmt.Sprintf("m%d.sysl", i))
	}
	foreign := map[string]string{
		"d.yaml":    pick(t, []string{"hello: world\n", "swagger: \"2.0\"\ninfo: {title: T, version: \"1\"}\npaths: {}\n", "openapi: 3.0.0\ninfo: {title: T, version: \"1\"}\npaths: {}\n", ":\n  - [", ""}, "yaml"),
		"d.json":    pick(t, []string{"{}", "{\"swagger\": \"2.0\", \"info\": {\"title\": \"T\", \"version\": \"1\"}, \"paths\": {}}", "[1,2", "null"}, "json"),
		"m.pb":      pick(t, []string{"", "\x0a\x00", "garbage\x00\x01", "\xff\xff\xff\xff"}, "pb"),
		"m.textpb":  pick(t, []string{"", "apps: {key: \"A\" value: {name: {part: \"A\"}}}", "apps {", "garbage {{{"}, "textpb"),
		"m.pb.json": pick(t, []string{"{}", "{\"apps\": {\"A\": {\"name\": {\"part\": [\"A\"]}}}}", "{\"apps\": 3}", "["}, "pbjson"),
		"x.xsd":     "<xs:schema xmlns:xs=\"http://www.w3.org/2001/XMLSchema\"></xs:schema>",
	}
	fnames := []string{"d.yaml", "d.json", "m.pb", "m.textpb", "m.pb.json", "x.xsd"}
	for i, nm := range names {
		var sb strings.Builder
		ni := rapid.IntRange(0, 3).Draw(t, "nimports")
		for k := 0; k < ni; k++ {
			switch rapid.IntRange(0, 5).Draw(t, "impkind") {
			case 0, 1, 2:
				target := pick(t, names, "target")
				sp := "/" + target
				if rapid.Bool().Draw(t, "noext") {
					sp = strings.TrimSuffix(sp, ".sysl")
				}
				sb.WriteString("import " + sp)
				if rapid.IntRange(0, 4).Draw(t, "as") == 0 {
					sb.WriteString(pick(t, []string{" as Foo", " as A :: B", " as a.b.C", " ~sysl", " as Foo ~openapi3"}, "asclause"))
				}
				sb.WriteString("\n")
			case 3, 4:
				f := pick(t, fnames, "foreign")
				c.Files[f] = foreign[f]
				sb.WriteString("import /" + f + pick(t, []string{"", " as Foreign", " as Ns :: Foreign", " ~openapi2", " as F ~swagger"}, "fas") + "\n")
			default:
				sb.WriteString("import " + pick(t, []string{"/missing", "../../etc/passwd", "//github.com/anz-bank/sysl/tests/x.sysl", "", "a b", "\"q\"", "/r.sysl@v1", "/m1@"}, "oddimp") + "\n")
			}
		}
		var body string
		switch rapid.IntRange(0, 2).Draw(t, "bodykind") {
		case 0:
			body = GenGrammarProgram(t)
		case 1:
			body, _ = c01Mutate(t, GenGrammarProgram(t))
		default:
			body = fmt.Sprintf("M%d:\n    Ep: ...\n", i)
		}
		c.Files[nm] = sb.String() + "\n" + body
	}
	return c
}

var c01Grammar = Define("C01", "grammar",
	"grammar-directed programs: a hand transcription of SyslParser.g4 (applications, attributes, annotations incl. multi-line, tables/types with nested and in-place tuples, size and array specs on every primitive, digit strings of 1-40 digits, unions, aliases, enums, facades, mixins, events, subscriptions, collectors, simple and REST endpoints with typed path variables and query parameters, every statement form) with 0-12% odd tokens (keywords as names, bad %-escapes, non-ASCII, native type names as identifiers); compiled through parse.Parser.ParseFromFs in a worker subprocess; oracle: exactly one of (model, error), no panic / process exit / stack overflow / overrun. Non-trivial: the input passed the ANTLR stage (accepted, or rejected with an error other than 'has syntax errors') so the unguarded tree listener ran; distinct by input text. Classes <generator>_<status> give the acceptance split.",
	genC01Grammar, checkC01)

var c01Mutants = Define("C01", "nearmiss",
	"near-misses: a corpus file (pkg/parse/tests, tests, demo, importer goldens), a grammar-directed program or a specgen rendering, with 1-3 of 17 line/token mutations (odd size specs, bad %-escapes, duplicate/delete/swap/re-indent a line, doc or annotation lines inserted, sequence->set, attributes before a colon, keywords as names, '...' shortcuts, special endpoint/type forms, token delete/dup/swap, unbalanced brackets, hostile constants, truncation); same oracle and non-trivial rule as 'grammar'.",
	genC01Mutant, checkC01)

var c01Closures = Define("C01", "closures",
	"import closures of 2-4 generated/mutated files (one case in six: 1-14 chains of 1-16 trivial files below one root, some ending in an import of the root) in an in-memory filesystem with rooted/extension-less spellings, 'as' clauses and ~mode suffixes, self and cyclic imports, missing targets, and foreign members (.yaml/.json garbage and minimal valid OpenAPI, empty/garbage/valid .pb .textpb .pb.json, .xsd); same oracle and non-trivial rule.",
	genC01Closure, checkC01)

func TestC01(t *testing.T) {
	checkKnown(t, "C01")
	c01Grammar.Run(t, scale(700, 5000))
	c01Mutants.Run(t, scale(500, 3000))
	c01Closures.Run(t, scale(150, 1000))
}

// FuzzC01Compile is the byte-level coverage-guided target (thorough tier only; the saved
// crasher under testdata/fuzz is the reproducible unit, go's fuzzer cannot be pinned to a seed).
func FuzzC01Compile(f *testing.F) {
	for _, s := range []string{"A:\n    B: ...\n", "A:\n    !type T:\n        x <: int\n", "A:\n    /x/{id<:int}:\n        GET ?a=int:\n            return ok\n",
		"import b\nA:\n    .. * <- *:\n        B [~x]\n", "A [~x]:\n    @a = \"b\"\n    E:\n        if x:\n            . <- E\n        else:\n            | doc\n"} {
		f.Add([]byte(s))
	}
	f.Fuzz(func(t *testing.T, data []byte) {
		// Lexing a long line of unrecognisable bytes is quadratic in the line length (ANTLR re-scans to
		// the end of the line for every failed token: 4 KB of 0xA6 take ~10-30 s, found by this target).
		// That is slow, not non-termination; inputs are bounded so that go's 10 s hang detector
		// does not turn it into a crasher.
		if len(data) > 1200 {
			return
		}
		m, err := parse.NewParser().ParseString(string(data))
		if (m == nil) == (err == nil) {
			t.Fatalf("neither/both model and error")
		}
	})
}
