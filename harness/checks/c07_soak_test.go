package checks

// C07 / soak — many concurrent compilations in one process must not exhaust memory.
// (Found by the integrator on the pinned tree: the process-global lexer-state map of
// github.com/cornelk/hashmap grew without bound under concurrent parses and the process died
// with "fatal error: out of memory"; repaired by keeping the states in a sync.Map.)

import (
	"bufio"
	"encoding/json"
	"fmt"
	"os"
	"os/exec"
	"runtime"
	"strings"
	"sync"
	"sync/atomic"
	"time"

	"github.com/anz-bank/sysl/pkg/parse"
	"pgregory.net/rapid"
)

type c07SoakCase struct {
	Text       string `json:"text"`
	Goroutines int    `json:"goroutines"`
	Parses     int    `json:"parses"`   // total number of compilations
	LimitMB    int    `json:"limit_mb"` // bound on memory obtained from the OS (runtime.MemStats.Sys)
}

type c07SoakRes struct {
	Done     int    `json:"done"`
	Failed   int    `json:"failed"`
	PeakFly  int64  `json:"peak_inflight"`
	SysMB    uint64 `json:"sys_mb"`
	StartMB  uint64 `json:"start_mb"`
	Exceeded bool   `json:"exceeded"`
}

const c07SoakSig = "memory-growth:concurrent-compilations"

var _ = registerOp("c07.soak", func(arg json.RawMessage) (interface{}, error) {
	var c c07SoakCase
	if err := json.Unmarshal(arg, &c); err != nil {
		return nil, err
	}
	var ms runtime.MemStats
	res := &c07SoakRes{}
	// warm-up: one compilation
	if _, err := parse.NewParser().ParseString(c.Text); err != nil {
		return nil, fmt.Errorf("specification rejected: %v", err)
	}
	runtime.ReadMemStats(&ms)
	res.StartMB = ms.Sys >> 20
	batch := c.Goroutines * 25
	var inflight, peak, failed int64
	for res.Done < c.Parses {
		n := batch
		if c.Parses-res.Done < n {
			n = c.Parses - res.Done
		}
		var next int64
		var wg sync.WaitGroup
		for g := 0; g < c.Goroutines; g++ {
			wg.Add(1)
			go func() {
				defer wg.Done()
				for atomic.AddInt64(&next, 1) <= int64(n) {
					now := atomic.AddInt64(&inflight, 1)
					for {
						p := atomic.LoadInt64(&peak)
						if now <= p || atomic.CompareAndSwapInt64(&peak, p, now) {
							break
						}
					}
					if _, err := parse.NewParser().ParseString(c.Text); err != nil {
						atomic.AddInt64(&failed, 1)
					}
					atomic.AddInt64(&inflight, -1)
				}
			}()
		}
		wg.Wait()
		res.Done += n
		runtime.ReadMemStats(&ms)
		res.SysMB = ms.Sys >> 20
		if int(res.SysMB) > c.LimitMB {
			res.Exceeded = true
			break
		}
	}
	res.PeakFly, res.Failed = peak, int(failed)
	return res, nil
})

func genC07Soak(t *rapid.T) c07SoakCase {
	texts := []string{
		"A:\n  B: ...\n",
		"A:\n    !type T:\n        x <: int\n    Ep:\n        if c:\n            A <- Ep\n        else:\n            ...\n",
		"App [~x]:\n\t/p:\n\t\tGET ?q=int:\n\t\t\treturn ok <: string\n",
	}
	c := c07SoakCase{Text: pick(t, texts, "text"), Goroutines: rapid.IntRange(8, 16).Draw(t, "goroutines"), LimitMB: 768}
	if thorough() {
		c.Parses = rapid.IntRange(20000, 30000).Draw(t, "parses")
		c.LimitMB = 1536
	} else {
		c.Parses = rapid.IntRange(4000, 6000).Draw(t, "parses")
	}
	return c
}

// c07Exec runs one worker operation in a process of its own (same protocol as sandbox.go) with its own
// time bound. The memory soak is about allocation, not about races: when this is the -race build and
// the plain test binary lies beside it (verif.py builds both), the plain one is used — it is ~10x faster.
func c07Exec(op string, arg, res interface{}, timeout time.Duration, preferPlain bool) (death *Death, opErr error, timedOut bool, exe string, tailText string) {
	exe, err := os.Executable()
	if err != nil {
		panic(err)
	}
	if preferPlain && strings.HasSuffix(exe, ".race.test") {
		plain := strings.TrimSuffix(exe, ".race.test") + ".test"
		if _, err := os.Stat(plain); err == nil {
			exe = plain
		}
	}
	pr, pw, err := os.Pipe()
	if err != nil {
		panic(err)
	}
	defer pr.Close()
	cmd := exec.Command(exe, "-test.run", "^$")
	cmd.Env = append(os.Environ(), "VERIF_WORKER=1", "VERIF_OUT=", "GOTRACEBACK=all", fmt.Sprintf("GOMAXPROCS=%d", runtime.NumCPU()))
	cmd.ExtraFiles = []*os.File{pw}
	tail := &tailBuf{}
	cmd.Stdout, cmd.Stderr = tail, tail
	stdin, err := cmd.StdinPipe()
	if err != nil {
		panic(err)
	}
	if err := cmd.Start(); err != nil {
		panic("cannot start " + exe + ": " + err.Error())
	}
	pw.Close()
	ab, _ := json.Marshal(arg)
	rb, _ := json.Marshal(workerReq{Op: op, Arg: ab})
	type rd struct {
		line []byte
		err  error
	}
	ch := make(chan rd, 1)
	go func() {
		if _, err := stdin.Write(append(rb, '\n')); err != nil {
			ch <- rd{nil, err}
			return
		}
		line, err := bufio.NewReaderSize(pr, 1<<20).ReadBytes('\n')
		ch <- rd{line, err}
	}()
	select {
	case r := <-ch:
		if r.err != nil || len(strings.TrimSpace(string(r.line))) == 0 {
			werr := cmd.Wait()
			return classifyDeath(tail.String(), werr), nil, false, exe, tail.String()
		}
		stdin.Close()
		_ = cmd.Process.Kill()
		_ = cmd.Wait()
		var resp workerResp
		if e := json.Unmarshal(r.line, &resp); e != nil {
			panic("c07Exec: bad response: " + e.Error())
		}
		if resp.Panic != "" {
			return &Death{Kind: "panic", Frame: resp.Frame, Text: resp.Panic}, nil, false, exe, tail.String()
		}
		if len(resp.Res) > 0 {
			_ = json.Unmarshal(resp.Res, res)
		}
		if resp.Err != "" {
			return nil, fmt.Errorf("%s", resp.Err), false, exe, tail.String()
		}
		return nil, nil, false, exe, tail.String()
	case <-time.After(timeout):
		_ = cmd.Process.Kill()
		_ = cmd.Wait()
		return nil, nil, true, exe, tail.String()
	}
}

func checkC07Soak(x *X, c c07SoakCase) error {
	var r c07SoakRes
	death, err, timedOut, exe, _ := c07Exec("c07.soak", c, &r, 240*time.Second, true)
	if timedOut {
		x.Inconclusive(fmt.Sprintf("soak of %d compilations did not finish within 240 s", c.Parses))
		return nil
	}
	if strings.HasSuffix(exe, ".race.test") {
		x.Class("soak_in_race_build")
	} else {
		x.Class("soak_in_plain_build")
	}
	if death != nil {
		return finding(c07SoakSig, "the process died during %d concurrent compilations by %d goroutines: %s (%s)\n---- %s", c.Parses, c.Goroutines, death.Sig(), firstLine(death.Text), c.Text)
	}
	if err != nil {
		return fmt.Errorf("soak: %v", err)
	}
	x.r.ClassN("soak_compilations", int64(r.Done))
	x.r.ClassN("soak_sys_mb_total", int64(r.SysMB))
	if r.Exceeded {
		return finding(c07SoakSig, "memory obtained from the OS grew from %d MiB to %d MiB (> %d MiB) after %d of %d concurrent compilations of a %d-byte specification by %d goroutines\n---- %s",
			r.StartMB, r.SysMB, c.LimitMB, r.Done, c.Parses, len(c.Text), c.Goroutines, c.Text)
	}
	if r.Failed > 0 {
		return fmt.Errorf("%d of %d concurrent compilations of a legal specification failed\n---- %s", r.Failed, r.Done, c.Text)
	}
	if r.PeakFly >= 4 {
		x.Class("soak_inflight_peak>=4")
		x.NonTrivial(fmt.Sprintf("soak|%s|%d|%d", c.Text, c.Goroutines, c.Parses))
	}
	x.Sample(map[string]interface{}{"soak": r, "goroutines": c.Goroutines, "parses": c.Parses})
	return nil
}

var c07SoakProp = Define("C07", "soak",
	"One of three small legal specifications compiled N times (quick 4000..6000, thorough 20000..30000) by 8..16 goroutines in a process of its own (the plain test binary when the -race build runs and the plain one lies beside it), in batches; after each batch runtime.MemStats.Sys must stay below 768 MiB (thorough: 1536 MiB; the repaired tree needs 70-280 MiB for 4000 and ~360 MiB for 23000 compilations, the pinned tree passed 1 GiB after 4000), the process must survive, every compilation must succeed. Non-trivial: in-flight peak >=4.",
	genC07Soak, checkC07Soak)
