package checks

import (
	"encoding/json"
	"fmt"
	"hash/fnv"
	"io"
	"os"
	"os/exec"
	"path/filepath"
	"regexp"
	"sort"
	"strings"
	"testing"

	"github.com/anz-bank/sysl/pkg/database"
	"github.com/anz-bank/sysl/pkg/parse"
	"github.com/anz-bank/sysl/pkg/sysl"
	"github.com/sirupsen/logrus"
	"github.com/spf13/afero"
	"pgregory.net/rapid"
)

// C16 — database scripts are complete and dependency-ordered; delta scripts are sound.
//
// The scripts are produced in the sandbox worker (the depth fix-point can exhaust the stack) through
// the same calls the CLI commands make, and executed by the reference interpreter in c16_ddl.go.

// ---------- code under test (worker side) ----------

type c16RunArg struct {
	Versions []map[string]string `json:"versions"` // file name -> text; root is m.sysl
}

type c16RunRes struct {
	ParseErr []string   `json:"parse_err"`
	Tables   [][]string `json:"tables"` // relation types the compiled model holds, per version
	Create   []string   `json:"create"`
	Ident    []string   `json:"ident"` // delta(v_i, v_i)
	Delta    []string   `json:"delta"` // delta(v_i, v_i+1)
}

func c16Quiet() *logrus.Logger {
	lg := logrus.New()
	lg.SetOutput(io.Discard)
	return lg
}

func c16CreateSQL(m *sysl.Module) string {
	// cmd/sysl/cmd_databasescript.go: processSysl
	v := database.MakeDatabaseScriptView("t", c16Quiet())
	return v.GenerateDatabaseScriptCreate(m.GetApps()[c16App].GetTypes(), "postgres", c16App)
}

func c16DeltaSQL(mo, mn *sysl.Module) (string, error) {
	// cmd/sysl/cmd_databasescript_mod.go: GenerateModDatabaseScripts + GenerateFromSQLMap
	lg := c16Quiet()
	v := database.MakeDatabaseScriptView("t", lg)
	outs := v.ProcessModSysls(mo.GetApps(), mn.GetApps(), []string{c16App}, "out", "postgres")
	fs := afero.NewMemMapFs()
	if err := database.GenerateFromSQLMap(outs, fs, lg); err != nil {
		return "", err
	}
	b, err := afero.ReadFile(fs, "out/"+c16App+database.SQLExtension)
	return string(b), err
}

var _ = registerOp("c16.run", func(arg json.RawMessage) (interface{}, error) {
	var a c16RunArg
	if err := json.Unmarshal(arg, &a); err != nil {
		return nil, err
	}
	res := &c16RunRes{}
	var mods []*sysl.Module
	for _, files := range a.Versions {
		fs := afero.NewMemMapFs()
		for n, txt := range files {
			if err := afero.WriteFile(fs, "/"+n, []byte(txt), 0o644); err != nil {
				return nil, err
			}
		}
		m, err := parse.NewParser().ParseFromFs("/m.sysl", fs)
		if err != nil {
			res.ParseErr = append(res.ParseErr, err.Error())
			mods = append(mods, nil)
			res.Tables = append(res.Tables, nil)
			continue
		}
		res.ParseErr = append(res.ParseErr, "")
		var tn []string
		for n, ty := range m.GetApps()[c16App].GetTypes() {
			if ty.GetRelation() != nil {
				tn = append(tn, n)
			}
		}
		sort.Strings(tn)
		res.Tables = append(res.Tables, tn)
		mods = append(mods, m)
	}
	for _, m := range mods {
		if m == nil {
			return res, nil
		}
	}
	for _, m := range mods {
		res.Create = append(res.Create, c16CreateSQL(m))
	}
	for _, m := range mods {
		d, err := c16DeltaSQL(m, m)
		if err != nil {
			return res, err
		}
		res.Ident = append(res.Ident, d)
	}
	for i := 0; i+1 < len(mods); i++ {
		d, err := c16DeltaSQL(mods[i], mods[i+1])
		if err != nil {
			return res, err
		}
		res.Delta = append(res.Delta, d)
	}
	return res, nil
})

// ---------- expectations derived from the model ----------

// c16ExpectShape: tables, columns, primary keys and foreign keys the model declares, as a catalog
// without column types (types are judged separately).
func c16ExpectShape(m *c16Model) *c16Catalog {
	c := c16NewCatalog()
	for _, t := range m.Tables {
		ct := &c16CatTable{Name: strings.ToLower(t.Name), Cols: map[string]*c16CatCol{}, FKs: map[string]*c16CatFK{}}
		for _, col := range t.Cols {
			cn := strings.ToLower(col.Name)
			ct.Cols[cn] = &c16CatCol{}
			if col.PK {
				ct.PK = append(ct.PK, cn)
			}
			if col.FkT != "" {
				ct.FKs[cn] = &c16CatFK{Name: cn, Col: cn, RefT: strings.ToLower(col.FkT), RefC: strings.ToLower(col.FkC)}
			}
		}
		c.Tables[ct.Name] = ct
	}
	return c
}

// c16RootCol follows references to the primitive column that finally defines the type.
func c16RootCol(m *c16Model, tn, cn string) *c16Col {
	for hop := 0; hop < 32; hop++ {
		t := m.table(tn)
		if t == nil {
			return nil
		}
		c := t.col(cn)
		if c == nil {
			return nil
		}
		if c.FkT == "" {
			return c
		}
		tn, cn = c.FkT, c.FkC
	}
	return nil
}

func c16TypeFamilyOK(c *c16Col, cat *c16CatCol) bool {
	switch c.Typ {
	case "int":
		if c.Autoinc {
			return cat.Typ == "bigint" && cat.Autoinc
		}
		return (cat.Typ == "integer" || cat.Typ == "bigint") && !cat.Autoinc
	case "date":
		return cat.Typ == "date" && !cat.Autoinc
	case "string":
		if c.N > 0 {
			return cat.Typ == fmt.Sprintf("varchar (%d)", c.N)
		}
		return strings.HasPrefix(cat.Typ, "varchar")
	}
	return false
}

// c16JudgeCreate executes a creation script and compares the result with the model.
// It returns (problems, unknown statements).
func c16JudgeCreate(m *c16Model, sql string) ([]string, []string, *c16Catalog) {
	cat := c16NewCatalog()
	cat.Exec(sql)
	var probs []string
	for _, e := range cat.Errs {
		probs = append(probs, "script refused: "+e)
	}
	// each table exactly once
	count := map[string]int{}
	for _, n := range cat.Creates {
		count[n]++
	}
	for _, t := range m.Tables {
		if k := count[strings.ToLower(t.Name)]; k != 1 {
			probs = append(probs, fmt.Sprintf("table %s defined %d times", t.Name, k))
		}
	}
	want := c16ExpectShape(m)
	for _, d := range c16CompareCatalogs(cat, want, nil) {
		if d.What == "type" || d.What == "autoinc" {
			continue
		}
		probs = append(probs, d.String())
	}
	// types
	for _, t := range m.Tables {
		ct := cat.Tables[strings.ToLower(t.Name)]
		if ct == nil {
			continue
		}
		for i := range t.Cols {
			col := &t.Cols[i]
			cc := ct.Cols[strings.ToLower(col.Name)]
			if cc == nil {
				continue
			}
			if col.FkT == "" {
				if !c16TypeFamilyOK(col, cc) {
					probs = append(probs, fmt.Sprintf("column %s.%s declared %s has type %q autoinc=%v", t.Name, col.Name, c16ColText(*col), cc.Typ, cc.Autoinc))
				}
				continue
			}
			rt := cat.Tables[strings.ToLower(col.FkT)]
			if rt == nil || rt.Cols[strings.ToLower(col.FkC)] == nil {
				continue
			}
			if rc := rt.Cols[strings.ToLower(col.FkC)]; rc.Typ != cc.Typ {
				probs = append(probs, fmt.Sprintf("foreign-key column %s.%s has type %q, referenced column %s.%s has type %q", t.Name, col.Name, cc.Typ, col.FkT, col.FkC, rc.Typ))
			}
			if cc.Autoinc {
				probs = append(probs, fmt.Sprintf("foreign-key column %s.%s is auto-incrementing", t.Name, col.Name))
			}
		}
	}
	return probs, cat.Unknown, cat
}

// ---------- case ----------

type c16Case struct {
	Versions []c16Model `json:"versions"`
	Edits    [][]string `json:"edits,omitempty"`
}

func c16Texts(m *c16Model) string {
	lay := c16Render(m)
	var names []string
	for n := range lay.Files {
		names = append(names, n)
	}
	sort.Strings(names)
	var sb strings.Builder
	for _, n := range names {
		fmt.Fprintf(&sb, "---- %s\n%s", n, lay.Files[n])
	}
	return sb.String()
}

func c16ModelClasses(x *X, m *c16Model) {
	files := map[int]bool{}
	refsTo := map[string]int{}
	for _, t := range m.Tables {
		files[t.File] = true
		npk := 0
		per := map[string]int{}
		for _, c := range t.Cols {
			if c.PK {
				npk++
			}
			if c.Autoinc {
				x.Class("col_autoinc")
			}
			if c.Typ == "string" && c.N > 0 {
				x.Class("col_sized_string")
			}
			if c.FkT != "" {
				refsTo[c.FkT]++
				per[c.FkT]++
				if rt := m.table(c.FkT); rt != nil {
					if rc := rt.col(c.FkC); rc != nil {
						if rc.FkT != "" {
							x.Class("fk_to_fk_column")
						}
						if !rc.PK {
							x.Class("fk_to_nonkey_column")
						}
						if rc.Autoinc {
							x.Class("fk_to_autoinc")
						}
					}
				}
				if c.PK {
					x.Class("fk_in_key")
				}
			}
		}
		for _, k := range per {
			if k >= 2 {
				x.Class("two_refs_one_table_to_one_target")
			}
		}
		switch {
		case npk == 0:
			x.Class("table_no_key")
		case npk >= 2:
			x.Class("table_composite_key")
		}
	}
	for _, k := range refsTo {
		if k >= 2 {
			x.Class("target_referenced_twice_or_more")
			break
		}
	}
	if c16HasDiamond(m) {
		x.Class("diamond")
	}
	x.Class(fmt.Sprintf("files_%d", len(files)))
	x.Class(fmt.Sprintf("fk_depth_%d", m.maxDepth()))
	if len(c16SameLinePairs(m)) > 0 {
		x.Class("same_line_in_two_files")
	}
	// a referencing table that appears before the referenced one in the same file
	pos := map[string]int{}
	for i, t := range m.Tables {
		pos[t.Name] = i
	}
	for _, t := range m.Tables {
		for _, c := range t.Cols {
			if c.FkT != "" {
				if rt := m.table(c.FkT); rt != nil && rt.File == t.File && pos[c.FkT] > pos[t.Name] {
					x.Class("forward_reference_in_file")
				}
				if rt := m.table(c.FkT); rt != nil && rt.File != t.File {
					x.Class("reference_across_files")
				}
			}
		}
	}
}

// c16HasDiamond: some table reaches another one over two different chains of references through different tables.
func c16HasDiamond(m *c16Model) bool {
	for _, s := range m.Tables {
		firsts := map[string]bool{}
		for _, c := range s.Cols {
			if c.FkT != "" {
				firsts[c.FkT] = true
			}
		}
		if len(firsts) < 2 {
			continue
		}
		reach := map[string]int{}
		for f := range firsts {
			seen := map[string]bool{}
			var walk func(n string)
			walk = func(n string) {
				if seen[n] {
					return
				}
				seen[n] = true
				if t := m.table(n); t != nil {
					for _, c := range t.Cols {
						if c.FkT != "" {
							walk(c.FkT)
						}
					}
				}
			}
			walk(f)
			for n := range seen {
				if n != f {
					reach[n]++
				}
			}
		}
		for _, k := range reach {
			if k >= 2 {
				return true
			}
		}
	}
	return false
}

func c16TieBreak(m *c16Model) bool {
	memo := map[string]int{}
	per := map[int]int{}
	for _, t := range m.Tables {
		per[m.depthOf(t.Name, memo)]++
	}
	if m.maxDepth() < 2 {
		return false
	}
	for _, k := range per {
		if k >= 2 {
			return true
		}
	}
	return false
}

func c16Run(c c16Case) (*c16RunRes, error) {
	arg := c16RunArg{}
	for i := range c.Versions {
		arg.Versions = append(arg.Versions, c16Render(&c.Versions[i]).Files)
	}
	var res c16RunRes
	death, err, inconcl := sandboxCall("c16.run", arg, &res)
	if death != nil {
		if death.Kind == "timeout" { // no wall-clock oracle: an overrun is never a verdict
			return nil, nil
		}
		return nil, deathErr(death, "database scripts for\n"+c16Texts(&c.Versions[0]))
	}
	if inconcl {
		return nil, nil
	}
	if err != nil {
		return nil, fmt.Errorf("script generation returned an error: %v", err)
	}
	for i, pe := range res.ParseErr {
		if pe != "" {
			return nil, fmt.Errorf("HARNESS: generated model v%d does not compile: %s\n%s", i+1, pe, c16Texts(&c.Versions[i]))
		}
	}
	for i := range c.Versions {
		var want []string
		for _, t := range c.Versions[i].Tables {
			want = append(want, t.Name)
		}
		sort.Strings(want)
		if strings.Join(want, ",") != strings.Join(res.Tables[i], ",") {
			return nil, fmt.Errorf("HARNESS: compiled model v%d holds tables %v, the generator meant %v\n%s", i+1, res.Tables[i], want, c16Texts(&c.Versions[i]))
		}
	}
	return &res, nil
}

// ---------- sub-property 1: creation script ----------

func genC16Create(t *rapid.T) c16Case {
	m, _ := c16GenModel(t, c16Options())
	return c16Case{Versions: []c16Model{*m}}
}

func c16CreateSignature(m *c16Model, probs []string) string {
	dupOrMissing := false
	for _, p := range probs {
		if strings.Contains(p, "already exists") || strings.Contains(p, "defined 0 times") || strings.Contains(p, "defined 2 times") || strings.HasPrefix(p, "table-missing") {
			dupOrMissing = true
		}
	}
	if dupOrMissing && c16SameLineSameDepth(m) {
		return "create:same-line-two-files"
	}
	keyless := false
	for i := range m.Tables {
		if !c16HasPK(&m.Tables[i]) && !c16HasFK(&m.Tables[i]) {
			keyless = true
		}
	}
	if keyless {
		all := true
		for _, p := range probs {
			if !(strings.Contains(p, "stray comma") || strings.HasPrefix(p, "table-missing") || strings.Contains(p, "defined") || strings.Contains(p, "does not exist")) {
				all = false
			}
		}
		if all {
			return "create:keyless-table-trailing-comma"
		}
	}
	return ""
}

func checkC16Create(x *X, c c16Case) error {
	if len(c.Versions) != 1 {
		return fmt.Errorf("HARNESS: create case needs one version")
	}
	m := &c.Versions[0]
	c16ModelClasses(x, m)
	key, _ := json.Marshal(c)
	if c16TieBreak(m) {
		x.NonTrivial(string(key))
		x.Class("nontrivial_depth2_tie")
	}
	x.Sample(c16Texts(m))
	res, err := c16Run(c)
	if err != nil {
		return err
	}
	if res == nil {
		x.Inconclusive("c16.run overran its time bound")
		return nil
	}
	probs, unknown, _ := c16JudgeCreate(m, res.Create[0])
	if len(unknown) > 0 {
		x.Inconclusive(fmt.Sprintf("DDL interpreter met a statement outside its subset: %q", unknown[0]))
		return nil
	}
	if len(probs) > 0 {
		msg := fmt.Sprintf("creation script is not a complete, ordered definition of the model: %s\n%s---- script\n%s", strings.Join(probs, "; "), c16Texts(m), res.Create[0])
		if sig := c16CreateSignature(m, probs); sig != "" {
			return finding(sig, "%s", msg)
		}
		return fmt.Errorf("%s", msg)
	}
	h := fnv.New32a()
	h.Write(key)
	if h.Sum32()%3 == 0 {
		return c16CLISeveralApps(x, m, res.Create[0])
	}
	return nil
}

// c16CLISeveralApps: the command (`sysl generate-db-scripts -a Other,M`) asked for two applications in one
// invocation must write, for M, byte for byte the script the library call gives for M alone, and for the
// other application a script holding its one table and nothing of M (differential: one-application call
// against the several-applications loop of cmd/sysl, which is package main and cannot be called in-process).
func c16CLISeveralApps(x *X, m *c16Model, want string) error {
	bin := os.Getenv("VERIF_SYSL")
	if bin == "" {
		return nil
	}
	dir, err := os.MkdirTemp("", "c16cli")
	if err != nil {
		x.Inconclusive("mkdtemp: " + err.Error())
		return nil
	}
	defer os.RemoveAll(dir)
	const other = "C16Other"
	for n, txt := range c16Render(m).Files {
		if n == "m.sysl" {
			txt += "\n" + other + ":\n    !table Zed:\n        zid <: int [~pk]\n"
		}
		fn := filepath.Join(dir, filepath.FromSlash(n))
		if err := os.MkdirAll(filepath.Dir(fn), 0o755); err == nil {
			err = os.WriteFile(fn, []byte(txt), 0o644)
		}
		if err != nil {
			x.Inconclusive("write: " + err.Error())
			return nil
		}
	}
	if err := os.MkdirAll(filepath.Join(dir, "out"), 0o755); err != nil {
		x.Inconclusive("mkdir: " + err.Error())
		return nil
	}
	cmd := exec.Command(bin, "generate-db-scripts", "-t", "t", "-o", "out", "-d", "postgres", "-a", other+","+c16App, "m.sysl")
	cmd.Dir = dir
	cmd.Env = append(os.Environ(), "SYSL_PLANTUML=http://localhost")
	o, err := cmd.CombinedOutput()
	if err != nil {
		return fmt.Errorf("sysl generate-db-scripts -a %s,%s failed: %v: %s\n%s", other, c16App, err, lastN(string(o), 400), c16Texts(m))
	}
	x.Class("cli_two_applications")
	got, err := os.ReadFile(filepath.Join(dir, "out", c16App+database.SQLExtension))
	if err != nil {
		return fmt.Errorf("sysl generate-db-scripts -a %s,%s wrote no script for %s: %v\n%s", other, c16App, c16App, err, c16Texts(m))
	}
	if string(got) != want {
		return fmt.Errorf("the script the command writes for %s when asked for two applications differs from the script for %s alone\n%s---- command\n%s\n---- alone\n%s", c16App, c16App, c16Texts(m), got, want)
	}
	og, err := os.ReadFile(filepath.Join(dir, "out", other+database.SQLExtension))
	if err != nil {
		return fmt.Errorf("sysl generate-db-scripts -a %s,%s wrote no script for %s: %v", other, c16App, other, err)
	}
	if n := strings.Count(string(og), "CREATE TABLE"); n != 1 || !strings.Contains(string(og), "CREATE TABLE Zed(") {
		return fmt.Errorf("script of %s (one table Zed) holds %d CREATE TABLE statements\n%s", other, n, og)
	}
	return nil
}

var c16Create = Define("C16", "create",
	"1-6 tables (thorough 1-8) over 1-3 files (root imports the others; order of appearance independent of the reference order, so forward and cross-file references occur), acyclic FK graphs of depth <=4 (5) to key, non-key and FK columns, simple/composite/absent keys, ~autoinc, int/date/string/string(n). Oracle: the creation script, executed by a strict interpreter of the emitted DDL subset with PostgreSQL's rules, is accepted; each table is created exactly once with exactly the declared columns, key and FKs; sized strings are varchar (n); an FK column has the referenced column's type; a table is created after every table it references; for one case in three the command `sysl generate-db-scripts -a Other,M` (a second one-table application appended) must write for M exactly the script of M alone and for Other exactly its one table. Non-trivial: FK depth >=2 with >=2 tables at one depth.",
	genC16Create, checkC16Create)

// ---------- sub-property 2: identity delta, differential delta, chains ----------

func genC16Delta(t *rapid.T) c16Case {
	o := c16Options()
	m, nfiles := c16GenModel(t, o)
	c := c16Case{Versions: []c16Model{*m}}
	steps := rapid.IntRange(1, 2).Draw(t, "steps")
	fresh := 0
	cur := m
	var hist []*c16Model
	for s := 0; s < steps; s++ {
		n, log := c16Edit(t, hist, cur, nfiles, o, &fresh)
		hist = append(hist, cur)
		c.Versions = append(c.Versions, *n)
		c.Edits = append(c.Edits, log)
		cur = n
	}
	return c
}

func c16Only(m *c16Model) map[string]bool {
	o := map[string]bool{}
	for _, t := range m.Tables {
		o[strings.ToLower(t.Name)] = true
	}
	return o
}

// c16DeltaSignature names the listed root causes precisely; anything else stays unsigned.
func c16DeltaSignature(old, new *c16Model, execErrs []string, diffs []c16Diff) string {
	if len(execErrs) > 0 {
		emptyPK := true
		for _, e := range execErrs {
			if !strings.Contains(e, "empty column in primary key") {
				emptyPK = false
			}
		}
		if emptyPK {
			for _, t := range new.Tables {
				if ot := old.table(t.Name); ot != nil && c16HasPK(ot) && !c16HasPK(new.table(t.Name)) {
					return "delta:primary-key-removed-emits-empty-key"
				}
			}
			return ""
		}
		// a column is dropped while a foreign key that the same script drops later (or that belongs to a
		// table the model no longer has) still references it
		blocked := map[string]bool{}
		for _, e := range execErrs {
			m := c16ReBlocked.FindStringSubmatch(e)
			if m == nil {
				return ""
			}
			ot := old.table(c16Unfold(old, m[1]))
			if ot == nil || new.table(ot.Name) == nil {
				return ""
			}
			oc := ot.col(c16UnfoldCol(ot, m[2]))
			if oc == nil || new.table(ot.Name).col(oc.Name) != nil || !old.colReferenced(ot.Name, oc.Name) {
				return ""
			}
			blocked[m[1]+"."+m[2]] = true
		}
		for _, d := range diffs {
			if d.What != "col-extra" || !blocked[d.Table+"."+d.Col] {
				return ""
			}
		}
		return "delta:referenced-column-dropped-before-its-foreign-key"
	}
	if len(diffs) == 0 {
		return ""
	}
	autoinc, retype, retarget := 0, 0, 0
	for _, d := range diffs {
		nt := new.table(c16Unfold(new, d.Table))
		if nt == nil {
			return ""
		}
		switch d.What {
		case "type":
			nc := nt.col(c16UnfoldCol(nt, d.Col))
			if nc == nil || nc.FkT == "" {
				return ""
			}
			root := c16RootCol(new, nt.Name, nc.Name)
			if root != nil && root.Autoinc && d.Got == "integer" && d.Want == "bigint" {
				autoinc++
				continue
			}
			// a retained reference whose (transitive) target changed type
			ot := old.table(nt.Name)
			if ot != nil {
				if oc := ot.col(nc.Name); oc != nil && oc.FkT == nc.FkT && oc.FkC == nc.FkC {
					retype++
					continue
				}
				if oc := ot.col(nc.Name); oc != nil && oc.FkT != "" {
					retarget++
					continue
				}
			}
			return ""
		case "fk":
			ot := old.table(nt.Name)
			if ot == nil {
				return ""
			}
			// a column that was a reference in the old version and is a reference to something else now
			found := false
			for _, nc := range nt.Cols {
				if oc := ot.col(nc.Name); oc != nil && oc.FkT != "" && nc.FkT != "" && (oc.FkT != nc.FkT || oc.FkC != nc.FkC) {
					found = true
				}
			}
			if !found {
				return ""
			}
			retarget++
		default:
			return ""
		}
	}
	switch {
	case autoinc > 0 && retype == 0 && retarget == 0:
		return "delta:fk-to-retained-autoinc-typed-integer"
	case retarget > 0 && autoinc == 0:
		return "delta:retargeted-reference-ignored"
	case retype > 0 && autoinc == 0 && retarget == 0:
		return "delta:retained-reference-not-retyped"
	}
	return ""
}

var c16ReBlocked = regexp.MustCompile(`^cannot drop column (\w+)\.(\w+): constraint `)

func c16Unfold(m *c16Model, lower string) string {
	for _, t := range m.Tables {
		if strings.ToLower(t.Name) == lower {
			return t.Name
		}
	}
	return lower
}

func c16UnfoldCol(t *c16Table, lower string) string {
	for _, c := range t.Cols {
		if strings.ToLower(c.Name) == lower {
			return c.Name
		}
	}
	return lower
}

func c16EditKinds(log []string) []string {
	set := map[string]bool{}
	for _, l := range log {
		set[strings.Fields(l)[0]] = true
	}
	var o []string
	for k := range set {
		o = append(o, k)
	}
	sort.Strings(o)
	return o
}

func checkC16Delta(x *X, c c16Case) error {
	if len(c.Versions) < 2 {
		return fmt.Errorf("HARNESS: delta case needs at least two versions")
	}
	for i := range c.Versions {
		c16ModelClasses(x, &c.Versions[i])
	}
	x.Class(fmt.Sprintf("chain_%d_versions", len(c.Versions)))
	keyEdit := false
	for _, log := range c.Edits {
		if len(log) == 0 {
			x.Class("edit_script_empty")
		}
		for _, k := range c16EditKinds(log) {
			x.Class("edit_" + k)
			switch k {
			case "togglepk", "addref", "addrefcol", "dropref", "addtable", "droptable":
				keyEdit = true
			}
		}
		for _, l := range log {
			if strings.HasPrefix(l, "dropcol ") {
				keyEdit = keyEdit || c16DroppedKeyOrRef(c, l)
			}
		}
	}
	key, _ := json.Marshal(c)
	if keyEdit || c16TieBreak(&c.Versions[0]) {
		x.NonTrivial(string(key))
	}
	if keyEdit {
		x.Class("nontrivial_key_or_reference_edit")
	}
	res, err := c16Run(c)
	if err != nil {
		return err
	}
	if res == nil {
		x.Inconclusive("c16.run overran its time bound")
		return nil
	}
	var run *c16Catalog
	describe := func(i int) string {
		var sb strings.Builder
		fmt.Fprintf(&sb, "==== v%d\n%s", i+1, c16Texts(&c.Versions[i]))
		return sb.String()
	}
	for i := range c.Versions {
		m := &c.Versions[i]
		// the baseline: creation script of this version
		probs, unknown, base := c16JudgeCreate(m, res.Create[i])
		if len(unknown) > 0 {
			x.Inconclusive(fmt.Sprintf("DDL interpreter met a statement outside its subset: %q", unknown[0]))
			return nil
		}
		if len(probs) > 0 {
			msg := fmt.Sprintf("creation script of v%d is not a complete, ordered definition of the model: %s\n%s---- script\n%s", i+1, strings.Join(probs, "; "), c16Texts(m), res.Create[i])
			if sig := c16CreateSignature(m, probs); sig != "" {
				return finding(sig, "%s", msg)
			}
			return fmt.Errorf("%s", msg)
		}
		// identity: delta(v,v) changes nothing
		id := base.Clone()
		id.Exec(res.Ident[i])
		if len(id.Unknown) > 0 {
			x.Inconclusive(fmt.Sprintf("DDL interpreter met a statement outside its subset: %q", id.Unknown[0]))
			return nil
		}
		if d := c16CompareCatalogs(id, base, nil); len(d) > 0 || len(id.Errs) > 0 {
			return fmt.Errorf("delta between identical versions changes the database: refused %v, differences %v\n%s---- delta(v%d,v%d)\n%s", id.Errs, d, describe(i), i+1, i+1, res.Ident[i])
		}
		x.Class("identity_delta_checked")
		if i == 0 {
			run = base.Clone()
			continue
		}
		// differential: create(old);delta(old,new) restricted to the tables of new == create(new)
		run.Errs = nil
		run.Exec(res.Delta[i-1])
		if len(run.Unknown) > 0 {
			x.Inconclusive(fmt.Sprintf("DDL interpreter met a statement outside its subset: %q", run.Unknown[0]))
			return nil
		}
		diffs := c16CompareCatalogs(run, base, c16Only(m))
		if len(run.Errs) > 0 || len(diffs) > 0 {
			var ds []string
			for _, d := range diffs {
				ds = append(ds, d.String())
			}
			msg := fmt.Sprintf("create(v%d) followed by delta(v%d,v%d) does not give the tables of v%d: refused %v; differences [%s]\nedits %v\n%s%s---- delta\n%s", i, i, i+1, i+1, run.Errs, strings.Join(ds, "; "), c.Edits[i-1], describe(i-1), describe(i), res.Delta[i-1])
			if sig := c16DeltaSignature(&c.Versions[i-1], m, run.Errs, diffs); sig != "" {
				return finding(sig, "%s", msg)
			}
			return fmt.Errorf("%s", msg)
		}
		x.Class("differential_delta_checked")
	}
	x.Sample(map[string]interface{}{"edits": c.Edits, "v1": c16Texts(&c.Versions[0]), "v2": c16Texts(&c.Versions[1]), "delta": res.Delta[0]})
	return nil
}

// c16DroppedKeyOrRef: the dropped column was part of a key or a reference in the version it was dropped from.
func c16DroppedKeyOrRef(c c16Case, logLine string) bool {
	f := strings.Fields(logLine)
	if len(f) != 2 {
		return false
	}
	parts := strings.SplitN(f[1], ".", 2)
	if len(parts) != 2 {
		return false
	}
	for i := range c.Versions {
		if t := c.Versions[i].table(parts[0]); t != nil {
			if col := t.col(parts[1]); col != nil && (col.PK || col.FkT != "") {
				return true
			}
		}
	}
	return false
}

var c16Delta = Define("C16", "delta",
	"A model as in 'create' plus 1-2 further versions, each obtained by 1-3 (thorough 1-5) random edits: add/drop/retype column, add/drop table, toggle a key column, add/drop reference on an existing column, drop+add (retarget) a reference, add a reference column (names of added tables/columns are never reused; dropped columns/tables are unreferenced; ~autoinc is fixed at column creation). Oracle, all through the DDL interpreter: for every version delta(v,v) leaves catalog(create(v)) unchanged; catalog(create(v1); delta(v1,v2); delta(v2,v3)) restricted to the tables of the newest version equals catalog(create(newest)) after every step (columns, types, auto-increment, key set, FK set); no statement is refused. Non-trivial: an edit touching a key or a reference, or FK depth >=2 with a depth tie.",
	genC16Delta, checkC16Delta)

func TestC16(t *testing.T) {
	checkKnown(t, "C16")
	// rapid refuses a *testing.T that has already failed: one sub-test per part
	t.Run("create", func(t *testing.T) { c16Create.Run(t, scale(500, 4000)) })
	t.Run("delta", func(t *testing.T) { c16Delta.Run(t, scale(500, 4000)) })
}
