package checks

// c10_val.go — value model shared by the C10 reference interpreter, the sandbox worker
// (conversion of *sysl.Value) and the comparison of expected against observed results.

import (
	"fmt"
	"sort"
	"strings"

	"github.com/anz-bank/sysl/pkg/sysl"
)

// c10Val is a kind-tagged value tree. It is the JSON form of both the expected value
// (computed by the reference interpreter; may carry order groups G) and the observed
// value (converted from *sysl.Value in the worker; never carries G).
//
//	K: "i" int, "s" string, "b" bool, "l" list, "t" set, "m" map/record,
//	   "nil" (Go nil *sysl.Value), "null" (Value_Null), "f" float, "?" anything else.
//
// G (expected lists only) has one entry per element: 0 = the element's position is
// determined by the language; equal non-zero neighbours form a group whose internal order
// derives from iterating a set and is therefore compared as a multiset.
type c10Val struct {
	K string             `json:"k"`
	I int64              `json:"i,omitempty"`
	S string             `json:"s,omitempty"`
	B bool               `json:"b,omitempty"`
	F float64            `json:"f,omitempty"`
	E []*c10Val          `json:"e,omitempty"`
	G []int              `json:"g,omitempty"`
	M map[string]*c10Val `json:"m,omitempty"`
}

func c10Int(i int64) *c10Val       { return &c10Val{K: "i", I: i} }
func c10Str(s string) *c10Val      { return &c10Val{K: "s", S: s} }
func c10Bool(b bool) *c10Val       { return &c10Val{K: "b", B: b} }
func c10List(e ...*c10Val) *c10Val { return &c10Val{K: "l", E: e} }
func c10Set(e ...*c10Val) *c10Val  { return &c10Val{K: "t", E: e} }
func c10Map() *c10Val              { return &c10Val{K: "m", M: map[string]*c10Val{}} }

// grp returns the group id of element i (0 when the list carries no groups).
func (v *c10Val) grp(i int) int {
	if i < len(v.G) {
		return v.G[i]
	}
	return 0
}

// String renders the value in a compact, order-preserving form (for messages, keys and
// set-element identity inside the reference interpreter).
func (v *c10Val) String() string {
	if v == nil {
		return "<nil>"
	}
	switch v.K {
	case "i":
		return fmt.Sprint(v.I)
	case "s":
		return fmt.Sprintf("%q", v.S)
	case "b":
		return fmt.Sprint(v.B)
	case "f":
		return fmt.Sprintf("float(%v)", v.F)
	case "l", "t":
		ps := make([]string, len(v.E))
		for i, e := range v.E {
			ps[i] = e.String()
			if v.grp(i) != 0 {
				ps[i] = "~" + ps[i]
			}
		}
		if v.K == "t" {
			return "{" + strings.Join(ps, ", ") + "}"
		}
		return "[" + strings.Join(ps, ", ") + "]"
	case "m":
		ks := make([]string, 0, len(v.M))
		for k := range v.M {
			ks = append(ks, k)
		}
		sort.Strings(ks)
		ps := make([]string, len(ks))
		for i, k := range ks {
			ps[i] = k + ": " + v.M[k].String()
		}
		return "(" + strings.Join(ps, ", ") + ")"
	case "nil":
		return "<nil>"
	case "null":
		return "null"
	}
	return "<" + v.K + " " + v.S + ">"
}

// ident is an order-insensitive identity string used for set membership in the reference
// interpreter (sets of scalars, of records and of collections).
func (v *c10Val) ident() string {
	switch v.K {
	case "t":
		ps := make([]string, len(v.E))
		for i, e := range v.E {
			ps[i] = e.ident()
		}
		sort.Strings(ps)
		return "{" + strings.Join(ps, ",") + "}"
	case "l":
		ps := make([]string, len(v.E))
		for i, e := range v.E {
			ps[i] = e.ident()
		}
		return "[" + strings.Join(ps, ",") + "]"
	case "m":
		ks := make([]string, 0, len(v.M))
		for k := range v.M {
			ks = append(ks, k)
		}
		sort.Strings(ks)
		ps := make([]string, len(ks))
		for i, k := range ks {
			ps[i] = k + ":" + v.M[k].ident()
		}
		return "(" + strings.Join(ps, ",") + ")"
	}
	return v.String()
}

// c10FromSysl converts an evaluation result into the tagged tree.
func c10FromSysl(v *sysl.Value) *c10Val {
	if v == nil {
		return &c10Val{K: "nil"}
	}
	switch x := v.Value.(type) {
	case *sysl.Value_I:
		return c10Int(x.I)
	case *sysl.Value_S:
		return c10Str(x.S)
	case *sysl.Value_B:
		return c10Bool(x.B)
	case *sysl.Value_D:
		return &c10Val{K: "f", F: x.D}
	case *sysl.Value_Null_:
		return &c10Val{K: "null"}
	case *sysl.Value_List_:
		out := &c10Val{K: "l", E: []*c10Val{}}
		for _, e := range x.List.GetValue() {
			out.E = append(out.E, c10FromSysl(e))
		}
		return out
	case *sysl.Value_Set:
		out := &c10Val{K: "t", E: []*c10Val{}}
		for _, e := range x.Set.GetValue() {
			out.E = append(out.E, c10FromSysl(e))
		}
		return out
	case *sysl.Value_Map_:
		out := c10Map()
		for k, e := range x.Map.GetItems() {
			out.M[k] = c10FromSysl(e)
		}
		return out
	}
	return &c10Val{K: "?", S: v.String()}
}

// c10ToSysl builds an argument value. Lists and sets are built by appending one element
// at a time, the way the evaluator itself builds collections.
func c10ToSysl(v *c10Val) *sysl.Value {
	switch v.K {
	case "i":
		return &sysl.Value{Value: &sysl.Value_I{I: v.I}}
	case "s":
		return &sysl.Value{Value: &sysl.Value_S{S: v.S}}
	case "b":
		return &sysl.Value{Value: &sysl.Value_B{B: v.B}}
	case "l":
		l := &sysl.Value_List{Value: []*sysl.Value{}}
		for _, e := range v.E {
			l.Value = append(l.Value, c10ToSysl(e))
		}
		return &sysl.Value{Value: &sysl.Value_List_{List: l}}
	case "t":
		l := &sysl.Value_List{Value: []*sysl.Value{}}
		for _, e := range v.E {
			l.Value = append(l.Value, c10ToSysl(e))
		}
		return &sysl.Value{Value: &sysl.Value_Set{Set: l}}
	case "m":
		m := &sysl.Value_Map{Items: map[string]*sysl.Value{}}
		for k, e := range v.M {
			m.Items[k] = c10ToSysl(e)
		}
		return &sysl.Value{Value: &sysl.Value_Map_{Map: m}}
	}
	panic("c10ToSysl: unsupported argument kind " + v.K)
}

// c10Cmp compares an expected value with an observed one. It returns "" when they agree,
// else a description of the first difference (path-qualified).
//   - lists: same length; ungrouped positions pairwise; each group as a multiset
//   - sets: as multisets — an observed set holding an element twice differs from the
//     expected (duplicate-free) set
//   - maps: same key set, values pairwise
func c10Cmp(path string, want, got *c10Val) string {
	if want == nil || got == nil {
		if want == got {
			return ""
		}
		return fmt.Sprintf("%s: want %s got %s", path, want, got)
	}
	if want.K != got.K {
		return fmt.Sprintf("%s: want %s got %s", path, want, got)
	}
	switch want.K {
	case "i":
		if want.I != got.I {
			return fmt.Sprintf("%s: want %d got %d", path, want.I, got.I)
		}
	case "s":
		if want.S != got.S {
			return fmt.Sprintf("%s: want %q got %q", path, want.S, got.S)
		}
	case "b":
		if want.B != got.B {
			return fmt.Sprintf("%s: want %v got %v", path, want.B, got.B)
		}
	case "f":
		if want.F != got.F {
			return fmt.Sprintf("%s: want %v got %v", path, want.F, got.F)
		}
	case "l":
		if len(want.E) != len(got.E) {
			return fmt.Sprintf("%s: want %s got %s (length %d vs %d)", path, want, got, len(want.E), len(got.E))
		}
		for i := 0; i < len(want.E); {
			g := want.grp(i)
			if g == 0 {
				if d := c10Cmp(fmt.Sprintf("%s[%d]", path, i), want.E[i], got.E[i]); d != "" {
					return d + fmt.Sprintf(" (whole list: want %s got %s)", want, got)
				}
				i++
				continue
			}
			j := i
			for j < len(want.E) && want.grp(j) == g {
				j++
			}
			if !c10MultisetEq(want.E[i:j], got.E[i:j]) {
				return fmt.Sprintf("%s[%d:%d]: want (any order) %s got %s", path, i, j, want, got)
			}
			i = j
		}
	case "t":
		if len(want.E) != len(got.E) || !c10MultisetEq(want.E, got.E) {
			return fmt.Sprintf("%s: want set %s got %s", path, want, got)
		}
	case "m":
		for k, w := range want.M {
			g, ok := got.M[k]
			if !ok {
				return fmt.Sprintf("%s.%s: missing (want %s); got %s", path, k, w, got)
			}
			if d := c10Cmp(path+"."+k, w, g); d != "" {
				return d
			}
		}
		for k := range got.M {
			if _, ok := want.M[k]; !ok {
				return fmt.Sprintf("%s.%s: unexpected key (value %s)", path, k, got.M[k])
			}
		}
	case "nil", "null":
	default:
		if want.S != got.S {
			return fmt.Sprintf("%s: want %s got %s", path, want, got)
		}
	}
	return ""
}

// c10MultisetEq finds a perfect matching between expected and observed elements
// (backtracking; collections here have at most a few dozen elements).
func c10MultisetEq(want, got []*c10Val) bool {
	if len(want) != len(got) {
		return false
	}
	used := make([]bool, len(got))
	var rec func(i int) bool
	rec = func(i int) bool {
		if i == len(want) {
			return true
		}
		for j := range got {
			if used[j] || c10Cmp("", want[i], got[j]) != "" {
				continue
			}
			used[j] = true
			if rec(i + 1) {
				return true
			}
			used[j] = false
		}
		return false
	}
	return rec(0)
}
