package checks

import (
	"pgregory.net/rapid"
)

// SplitIntent returns an intent in which every app is split into blocks: one header (attrs, long name,
// mixins, annotations) and k member blocks in shuffled order. Blocks are separate *App entries with the same name.
func SplitIntent(t *rapid.T, in *Intent) *Intent {
	out := &Intent{}
	for _, a := range in.Apps {
		type member struct {
			td   *TypeDecl
			ep   *Endpoint
			rest *RestNode
		}
		var ms []member
		for _, td := range a.Types {
			ms = append(ms, member{td: td})
		}
		for _, ep := range a.Eps {
			ms = append(ms, member{ep: ep})
		}
		for _, r := range a.Rest {
			ms = append(ms, member{rest: r})
		}
		if len(ms) < 2 {
			out.Apps = append(out.Apps, a)
			continue
		}
		k := rapid.IntRange(1, len(ms)).Draw(t, "nblocks")
		blocks := make([]*App, k)
		for i := range blocks {
			blocks[i] = &App{Name: a.Name}
		}
		for _, m := range ms {
			b := blocks[rapid.IntRange(0, k-1).Draw(t, "blockof")]
			switch {
			case m.td != nil:
				b.Types = append(b.Types, m.td)
			case m.ep != nil:
				b.Eps = append(b.Eps, m.ep)
			default:
				b.Rest = append(b.Rest, m.rest)
			}
		}
		// header carries attrs; placed at a random position among blocks
		header := &App{Name: a.Name, Long: a.Long, Meta: a.Meta, Mixins: a.Mixins}
		var nonEmpty []*App
		for _, b := range blocks {
			if len(b.Types)+len(b.Eps)+len(b.Rest) > 0 {
				nonEmpty = append(nonEmpty, b)
			}
		}
		// header must have a body: give it the first non-empty block's content
		if len(nonEmpty) > 0 {
			header.Types, header.Eps, header.Rest = nonEmpty[0].Types, nonEmpty[0].Eps, nonEmpty[0].Rest
			nonEmpty = nonEmpty[1:]
		}
		all := append([]*App{header}, nonEmpty...)
		perm := rapid.Permutation(all).Draw(t, "blockorder")
		out.Apps = append(out.Apps, perm...)
	}
	// interleave blocks of different apps
	out.Apps = rapid.Permutation(out.Apps).Draw(t, "allorder")
	return out
}
