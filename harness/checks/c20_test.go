package checks

import (
	"bytes"
	"context"
	"fmt"
	"os"
	"os/exec"
	"path/filepath"
	"regexp"
	"sort"
	"strings"
	"sync"
	"testing"
	"time"

	"pgregory.net/rapid"
)

// C20 — every command ends with output or an error on every valid model.
// The `sysl` binary built from the working tree is run as a subprocess.

type c20Case struct {
	Files   map[string]string `json:"files"`
	Args    []string          `json:"args"`
	Cmd     string            `json:"cmd"` // command label for classes / signatures
	Classes []string          `json:"classes"`
}

// ---------- untidy-but-valid model generator ----------

type c20Gen struct {
	t     *rapid.T
	apps  []string
	types map[string][]string // app -> type names
	tabs  map[string][]string // app -> table names
	eps   map[string][]string // app -> endpoint names
	cl    map[string]bool
	curEp string              // "App <- Ep" whose body is being generated
	calls map[string][]string // call edges between endpoints ("App <- Ep" -> "App <- Ep")
}

var c20Apps = []string{"Alpha", "Beta", "Gamma", "Delta", "Ns :: Eps", "Zeta"}
var c20Types = []string{"Item", "Order", "User", "Addr", "Line"}
var c20Tabs = []string{"Cust", "Acct", "Txn", "Ledger"}
var c20Eps = []string{"Get", "Put", "Login", "Check Out", "List"}
var c20Prims = []string{"int", "string", "bool", "float", "decimal(8.2)", "string(20)", "date", "datetime", "int64", "bytes", "any"}

func (g *c20Gen) p(pct int, label string) bool { return rapid.IntRange(0, 99).Draw(g.t, label) < pct }

func (g *c20Gen) typeRef(cur string) string {
	switch rapid.IntRange(0, 9).Draw(g.t, "refkind") {
	case 0:
		g.cl["dangling_type_ref"] = true
		return pick(g.t, []string{"Missing", "Nope.Gone", cur + ".Missing", "Ghost.Type.deep"}, "dangling")
	case 1:
		g.cl["one_segment_ref"] = true
		return pick(g.t, append([]string{"Item", "Cust"}, g.types[cur]...), "oneseg")
	case 2, 3:
		a := pick(g.t, g.apps, "refapp")
		if ts := g.types[a]; len(ts) > 0 {
			if a != cur {
				g.cl["cross_app_ref"] = true
			}
			return a + "." + pick(g.t, ts, "reftype")
		}
		return "int"
	case 4:
		if ts := g.types[cur]; len(ts) > 0 {
			return pick(g.t, ts, "localtype")
		}
		return "string"
	default:
		return pick(g.t, c20Prims, "prim")
	}
}

func (g *c20Gen) field(cur string) string {
	r := g.typeRef(cur)
	switch rapid.IntRange(0, 5).Draw(g.t, "wrap") {
	case 0:
		r = "set of " + r
	case 1:
		r = "sequence of " + r
	}
	if g.p(25, "opt") {
		r += "?"
	}
	return r
}

func (g *c20Gen) stmts(sb *strings.Builder, cur string, ind string, depth int) {
	n := rapid.IntRange(1, 4).Draw(g.t, "nstmts")
	for i := 0; i < n; i++ {
		k := rapid.IntRange(0, 11).Draw(g.t, "stmt")
		if depth >= 3 && k >= 8 {
			k -= 8
		}
		switch k {
		case 0, 1, 2:
			a := pick(g.t, g.apps, "callapp")
			eps := g.eps[a]
			switch {
			case g.curEp != "" && strings.HasPrefix(g.curEp, cur+" <- ") && g.p(12, "selfcall"):
				// an endpoint that calls itself
				me := strings.TrimPrefix(g.curEp, cur+" <- ")
				g.cl["self_recursive_endpoint"] = true
				g.calls[g.curEp] = append(g.calls[g.curEp], g.curEp)
				fmt.Fprintf(sb, "%s. <- %s\n", ind, me)
			case g.p(15, "danglingapp"):
				g.cl["dangling_call_app"] = true
				fmt.Fprintf(sb, "%s%s <- %s\n", ind, pick(g.t, []string{"Nowhere", "Ns :: Lost", "Alpha2"}, "noapp"), pick(g.t, c20Eps, "noappep"))
			case g.p(15, "danglingep") || len(eps) == 0:
				g.cl["dangling_call_ep"] = true
				fmt.Fprintf(sb, "%s%s <- %s\n", ind, a, pick(g.t, []string{"Vanished", "GET /nope", "No Such Ep"}, "noep"))
			default:
				if a == cur {
					g.cl["call_own_app"] = true
				}
				tgt := a
				if a == cur && g.p(50, "dot") {
					tgt = "."
				}
				ce := pick(g.t, eps, "callep")
				if g.calls != nil && g.curEp != "" {
					g.calls[g.curEp] = append(g.calls[g.curEp], a+" <- "+ce)
				}
				fmt.Fprintf(sb, "%s%s <- %s\n", ind, tgt, ce)
			}
		case 3:
			fmt.Fprintf(sb, "%sreturn %s\n", ind, pick(g.t, []string{"ok", "error", "ok <: " + g.typeRef(cur), "200 <: sequence of " + g.typeRef(cur), "error <: string", "ok <: set of " + g.typeRef(cur), "404"}, "ret"))
		case 4, 5:
			fmt.Fprintf(sb, "%s%s\n", ind, pick(g.t, []string{"do work", "\"quoted action\"", "validate input [~tag]", "| doc line"}, "action"))
		case 6:
			fmt.Fprintf(sb, "%s...\n", ind)
		case 7:
			fmt.Fprintf(sb, "%s%s <- %s\n", ind, pick(g.t, g.apps, "restapp"), pick(g.t, []string{"GET /items/{id}", "POST /items", "DELETE /x"}, "restcall"))
		case 8:
			fmt.Fprintf(sb, "%sif cond:\n", ind)
			g.stmts(sb, cur, ind+"    ", depth+1)
			if g.p(50, "else") {
				fmt.Fprintf(sb, "%selse:\n", ind)
				g.stmts(sb, cur, ind+"    ", depth+1)
			}
		case 9:
			fmt.Fprintf(sb, "%s%s:\n", ind, pick(g.t, []string{"for each x in xs", "loop n times", "while busy", "until done", "alt maybe", "for i"}, "loop"))
			g.stmts(sb, cur, ind+"    ", depth+1)
		case 10:
			fmt.Fprintf(sb, "%sone of:\n", ind)
			for c := 0; c < rapid.IntRange(1, 2).Draw(g.t, "ncases"); c++ {
				fmt.Fprintf(sb, "%s    case %d:\n", ind, c)
				g.stmts(sb, cur, ind+"        ", depth+2)
			}
		default:
			fmt.Fprintf(sb, "%sgrp label:\n", ind)
			g.stmts(sb, cur, ind+"    ", depth+1)
		}
	}
}

func genC20Model(t *rapid.T) (string, map[string]bool, *c20Gen) {
	g := &c20Gen{t: t, types: map[string][]string{}, tabs: map[string][]string{}, eps: map[string][]string{}, cl: map[string]bool{}, calls: map[string][]string{}}
	na := rapid.IntRange(1, 4).Draw(t, "napps")
	for i := 0; i < na; i++ {
		g.apps = append(g.apps, c20Apps[(i+rapid.IntRange(0, 2).Draw(t, "appshift"))%len(c20Apps)])
	}
	g.apps = uniq(g.apps)
	// names first, so references and calls can point anywhere (cycles included)
	for _, a := range g.apps {
		for i := 0; i < rapid.IntRange(0, 3).Draw(t, "ntypes"); i++ {
			g.types[a] = append(g.types[a], pick(t, c20Types, "tname"))
		}
		g.types[a] = uniq(g.types[a])
		for i := 0; i < rapid.IntRange(0, 3).Draw(t, "ntabs"); i++ {
			g.tabs[a] = append(g.tabs[a], pick(t, c20Tabs, "tabname"))
		}
		g.tabs[a] = uniq(g.tabs[a])
		for i := 0; i < rapid.IntRange(0, 3).Draw(t, "neps"); i++ {
			g.eps[a] = append(g.eps[a], pick(t, c20Eps, "epname"))
		}
		g.eps[a] = uniq(g.eps[a])
	}
	var sb strings.Builder
	for _, a := range g.apps {
		hdr := a
		if g.p(30, "apptags") {
			hdr += pick(t, []string{" [~db]", " [~human]", " [~ignore]", " [~external, owner=\"x\"]"}, "apptag")
		}
		fmt.Fprintf(&sb, "%s:\n", hdr)
		body := false
		for _, tn := range g.types[a] {
			body = true
			switch rapid.IntRange(0, 7).Draw(t, "tkind") {
			case 0:
				fmt.Fprintf(&sb, "    !enum %s:\n        A: 1\n        B: 2\n", tn)
			case 1:
				fmt.Fprintf(&sb, "    !alias %s:\n        %s\n", tn, g.field(a))
			case 2:
				fmt.Fprintf(&sb, "    !union %s:\n        %s\n        %s\n", tn, g.typeRef(a), pick(t, c20Prims[:4], "uprim"))
			default:
				fmt.Fprintf(&sb, "    !type %s:\n", tn)
				nf := rapid.IntRange(0, 4).Draw(t, "nfields")
				if nf == 0 {
					g.cl["empty_type"] = true
					fmt.Fprintf(&sb, "        ...\n")
				}
				for f := 0; f < nf; f++ {
					if g.p(15, "selfref") {
						g.cl["recursive_type"] = true
						fmt.Fprintf(&sb, "        f%d <: %s\n", f, pick(t, []string{tn, a + "." + tn, "sequence of " + tn}, "selfrefform"))
					} else {
						fmt.Fprintf(&sb, "        f%d <: %s\n", f, g.field(a))
					}
				}
			}
		}
		for _, tn := range g.tabs[a] {
			body = true
			fmt.Fprintf(&sb, "    !table %s:\n        id <: int [~pk%s]\n", tn, pick(t, []string{"", ", ~autoinc"}, "autoinc"))
			for f := 0; f < rapid.IntRange(0, 3).Draw(t, "ncols"); f++ {
				if g.p(45, "fk") {
					other := pick(t, g.tabs[a], "fktab")
					if other == tn {
						g.cl["fk_self"] = true
					}
					g.cl["fk"] = true
					fmt.Fprintf(&sb, "        c%d <: %s.id\n", f, other)
				} else if g.p(10, "fkdangling") {
					g.cl["fk_dangling"] = true
					fmt.Fprintf(&sb, "        c%d <: Nowhere.id\n", f)
				} else {
					fmt.Fprintf(&sb, "        c%d <: %s\n", f, pick(t, c20Prims, "colprim"))
				}
			}
		}
		for _, en := range g.eps[a] {
			body = true
			params := ""
			if g.p(30, "params") {
				params = " (p <: " + g.field(a) + ")"
			}
			if g.p(20, "ephidden") {
				g.cl["hidden_endpoint"] = true
				params += " [~hidden]"
			}
			if g.p(12, "epshort") {
				fmt.Fprintf(&sb, "    %s%s: ...\n", en, params)
				continue
			}
			fmt.Fprintf(&sb, "    %s%s:\n", en, params)
			g.curEp = a + " <- " + en
			g.stmts(&sb, a, "        ", 0)
			g.curEp = ""
		}
		if g.p(50, "rest") {
			body = true
			fmt.Fprintf(&sb, "    /items:\n        GET ?q=string&n=int?:\n            return 200 <: %s\n", g.field(a))
			if g.p(60, "restnested") {
				fmt.Fprintf(&sb, "        /{id<:int}:\n            %s (b <: %s [~body]):\n", pick(t, []string{"POST", "PUT", "PATCH", "DELETE"}, "verb"), g.typeRef(a))
				g.stmts(&sb, a, "                ", 1)
			}
			g.eps[a] = append(g.eps[a], "GET /items")
		}
		if !body {
			g.cl["empty_app"] = true
			fmt.Fprintf(&sb, "    ...\n")
		}
		sb.WriteString("\n")
	}
	// project pseudo-app for sd / ints / datamodel
	fmt.Fprintf(&sb, "Proj [appfmt=\"%%(appname)\", epfmt=\"%%(epname)\"]:\n")
	fmt.Fprintf(&sb, "    Seq:\n")
	nseq := 0
	for _, a := range g.apps {
		for _, e := range g.eps[a] {
			if g.p(50, "seqstart") {
				fmt.Fprintf(&sb, "        %s <- %s\n", a, e)
				nseq++
			}
		}
	}
	if nseq == 0 {
		fmt.Fprintf(&sb, "        ...\n")
	}
	for v := 0; v < 2; v++ {
		attrs := ""
		switch rapid.IntRange(0, 4).Draw(t, "intsattrs") {
		case 1:
			attrs = fmt.Sprintf(" [exclude=[\"%s\"]]", pick(t, g.apps, "excl"))
		case 2:
			g.cl["passthrough"] = true
			attrs = fmt.Sprintf(" [passthrough=[\"%s\"]]", pick(t, g.apps, "pass"))
		case 3, 4:
			g.cl["passthrough"] = true
			attrs = fmt.Sprintf(" [passthrough=[\"%s\", \"%s\"]]", pick(t, g.apps, "pass1"), pick(t, g.apps, "pass2"))
		}
		fmt.Fprintf(&sb, "    Ints%d%s:\n", v, attrs)
		k := 0
		for _, a := range g.apps {
			if g.p(70, "listed") {
				fmt.Fprintf(&sb, "        %s\n", a)
				k++
			}
		}
		if g.p(10, "listdangling") {
			g.cl["project_lists_missing_app"] = true
			fmt.Fprintf(&sb, "        NotAnApp\n")
			k++
		}
		if k == 0 {
			fmt.Fprintf(&sb, "        ...\n")
		}
	}
	return sb.String(), g.cl, g
}

func uniq(xs []string) []string {
	seen := map[string]bool{}
	var out []string
	for _, x := range xs {
		if !seen[x] {
			seen[x] = true
			out = append(out, x)
		}
	}
	return out
}

// ---------- command matrix ----------

type c20Cmd struct {
	label string
	args  func(g *c20Gen, t *rapid.T) []string
}

func c20AppArg(g *c20Gen, t *rapid.T) string {
	return strings.ReplaceAll(pick(t, g.apps, "cmdapp"), " :: ", " :: ")
}

var c20Cmds = []c20Cmd{
	{"pb-textpb", func(g *c20Gen, t *rapid.T) []string { return []string{"pb", "--mode", "textpb", "m.sysl"} }},
	{"pb-json", func(g *c20Gen, t *rapid.T) []string { return []string{"pb", "--mode", "json", "m.sysl"} }},
	{"pb-json-compact", func(g *c20Gen, t *rapid.T) []string { return []string{"pb", "--mode", "json", "--compact", "m.sysl"} }},
	{"pb-binary", func(g *c20Gen, t *rapid.T) []string { return []string{"pb", "--mode", "pb", "-o", "out.pb", "m.sysl"} }},
	{"validate", func(g *c20Gen, t *rapid.T) []string { return []string{"validate", "m.sysl"} }},
	{"sd-endpoint", func(g *c20Gen, t *rapid.T) []string {
		args := []string{"sd"}
		// endpoints on a call cycle of length 1 or 2: listing every member of a cycle as a start is
		// the interesting case (each start is a "see below" cut for the others)
		var cyc [][]string
		for from, tos := range g.calls {
			for _, to := range tos {
				if to == from {
					cyc = append(cyc, []string{from})
				}
				for _, back := range g.calls[to] {
					if back == from && to != from {
						cyc = append(cyc, []string{from, to})
					}
				}
			}
		}
		sort.Slice(cyc, func(i, j int) bool { return strings.Join(cyc[i], "|") < strings.Join(cyc[j], "|") })
		if len(cyc) > 0 && rapid.IntRange(0, 3).Draw(t, "sdcyclestarts") != 0 {
			c := cyc[rapid.IntRange(0, len(cyc)-1).Draw(t, "sdcycle")]
			if len(c) == 1 || rapid.Bool().Draw(t, "sdleadin") {
				a := pick(t, g.apps, "sdleadapp")
				if len(g.eps[a]) > 0 {
					args = append(args, "-s", a+" <- "+pick(t, g.eps[a], "sdleadep"))
				}
			}
			for _, m := range c {
				args = append(args, "-s", m)
			}
			g.cl["sd_starts_cover_a_call_cycle"] = true
			return append(append(args, "-o", "sd.puml"), "m.sysl")
		}
		// 1-3 start endpoints in one diagram
		for k := 0; k < rapid.IntRange(1, 3).Draw(t, "nsdstarts"); k++ {
			a := pick(t, g.apps, "sdapp")
			e := "Get"
			if len(g.eps[a]) > 0 {
				e = pick(t, g.eps[a], "sdep")
			}
			args = append(args, "-s", a+" <- "+e)
		}
		args = append(args, "-o", "sd.puml")
		if rapid.Bool().Draw(t, "blackbox") {
			args = append(args, "-b", pick(t, g.apps, "bbapp")+" <- "+pick(t, c20Eps, "bbep")+",note")
		}
		if rapid.Bool().Draw(t, "groupby") {
			args = append(args, "-g", "owner")
		}
		return append(args, "m.sysl")
	}},
	{"sd-project", func(g *c20Gen, t *rapid.T) []string {
		return []string{"sd", "-a", "Proj", "-o", "%(epname).puml", "m.sysl"}
	}},
	{"ints", func(g *c20Gen, t *rapid.T) []string {
		return []string{"ints", "-j", "Proj", "-o", "%(epname).puml", "m.sysl"}
	}},
	{"ints-clustered", func(g *c20Gen, t *rapid.T) []string {
		return []string{"ints", "-j", "Proj", "--clustered", "-o", "%(epname).puml", "m.sysl"}
	}},
	{"ints-epa", func(g *c20Gen, t *rapid.T) []string {
		return []string{"ints", "-j", "Proj", "--epa", "-o", "%(epname).puml", "m.sysl"}
	}},
	{"ints-exclude", func(g *c20Gen, t *rapid.T) []string {
		return []string{"ints", "-j", "Proj", "-e", pick(t, g.apps, "cliexcl"), "-o", "%(epname).puml", "m.sysl"}
	}},
	{"datamodel-direct", func(g *c20Gen, t *rapid.T) []string { return []string{"datamodel", "-d", "-o", "dm.puml", "m.sysl"} }},
	{"datamodel-project", func(g *c20Gen, t *rapid.T) []string {
		return []string{"datamodel", "-j", "Proj", "-o", "%(epname).puml", "m.sysl"}
	}},
	{"export-openapi3-yaml", func(g *c20Gen, t *rapid.T) []string {
		return []string{"export", "-f", "openapi3", "-a", c20AppArg(g, t), "-o", "o.yaml", "m.sysl"}
	}},
	{"export-openapi3-json", func(g *c20Gen, t *rapid.T) []string {
		return []string{"export", "-f", "openapi3", "-a", c20AppArg(g, t), "-o", "o.json", "m.sysl"}
	}},
	{"export-swagger-yaml", func(g *c20Gen, t *rapid.T) []string {
		return []string{"export", "-f", "swagger", "-a", c20AppArg(g, t), "-o", "s.yaml", "m.sysl"}
	}},
	{"export-swagger-json", func(g *c20Gen, t *rapid.T) []string {
		return []string{"export", "-f", "swagger", "-a", c20AppArg(g, t), "-o", "s.json", "m.sysl"}
	}},
	{"export-spanner", func(g *c20Gen, t *rapid.T) []string {
		return []string{"export", "-f", "spanner", "-a", c20AppArg(g, t), "-o", "s.sql", "m.sysl"}
	}},
	{"export-proto", func(g *c20Gen, t *rapid.T) []string {
		return []string{"export", "-f", "proto", "-a", c20AppArg(g, t), "-o", "p.proto", "m.sysl"}
	}},
	{"diagram-integration", func(g *c20Gen, t *rapid.T) []string {
		args := []string{"diagram", "-i"}
		if rapid.Bool().Draw(t, "diagapp") {
			args = append(args, "-a", c20AppArg(g, t))
		}
		return append(args, "-o", "d.svg", "m.sysl")
	}},
	{"diagram-sequence", func(g *c20Gen, t *rapid.T) []string {
		a := pick(t, g.apps, "diagsdapp")
		e := "Get"
		if len(g.eps[a]) > 0 {
			e = pick(t, g.eps[a], "diagsdep")
		}
		return []string{"diagram", "-s", "-a", a, "-e", e, "-o", "d.svg", "m.sysl"}
	}},
	{"diagram-data", func(g *c20Gen, t *rapid.T) []string {
		args := []string{"diagram", "-d"}
		if rapid.Bool().Draw(t, "diagapp") {
			args = append(args, "-a", c20AppArg(g, t))
		}
		return append(args, "-o", "d.svg", "m.sysl")
	}},
	// import of generated foreign specifications (documents drawn by C11's generators); args filled in by genC20
	{"import-openapi2", nil},
	{"import-openapi3", nil},
	{"import-xsd", nil},
	{"import-sql", nil},
	{"db-scripts", func(g *c20Gen, t *rapid.T) []string {
		return []string{"generate-db-scripts", "-a", c20AppArg(g, t), "-d", "postgres", "-o", "dbout", "-t", "T", "m.sysl"}
	}},
	{"db-scripts-delta", func(g *c20Gen, t *rapid.T) []string {
		return []string{"generate-db-scripts-delta", "-a", c20AppArg(g, t), "-d", "postgres", "-o", "dbout", "-t", "T", "m.sysl", "m2.sysl"}
	}},
}

var c20SdEndpointIndex = func() int {
	for i, c := range c20Cmds {
		if c.label == "sd-endpoint" {
			return i
		}
	}
	return 0
}()

func genC20(t *rapid.T) c20Case {
	text, cl, g := genC20Model(t)
	// sd with several start endpoints has the largest option space: it gets three slots
	ci := rapid.IntRange(0, len(c20Cmds)+1).Draw(t, "cmd")
	if ci >= len(c20Cmds) {
		ci = c20SdEndpointIndex
	}
	cmd := c20Cmds[ci]
	c := c20Case{Files: map[string]string{"m.sysl": text}, Cmd: cmd.label}
	if strings.HasPrefix(cmd.label, "import-") {
		var fc c11Case
		switch cmd.label {
		case "import-openapi2":
			fc = c11GenOAS(2)(t)
		case "import-openapi3":
			fc = c11GenOAS(3)(t)
		case "import-xsd":
			fc = c11GenXSDCase(t)
		default:
			fc = c11GenSQLCase(t)
		}
		name := "doc" + filepath.Ext(fc.Path)
		c.Files = map[string]string{name: fc.Content}
		c.Args = []string{"import", "--input", name, "-a", "TestApp", "-p", "pkg", "-o", "out.sysl"}
		if fc.FormatID != "" {
			c.Args = append(c.Args, "-f", fc.FormatID)
		}
		c.Classes = append([]string{"foreign_document"}, fc.Classes...)
		sort.Strings(c.Classes)
		return c
	}
	c.Args = cmd.args(g, t)
	if cmd.label == "db-scripts-delta" {
		if rapid.Bool().Draw(t, "samemodel") {
			c.Files["m2.sysl"] = text
			cl["delta_identical"] = true
		} else {
			t2, _, _ := genC20Model(t)
			c.Files["m2.sysl"] = t2
		}
	}
	// A third of the models is spread over files: the generated text is the root of an import closure with a
	// diamond, a cycle back to an imported file, a file imported twice and files met only late.
	if rapid.IntRange(0, 2).Draw(t, "multifile") == 0 {
		cl["model_in_several_files"] = true
		order := [][]string{{"aux/a", "aux/b"}, {"aux/b", "aux/a"}}[rapid.IntRange(0, 1).Draw(t, "rootimports")]
		c.Files["m.sysl"] = "import " + order[0] + "\nimport " + order[1] + "\n\n" + c.Files["m.sysl"]
		c.Files["aux/a.sysl"] = "import b\nimport c\n\nAuxA:\n    !type T:\n        id <: int\n    Ep:\n        AuxB <- Ep\n"
		c.Files["aux/b.sysl"] = "import c\nimport /aux/a\nimport d\n\nAuxB:\n    Ep:\n        AuxD <- Ep\n"
		c.Files["aux/c.sysl"] = "import a\nimport d\nimport e\n\nAuxC:\n    !type T:\n        a <: AuxA.T\n"
		c.Files["aux/d.sysl"] = "import e\n\nAuxD:\n    Ep: ...\n"
		c.Files["aux/e.sysl"] = "AuxE:\n    Ep: ...\n"
	}
	// global options (well-formed; they change how the model is loaded, not what the command does)
	switch rapid.IntRange(0, 7).Draw(t, "globalopt") {
	case 0:
		c.Args = append([]string{"--no-different-version-check"}, c.Args...)
		cl["opt_no_different_version_check"] = true
	case 1:
		c.Args = append([]string{fmt.Sprintf("--max-import-depth=%d", rapid.IntRange(0, 3).Draw(t, "maxdepth"))}, c.Args...)
		cl["opt_max_import_depth"] = true
	case 2:
		c.Args = append([]string{"--no-forced-fetch", "--log=debug"}, c.Args...)
		cl["opt_no_forced_fetch_debug_log"] = true
	case 3:
		c.Args = append([]string{"--root=."}, c.Args...)
		cl["opt_root"] = true
	}
	for k := range cl {
		c.Classes = append(c.Classes, k)
	}
	sort.Strings(c.Classes)
	return c
}

// ---------- oracle ----------

var (
	c20HangMu sync.Mutex
	c20Hangs  = map[string]bool{}
)

var c20CrashRe = regexp.MustCompile(`(?m)^(panic: .*|fatal error: .*|goroutine \d+ \[.*)$`)

type c20Run struct {
	rc       int
	timedOut bool
	stdout   string
	stderr   string
	outFiles int
}

func c20Exec(c c20Case, timeout time.Duration) (*c20Run, error) {
	sysl := os.Getenv("VERIF_SYSL")
	if sysl == "" {
		sysl = filepath.Join(cfg.Root, ".bin", "sysl")
	}
	dir, err := os.MkdirTemp("", "c20-")
	if err != nil {
		return nil, err
	}
	defer os.RemoveAll(dir)
	for n, s := range c.Files {
		_ = os.MkdirAll(filepath.Dir(filepath.Join(dir, n)), 0o755)
		if err := os.WriteFile(filepath.Join(dir, n), []byte(s), 0o644); err != nil {
			return nil, err
		}
	}
	_ = os.Mkdir(filepath.Join(dir, "dbout"), 0o755)
	before, _ := os.ReadDir(dir)
	ctx, cancel := context.WithTimeout(context.Background(), timeout)
	defer cancel()
	// an address-space limit turns a runaway (unbounded recursion that grows the heap, not the stack)
	// into a prompt 'fatal error: out of memory' instead of a machine-wide slowdown
	shArgs := append([]string{"-c", `ulimit -v 6000000; exec "$0" "$@"`, sysl}, c.Args...)
	cmd := exec.CommandContext(ctx, "/bin/sh", shArgs...)
	cmd.Dir = dir
	cmd.Env = append(os.Environ(), "GOTRACEBACK=all", "SYSL_PLANTUML=http://localhost:1", "GOMAXPROCS=2")
	var so, se bytes.Buffer
	cmd.Stdout, cmd.Stderr = &so, &se
	err = cmd.Run()
	r := &c20Run{stdout: so.String(), stderr: se.String()}
	if ctx.Err() == context.DeadlineExceeded {
		r.timedOut = true
		return r, nil
	}
	if err != nil {
		if ee, ok := err.(*exec.ExitError); ok {
			r.rc = ee.ExitCode()
		} else {
			return nil, err
		}
	}
	after, _ := os.ReadDir(dir)
	r.outFiles = len(after) - len(before)
	if des, err := os.ReadDir(filepath.Join(dir, "dbout")); err == nil {
		r.outFiles += len(des)
	}
	return r, nil
}

func checkC20(x *X, c c20Case) error {
	for _, cl := range c.Classes {
		x.Class(cl)
	}
	x.Class("cmd_" + c.Cmd)
	main := "m.sysl"
	if _, ok := c.Files[main]; !ok {
		for n := range c.Files {
			main = n
		}
	}
	desc := fmt.Sprintf("sysl %s\n---- %s\n%s", strings.Join(c.Args, " "), main, c.Files[main])
	// a command that does not end is confirmed with a longer bound; the verdict is remembered for this
	// process so that shrinking does not wait for the same hang again and again
	ckey := fmt.Sprintf("%x", hash64(fmt.Sprint(c.Args, c.Files)))
	c20HangMu.Lock()
	hung := c20Hangs[ckey]
	c20HangMu.Unlock()
	if hung {
		return finding(c.Cmd+"@timeout", "command did not terminate within 90 s\n%s", desc)
	}
	r, err := c20Exec(c, 30*time.Second)
	if err != nil {
		return fmt.Errorf("harness: %v", err)
	}
	if r.timedOut {
		r2, _ := c20Exec(c, 90*time.Second)
		if r2 == nil || r2.timedOut {
			c20HangMu.Lock()
			c20Hangs[ckey] = true
			c20HangMu.Unlock()
			return finding(c.Cmd+"@timeout", "command did not terminate within 90 s\n%s", desc)
		}
		// it ended when given more time (a busy machine): decided by the second run
		x.Class("first_attempt_overran_30s")
		r = r2
	}
	if m := c20CrashRe.FindString(r.stderr); m != "" {
		kind := "panic"
		if strings.HasPrefix(m, "fatal error") {
			kind = "fatal"
		}
		idx := strings.Index(r.stderr, m)
		frame := repoFrame(r.stderr[idx:])
		if kind == "fatal" && strings.Contains(m, "stack overflow") {
			frame = recursionFrame(r.stderr[idx:])
		}
		return finding(strings.SplitN(c.Cmd, "-", 2)[0]+":"+kind+"@"+frame, "command died with a Go runtime crash (exit %d): %s\n%s", r.rc, m, desc)
	}
	if len(c.Classes) > 0 {
		x.NonTrivial(c.Cmd + "\x00" + c.Files[main] + strings.Join(c.Args, " "))
	}
	if r.rc == 0 {
		x.Class("exit_0")
		if strings.TrimSpace(r.stdout) == "" && r.outFiles == 0 && c.Cmd != "validate" {
			x.Class("exit_0_without_output")
		}
	} else {
		x.Class("exit_nonzero")
		if strings.TrimSpace(r.stderr) == "" && strings.TrimSpace(r.stdout) == "" {
			return fmt.Errorf("non-zero exit status %d without any message\n%s", r.rc, desc)
		}
	}
	x.Sample(map[string]interface{}{"args": c.Args, "rc": r.rc, "model": c.Files[main]})
	return nil
}

var c20Prop = Define("C20", "cli",
	"untidy-but-valid models (dangling call targets: app or endpoint; dangling, one-segment, cross-app, self- and mutually recursive type references; empty apps and types; call cycles incl. among ~hidden endpoints of pass-through applications; tables with foreign keys incl. self/cyclic/dangling; passthrough/exclude project views; project lists naming a missing app) x one of 28 command/option sets (pb x4, validate, sd x2 with 1-3 start endpoints, blackbox/groupby, ints x4, datamodel x2, diagram -i/-s/-d, export x6, generate-db-scripts, -delta incl. a model against itself; import of OpenAPI 2/3, XSD and SQL documents drawn by C11's generators); a third of the models is the root of a six-file import closure (diamond, cycle, repeated import, files met late); half of the runs carry a global option (--no-different-version-check, --max-import-depth=0..3, --no-forced-fetch --log=debug, --root=.) run with the sysl binary built from the working tree; oracle: terminates, no 'panic:'/'fatal error:'/'goroutine' on stderr, non-zero exit carries a message. A crash is keyed by '<command>:<kind>@<first frame in the repository>'. Non-trivial: the model contains at least one untidy element; distinct by (command line, model).",
	genC20, checkC20)

func TestC20(t *testing.T) {
	checkKnown(t, "C20")
	c20Prop.Run(t, scale(200, 1500))
}
