package checks

// c03_protoutil.go — reflective helpers over *sysl.Module shared by the relational checks
// C03 and C04 (both compare two compiled models "apart from source locations"):
//   c03StripLocations  clears every field of message type sysl.SourceContext, wherever it is;
//   c03FirstDiff       names the first path at which two messages differ (deterministic order).

import (
	"fmt"
	"sort"

	"google.golang.org/protobuf/reflect/protoreflect"
)

const c03SourceContextName = "sysl.SourceContext"

// c03StripLocations walks m generically (so that no present or future location field is
// missed) and clears every singular or repeated field whose message type is
// sysl.SourceContext. It returns the number of SourceContext messages removed.
func c03StripLocations(m protoreflect.Message) int {
	n := 0
	m.Range(func(fd protoreflect.FieldDescriptor, v protoreflect.Value) bool {
		switch {
		case fd.IsMap():
			if fd.MapValue().Message() == nil {
				return true
			}
			if string(fd.MapValue().Message().FullName()) == c03SourceContextName {
				n += v.Map().Len()
				m.Clear(fd)
				return true
			}
			v.Map().Range(func(_ protoreflect.MapKey, mv protoreflect.Value) bool {
				n += c03StripLocations(mv.Message())
				return true
			})
		case fd.Message() == nil:
		case string(fd.Message().FullName()) == c03SourceContextName:
			if fd.IsList() {
				n += v.List().Len()
			} else {
				n++
			}
			m.Clear(fd)
		case fd.IsList():
			l := v.List()
			for i := 0; i < l.Len(); i++ {
				n += c03StripLocations(l.Get(i).Message())
			}
		default:
			n += c03StripLocations(v.Message())
		}
		return true
	})
	return n
}

func c03ValueString(fd protoreflect.FieldDescriptor, v protoreflect.Value) string {
	s := fmt.Sprintf("%v", v.Interface())
	if fd.Kind() == protoreflect.EnumKind {
		if ev := fd.Enum().Values().ByNumber(v.Enum()); ev != nil {
			s = string(ev.Name())
		}
	}
	if len(s) > 160 {
		s = s[:160] + "…"
	}
	return s
}

// c03FirstDiff returns "" when a and b are equal, else a description of the first difference
// found walking fields in number order, list elements in index order and map keys sorted.
func c03FirstDiff(a, b protoreflect.Message, path string) string {
	if a.Descriptor().FullName() != b.Descriptor().FullName() {
		return fmt.Sprintf("%s: message types %s vs %s", path, a.Descriptor().FullName(), b.Descriptor().FullName())
	}
	fds := a.Descriptor().Fields()
	for i := 0; i < fds.Len(); i++ {
		fd := fds.Get(i)
		p := path + "." + string(fd.Name())
		ha, hb := a.Has(fd), b.Has(fd)
		if ha != hb {
			if ha {
				return fmt.Sprintf("%s: present only in first (%s)", p, c03Summ(fd, a.Get(fd)))
			}
			return fmt.Sprintf("%s: present only in second (%s)", p, c03Summ(fd, b.Get(fd)))
		}
		if !ha {
			continue
		}
		va, vb := a.Get(fd), b.Get(fd)
		switch {
		case fd.IsMap():
			ma, mb := va.Map(), vb.Map()
			keys := map[string]protoreflect.MapKey{}
			ma.Range(func(k protoreflect.MapKey, _ protoreflect.Value) bool { keys[k.String()] = k; return true })
			mb.Range(func(k protoreflect.MapKey, _ protoreflect.Value) bool { keys[k.String()] = k; return true })
			var ks []string
			for k := range keys {
				ks = append(ks, k)
			}
			sort.Strings(ks)
			for _, ksn := range ks {
				k := keys[ksn]
				kp := fmt.Sprintf("%s[%q]", p, ksn)
				if !ma.Has(k) {
					return kp + ": key only in second"
				}
				if !mb.Has(k) {
					return kp + ": key only in first"
				}
				if fd.MapValue().Message() != nil {
					if d := c03FirstDiff(ma.Get(k).Message(), mb.Get(k).Message(), kp); d != "" {
						return d
					}
				} else if !ma.Get(k).Equal(mb.Get(k)) {
					return fmt.Sprintf("%s: %s vs %s", kp, c03ValueString(fd.MapValue(), ma.Get(k)), c03ValueString(fd.MapValue(), mb.Get(k)))
				}
			}
		case fd.IsList():
			la, lb := va.List(), vb.List()
			n := la.Len()
			if lb.Len() < n {
				n = lb.Len()
			}
			for j := 0; j < n; j++ {
				jp := fmt.Sprintf("%s[%d]", p, j)
				if fd.Message() != nil {
					if d := c03FirstDiff(la.Get(j).Message(), lb.Get(j).Message(), jp); d != "" {
						return d
					}
				} else if !la.Get(j).Equal(lb.Get(j)) {
					return fmt.Sprintf("%s: %s vs %s", jp, c03ValueString(fd, la.Get(j)), c03ValueString(fd, lb.Get(j)))
				}
			}
			if la.Len() != lb.Len() {
				return fmt.Sprintf("%s: %d vs %d elements", p, la.Len(), lb.Len())
			}
		case fd.Message() != nil:
			if d := c03FirstDiff(va.Message(), vb.Message(), p); d != "" {
				return d
			}
		default:
			if !va.Equal(vb) {
				return fmt.Sprintf("%s: %s vs %s", p, c03ValueString(fd, va), c03ValueString(fd, vb))
			}
		}
	}
	if string(a.GetUnknown()) != string(b.GetUnknown()) {
		return path + ": unknown fields differ"
	}
	return ""
}

func c03Summ(fd protoreflect.FieldDescriptor, v protoreflect.Value) string {
	switch {
	case fd.IsMap():
		var ks []string
		v.Map().Range(func(k protoreflect.MapKey, _ protoreflect.Value) bool { ks = append(ks, k.String()); return true })
		sort.Strings(ks)
		s := fmt.Sprintf("map keys %q", ks)
		if len(s) > 200 {
			s = s[:200] + "…"
		}
		return s
	case fd.IsList():
		return fmt.Sprintf("%d elements", v.List().Len())
	case fd.Message() != nil:
		var names []string
		v.Message().Range(func(f protoreflect.FieldDescriptor, _ protoreflect.Value) bool {
			names = append(names, string(f.Name()))
			return true
		})
		sort.Strings(names)
		return fmt.Sprintf("%s with fields %v", v.Message().Descriptor().Name(), names)
	}
	return c03ValueString(fd, v)
}
