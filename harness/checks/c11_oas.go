package checks

// c11_oas.go — foreign intent for OpenAPI 2 / 3 documents (C11): generator, rendering as
// Swagger 2.0 or OpenAPI 3.0 (JSON or YAML) and the facts the imported Sysl must contain.
// Feature set: what occurs in pkg/importer/tests/openapi2 and openapi3 (objects with
// properties, required lists, arrays, $ref, nested inline objects, string enums, formats,
// min/maxLength, names needing escaping or equal to Sysl words; paths x methods with path/
// query/header/body parameters, path-level parameters, responses with $ref / array / none).

import (
	"encoding/json"
	"fmt"
	"sort"
	"strings"

	yaml3 "gopkg.in/yaml.v3"
	"pgregory.net/rapid"
)

const (
	c11FKeyword      = "C11-oas2-keyword-property-name"
	c11FBuiltin      = "C11-oas2-builtin-prefixed-schema-name"
	c11FNonRepeat    = "C11-oas2-import-not-repeatable"
	c11FRecursive    = "C11-oas2-recursive-schema-conversion"
	c11FArrayOfArray = "C11-oas2-array-of-array-definition"
	c11FNestedName   = "C11-oas2-inline-object-name-not-escaped"
	c11FBoolDef      = "C11-oas2-boolean-definition"
	c11FKeyword3     = "C11-oas3-keyword-property-name"
	c11FIntDef3      = "C11-oas3-integer-definition-with-format-dropped"
)

type c11Prop struct {
	Name     string    `json:"name"`
	Type     string    `json:"type"` // string integer number boolean | ref | object
	Format   string    `json:"format,omitempty"`
	Ref      string    `json:"ref,omitempty"`
	Array    bool      `json:"array,omitempty"`
	Required bool      `json:"required,omitempty"`
	Props    []c11Prop `json:"props,omitempty"` // Type == object
	MinLen   int       `json:"min_len,omitempty"`
	MaxLen   int       `json:"max_len,omitempty"`
	Enum     []string  `json:"enum,omitempty"`
}

type c11Schema struct {
	Name  string    `json:"name"`
	Kind  string    `json:"kind"` // object | enum | array | prim
	Props []c11Prop `json:"props,omitempty"`
	Item  *c11Prop  `json:"item,omitempty"` // array: element; prim: the primitive
	Enum  []string  `json:"enum,omitempty"`
}

type c11Param struct {
	Name     string `json:"name"`
	In       string `json:"in"`
	Type     string `json:"type"`
	Format   string `json:"format,omitempty"`
	Required bool   `json:"required,omitempty"`
}

type c11Resp struct {
	Code  string `json:"code"`
	Ref   string `json:"ref,omitempty"` // "" = description only
	Array bool   `json:"array,omitempty"`
}

type c11Op struct {
	Method  string     `json:"method"`
	Params  []c11Param `json:"params,omitempty"` // query and header
	BodyRef string     `json:"body_ref,omitempty"`
	Media   []string   `json:"media,omitempty"` // media types the body is offered in ("" = application/json only)
	Resps   []c11Resp  `json:"resps"`
}

func (op c11Op) media() []string {
	if len(op.Media) == 0 {
		return []string{"application/json"}
	}
	return op.Media
}

type c11PathItem struct {
	Path       string     `json:"path"`
	Vars       []c11Param `json:"vars,omitempty"`
	VarsAtPath bool       `json:"vars_at_path,omitempty"` // declared once on the path item instead of per operation
	Shared     []c11Param `json:"shared,omitempty"`       // header/query parameters declared on the path item: they apply to every operation
	Ops        []c11Op    `json:"ops"`
}

type c11Doc struct {
	Title    string        `json:"title,omitempty"`
	Version  string        `json:"version,omitempty"`
	BasePath string        `json:"base_path,omitempty"`
	Host     string        `json:"host,omitempty"`
	Schemas  []c11Schema   `json:"schemas"`
	Paths    []c11PathItem `json:"paths"`
}

var c11PlainTypeNames = []string{"Item", "Order", "User", "Addr", "Line", "Acct", "Pet", "Goat"}
var c11HostileTypeNames = []string{"My.Type", "my-type", "200ok", "Owner.Info", "a_b", "x-Resp", "v1.0-Item", ".", "-", ".x"} // within ^[a-zA-Z0-9._-]+$, which OpenAPI 3 demands of component names
var c11BuiltinPrefixed = []string{"intOrder", "Stringy", "Internal", "dateRange", "Anything", "Boolean"}
var c11PlainPropNames = []string{"id", "name", "qty", "createdAt", "owner", "lines", "note", "weight", "tags", "status"}
var c11HostilePropNames = []string{"int", "string", "date", "any", "bool", "dateTime", "my-field", "a.b", "with space", "type", "1st", "x_y", "Foo",
	// names whose first character needs a %-escape and is followed by a digit, a dash, or nothing (GitHub's "+1"/"-1" reactions)
	"+1", "-1", "$1", ".5x", "#1", "$", "$ref_count", "a+b", ".hidden"}
var c11KeywordPropNames = []string{"if", "else", "for", "loop", "alt", "while", "until", "return", "If", "FOR"}
var c11PathSegs = []string{"pets", "orders", "v1", "goat", "get-goats", "a_b", "things"}

// c11NeedsEscape: the name cannot be written as a Sysl identifier without %-escapes.
func c11NeedsEscape(name string) bool {
	for _, r := range name {
		if !(r == '_' || r == '-' || (r >= '0' && r <= '9') || (r >= 'a' && r <= 'z') || (r >= 'A' && r <= 'Z')) {
			return true
		}
	}
	return false
}

type c11PrimT struct{ typ, format string }

var c11PrimTypes = []c11PrimT{{"string", ""}, {"string", ""}, {"integer", ""}, {"integer", "int32"}, {"integer", "int64"}, {"number", ""}, {"number", "float"}, {"number", "double"}, {"boolean", ""}, {"string", "date"}, {"string", "date-time"}, {"string", "byte"}, {"string", "binary"}}

func c11GenProp(t *rapid.T, name string, schemaNames []string, depth int, v int) c11Prop {
	p := c11Prop{Name: name}
	switch k := rapid.IntRange(0, 11).Draw(t, "propkind"); {
	case k <= 2 && len(schemaNames) > 0:
		p.Type, p.Ref = "ref", pick(t, schemaNames, "propref")
	case k == 3 && depth < 2 && v == 2 && c11NeedsEscape(name) && knownActive(c11FNestedName):
		R("C11").Exclude(c11FNestedName)
		p.Type = "string"
	case k == 3 && depth < 2:
		p.Type = "object"
		n := rapid.IntRange(1, 3).Draw(t, "nnested")
		for _, nn := range c12Distinct(t, c11PlainPropNames, n, "nestednames") {
			np := c11GenProp(t, nn, schemaNames, depth+1, v)
			np.Required = rapid.Bool().Draw(t, "nestedreq")
			p.Props = append(p.Props, np)
		}
	case k == 4:
		p.Type = "string"
		p.Enum = c12Distinct(t, []string{"daily", "weekly", "monthly", "x y"}, rapid.IntRange(1, 3).Draw(t, "nenum"), "enumvals")
	case k == 5:
		p.Type = "string"
		p.MinLen = rapid.IntRange(0, 5).Draw(t, "minlen")
		p.MaxLen = p.MinLen + rapid.IntRange(1, 300).Draw(t, "maxlen")
	default:
		pt := pick(t, c11PrimTypes, "prim")
		p.Type, p.Format = pt.typ, pt.format
		if v == 2 && (pt.typ == "integer" || pt.typ == "number") && rapid.IntRange(0, 3).Draw(t, "oddformat") == 0 {
			// "format" is an open-valued keyword: a legal but non-standard format must not change the kind
			if pt.typ == "integer" {
				p.Format = pick(t, []string{"int16", "uint32", "uint64", "int8"}, "oddintformat")
			} else {
				p.Format = pick(t, []string{"decimal", "currency", "float32"}, "oddnumformat")
			}
		}
	}
	p.Array = rapid.IntRange(0, 2).Draw(t, "array") == 0
	return p
}

// c11GenDoc draws one API description. v = 2 | 3. Object schemas may refer to any schema, so self-
// and mutually recursive definitions arise — except for Swagger 2 while the recursive-schema
// finding is active (then only to earlier schemas; counted).
func c11GenDoc(t *rapid.T, v int) c11Doc {
	rec := R("C11")
	d := c11Doc{}
	if rapid.IntRange(0, 5).Draw(t, "hastitle") != 0 {
		d.Title = pick(t, []string{"Fruit API", "Simple", "Goat CRUD API"}, "title")
	}
	if rapid.IntRange(0, 3).Draw(t, "hasversion") != 0 {
		d.Version = pick(t, []string{"1.0.0", "0.0.1"}, "version")
	}
	if v == 2 && rapid.IntRange(0, 2).Draw(t, "hasbase") == 0 {
		d.BasePath = pick(t, []string{"/v1", "/fruit-basket"}, "basepath")
	}
	if v == 2 && rapid.IntRange(0, 2).Draw(t, "hashost") == 0 {
		d.Host = "goat.example.com"
	}
	ns := rapid.IntRange(1, 6).Draw(t, "nschemas")
	pool := append([]string{}, c11PlainTypeNames...)
	names := c12Distinct(t, pool, ns, "schemanames")
	builtinOK := v == 3 || !knownActive(c11FBuiltin)
	for i := range names {
		switch rapid.IntRange(0, 9).Draw(t, "hostilename") {
		case 0, 1:
			names[i] = pick(t, c11HostileTypeNames, "hostiletype") + fmt.Sprint(i)
		case 2:
			if builtinOK {
				names[i] = pick(t, c11BuiltinPrefixed, "builtinprefixed") + fmt.Sprint(i)
			} else {
				rec.Exclude(c11FBuiltin)
			}
		}
	}
	keywordOK := (v == 2 && !knownActive(c11FKeyword)) || (v == 3 && !knownActive(c11FKeyword3))
	cyclesOK := v == 3 || !knownActive(c11FRecursive)
	var objects []string
	for i, n := range names {
		s := c11Schema{Name: n}
		switch k := rapid.IntRange(0, 11).Draw(t, "schemakind"); {
		case k == 0:
			s.Kind = "enum"
			s.Enum = c12Distinct(t, []string{"daily", "weekly", "monthly", "yearly"}, rapid.IntRange(1, 4).Draw(t, "nvals"), "vals")
		case k == 1 && i > 0:
			s.Kind = "array" // of an earlier schema
			j := rapid.IntRange(0, i-1).Draw(t, "arrayof")
			if d.Schemas[j].Kind == "array" && v == 2 && knownActive(c11FArrayOfArray) {
				rec.Exclude(c11FArrayOfArray)
				s.Kind = "object"
				objects = append(objects, n)
				break
			}
			s.Item = &c11Prop{Type: "ref", Ref: names[j]}
		case k == 2:
			s.Kind = "prim"
			pt := pick(t, c11PrimTypes, "aliasprim")
			if pt.typ == "boolean" && v == 2 && knownActive(c11FBoolDef) {
				rec.Exclude(c11FBoolDef)
				pt = c11PrimT{"string", ""}
			}
			if pt.typ == "integer" && pt.format != "" && v == 3 && knownActive(c11FIntDef3) {
				rec.Exclude(c11FIntDef3)
				pt.format = ""
			}
			s.Item = &c11Prop{Type: pt.typ, Format: pt.format}
		default:
			s.Kind = "object"
			objects = append(objects, n)
		}
		d.Schemas = append(d.Schemas, s)
	}
	if len(objects) == 0 {
		d.Schemas[0] = c11Schema{Name: names[0], Kind: "object"}
		objects = append(objects, names[0])
	}
	for i := range d.Schemas {
		s := &d.Schemas[i]
		if s.Kind != "object" {
			continue
		}
		var targets []string
		for j := range d.Schemas {
			if j < i || (cyclesOK && d.Schemas[j].Kind != "array") {
				targets = append(targets, d.Schemas[j].Name)
			}
		}
		if !cyclesOK {
			rec.Exclude(c11FRecursive)
		}
		np := rapid.IntRange(1, 7).Draw(t, "nprops")
		pnames := c12Distinct(t, c11PlainPropNames, np, "propnames")
		for j := range pnames {
			switch rapid.IntRange(0, 9).Draw(t, "hostileprop") {
			case 0, 1:
				pnames[j] = pick(t, c11HostilePropNames, "hostilepropname")
			case 2:
				if keywordOK {
					pnames[j] = pick(t, c11KeywordPropNames, "keywordpropname")
				} else if v == 2 {
					rec.Exclude(c11FKeyword)
				} else {
					rec.Exclude(c11FKeyword3)
				}
			}
		}
		seen := map[string]bool{}
		for _, pn := range pnames {
			if seen[strings.ToLower(pn)] {
				continue
			}
			seen[strings.ToLower(pn)] = true
			p := c11GenProp(t, pn, targets, 0, v)
			p.Required = rapid.IntRange(0, 9).Draw(t, "required") < 6
			s.Props = append(s.Props, p)
		}
	}
	npaths := rapid.IntRange(0, 3).Draw(t, "npaths")
	seenPath := map[string]bool{}
	for i := 0; i < npaths; i++ {
		pi := c11PathItem{}
		nseg := rapid.IntRange(1, 3).Draw(t, "nseg")
		var segs, norm []string
		for j := 0; j < nseg; j++ {
			s := pick(t, c11PathSegs, "seg")
			segs, norm = append(segs, s), append(norm, s)
			if len(pi.Vars) < 2 && rapid.IntRange(0, 2).Draw(t, "pathvar") == 0 {
				vn := []string{"id", "key"}[len(pi.Vars)]
				pt := pick(t, []c11PrimT{{"string", ""}, {"integer", ""}, {"integer", "int64"}}, "vartype")
				pi.Vars = append(pi.Vars, c11Param{Name: vn, In: "path", Type: pt.typ, Format: pt.format, Required: true})
				segs, norm = append(segs, "{"+vn+"}"), append(norm, "{}")
			}
		}
		pi.Path = "/" + strings.Join(segs, "/")
		if seenPath[strings.Join(norm, "/")] {
			continue
		}
		seenPath[strings.Join(norm, "/")] = true
		pi.VarsAtPath = len(pi.Vars) > 0 && rapid.IntRange(0, 2).Draw(t, "varsatpath") == 0
		// parameters shared by all operations of the path (OpenAPI: path-item level "parameters")
		nsh := rapid.IntRange(0, 5).Draw(t, "nshared")
		if rapid.Bool().Draw(t, "noshared") {
			nsh = 0
		}
		for _, sn := range c12Distinct(t, []string{"X-Tenant", "X-Region", "fields", "page", "per_page", "lang"}, nsh, "sharednames") {
			in := "query"
			if strings.HasPrefix(sn, "X-") {
				in = "header"
			}
			pt := pick(t, []c11PrimT{{"string", ""}, {"integer", ""}}, "sharedtype")
			pi.Shared = append(pi.Shared, c11Param{Name: sn, In: in, Type: pt.typ, Format: pt.format, Required: rapid.Bool().Draw(t, "sharedreq")})
		}
		nops := rapid.IntRange(1, 3).Draw(t, "nops")
		for _, m := range c12Distinct(t, []string{"get", "put", "post", "delete", "patch"}, nops, "methods") {
			op := c11Op{Method: m}
			nq := rapid.IntRange(0, 3).Draw(t, "nquery")
			for _, qn := range c12Distinct(t, []string{"limit", "after", "metadata", "sort_by", "q"}, nq, "querynames") {
				pt := pick(t, []c11PrimT{{"string", ""}, {"integer", ""}, {"boolean", ""}, {"number", ""}, {"string", "date"}}, "querytype")
				op.Params = append(op.Params, c11Param{Name: qn, In: "query", Type: pt.typ, Format: pt.format, Required: rapid.Bool().Draw(t, "queryreq")})
			}
			nh := rapid.IntRange(0, 2).Draw(t, "nheaders")
			for _, hn := range c12Distinct(t, []string{"request-id", "X-Trace", "key", "Accept-Language"}, nh, "headernames") {
				if hn == "key" && len(pi.Vars) > 1 {
					continue // same name as a path variable
				}
				pt := pick(t, []c11PrimT{{"string", ""}, {"integer", ""}}, "headertype")
				op.Params = append(op.Params, c11Param{Name: hn, In: "header", Type: pt.typ, Format: pt.format, Required: rapid.Bool().Draw(t, "headerreq")})
			}
			if m != "get" && m != "delete" && rapid.Bool().Draw(t, "body") {
				op.BodyRef = pick(t, objects, "bodyref")
				if rapid.Bool().Draw(t, "bodymedia") {
					nm := rapid.IntRange(2, 5).Draw(t, "nmedia")
					op.Media = c12Distinct(t, []string{"application/json", "application/xml", "text/plain", "application/yaml", "text/csv"}, nm, "media")
				}
			}
			nr := rapid.IntRange(1, 3).Draw(t, "nresps")
			for _, code := range c12Distinct(t, []string{"200", "201", "204", "400", "404", "500"}, nr, "codes") {
				r := c11Resp{Code: code}
				switch rapid.IntRange(0, 5).Draw(t, "respshape") {
				case 0:
				case 1, 2:
					r.Ref, r.Array = pick(t, objects, "respref"), true
				default:
					r.Ref = pick(t, objects, "respref")
				}
				op.Resps = append(op.Resps, r)
			}
			pi.Ops = append(pi.Ops, op)
		}
		d.Paths = append(d.Paths, pi)
	}
	return d
}

// ---------- rendering ----------

func (d c11Doc) refTo(v int, name string) c12Obj {
	if v == 2 {
		return c12Obj{"$ref": "#/definitions/" + name}
	}
	return c12Obj{"$ref": "#/components/schemas/" + name}
}

func (d c11Doc) propSchema(v int, p c11Prop) c12Obj {
	var s c12Obj
	switch p.Type {
	case "ref":
		s = d.refTo(v, p.Ref)
	case "object":
		s = c12Obj{"type": "object"}
		props := c12Obj{}
		var req []interface{}
		for _, np := range p.Props {
			props[np.Name] = d.propSchema(v, np)
			if np.Required {
				req = append(req, np.Name)
			}
		}
		s["properties"] = props
		if len(req) > 0 {
			s["required"] = req
		}
	default:
		s = c12Obj{"type": p.Type}
		if p.Format != "" {
			s["format"] = p.Format
		}
		if p.MaxLen > 0 {
			s["minLength"], s["maxLength"] = p.MinLen, p.MaxLen
		}
		if len(p.Enum) > 0 {
			var vs []interface{}
			for _, e := range p.Enum {
				vs = append(vs, e)
			}
			s["enum"] = vs
		}
	}
	if p.Array {
		return c12Obj{"type": "array", "items": s}
	}
	return s
}

func (d c11Doc) tree(v int) c12Obj {
	schemas := c12Obj{}
	for _, s := range d.Schemas {
		switch s.Kind {
		case "enum":
			var vs []interface{}
			for _, e := range s.Enum {
				vs = append(vs, e)
			}
			schemas[s.Name] = c12Obj{"type": "string", "enum": vs}
		case "array":
			schemas[s.Name] = c12Obj{"type": "array", "items": d.propSchema(v, *s.Item)}
		case "prim":
			schemas[s.Name] = d.propSchema(v, *s.Item)
		default:
			props := c12Obj{}
			var req []interface{}
			for _, p := range s.Props {
				props[p.Name] = d.propSchema(v, p)
				if p.Required {
					req = append(req, p.Name)
				}
			}
			o := c12Obj{"type": "object", "properties": props}
			if len(req) > 0 {
				o["required"] = req
			}
			schemas[s.Name] = o
		}
	}
	param := func(p c11Param) c12Obj {
		o := c12Obj{"name": p.Name, "in": p.In}
		if p.Required {
			o["required"] = true
		}
		ts := c12Obj{"type": p.Type}
		if p.Format != "" {
			ts["format"] = p.Format
		}
		if v == 2 {
			for k, x := range ts {
				o[k] = x
			}
		} else {
			o["schema"] = ts
		}
		return o
	}
	paths := c12Obj{}
	for _, pi := range d.Paths {
		item := c12Obj{}
		if pi.VarsAtPath || len(pi.Shared) > 0 {
			var ps []interface{}
			if pi.VarsAtPath {
				for _, pv := range pi.Vars {
					ps = append(ps, param(pv))
				}
			}
			for _, sp := range pi.Shared {
				ps = append(ps, param(sp))
			}
			item["parameters"] = ps
		}
		for _, op := range pi.Ops {
			o := c12Obj{}
			var ps []interface{}
			if !pi.VarsAtPath {
				for _, pv := range pi.Vars {
					ps = append(ps, param(pv))
				}
			}
			for _, p := range op.Params {
				ps = append(ps, param(p))
			}
			if op.BodyRef != "" {
				if v == 2 {
					ps = append(ps, c12Obj{"name": "body", "in": "body", "required": true, "schema": d.refTo(v, op.BodyRef)})
					cons := []interface{}{}
					for _, m := range op.media() {
						cons = append(cons, m)
					}
					o["consumes"] = cons
				} else {
					content := c12Obj{}
					for _, m := range op.media() {
						content[m] = c12Obj{"schema": d.refTo(v, op.BodyRef)}
					}
					o["requestBody"] = c12Obj{"required": true, "content": content}
				}
			}
			if len(ps) > 0 {
				o["parameters"] = ps
			}
			resps := c12Obj{}
			anySchema := false
			for _, r := range op.Resps {
				ro := c12Obj{"description": "d" + r.Code}
				if r.Ref != "" {
					anySchema = true
					sc := d.refTo(v, r.Ref)
					if r.Array {
						sc = c12Obj{"type": "array", "items": sc}
					}
					if v == 2 {
						ro["schema"] = sc
					} else {
						ro["content"] = c12Obj{"application/json": c12Obj{"schema": sc}}
					}
				}
				resps[r.Code] = ro
			}
			if v == 2 && anySchema {
				o["produces"] = []interface{}{"application/json"}
			}
			o["responses"] = resps
			item[op.Method] = o
		}
		paths[pi.Path] = item
	}
	info := c12Obj{"title": d.Title, "version": d.Version}
	if d.Title == "" {
		info["title"] = "T"
	}
	if d.Version == "" {
		info["version"] = "0"
	}
	if v == 2 {
		doc := c12Obj{"swagger": "2.0", "info": info, "paths": paths, "definitions": schemas}
		if d.BasePath != "" {
			doc["basePath"] = d.BasePath
		}
		if d.Host != "" {
			doc["host"] = d.Host
		}
		return doc
	}
	return c12Obj{"openapi": "3.0.1", "info": info, "paths": paths, "components": c12Obj{"schemas": schemas}}
}

func (d c11Doc) Render(v int, asYAML bool) string {
	tree := d.tree(v)
	if asYAML {
		b, err := yaml3.Marshal(tree)
		if err != nil {
			panic(err)
		}
		return string(b)
	}
	b, _ := json.MarshalIndent(tree, "", "  ")
	return string(b)
}

// ---------- expected facts ----------

type c11WField struct {
	Tag        string      `json:"tag"`
	Class      string      `json:"class"` // string integer number bool date datetime bytes | ref | nested | alias-string
	Bits       int32       `json:"bits,omitempty"`
	Ref        string      `json:"ref,omitempty"` // foreign name of the referenced schema / table(.column)
	Opt        bool        `json:"opt,omitempty"`
	Seq        bool        `json:"seq,omitempty"`
	Nested     []c11WField `json:"nested,omitempty"`
	Pk         bool        `json:"pk,omitempty"`
	Fk         bool        `json:"fk,omitempty"`
	Attr       bool        `json:"attr,omitempty"`         // xsd attribute
	SQL        bool        `json:"sql,omitempty"`          // a table column
	PkInlineFk bool        `json:"pk_inline_fk,omitempty"` // declared PRIMARY KEY inline while the table has a FOREIGN KEY constraint
}

type c11WType struct {
	Name   string      `json:"name"` // foreign name
	Kind   string      `json:"kind"` // tuple | relation | alias | any
	Fields []c11WField `json:"fields,omitempty"`
	Alias  *c11WField  `json:"alias,omitempty"` // alias target when it is checkable
	Exact  bool        `json:"exact,omitempty"` // the fields listed are all the fields
}

type c11WParam struct {
	Name  string `json:"name"`
	Class string `json:"class"`
	Bits  int32  `json:"bits,omitempty"`
	Opt   bool   `json:"opt,omitempty"`
}

type c11WRet struct {
	Code string `json:"code"`
	Ref  string `json:"ref,omitempty"`
	Seq  bool   `json:"seq,omitempty"`
}

type c11WEp struct {
	Method  string      `json:"method"`
	Path    string      `json:"path"`
	Vars    []c11WParam `json:"vars,omitempty"`
	Query   []c11WParam `json:"query,omitempty"`
	Headers []c11WParam `json:"headers,omitempty"`
	BodyRef string      `json:"body_ref,omitempty"`
	Media   []string    `json:"media,omitempty"`
	Rets    []c11WRet   `json:"rets"`
}

type c11Want struct {
	App   string     `json:"app,omitempty"` // expected application name when it is not the configured one (SQL: CREATE DATABASE)
	Types []c11WType `json:"types"`
	Eps   []c11WEp   `json:"eps,omitempty"`
}

// c11OASClass: kind class and bit width per the importers' own mapping table (pkg/importer/openapi.go).
func c11OASClass(typ, format string) (string, int32) {
	switch typ {
	case "string":
		switch format {
		case "date":
			return "date", 0
		case "date-time":
			return "datetime", 0
		case "byte", "binary":
			return "bytes", 0
		}
		return "string", 0
	case "integer":
		switch format {
		case "int32":
			return "integer", 32
		case "int64":
			return "integer", 64
		}
		return "integer", 0
	case "number":
		return "number", 0
	case "boolean":
		return "bool", 0
	}
	return typ, 0
}

func c11WantField(p c11Prop) c11WField {
	f := c11WField{Tag: p.Name, Opt: !p.Required, Seq: p.Array}
	switch p.Type {
	case "ref":
		f.Class, f.Ref = "ref", p.Ref
	case "object":
		f.Class = "nested"
		for _, np := range p.Props {
			f.Nested = append(f.Nested, c11WantField(np))
		}
	default:
		f.Class, f.Bits = c11OASClass(p.Type, p.Format)
	}
	return f
}

func (d c11Doc) Want() c11Want {
	w := c11Want{}
	for _, s := range d.Schemas {
		wt := c11WType{Name: s.Name}
		switch s.Kind {
		case "object":
			wt.Kind, wt.Exact = "tuple", true
			for _, p := range s.Props {
				wt.Fields = append(wt.Fields, c11WantField(p))
			}
		case "array":
			wt.Kind = "alias"
			wt.Alias = &c11WField{Class: "ref", Ref: s.Item.Ref, Seq: true}
		case "prim":
			wt.Kind = "alias"
			cl, bits := c11OASClass(s.Item.Type, s.Item.Format)
			wt.Alias = &c11WField{Class: cl, Bits: bits}
		default:
			wt.Kind = "any" // string enums become aliases of string; presence is what is demanded
		}
		w.Types = append(w.Types, wt)
	}
	for _, pi := range d.Paths {
		for _, op := range pi.Ops {
			e := c11WEp{Method: strings.ToUpper(op.Method), Path: pi.Path, BodyRef: op.BodyRef}
			if op.BodyRef != "" {
				e.Media = op.media()
			}
			for _, pv := range pi.Vars {
				cl, bits := c11OASClass(pv.Type, pv.Format)
				e.Vars = append(e.Vars, c11WParam{Name: pv.Name, Class: cl, Bits: bits})
			}
			for _, p := range append(append([]c11Param{}, pi.Shared...), op.Params...) {
				cl, bits := c11OASClass(p.Type, p.Format)
				wp := c11WParam{Name: p.Name, Class: cl, Bits: bits, Opt: !p.Required}
				if p.In == "query" {
					e.Query = append(e.Query, wp)
				} else {
					e.Headers = append(e.Headers, wp)
				}
			}
			for _, r := range op.Resps {
				e.Rets = append(e.Rets, c11WRet{Code: r.Code, Ref: r.Ref, Seq: r.Array})
			}
			sort.Slice(e.Rets, func(i, j int) bool { return e.Rets[i].Code < e.Rets[j].Code })
			w.Eps = append(w.Eps, e)
		}
	}
	return w
}

// statistics of a document for the class counters
func c11DocClasses(d c11Doc) (classes []string, nonTrivial bool) {
	cl := map[string]bool{}
	rich, req3, arr := 0, false, false
	var walk func(ps []c11Prop, depth int)
	walk = func(ps []c11Prop, depth int) {
		for _, p := range ps {
			if p.Array {
				cl["array_property"] = true
				if p.Type == "ref" || p.Type == "object" {
					arr = true
					cl["array_of_ref_or_nested"] = true
				}
			}
			switch p.Type {
			case "ref":
				cl["ref_property"] = true
			case "object":
				cl[fmt.Sprintf("nested_object_depth%d", depth+1)] = true
				walk(p.Props, depth+1)
			}
			if len(p.Enum) > 0 {
				cl["inline_enum_property"] = true
			}
			if p.MaxLen > 0 {
				cl["string_length_bounds"] = true
			}
			if p.Format != "" {
				cl["format_"+p.Format] = true
				switch p.Format {
				case "int16", "uint32", "uint64", "int8", "decimal", "currency", "float32":
					cl["non_standard_numeric_format"] = true
				}
			}
			for _, k := range c11KeywordPropNames {
				if p.Name == k {
					cl["property_named_like_sysl_keyword"] = true
				}
			}
			for _, k := range []string{"int", "string", "date", "any", "bool", "dateTime"} {
				if p.Name == k {
					cl["property_named_like_builtin_type"] = true
				}
			}
			if strings.ContainsAny(p.Name, " .-") || (p.Name[0] >= '0' && p.Name[0] <= '9') {
				cl["property_name_needs_escaping"] = true
			}
		}
	}
	for si, s := range d.Schemas {
		cl["schema_"+s.Kind] = true
		if s.Kind == "array" {
			for _, o := range d.Schemas {
				if o.Name == s.Item.Ref && o.Kind == "array" {
					cl["array_definition_of_array_definition"] = true
				}
			}
		}
		if strings.ContainsAny(s.Name, " .-") || (s.Name[0] >= '0' && s.Name[0] <= '9') {
			cl["schema_name_needs_escaping"] = true
		}
		for _, b := range c11BuiltinPrefixed {
			if strings.HasPrefix(s.Name, b) {
				cl["schema_name_starts_with_builtin"] = true
			}
		}
		nreq := 0
		for _, p := range s.Props {
			if p.Required {
				nreq++
			}
			if p.Type == "ref" && p.Ref == s.Name {
				cl["self_reference"] = true
			}
			if p.Type == "ref" {
				for j, o := range d.Schemas {
					if o.Name == p.Ref && j > si {
						cl["forward_reference"] = true
					}
				}
			}
		}
		if len(s.Props) >= 2 {
			rich++
		}
		if nreq >= 3 {
			req3 = true
			cl["required_list_ge3"] = true
		}
		if nreq == 0 && s.Kind == "object" {
			cl["no_required_list"] = true
		}
		walk(s.Props, 0)
	}
	nops := 0
	for _, pi := range d.Paths {
		if len(pi.Vars) > 0 {
			cl["path_param"] = true
		}
		if pi.VarsAtPath {
			cl["path_level_parameters"] = true
		}
		if n := len(pi.Shared); n > 0 {
			cl["path_level_shared_parameters"] = true
			if pi.VarsAtPath {
				n += len(pi.Vars)
			}
			if n >= 3 && len(pi.Ops) >= 2 {
				cl["path_level_parameters_ge3_and_ops_ge2"] = true
			}
		}
		for _, op := range pi.Ops {
			nops++
			if op.BodyRef != "" {
				cl["body_param"] = true
				if len(op.Media) >= 3 {
					cl["body_offered_in>=3_media_types"] = true
				}
			}
			for _, p := range op.Params {
				cl[p.In+"_param"] = true
			}
			for _, r := range op.Resps {
				switch {
				case r.Ref == "":
					cl["response_without_schema"] = true
				case r.Array:
					cl["response_array"] = true
				default:
					cl["response_ref"] = true
				}
			}
		}
	}
	if nops == 0 {
		cl["no_paths"] = true
	}
	if nops >= 2 {
		cl["operations_ge2"] = true
	}
	for k := range cl {
		classes = append(classes, k)
	}
	sort.Strings(classes)
	return classes, rich >= 2 && req3 && arr
}
