package checks

// c08_render.go — a position-recording renderer for C08. It writes the same surface syntax as
// render.go (Render/RenderPos) but goes through a line builder that knows the zero-based line
// and the rune column of everything it writes, and it marks more element kinds: imports,
// applications, every type kind, fields, union members, annotations ("@k = v"), inline
// attributes and tags, endpoints (simple, event, REST method), parameters, query and URL
// parameters, statements and statement attributes. A tab counts as one column.

import (
	"fmt"
	"strings"
	"unicode/utf8"
)

type c08Pos struct {
	Key  string `json:"key"`
	File string `json:"file"`
	Line int    `json:"line"`
	Col  int    `json:"col"`
	Tab  bool   `json:"tab,omitempty"` // a tab precedes the element on its line
}

type c08R struct {
	ind    string
	file   string
	lines  []string
	cur    strings.Builder
	curCol int
	open   bool
	pos    []c08Pos
	noise  []int // cyclic per written line: 1 blank line, 2 column-0 comment, 3 indented comment, 4 whitespace-only line before it
	nw     int
}

func (r *c08R) lineNo() int { return len(r.lines) }

// begin starts a line at depth. cont marks a continuation line ("|" after "|"): no noise
// may be put before it.
func (r *c08R) begin(depth int, cont bool) {
	if r.open {
		panic("c08 renderer: begin inside a line")
	}
	if !cont && len(r.noise) > 0 {
		switch r.noise[r.nw%len(r.noise)] {
		case 1:
			r.lines = append(r.lines, "")
		case 2:
			r.lines = append(r.lines, "# c08 comment")
		case 3:
			r.lines = append(r.lines, strings.Repeat(r.ind, depth)+"  # c08 indented comment: x <- y")
		case 4:
			r.lines = append(r.lines, " \t ")
		}
	}
	r.nw++
	r.open = true
	r.cur.Reset()
	r.curCol = 0
	r.put(strings.Repeat(r.ind, depth))
}

func (r *c08R) put(s string) {
	r.cur.WriteString(s)
	r.curCol += utf8.RuneCountInString(s)
}

func (r *c08R) mark(key string) {
	if key == "" {
		return
	}
	r.pos = append(r.pos, c08Pos{Key: key, File: r.file, Line: r.lineNo(), Col: r.curCol, Tab: strings.Contains(r.cur.String(), "\t")})
}

func (r *c08R) end() {
	r.lines = append(r.lines, r.cur.String())
	r.open = false
}

func (r *c08R) text() string { return strings.Join(r.lines, "\n") + "\n" }

// metaInline writes " [~t, k=v]" marking tags and attributes under prefix ("" = unmarked).
func (r *c08R) metaInline(m Meta, prefix string) {
	n := len(m.Tags) + len(m.Attrs)
	if n == 0 {
		return
	}
	r.put(" [")
	i := 0
	sep := func() {
		if i > 0 {
			r.put(", ")
		}
		i++
	}
	for ti, tg := range m.Tags {
		sep()
		if prefix != "" {
			r.mark(fmt.Sprintf("%s|tag|%d", prefix, ti))
		}
		r.put("~" + tg)
	}
	for _, k := range sortedKeys(m.Attrs) {
		sep()
		if prefix != "" {
			r.mark(prefix + "|attr|" + k)
		}
		r.put(k + "=" + renderAttrV(m.Attrs[k]))
	}
	r.put("]")
}

func (r *c08R) annos(depth int, m Meta, prefix string) {
	for _, k := range sortedKeys(m.Annos) {
		r.begin(depth, false)
		r.mark(prefix + "|attr|" + k)
		r.put("@" + k + " = " + renderAttrV(m.Annos[k]))
		r.end()
	}
}

func (r *c08R) params(ps []Param, prefix string) {
	if len(ps) == 0 {
		return
	}
	r.put(" (")
	for i, p := range ps {
		if i > 0 {
			r.put(", ")
		}
		r.mark(fmt.Sprintf("%s|param|%d", prefix, i))
		r.put(p.Name + " <: " + renderTExpr(p.T))
		r.metaInline(p.T.Meta, "")
	}
	r.put(")")
}

// stmts writes a statement block; prefix is the statement-path key of the block ("" = unmarked).
// skipLeadingDocs: the leading "| doc" lines of a REST method are its docstring, not statements.
func (r *c08R) stmts(depth int, ss []*Stmt, prefix string, skipLeadingDocs bool) {
	idx := -1
	prevDoc := false
	leading := skipLeadingDocs
	for _, s := range ss {
		isDoc := s.keyword == "doc"
		if leading && isDoc {
			for li, l := range s.docLines {
				r.begin(depth, prevDoc || li > 0)
				r.put("| " + l)
				r.end()
			}
			prevDoc = true
			continue
		}
		if leading {
			leading = false
			prevDoc = false // the docstring run is over; a later "|" starts a statement
		}
		key := ""
		if !(isDoc && prevDoc) {
			idx++
		}
		if prefix != "" {
			key = fmt.Sprintf("%s/%d", prefix, idx)
		}
		first := !(isDoc && prevDoc)
		prevDoc = isDoc
		switch s.Kind {
		case "action":
			if isDoc {
				for li, l := range s.docLines {
					r.begin(depth, !first || li > 0)
					if first && li == 0 {
						r.mark(key)
					}
					r.put("| " + l)
					r.end()
				}
			} else {
				r.begin(depth, false)
				r.mark(key)
				r.put(s.Text)
				r.metaInline(s.Meta, key)
				r.end()
			}
		case "call":
			tgt := appKey(s.Target)
			if s.selfDot {
				tgt = "."
			}
			args := ""
			if len(s.Args) > 0 {
				args = "(" + strings.Join(s.Args, ", ") + ")"
			}
			r.begin(depth, false)
			r.mark(key)
			r.put(tgt + " <- " + s.Endpoint + args)
			r.metaInline(s.Meta, key)
			r.end()
		case "ret":
			r.begin(depth, false)
			r.mark(key)
			r.put("return " + s.Text)
			r.end()
		case "cond", "group":
			r.begin(depth, false)
			r.mark(key)
			r.put(s.Text + ":")
			r.end()
			r.stmts(depth+1, s.Children, key, false)
		case "loop":
			r.begin(depth, false)
			r.mark(key)
			r.put(s.keyword + " " + s.Text + ":")
			r.end()
			r.stmts(depth+1, s.Children, key, false)
		case "foreach":
			r.begin(depth, false)
			r.mark(key)
			r.put("for each " + s.Text + ":")
			r.end()
			r.stmts(depth+1, s.Children, key, false)
		case "alt":
			r.begin(depth, false)
			r.mark(key)
			r.put("one of:")
			r.end()
			for ci, c := range s.Choices {
				r.begin(depth+1, false)
				r.put(c.Cond + ":")
				r.end()
				ck := ""
				if key != "" {
					ck = fmt.Sprintf("%s/c%d", key, ci)
				}
				r.stmts(depth+2, c.Stmts, ck, false)
			}
		}
	}
}

type c08URLVar struct {
	line, col int
	tab       bool
}

func (r *c08R) rest(depth int, n *RestNode, app string, prefix string, vars []c08URLVar) {
	r.begin(depth, false)
	if n.PathVar != nil {
		// Seg is "/{name<:type}": the URL parameter is located at "{"
		vars = append(append([]c08URLVar{}, vars...), c08URLVar{r.lineNo(), r.curCol + 1, strings.Contains(r.cur.String(), "\t")})
	}
	r.put(n.Seg)
	r.metaInline(n.Meta, "") // inherited by the methods below: not located per method
	r.put(":")
	r.end()
	path := prefix + restSegKey(n)
	for _, m := range n.Methods {
		ek := "ep|" + app + "|" + m.Method + " " + path
		for i, v := range vars {
			r.pos = append(r.pos, c08Pos{Key: fmt.Sprintf("%s|url|%d", ek, i), File: r.file, Line: v.line, Col: v.col, Tab: v.tab})
		}
		r.begin(depth+1, false)
		r.mark(ek)
		r.put(m.Method)
		r.params(m.Params, ek)
		if len(m.Query) > 0 {
			r.put(" ?")
			for i, p := range m.Query {
				if i > 0 {
					r.put("&")
				}
				r.mark(fmt.Sprintf("%s|query|%d", ek, i))
				s := p.Name + "=" + p.T.spelling
				if p.T.Opt {
					s += "?"
				}
				r.put(s)
			}
		}
		r.metaInline(m.Meta, "")
		r.put(":")
		r.end()
		r.stmts(depth+2, m.Stmts, "stmt|"+app+"|"+m.Method+" "+path+"|", true)
	}
	for _, c := range n.Children {
		r.rest(depth+1, c, app, path, vars)
	}
}

// c08RenderFile writes one file: import lines, then the application blocks.
func c08RenderFile(name string, imports []string, blocks []*App, indent string, noise []int) (string, []c08Pos) {
	r := &c08R{ind: indent, file: name, noise: noise}
	for i, imp := range imports {
		r.begin(0, false)
		r.mark(fmt.Sprintf("import|%d", i)) // index within the file; renumbered in walk order by the caller
		r.put("import " + imp)
		r.end()
	}
	for _, a := range blocks {
		an := appKey(a.Name)
		r.begin(0, false)
		r.mark("app|" + an)
		r.put(an)
		if a.Long != "" {
			r.put(" " + qstr(a.Long))
		}
		r.metaInline(a.Meta, "app|"+an)
		r.put(":")
		r.end()
		r.annos(1, a.Meta, "app|"+an)
		body := false
		for _, td := range a.Types {
			body = true
			tk := "type|" + an + "|" + unesc(td.Name)
			kw := map[string]string{"tuple": "!type", "relation": "!table", "enum": "!enum", "alias": "!alias", "union": "!union"}[td.Kind]
			r.begin(1, false)
			r.mark(tk)
			r.put(kw + " " + td.Name)
			r.metaInline(td.Meta, tk)
			r.put(":")
			if td.Kind == "alias" && !td.AliasIndented {
				r.put(" " + renderTExpr(*td.Alias))
			}
			if (td.Kind == "tuple" || td.Kind == "relation") && len(td.Fields) == 0 && len(td.Meta.Annos) == 0 {
				// a declaration without a body: the '...' placeholder form
				r.put(" ...")
				r.end()
				continue
			}
			r.end()
			switch td.Kind {
			case "tuple", "relation":
				r.annos(2, td.Meta, tk)
				for _, f := range td.Fields {
					fk := "field|" + an + "|" + unesc(td.Name) + "|" + f.Name
					r.begin(2, false)
					r.mark(fk)
					r.put(f.Name + " <: " + renderTExpr(f.T))
					r.metaInline(f.T.Meta, fk)
					if len(f.T.Annos) > 0 {
						r.put(":")
						r.end()
						r.annos(3, f.T.Meta, fk)
					} else {
						r.end()
					}
				}
			case "enum":
				for _, e := range td.Enum {
					r.begin(2, false)
					r.put(fmt.Sprintf("%s: %d", e.Name, e.Val))
					r.end()
				}
			case "alias":
				if td.AliasIndented {
					r.begin(2, false)
					r.put(renderTExpr(*td.Alias))
					r.end()
				}
			case "union":
				for i, u := range td.Union {
					r.begin(2, false)
					r.mark(fmt.Sprintf("umember|%s|%s|%d", an, unesc(td.Name), i))
					r.put(renderTExpr(u))
					r.end()
				}
			}
		}
		for _, ep := range a.Eps {
			body = true
			ek := "ep|" + an + "|" + ep.Name
			sk := "stmt|" + an + "|" + ep.Name + "|"
			r.begin(1, false)
			r.mark(ek)
			if ep.Kind == "event" {
				r.put("<-> " + ep.Name)
				r.metaInline(ep.Meta, ek)
			} else {
				r.put(ep.Name)
				if ep.Long != "" {
					r.put(" " + qstr(ep.Long))
				}
				r.params(ep.Params, ek)
				r.metaInline(ep.Meta, ek)
			}
			switch {
			case ep.Kind != "event" && len(ep.Meta.Annos) > 0:
				r.put(":")
				r.end()
				r.annos(2, ep.Meta, ek)
				r.stmts(2, ep.Stmts, sk, false)
			case len(ep.Stmts) == 0:
				r.put(": ...")
				r.end()
			default:
				r.put(":")
				r.end()
				r.stmts(2, ep.Stmts, sk, false)
			}
		}
		for _, n := range a.Rest {
			body = true
			r.rest(1, n, an, "", nil)
		}
		if !body && len(a.Meta.Annos) == 0 {
			r.begin(1, false)
			r.put("...")
			r.end()
		}
		r.lines = append(r.lines, "")
	}
	return r.text(), r.pos
}
