package checks

// C13 — sequence diagrams terminate, are well-formed and follow the call tree.
//
// Two sub-properties:
//   calltree  resolvable call graphs x every endpoint as the start x blackbox / group-by options:
//             structural invariants of the emitted PlantUML + call-arrow sequence == reference walk.
//   dangling  models with call targets (or a start) that do not exist: an error is fine, a crash is not.
//
// GenerateSequenceDiag runs in the worker subprocess (c13.sd): a stack overflow, a panic or an
// endless walk is attributed to the case. The expectation is computed in check from the generated
// model (plain JSON in the case) by a walker written from the property statement.

import (
	"encoding/json"
	"fmt"
	"io"
	"regexp"
	"runtime/debug"
	"sort"
	"strings"
	"testing"

	"github.com/anz-bank/sysl/pkg/cmdutils"
	"github.com/anz-bank/sysl/pkg/parse"
	"github.com/anz-bank/sysl/pkg/sequencediagram"
	"github.com/sirupsen/logrus"
	"pgregory.net/rapid"
)

const (
	c13FindRecursive   = "C13-recursive-return-deactivate"
	c13SigRecursive    = "sd: call sent by a participant that was deactivated by the return of a recursive call to an in-progress endpoint"
	c13FindDanglingEp  = "C13-dangling-target-panic"
	c13SigDanglingEp   = "panic@pkg/cmdutils.(*EndpointElement).endpoint"
	c13FindDanglingApp = "C13-dangling-app-panic"
	c13SigDanglingApp  = "panic@pkg/cmdutils.(*EndpointElement).application"
)

// ---------- model (plain JSON) ----------

type c13Stmt struct {
	K       string      `json:"k"` // act call ret if else while until for loop alt foreach grp oneof
	T       string      `json:"t,omitempty"`
	App     string      `json:"app,omitempty"`
	Ep      string      `json:"ep,omitempty"`
	Dot     bool        `json:"dot,omitempty"` // call written ". <- ep"
	Kids    []*c13Stmt  `json:"kids,omitempty"`
	Choices []c13Choice `json:"choices,omitempty"`
}

type c13Choice struct {
	Cond  string     `json:"cond"`
	Stmts []*c13Stmt `json:"stmts"`
}

type c13Ep struct {
	Name   string     `json:"name"` // "e1" or "GET /things"
	Rest   bool       `json:"rest,omitempty"`
	Hidden bool       `json:"hidden,omitempty"`
	Stmts  []*c13Stmt `json:"stmts,omitempty"`
}

type c13App struct {
	Name  string   `json:"name"`
	Human bool     `json:"human,omitempty"`
	Cron  bool     `json:"cron,omitempty"`
	Owner string   `json:"owner,omitempty"`
	Eps   []*c13Ep `json:"eps"`
}

type c13Case struct {
	Apps     []*c13App `json:"apps"`
	Text     string    `json:"text"`
	Starts   []string  `json:"starts"`             // "App <- ep"
	Blackbox []string  `json:"blackbox,omitempty"` // "App <- ep"
	Group    bool      `json:"group,omitempty"`
	Dangling bool      `json:"dangling,omitempty"` // second population
	Pruned   int       `json:"pruned,omitempty"`
	Forward  bool      `json:"forward,omitempty"`  // generated with forward-only calls (acyclic)
	Excl     []string  `json:"excluded,omitempty"` // exclusions applied by the generator (finding ids)
}

func c13Key(app, ep string) string { return app + " <- " + ep }

// ---------- rendering ----------

func c13RenderStmts(sb *strings.Builder, depth int, ss []*c13Stmt) {
	ind := strings.Repeat("    ", depth)
	for _, s := range ss {
		switch s.K {
		case "act":
			sb.WriteString(ind + s.T + "\n")
		case "call":
			tgt := s.App
			if s.Dot {
				tgt = "."
			}
			sb.WriteString(ind + tgt + " <- " + s.Ep + "\n")
		case "ret":
			sb.WriteString(ind + "return " + s.T + "\n")
		case "else":
			if s.T == "" {
				sb.WriteString(ind + "else:\n")
			} else {
				sb.WriteString(ind + "else " + s.T + ":\n")
			}
			c13RenderStmts(sb, depth+1, s.Kids)
		case "foreach":
			sb.WriteString(ind + "for each " + s.T + ":\n")
			c13RenderStmts(sb, depth+1, s.Kids)
		case "grp":
			sb.WriteString(ind + s.T + ":\n")
			c13RenderStmts(sb, depth+1, s.Kids)
		case "oneof":
			sb.WriteString(ind + "one of:\n")
			for _, c := range s.Choices {
				sb.WriteString(ind + "    " + c.Cond + ":\n")
				c13RenderStmts(sb, depth+2, c.Stmts)
			}
		default: // if while until for loop alt
			sb.WriteString(ind + s.K + " " + s.T + ":\n")
			c13RenderStmts(sb, depth+1, s.Kids)
		}
	}
}

func c13Render(apps []*c13App) string {
	var sb strings.Builder
	for _, a := range apps {
		var at []string
		if a.Human {
			at = append(at, "~human")
		}
		if a.Cron {
			at = append(at, "~cron")
		}
		if a.Owner != "" {
			at = append(at, `owner="`+a.Owner+`"`)
		}
		h := a.Name
		if len(at) > 0 {
			h += " [" + strings.Join(at, ", ") + "]"
		}
		sb.WriteString(h + ":\n")
		for _, e := range a.Eps {
			hid := ""
			if e.Hidden {
				hid = " [~hidden]"
			}
			if e.Rest {
				parts := strings.SplitN(e.Name, " ", 2)
				sb.WriteString("    " + parts[1] + ":\n")
				sb.WriteString("        " + parts[0] + hid + ":\n")
				if len(e.Stmts) == 0 {
					sb.WriteString("            ...\n")
				} else {
					c13RenderStmts(&sb, 3, e.Stmts)
				}
				continue
			}
			if len(e.Stmts) == 0 {
				sb.WriteString("    " + e.Name + hid + ": ...\n")
			} else {
				sb.WriteString("    " + e.Name + hid + ":\n")
				c13RenderStmts(&sb, 2, e.Stmts)
			}
		}
		sb.WriteString("\n")
	}
	return sb.String()
}

// ---------- reference walk (written from the property statement) ----------

type c13Arrow struct{ From, To, Label string }

func (a c13Arrow) String() string { return a.From + "->" + a.To + ":" + a.Label }

type c13Model struct {
	apps map[string]*c13App
	eps  map[string]*c13Ep // key "App <- ep"
}

func c13Index(apps []*c13App) *c13Model {
	m := &c13Model{apps: map[string]*c13App{}, eps: map[string]*c13Ep{}}
	for _, a := range apps {
		m.apps[a.Name] = a
		for _, e := range a.Eps {
			m.eps[c13Key(a.Name, e.Name)] = e
		}
	}
	return m
}

type c13WalkStats struct {
	recursionCuts   int            // calls to an endpoint already in progress
	selfCalls       int            // ... where caller endpoint == callee endpoint
	expansions      map[string]int // how often each endpoint was expanded
	blackboxHits    int
	maxCallDepth    int // block nesting depth of a call statement
	danglingReached bool
	danglingApp     bool
	danglingEp      bool
	overBudget      bool
}

// c13Walk lists the call arrows the property statement demands: depth-first from the start in
// source order; a callee that is already in progress (on the walk stack) is shown but not
// expanded again; blackboxed callees are shown but not expanded. budget bounds the walk.
func (m *c13Model) walk(startApp, startEp string, blackbox map[string]bool, budget int) ([]c13Arrow, *c13WalkStats) {
	st := &c13WalkStats{expansions: map[string]int{}}
	var out []c13Arrow
	inProgress := map[string]int{}
	var expand func(app string, ep *c13Ep)
	var stmts func(app string, cur *c13Ep, ss []*c13Stmt, depth int)
	stmts = func(app string, cur *c13Ep, ss []*c13Stmt, depth int) {
		for _, s := range ss {
			if st.overBudget {
				return
			}
			switch s.K {
			case "call":
				if len(out) >= budget {
					st.overBudget = true
					return
				}
				out = append(out, c13Arrow{app, s.App, s.Ep})
				if depth > st.maxCallDepth {
					st.maxCallDepth = depth
				}
				key := c13Key(s.App, s.Ep)
				te := m.eps[key]
				if te == nil {
					st.danglingReached = true
					if m.apps[s.App] == nil {
						st.danglingApp = true
					} else {
						st.danglingEp = true
					}
					continue
				}
				if inProgress[key] > 0 {
					st.recursionCuts++
					if te == cur && s.App == app {
						st.selfCalls++
					}
					continue
				}
				if blackbox[key] {
					st.blackboxHits++
					continue
				}
				expand(s.App, te)
			case "oneof":
				for _, c := range s.Choices {
					stmts(app, cur, c.Stmts, depth+1)
				}
			default:
				stmts(app, cur, s.Kids, depth+1)
			}
		}
	}
	expand = func(app string, ep *c13Ep) {
		key := c13Key(app, ep.Name)
		inProgress[key]++
		st.expansions[key]++
		stmts(app, ep, ep.Stmts, 0)
		inProgress[key]--
	}
	if ep := m.eps[c13Key(startApp, startEp)]; ep != nil && !blackbox[c13Key(startApp, startEp)] {
		expand(startApp, ep)
	}
	return out, st
}

// c13OnCycle returns the endpoints that can reach themselves through call statements.
func (m *c13Model) onCycle() map[string]bool {
	adj := map[string][]string{}
	var collect func(from string, ss []*c13Stmt)
	collect = func(from string, ss []*c13Stmt) {
		for _, s := range ss {
			if s.K == "call" {
				if k := c13Key(s.App, s.Ep); m.eps[k] != nil {
					adj[from] = append(adj[from], k)
				}
			}
			collect(from, s.Kids)
			for _, c := range s.Choices {
				collect(from, c.Stmts)
			}
		}
	}
	var keys []string
	for k, e := range m.eps {
		keys = append(keys, k)
		collect(k, e.Stmts)
	}
	sort.Strings(keys)
	res := map[string]bool{}
	for _, k := range keys {
		seen := map[string]bool{}
		stack := append([]string{}, adj[k]...)
		for len(stack) > 0 {
			n := stack[len(stack)-1]
			stack = stack[:len(stack)-1]
			if n == k {
				res[k] = true
				break
			}
			if seen[n] {
				continue
			}
			seen[n] = true
			stack = append(stack, adj[n]...)
		}
	}
	return res
}

func c13HasRet(ss []*c13Stmt) bool {
	for _, s := range ss {
		if s.K == "ret" || c13HasRet(s.Kids) {
			return true
		}
		for _, c := range s.Choices {
			if c13HasRet(c.Stmts) {
				return true
			}
		}
	}
	return false
}

func c13StripRets(ss []*c13Stmt) {
	for _, s := range ss {
		if s.K == "ret" {
			s.K, s.T = "act", "noret"
		}
		c13StripRets(s.Kids)
		for _, c := range s.Choices {
			c13StripRets(c.Stmts)
		}
	}
}

// ---------- generator ----------

var c13AppNames = []string{"A", "B", "Ns :: Svc", "D", "E"}
var c13Payloads = []string{"ok", "ok <: string", "error <: Foo", "200", "ok <: A.Thing"}
var c13Preds = []string{"c", "x > 1", "more work", "ready"}

type c13Gen struct {
	t     *rapid.T
	apps  []*c13App
	cur   int
	curEp int
	// forward: calls only to endpoints later in declaration order (acyclic call graph)
	forward bool
	// dangling population
	dangling bool
}

func (g *c13Gen) call() *c13Stmt {
	t := g.t
	if g.dangling && rapid.IntRange(0, 4).Draw(t, "dangle") == 4 {
		if rapid.Bool().Draw(t, "dangleapp") {
			return &c13Stmt{K: "call", App: "Ghost", Ep: "boo"}
		}
		ta := g.apps[rapid.IntRange(0, len(g.apps)-1).Draw(t, "ta")]
		return &c13Stmt{K: "call", App: ta.Name, Ep: "nope"}
	}
	tai := rapid.IntRange(0, len(g.apps)-1).Draw(t, "ta")
	ta := g.apps[tai]
	tei := rapid.IntRange(0, len(ta.Eps)-1).Draw(t, "te")
	te := ta.Eps[tei]
	if g.forward && !(tai > g.cur || (tai == g.cur && tei > g.curEp)) {
		return &c13Stmt{K: "act", T: "no forward target"}
	}
	s := &c13Stmt{K: "call", App: ta.Name, Ep: te.Name}
	if tai == g.cur && !te.Rest && rapid.IntRange(0, 3).Draw(t, "dot") == 3 {
		s.Dot = true
	}
	return s
}

func (g *c13Gen) stmts(depth, max int) []*c13Stmt {
	t := g.t
	n := rapid.IntRange(1, max).Draw(t, "n")
	var out []*c13Stmt
	for i := 0; i < n; i++ {
		k := rapid.IntRange(0, 13).Draw(t, "k")
		if depth >= 3 && k >= 7 {
			k = k % 7
		}
		switch k {
		case 0:
			out = append(out, &c13Stmt{K: "act", T: fmt.Sprintf("work %d", i)})
		case 1, 2, 3, 4:
			out = append(out, g.call())
		case 5, 6:
			out = append(out, &c13Stmt{K: "ret", T: pick(t, c13Payloads, "pl")})
		case 7:
			out = append(out, &c13Stmt{K: "if", T: pick(t, c13Preds, "pred"), Kids: g.stmts(depth+1, 3)})
			ne := rapid.IntRange(0, 2).Draw(t, "nelse")
			for j := 0; j < ne; j++ {
				e := &c13Stmt{K: "else", Kids: g.stmts(depth+1, 3)}
				if j < ne-1 {
					e.T = "if " + pick(t, c13Preds, "pred")
				}
				out = append(out, e)
			}
		case 8:
			out = append(out, &c13Stmt{K: pick(t, []string{"while", "until", "loop", "for", "alt"}, "loopkw"), T: pick(t, c13Preds, "pred"), Kids: g.stmts(depth+1, 3)})
		case 9, 10:
			s := &c13Stmt{K: "oneof"}
			nc := rapid.IntRange(1, 3).Draw(t, "nc")
			for c := 0; c < nc; c++ {
				s.Choices = append(s.Choices, c13Choice{Cond: fmt.Sprintf("case%d", c), Stmts: g.stmts(depth+1, 2)})
			}
			out = append(out, s)
		case 11:
			out = append(out, &c13Stmt{K: "foreach", T: "x in y", Kids: g.stmts(depth+1, 3)})
		default:
			out = append(out, &c13Stmt{K: "grp", T: "grp " + pick(t, []string{"one", "two words"}, "gl"), Kids: g.stmts(depth+1, 3)})
		}
	}
	return out
}

func c13AllCalls(apps []*c13App) []*c13Stmt {
	var out []*c13Stmt
	var rec func(ss []*c13Stmt)
	rec = func(ss []*c13Stmt) {
		for _, s := range ss {
			if s.K == "call" {
				out = append(out, s)
			}
			rec(s.Kids)
			for _, c := range s.Choices {
				rec(c.Stmts)
			}
		}
	}
	for _, a := range apps {
		for _, e := range a.Eps {
			rec(e.Stmts)
		}
	}
	return out
}

var c13WalkCap = scale(250, 500)

func c13GenModel(t *rapid.T, dangling bool) c13Case {
	g := &c13Gen{t: t, dangling: dangling}
	g.forward = rapid.IntRange(0, 2).Draw(t, "forward") == 2
	na := rapid.IntRange(1, scale(4, 5)).Draw(t, "napps")
	for i := 0; i < na; i++ {
		a := &c13App{Name: c13AppNames[i]}
		switch rapid.IntRange(0, 11).Draw(t, "apptag") {
		case 10:
			a.Human = true
		case 11:
			a.Cron = true
		}
		ne := rapid.IntRange(1, scale(3, 4)).Draw(t, "neps")
		for j := 0; j < ne; j++ {
			e := &c13Ep{Name: fmt.Sprintf("e%d", j+1)}
			if rapid.IntRange(0, 7).Draw(t, "rest") == 7 {
				e.Rest = true
				e.Name = pick(t, []string{"GET", "POST"}, "method") + fmt.Sprintf(" /r%d", j+1)
			}
			e.Hidden = rapid.IntRange(0, 14).Draw(t, "hidden") == 14
			a.Eps = append(a.Eps, e)
		}
		g.apps = append(g.apps, a)
	}
	c := c13Case{Dangling: dangling, Forward: g.forward}
	c.Group = rapid.IntRange(0, 3).Draw(t, "group") == 3
	if c.Group {
		for _, a := range g.apps {
			if rapid.IntRange(0, 2).Draw(t, "owner") > 0 {
				a.Owner = pick(t, []string{"g1", "g2"}, "ownerv")
			}
		}
	}
	for ai, a := range g.apps {
		for ei, e := range a.Eps {
			g.cur, g.curEp = ai, ei
			if rapid.IntRange(0, 5).Draw(t, "empty") != 5 {
				e.Stmts = g.stmts(0, scale(4, 5))
			}
		}
	}
	m := c13Index(g.apps)
	// known finding: a recursive call to an in-progress endpoint that returns a payload
	// deactivates the running participant. Excluded by construction: no return on a call cycle.
	if knownActive(c13FindRecursive) {
		cyc := m.onCycle()
		hit := false
		for k, e := range m.eps {
			if cyc[k] && c13HasRet(e.Stmts) {
				c13StripRets(e.Stmts)
				hit = true
			}
		}
		if hit {
			c.Excl = append(c.Excl, c13FindRecursive)
		}
	}
	// blackboxes: a few endpoints that have statements
	if rapid.IntRange(0, 2).Draw(t, "bb") == 2 {
		for _, a := range g.apps {
			for _, e := range a.Eps {
				if len(e.Stmts) > 0 && rapid.IntRange(0, 3).Draw(t, "bbpick") == 3 {
					c.Blackbox = append(c.Blackbox, c13Key(a.Name, e.Name))
				}
			}
		}
	}
	for _, a := range g.apps {
		for _, e := range a.Eps {
			c.Starts = append(c.Starts, c13Key(a.Name, e.Name))
		}
	}
	// bound the size of every walk: the call tree is expanded without memoisation, so
	// diamonds multiply; drop trailing calls until every start stays under the cap.
	for iter := 0; iter < 400; iter++ {
		over := false
		for _, a := range g.apps {
			for _, e := range a.Eps {
				if _, st := m.walk(a.Name, e.Name, nil, c13WalkCap); st.overBudget {
					over = true
				}
			}
		}
		if !over {
			break
		}
		calls := c13AllCalls(g.apps)
		last := calls[len(calls)-1]
		*last = c13Stmt{K: "act", T: "pruned"}
		c.Pruned++
	}
	c.Apps = g.apps
	return c
}

func genC13(t *rapid.T) c13Case {
	c := c13GenModel(t, false)
	c.Text = c13Render(c.Apps)
	return c
}

func genC13Dangling(t *rapid.T) c13Case {
	c := c13GenModel(t, true)
	m := c13Index(c.Apps)
	// starts: every endpoint, plus sometimes a start that does not exist
	if rapid.IntRange(0, 3).Draw(t, "badstart") == 3 {
		c.Starts = append(c.Starts, pick(t, []string{"Ghost <- boo", "A <- nope", "A", " <- e1"}, "badstartv"))
	}
	// known findings: reaching a dangling target panics. While listed, keep only the starts
	// from which no such target is reachable (the dangling calls stay in the model).
	actEp, actApp := knownActive(c13FindDanglingEp), knownActive(c13FindDanglingApp)
	if actEp || actApp {
		bb := map[string]bool{}
		for _, b := range c.Blackbox {
			bb[b] = true
		}
		var keep []string
		exEp, exApp := false, false
		for _, s := range c.Starts {
			p := strings.SplitN(s, " <- ", 2)
			if len(p) != 2 || m.eps[s] == nil {
				keep = append(keep, s)
				continue
			}
			delete(bb, s)
			_, st := m.walk(p[0], p[1], bb, c13WalkCap)
			if st.danglingEp && actEp {
				exEp = true
				continue
			}
			if st.danglingApp && actApp {
				exApp = true
				continue
			}
			keep = append(keep, s)
		}
		c.Starts = keep
		if exEp {
			c.Excl = append(c.Excl, c13FindDanglingEp)
		}
		if exApp {
			c.Excl = append(c.Excl, c13FindDanglingApp)
		}
	}
	c.Text = c13Render(c.Apps)
	return c
}

// ---------- worker op ----------

type c13SdArg struct {
	Text     string   `json:"text"`
	Starts   []string `json:"starts"`
	Blackbox []string `json:"blackbox"`
	Group    string   `json:"group"`
}

type c13SdOne struct {
	Out   string `json:"out,omitempty"`
	Err   string `json:"err,omitempty"`
	Panic string `json:"panic,omitempty"`
	Frame string `json:"frame,omitempty"`
}

type c13SdRes struct {
	Diags []c13SdOne `json:"diags"`
}

var _ = registerOp("c13.sd", func(raw json.RawMessage) (interface{}, error) {
	var a c13SdArg
	if err := json.Unmarshal(raw, &a); err != nil {
		return nil, err
	}
	m, err := parse.NewParser().ParseString(a.Text)
	if err != nil {
		return nil, fmt.Errorf("parse: %v", err)
	}
	lg := logrus.New()
	lg.SetOutput(io.Discard)
	res := &c13SdRes{}
	for _, start := range a.Starts {
		one := c13SdOne{}
		func() {
			defer func() {
				if r := recover(); r != nil {
					one.Panic = fmt.Sprint(r)
					one.Frame = repoFrame(string(debug.Stack()))
				}
			}()
			bbs := map[string]*cmdutils.Upto{}
			for _, b := range a.Blackbox {
				if b != start {
					bbs[b] = &cmdutils.Upto{Comment: "blackboxed", ValueType: cmdutils.BBCommandLine}
				}
			}
			p := &sequencediagram.SequenceDiagParam{
				AppLabeler:      cmdutils.MakeFormatParser("%(appname)"),
				EndpointLabeler: cmdutils.MakeFormatParser("%(epname)"),
				Endpoints:       []string{start},
				Blackboxes:      bbs,
				Group:           a.Group,
			}
			out, err := sequencediagram.GenerateSequenceDiag(m, p, lg)
			if err != nil {
				one.Err = err.Error()
				if one.Err == "" {
					one.Err = "error"
				}
				return
			}
			one.Out = c13Canon(out)
		}()
		res.Diags = append(res.Diags, one)
	}
	return res, nil
})

// ---------- reader for the emitted PlantUML subset ----------

var (
	c13DeclRe   = regexp.MustCompile(`^(\w+) "(.*)" as (_\d+)$`)
	c13CallRe   = regexp.MustCompile(`^(\[|_\d+)->(_\d+) : ?(.*)$`)
	c13RetRe    = regexp.MustCompile(`^(\[|_\d+)<--(_\d+) : ?(.*)$`)
	c13ActionRe = regexp.MustCompile(`^(_\d+) -> (_\d+) : ?(.*)$`)
	c13ActRe    = regexp.MustCompile(`^(de)?activate (_\d+)$`)
	c13NoteRe   = regexp.MustCompile(`^note (over (_\d+)|left|right): ?(.*)$`)
	c13PartRe   = regexp.MustCompile(`^participant (_\d+)$`)
)

type c13Diagram struct {
	arrows   []c13Arrow // call arrows, participants resolved to their labels
	errs     []string   // structural violations
	known17  []string   // "call from inactive" explained by the recursive-return deactivate
	nBlocks  int
	nReturns int
	nNotes   int
}

// c13Read checks the structural invariants of the property statement while reading.
// exempt(label) tells whether a participant's activation is suppressed by design (human/cron).
func c13Read(txt string, exempt func(label string) bool) *c13Diagram {
	d := &c13Diagram{}
	alias := map[string]string{}
	labels := map[string]bool{}
	lines := strings.Split(txt, "\n")
	for _, ln := range lines {
		if m := c13DeclRe.FindStringSubmatch(strings.TrimSpace(ln)); m != nil {
			if _, dup := alias[m[3]]; dup {
				d.errs = append(d.errs, "participant alias declared twice: "+m[3])
			}
			if labels[m[2]] {
				d.errs = append(d.errs, "participant declared twice: "+m[2])
			}
			alias[m[3]] = m[2]
			labels[m[2]] = true
		}
	}
	used := func(a string) {
		if a == "[" {
			return
		}
		if _, ok := alias[a]; !ok {
			d.errs = append(d.errs, "participant used but not declared: "+a)
		}
	}
	active := map[string]int{}
	tainted := map[string]bool{}
	var blocks []string
	inBox := false
	// last two events: kind + participants
	type ev struct{ kind, a, b string }
	var e1, e2 ev // e2 is the most recent
	push := func(e ev) { e1, e2 = e2, e }
	for _, ln := range lines {
		s := strings.TrimSpace(ln)
		switch {
		case s == "" || strings.HasPrefix(s, "''") || s == "@startuml" || s == "@enduml" ||
			strings.HasPrefix(s, "skinparam ") || strings.HasPrefix(s, "== ") || strings.HasPrefix(s, "title "):
			continue
		case c13DeclRe.MatchString(s):
			continue
		}
		if m := c13ActRe.FindStringSubmatch(s); m != nil {
			used(m[2])
			if m[1] == "" {
				active[m[2]]++
				push(ev{"activate", m[2], ""})
			} else {
				if active[m[2]] <= 0 {
					d.errs = append(d.errs, "deactivate without a matching activate: "+alias[m[2]])
				} else {
					active[m[2]]--
				}
				// call S->P immediately followed by its return S<--P and "deactivate P":
				// nothing activated P for this call
				if e1.kind == "call" && e2.kind == "ret" && e1.b == m[2] && e2.b == m[2] && e1.a == e2.a {
					tainted[m[2]] = true
				}
				push(ev{"deactivate", m[2], ""})
			}
			continue
		}
		if m := c13CallRe.FindStringSubmatch(s); m != nil {
			used(m[1])
			used(m[2])
			from := m[1]
			if from != "[" {
				if active[from] <= 0 && !exempt(alias[from]) {
					msg := fmt.Sprintf("call sent by inactive participant %s: %s", alias[from], s)
					if tainted[from] {
						d.known17 = append(d.known17, msg)
					} else {
						d.errs = append(d.errs, msg)
					}
				}
				from = alias[from]
			}
			d.arrows = append(d.arrows, c13Arrow{from, alias[m[2]], m[3]})
			push(ev{"call", m[1], m[2]})
			continue
		}
		if m := c13RetRe.FindStringSubmatch(s); m != nil {
			used(m[1])
			used(m[2])
			d.nReturns++
			push(ev{"ret", m[1], m[2]})
			continue
		}
		if m := c13ActionRe.FindStringSubmatch(s); m != nil {
			used(m[1])
			used(m[2])
			if m[1] != m[2] {
				d.errs = append(d.errs, "spaced arrow between different participants: "+s)
			}
			push(ev{"action", m[1], ""})
			continue
		}
		if m := c13NoteRe.FindStringSubmatch(s); m != nil {
			if m[2] != "" {
				used(m[2])
			}
			d.nNotes++
			push(ev{"note", "", ""})
			continue
		}
		if strings.HasPrefix(s, `box "`) {
			if inBox {
				d.errs = append(d.errs, "box opened inside a box")
			}
			inBox = true
			continue
		}
		if s == "end box" {
			if !inBox {
				d.errs = append(d.errs, "end box without box")
			}
			inBox = false
			continue
		}
		if m := c13PartRe.FindStringSubmatch(s); m != nil {
			used(m[1])
			if !inBox {
				d.errs = append(d.errs, "participant line outside a box")
			}
			continue
		}
		w := strings.SplitN(s, " ", 2)[0]
		switch w {
		case "opt", "loop", "group", "alt":
			blocks = append(blocks, w)
			d.nBlocks++
			push(ev{"block", "", ""})
		case "else":
			if len(blocks) == 0 || blocks[len(blocks)-1] != "alt" {
				d.errs = append(d.errs, "else outside an alt block")
			}
			push(ev{"block", "", ""})
		case "end":
			if s != "end" {
				d.errs = append(d.errs, "unrecognised line: "+s)
			} else if len(blocks) == 0 {
				d.errs = append(d.errs, "end without an open block")
			} else {
				blocks = blocks[:len(blocks)-1]
			}
			push(ev{"block", "", ""})
		default:
			d.errs = append(d.errs, "unrecognised line: "+s)
		}
	}
	if len(blocks) > 0 {
		d.errs = append(d.errs, fmt.Sprintf("%d block(s) never closed: %v", len(blocks), blocks))
	}
	if inBox {
		d.errs = append(d.errs, "box never closed")
	}
	var ks []string
	for k, v := range active {
		if v != 0 {
			ks = append(ks, fmt.Sprintf("%s=%d", alias[k], v))
		}
	}
	sort.Strings(ks)
	if len(ks) > 0 {
		d.errs = append(d.errs, "activations left open: "+strings.Join(ks, ","))
	}
	return d
}

// c13Canon orders the trailing box sections (emitted in map order by the generator) so that
// messages are identical from run to run; the reader does not depend on their order.
func c13Canon(out string) string {
	lines := strings.Split(out, "\n")
	var body, tail []string
	var boxes []string
	var cur []string
	for _, ln := range lines {
		s := strings.TrimSpace(ln)
		switch {
		case strings.HasPrefix(s, `box "`):
			cur = []string{ln}
		case s == "end box" && cur != nil:
			sort.Strings(cur[1:])
			boxes = append(boxes, strings.Join(append(cur, ln), "\n"))
			cur = nil
		case cur != nil:
			cur = append(cur, ln)
		case s == "@enduml" || (len(tail) > 0):
			tail = append(tail, ln)
		default:
			body = append(body, ln)
		}
	}
	sort.Strings(boxes)
	return strings.Join(append(append(body, boxes...), tail...), "\n")
}

// ---------- check ----------

func c13MaxRetDepthInLast(ss []*c13Stmt) bool {
	// a return inside a nested block of the last statement
	if len(ss) == 0 {
		return false
	}
	last := ss[len(ss)-1]
	if c13HasRet(last.Kids) {
		return true
	}
	for _, c := range last.Choices {
		if c13HasRet(c.Stmts) {
			return true
		}
	}
	return false
}

func c13Arrows(as []c13Arrow) string {
	var p []string
	for _, a := range as {
		p = append(p, a.String())
	}
	return strings.Join(p, " ; ")
}

func checkC13(x *X, c c13Case) error {
	m := c13Index(c.Apps)
	for _, e := range c.Excl {
		x.Exclude(e)
	}
	if c.Pruned > 0 {
		x.Class("walk_pruned_to_cap")
	}
	if c.Forward {
		x.Class("model_acyclic_by_construction")
	}
	if c.Group {
		x.Class("option_groupby")
	}
	if len(c.Blackbox) > 0 {
		x.Class("option_blackbox")
	}
	for _, a := range c.Apps {
		if a.Human {
			x.Class("app_human")
		}
		if a.Cron {
			x.Class("app_cron")
		}
		for _, e := range a.Eps {
			if e.Hidden {
				x.Class("ep_hidden")
			}
			if e.Rest {
				x.Class("ep_rest")
			}
			if c13MaxRetDepthInLast(e.Stmts) {
				x.Class("return_in_nested_block_of_last_stmt")
			}
		}
	}
	arg := c13SdArg{Text: c.Text, Starts: c.Starts, Blackbox: c.Blackbox}
	if c.Group {
		arg.Group = "owner"
	}
	var res c13SdRes
	death, err, inconclusive := sandboxCall("c13.sd", arg, &res)
	if inconclusive {
		x.Inconclusive("c13.sd overran once and did not reproduce")
		return nil
	}
	if death != nil {
		return finding(death.Sig(), "sequence diagram generation did not return (%s: %s)\nstarts %v blackbox %v\n---- text\n%s",
			death.Kind, firstLine(death.Text), c.Starts, c.Blackbox, c.Text)
	}
	if err != nil {
		return fmt.Errorf("legal specification rejected: %v\n---- text\n%s", err, c.Text)
	}
	if len(res.Diags) != len(c.Starts) {
		return fmt.Errorf("worker returned %d diagrams for %d starts", len(res.Diags), len(c.Starts))
	}
	exempt := func(label string) bool {
		a := m.apps[label]
		return a != nil && (a.Human || a.Cron)
	}
	nontrivial := false
	var firstKnown error
	for i, start := range c.Starts {
		d := res.Diags[i]
		x.Class("diagrams")
		if d.Panic != "" {
			return finding("panic@"+d.Frame, "sequence diagram for start %q panicked: %s\nblackbox %v\n---- text\n%s", start, d.Panic, c.Blackbox, c.Text)
		}
		p := strings.SplitN(start, " <- ", 2)
		startOK := len(p) == 2 && m.eps[start] != nil
		bb := map[string]bool{}
		for _, b := range c.Blackbox {
			if b != start {
				bb[b] = true
			}
		}
		var want []c13Arrow
		var st *c13WalkStats
		if startOK {
			want, st = m.walk(p[0], p[1], bb, 1<<20)
		}
		if d.Err != "" {
			x.Class("returned_error")
			if !startOK {
				x.Class("error_for_missing_start")
				continue
			}
			if st.danglingReached {
				x.Class("error_for_dangling_target")
				continue
			}
			return fmt.Errorf("start %q exists and every reachable call target exists, yet an error was returned: %s\n---- text\n%s", start, d.Err, c.Text)
		}
		if !startOK {
			// a diagram for a start that does not exist: nothing to compare it with
			x.Class("diagram_for_missing_start")
			continue
		}
		rd := c13Read(d.Out, exempt)
		if c.Dangling && st.danglingReached {
			// a diagram although a target is missing: only the structure can be demanded
			x.Class("diagram_with_dangling_target")
			if len(rd.errs) > 0 {
				return fmt.Errorf("start %q: malformed diagram: %s\n---- text\n%s\n---- diagram\n%s", start, strings.Join(rd.errs, "; "), c.Text, d.Out)
			}
			continue
		}
		// expected arrows: arrows into ~cron applications and ~hidden endpoints are suppressed by design
		var wantVis []c13Arrow
		for _, a := range want {
			ta, te := m.apps[a.To], m.eps[c13Key(a.To, a.Label)]
			if (ta != nil && ta.Cron) || (te != nil && te.Hidden) {
				continue
			}
			wantVis = append(wantVis, a)
		}
		got := rd.arrows
		if len(got) > 0 && got[0].From == "[" {
			if got[0].To != p[0] || got[0].Label != p[1] {
				rd.errs = append(rd.errs, "entry arrow does not point at the start: "+got[0].String())
			}
			got = got[1:]
		}
		for _, a := range got {
			if a.From == "[" {
				rd.errs = append(rd.errs, "second entry arrow: "+a.String())
			}
		}
		if c13Arrows(got) != c13Arrows(wantVis) {
			return fmt.Errorf("start %q: call arrows differ from the reference walk\nwant %s\ngot  %s\nblackbox %v\n---- text\n%s\n---- diagram\n%s",
				start, c13Arrows(wantVis), c13Arrows(got), c.Blackbox, c.Text, d.Out)
		}
		if len(rd.errs) > 0 {
			return fmt.Errorf("start %q: malformed diagram: %s\nblackbox %v\n---- text\n%s\n---- diagram\n%s", start, strings.Join(rd.errs, "; "), c.Blackbox, c.Text, d.Out)
		}
		if len(rd.known17) > 0 && firstKnown == nil {
			firstKnown = finding(c13SigRecursive, "start %q: %s\n---- text\n%s\n---- diagram\n%s", start, strings.Join(rd.known17, "; "), c.Text, d.Out)
		}
		// classes
		diamond := false
		for _, n := range st.expansions {
			if n >= 2 {
				diamond = true
			}
		}
		if st.recursionCuts > 0 {
			x.Class("walk_with_cycle")
		}
		if st.selfCalls > 0 {
			x.Class("walk_with_self_call")
		}
		if st.recursionCuts > st.selfCalls {
			x.Class("walk_with_mutual_recursion")
		}
		if diamond {
			x.Class("walk_with_diamond_or_repeat")
		}
		if st.maxCallDepth >= 2 {
			x.Class("walk_call_nested_ge2")
		}
		if st.blackboxHits > 0 {
			x.Class("walk_blackbox_hit")
		}
		if rd.nReturns > 0 {
			x.Class("diagram_with_return")
		}
		if len(want) == 0 {
			x.Class("walk_without_calls")
		}
		if (st.recursionCuts > 0 || diamond) && st.maxCallDepth >= 2 {
			nontrivial = true
		}
	}
	if firstKnown != nil {
		return firstKnown
	}
	if nontrivial {
		x.NonTrivial(c.Text + "|" + strings.Join(c.Blackbox, ",") + fmt.Sprint(c.Group))
		x.Sample(c.Text)
	}
	return nil
}

var c13Calltree = Define("C13", "calltree",
	"Random call graphs: 1-4 applications (one namespaced, ~human/~cron sometimes, owner attribute for group-by) x 1-3 endpoints (simple or REST, ~hidden sometimes, 1 in 6 empty); statements drawn from action/call/return/if+else chains/while/until/loop/for/alt/for each/group/one of, nested to depth 3, calls to existing endpoints only (so cycles, self-calls, diamonds and repeats arise freely), returns anywhere; walks are pruned to <=250 arrows (thorough tier: up to 5 applications x 4 endpoints, 500 arrows). Every endpoint is used as the start, with an optional blackbox set and group-by. Oracle: the PlantUML text is read line by line (every line must belong to the emitted subset): aliases declared once and before use, activate/deactivate never below zero and zero at the end, a call arrow only from an active participant (human/cron exempt), blocks balanced, else only in alt; the call-arrow sequence (source app, target app, endpoint) equals a depth-first reference walk in source order in which an in-progress or blackboxed callee is shown but not expanded (arrows into ~cron apps / ~hidden endpoints are suppressed by design and not demanded). Non-trivial: some start whose walk has a recursion cut or an endpoint expanded twice (diamond) and a call nested >=2 blocks deep; distinct by text+options.",
	genC13, checkC13)

var c13Dangling = Define("C13", "dangling",
	"Same generator, but 1 call in 5 targets an application (Ghost) or an endpoint (nope) that does not exist, and 1 case in 4 adds a start that does not exist or is malformed. Oracle: generation returns (a diagram or an error) for every start - no panic, no fatal error, no overrun; a returned diagram must still be structurally well-formed, and equal the reference walk when no missing target is reachable from that start. Non-trivial as for calltree.",
	genC13Dangling, checkC13)

func TestC13(t *testing.T) {
	checkKnown(t, "C13")
	c13Calltree.Run(t, scale(700, 3000))
	c13Dangling.Run(t, scale(300, 1200))
}
