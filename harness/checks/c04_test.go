package checks

// C04 — splitting an application's declaration across blocks and imported files merges
// losslessly: compile(joined) == compile(split) apart from source locations and `imports`,
// whatever the partition, the file assignment, the block order and the import order.

import (
	"fmt"
	"path"
	"sort"
	"strings"
	"testing"

	"github.com/anz-bank/sysl/pkg/sysl"
	"github.com/spf13/afero"
	"google.golang.org/protobuf/proto"
	"pgregory.net/rapid"
)

type c04Case struct {
	Joined     string            `json:"joined"` // every application in one block, one file
	Files      map[string]string `json:"files"`  // the split specification: path -> text
	Root       string            `json:"root"`   // the file that is compiled (imports reach all others)
	Classes    []string          `json:"classes"`
	NonTrivial bool              `json:"nontrivial"`
	Excluded   []string          `json:"excluded,omitempty"` // known-finding shapes avoided while generating this case
}

const c04TablePK = "C04-table-pk-split"

// ---------- the partition plan ----------

type c04Member struct {
	td   *TypeDecl
	ep   *Endpoint
	rest *RestNode
}

type c04Block struct {
	app  *App // rendered block (same Name as the original application)
	file int
}

type c04Plan struct {
	noPlaceholder bool // C08 positions: a placeholder declaration is rendered by another renderer
	classes       map[string]bool
	excluded      []string
}

func c04HasTag(m Meta, tag string) bool {
	for _, t := range m.Tags {
		if t == tag {
			return true
		}
	}
	return false
}

// c04SplitType re-opens one !type/!table: its fields are dealt to 2..3 parts, each rendered as
// a declaration of the same type; the type's own attributes and annotations stay on one part.
func c04SplitType(t *rapid.T, td *TypeDecl, plan *c04Plan) []*TypeDecl {
	np := rapid.IntRange(2, 3).Draw(t, "typeparts")
	if np > len(td.Fields) {
		np = len(td.Fields)
	}
	parts := make([]*TypeDecl, np)
	for i := range parts {
		parts[i] = &TypeDecl{Kind: td.Kind, Name: td.Name}
	}
	// a random surjection fields -> parts: the first np fields of a permutation seed the parts
	perm := rapid.Permutation(td.Fields).Draw(t, "fieldorder")
	pkPart := -1
	for i, f := range perm {
		p := i
		if i >= np {
			p = rapid.IntRange(0, np-1).Draw(t, "partof")
		}
		if td.Kind == "relation" && c04HasTag(f.T.Meta, "pk") && knownActive(c04TablePK) {
			// known finding: ExitTable overwrites the primary key with the ~pk fields of the
			// block being left; keep every ~pk field of a !table in one part meanwhile
			if pkPart < 0 {
				pkPart = p
			} else if p != pkPart {
				p = pkPart
				plan.excluded = append(plan.excluded, c04TablePK)
			}
		}
		parts[p].Fields = append(parts[p].Fields, f)
	}
	// inside a part the fields keep their original relative order
	rank := map[string]int{}
	for i, f := range td.Fields {
		rank[f.Name] = i
	}
	var out []*TypeDecl
	for _, p := range parts {
		if len(p.Fields) > 0 {
			sort.SliceStable(p.Fields, func(i, j int) bool { return rank[p.Fields[i].Name] < rank[p.Fields[j].Name] })
			out = append(out, p)
		}
	}
	// the type's tags, attributes and annotations ride on the declarations: all on one, or each kind on a
	// declaration of its own choice (all tags stay together: their order in the model is walk order)
	if rapid.Bool().Draw(t, "metatogether") {
		out[rapid.IntRange(0, len(out)-1).Draw(t, "metapart")].Meta = td.Meta
	} else {
		out[rapid.IntRange(0, len(out)-1).Draw(t, "tagpart")].Meta.Tags = td.Meta.Tags
		ap := out[rapid.IntRange(0, len(out)-1).Draw(t, "attrpart")]
		ap.Meta.Attrs = td.Meta.Attrs
		np := out[rapid.IntRange(0, len(out)-1).Draw(t, "annopart")]
		np.Meta.Annos = td.Meta.Annos
		if len(td.Meta.Tags) > 0 && len(td.Meta.Attrs)+len(td.Meta.Annos) > 0 {
			plan.classes["type_tags_and_attributes_on_different_declarations"] = true
		}
	}
	if !plan.noPlaceholder && rapid.IntRange(0, 3).Draw(t, "placeholderpart") == 0 {
		// one more declaration of the type that has no body ('!type T: ...'), before, between or after the others
		ph := &TypeDecl{Kind: td.Kind, Name: td.Name}
		k := rapid.IntRange(0, len(out)).Draw(t, "placeholderat")
		out = append(out[:k], append([]*TypeDecl{ph}, out[k:]...)...)
		plan.classes["type_placeholder_declaration"] = true
	}
	if len(out) >= 2 {
		plan.classes["type_fields_split"] = true
		if td.Kind == "relation" {
			plan.classes["table_fields_split"] = true
			npk := 0
			for _, p := range out {
				for _, f := range p.Fields {
					if c04HasTag(f.T.Meta, "pk") {
						npk++
						break
					}
				}
			}
			if npk >= 2 {
				plan.classes["table_pk_fields_in_different_blocks"] = true
			}
		}
		if len(td.Meta.Annos) > 0 {
			plan.classes["split_type_has_annotations"] = true
		}
		if len(out) >= 3 {
			plan.classes["type_reopened_twice"] = true
		}
	}
	return out
}

// c04SplitRest re-opens one REST path: the same segment (with its attributes and path
// variable) is declared twice, methods and sub-paths dealt between the two declarations.
func c04SplitRest(t *rapid.T, n *RestNode, plan *c04Plan) []*RestNode {
	items := len(n.Methods) + len(n.Children)
	if items < 2 {
		return []*RestNode{n}
	}
	a := &RestNode{Seg: n.Seg, PathVar: n.PathVar, Meta: n.Meta}
	b := &RestNode{Seg: n.Seg, PathVar: n.PathVar, Meta: n.Meta}
	k := 0
	put := func() *RestNode {
		k++
		switch {
		case k == 1:
			return a
		case k == 2:
			return b
		case rapid.Bool().Draw(t, "restside"):
			return a
		}
		return b
	}
	// deal in a random order so that either declaration may get the first method
	order := rapid.Permutation(c04Iota(items)).Draw(t, "restorder")
	for _, i := range order {
		dst := put()
		if i < len(n.Methods) {
			dst.Methods = append(dst.Methods, n.Methods[i])
		} else {
			dst.Children = append(dst.Children, n.Children[i-len(n.Methods)])
		}
	}
	plan.classes["rest_path_reopened"] = true
	if len(a.Methods) > 0 && len(b.Methods) > 0 {
		plan.classes["rest_path_reopened_with_another_verb"] = true
	}
	return []*RestNode{a, b}
}

func c04Iota(n int) []int {
	out := make([]int, n)
	for i := range out {
		out[i] = i
	}
	return out
}

// c04SplitEndpoint declares a simple endpoint twice: once with its long name, parameters and
// attributes and the "..." body, once bare with the statements (identifiers.md: "the details
// of the definitions will be merged"). Statements stay in one declaration: their order is
// content.
func c04SplitEndpoint(ep *Endpoint, plan *c04Plan) []*Endpoint {
	head := &Endpoint{Kind: "simple", Name: ep.Name, Long: ep.Long, Meta: ep.Meta, Params: ep.Params}
	body := &Endpoint{Kind: "simple", Name: ep.Name, Stmts: ep.Stmts}
	plan.classes["endpoint_declared_twice"] = true
	return []*Endpoint{head, body}
}

func c04MetaEmpty(m Meta) bool { return len(m.Tags)+len(m.Attrs)+len(m.Annos) == 0 }

var c04FilePool = []string{"root.sysl", "part/a.sysl", "b.sysl", "deep/x/c.sysl"}

// c04ImportSpelling spells an import of file `to` inside file `from`: absolute from the
// project root, or relative to the importing file's directory.
func c04ImportSpelling(t *rapid.T, from, to string) string {
	target := strings.TrimSuffix(to, ".sysl")
	if rapid.Bool().Draw(t, "absimport") {
		return "/" + target
	}
	dir := path.Dir(from)
	if dir == "." {
		return target
	}
	ups := strings.Repeat("../", strings.Count(dir, "/")+1)
	return ups + target
}

// c04File is one file of the split specification: its import lines (already spelled) and
// the application blocks it declares, in text order.
type c04File struct {
	Name    string
	Imports []string // "import <path>" targets as written
	Targets []string // the file names those imports resolve to, same order
	Blocks  []*App
}

type c04Layout struct {
	Files      []c04File // Files[0] is the compiled root
	Classes    []string
	Excluded   []string
	NonTrivial bool
}

// c04Partition draws a partition plan for intent in (see the rule of C04/split). It is also
// the multi-file generator of C08.
func c04Partition(t *rapid.T, in *Intent) c04Layout {
	plan := &c04Plan{classes: map[string]bool{}}
	var blocks []*c04Block
	maxBlocks := 0
	for _, a := range in.Apps {
		var ms []c04Member
		// one chosen type has its fields split over re-opened type blocks
		chosen := -1
		var cand []int
		for i, td := range a.Types {
			if (td.Kind == "tuple" || td.Kind == "relation") && len(td.Fields) >= 2 {
				cand = append(cand, i)
			}
		}
		if len(cand) > 0 && rapid.IntRange(0, 3).Draw(t, "splittype") != 0 {
			chosen = cand[rapid.IntRange(0, len(cand)-1).Draw(t, "whichtype")]
		}
		for i, td := range a.Types {
			if i == chosen {
				for _, p := range c04SplitType(t, td, plan) {
					ms = append(ms, c04Member{td: p})
				}
				continue
			}
			ms = append(ms, c04Member{td: td})
		}
		for _, ep := range a.Eps {
			if ep.Kind == "simple" && len(ep.Stmts) > 0 && (ep.Long != "" || len(ep.Params) > 0 || !c04MetaEmpty(ep.Meta)) &&
				rapid.IntRange(0, 2).Draw(t, "splitep") == 0 {
				for _, p := range c04SplitEndpoint(ep, plan) {
					ms = append(ms, c04Member{ep: p})
				}
				continue
			}
			ms = append(ms, c04Member{ep: ep})
		}
		for _, r := range a.Rest {
			if rapid.Bool().Draw(t, "splitrest") {
				for _, p := range c04SplitRest(t, r, plan) {
					ms = append(ms, c04Member{rest: p})
				}
				continue
			}
			ms = append(ms, c04Member{rest: r})
		}
		if len(ms) == 0 {
			// nothing to partition: the application stays one block
			blocks = append(blocks, &c04Block{app: a})
			continue
		}
		if len(ms) >= 3 {
			plan.classes["app_with_ge3_members"] = true
		}
		kmax := len(ms)
		if kmax > 6 {
			kmax = 6
		}
		k := rapid.IntRange(1, kmax).Draw(t, "nblocks")
		parts := make([]*App, k)
		for i := range parts {
			parts[i] = &App{Name: a.Name}
		}
		for i, m := range ms {
			b := parts[i%k] // every block gets a member …
			if i >= k {
				b = parts[rapid.IntRange(0, k-1).Draw(t, "blockof")] // … the rest anywhere
			}
			switch {
			case m.td != nil:
				b.Types = append(b.Types, m.td)
			case m.ep != nil:
				b.Eps = append(b.Eps, m.ep)
			default:
				b.Rest = append(b.Rest, m.rest)
			}
		}
		// the header (long name, attributes, annotations, mixins) rides on any one block
		h := parts[rapid.IntRange(0, k-1).Draw(t, "headerblock")]
		h.Long, h.Meta, h.Mixins = a.Long, a.Meta, a.Mixins
		if k > 1 && h != parts[0] {
			plan.classes["header_not_on_first_block"] = true
		}
		for _, p := range parts {
			blocks = append(blocks, &c04Block{app: p})
		}
		if k > maxBlocks {
			maxBlocks = k
		}
		plan.classes[fmt.Sprintf("app_blocks_%d", k)] = true
		if k >= 4 {
			plan.classes["app_reopened_ge3_times"] = true
		}
	}

	// files and block order: one permutation of all blocks of all applications; the first
	// nfiles blocks seed one file each (a file needs at least one application), the rest go anywhere
	blocks = rapid.Permutation(blocks).Draw(t, "blockorder")
	nfiles := rapid.IntRange(1, 4).Draw(t, "nfiles")
	if nfiles > len(blocks) {
		nfiles = len(blocks)
	}
	for i, b := range blocks {
		b.file = i
		if i >= nfiles {
			b.file = rapid.IntRange(0, nfiles-1).Draw(t, "fileof")
		}
	}
	// import DAG: file i>0 is imported by at least one earlier file, plus random extra edges
	imports := make([][]int, nfiles)
	for i := 1; i < nfiles; i++ {
		p := rapid.IntRange(0, i-1).Draw(t, "importer")
		imports[p] = append(imports[p], i)
		for j := 0; j < i; j++ {
			if j != p && rapid.IntRange(0, 3).Draw(t, "extraedge") == 0 {
				imports[j] = append(imports[j], i)
				plan.classes["file_imported_twice"] = true
			}
		}
	}
	out := c04Layout{}
	filesOfApp := map[string]map[int]bool{}
	blocksOfApp := map[string]int{}
	for f := 0; f < nfiles; f++ {
		cf := c04File{Name: c04FilePool[f]}
		imps := imports[f]
		if len(imps) > 1 {
			imps = rapid.Permutation(imps).Draw(t, "importorder")
		}
		for _, to := range imps {
			cf.Imports = append(cf.Imports, c04ImportSpelling(t, c04FilePool[f], c04FilePool[to]))
			cf.Targets = append(cf.Targets, c04FilePool[to])
		}
		for _, b := range blocks {
			if b.file == f {
				cf.Blocks = append(cf.Blocks, b.app)
				k := appKey(b.app.Name)
				if filesOfApp[k] == nil {
					filesOfApp[k] = map[int]bool{}
				}
				filesOfApp[k][f] = true
				blocksOfApp[k]++
			}
		}
		out.Files = append(out.Files, cf)
	}
	plan.classes[fmt.Sprintf("files_%d", nfiles)] = true
	out.NonTrivial = plan.classes["type_fields_split"]
	for k, fs := range filesOfApp {
		if len(fs) >= 2 {
			plan.classes["app_spread_over_files"] = true
		}
		if blocksOfApp[k] >= 3 && len(fs) >= 2 {
			plan.classes["app_ge3_blocks_over_ge2_files"] = true
			out.NonTrivial = true
		}
	}
	if maxBlocks <= 1 && !plan.classes["type_fields_split"] && nfiles == 1 {
		plan.classes["not_split_at_all"] = true
	}
	for k := range plan.classes {
		out.Classes = append(out.Classes, k)
	}
	sort.Strings(out.Classes)
	out.Excluded = plan.excluded
	return out
}

func genC04(t *rapid.T) c04Case {
	in := GenIntentOpt(t, IntentOpts{Subs: true, SubsOrderFree: true, EpAnnos: true})
	indent := pick(t, []string{"    ", "  ", "\t", "   "}, "indent")
	lay := c04Partition(t, in)
	files := map[string]string{}
	for _, f := range lay.Files {
		var sb strings.Builder
		for _, imp := range f.Imports {
			sb.WriteString("import " + imp + "\n")
		}
		if len(f.Imports) > 0 {
			sb.WriteString("\n")
		}
		sb.WriteString(Render(&Intent{Apps: f.Blocks}, indent))
		files[f.Name] = sb.String()
	}
	return c04Case{Joined: Render(in, indent), Files: files, Root: lay.Files[0].Name, Classes: lay.Classes,
		NonTrivial: lay.NonTrivial, Excluded: lay.Excluded}
}

// ---------- the check ----------

func c04SplitText(c c04Case) string {
	var names []string
	for n := range c.Files {
		names = append(names, n)
	}
	sort.Strings(names)
	var sb strings.Builder
	for _, n := range names {
		fmt.Fprintf(&sb, "==== file %s%s\n%s", n, map[bool]string{true: " (compiled)", false: ""}[n == c.Root], c.Files[n])
	}
	return c03Visible(sb.String())
}

func c04Normalise(m *sysl.Module) *sysl.Module {
	c := proto.Clone(m).(*sysl.Module)
	c03StripLocations(c.ProtoReflect())
	c.Imports = nil
	// the order of a composite primary key follows the order in which the ~pk fields are
	// walked; once a table's fields are dealt over blocks and files that order is not part of
	// what the property fixes, so keys are compared as sets
	for _, app := range c.Apps {
		for _, ty := range app.Types {
			if pk := ty.GetRelation().GetPrimaryKey(); pk != nil {
				sort.Strings(pk.AttrName)
			}
		}
	}
	return c
}

// c04PKSignature recognises the listed shape: the only difference is a !table's primary key.
func c04PKOnlyDiff(a, b *sysl.Module) bool {
	a2, b2 := proto.Clone(a).(*sysl.Module), proto.Clone(b).(*sysl.Module)
	for _, m := range []*sysl.Module{a2, b2} {
		for _, app := range m.Apps {
			for _, ty := range app.Types {
				if r := ty.GetRelation(); r != nil {
					r.PrimaryKey = nil
				}
			}
		}
	}
	return proto.Equal(a2, b2)
}

func checkC04(x *X, c c04Case) error {
	for _, cl := range c.Classes {
		x.Class(cl)
	}
	for _, e := range c.Excluded {
		x.Exclude(e)
	}
	var names []string
	for n := range c.Files {
		names = append(names, n)
	}
	sort.Strings(names)
	key := c.Joined
	fs := afero.NewMemMapFs()
	for _, n := range names {
		key += "\x00" + n + "\x00" + c.Files[n]
		if err := afero.WriteFile(fs, n, []byte(c.Files[n]), 0o644); err != nil {
			return fmt.Errorf("harness: %v", err)
		}
	}
	if c.NonTrivial {
		x.NonTrivial(key)
	}
	if len(c.Files) > 1 {
		x.Sample(c04SplitText(c))
	}
	j := c03ParseText(c.Joined)
	if j.kind() != "accepted" {
		// the joined text is a GenIntent rendering: legal by construction (C02's subject)
		x.Class("joined_not_accepted")
		return fmt.Errorf("harness/C02 territory: joined specification %s: %v%s\n---- joined\n%s", j.kind(), j.err, j.panic, c03Visible(c.Joined))
	}
	s := c03Parse(c.Root, fs)
	if s.kind() == "panic" {
		return fmt.Errorf("split specification makes the compiler panic (joined compiles): %s\n%s\n---- joined\n%s", s.panic, c04SplitText(c), c03Visible(c.Joined))
	}
	if s.kind() != "accepted" {
		return fmt.Errorf("joined specification compiles, split one is rejected: %v\n%s\n---- joined\n%s", s.err, c04SplitText(c), c03Visible(c.Joined))
	}
	a, b := c04Normalise(j.mod), c04Normalise(s.mod)
	if proto.Equal(a, b) {
		return nil
	}
	d := c03FirstDiff(a.ProtoReflect(), b.ProtoReflect(), "module")
	msg := fmt.Sprintf("joined and split specifications compile to different models (apart from locations and imports): first difference (joined vs split) %s\n%s\n---- joined\n%s",
		d, c04SplitText(c), c03Visible(c.Joined))
	if c04PKOnlyDiff(a, b) {
		return finding("table-primary-key-differs-only", "%s", msg)
	}
	return fmt.Errorf("%s", msg)
}

var c04Prop = Define("C04", "split",
	"GenIntent specifications; a rapid-drawn partition plan per application: members (types incl. enums/aliases/unions, simple endpoints, events, REST trees) dealt to 1..6 blocks; one chosen !type/!table has its fields dealt to 2-3 re-opened type blocks (type attributes/annotations on one of them); a REST path may be re-opened (same segment and attributes declared twice, methods and sub-paths dealt between them); a simple endpoint may be declared twice (long name+params+attributes with '...', statements in the other); app long name/attributes/annotations ride on any one block; all blocks of all apps are permuted and dealt to 1..4 files (root.sysl, part/a.sysl, b.sysl, deep/x/c.sysl) of a random import DAG with shuffled import order and absolute or relative import spellings, compiled from an in-memory fs. Oracle: proto.Equal(compile(joined single-file text), compile(split)) after clearing every sysl.SourceContext and Module.imports (composite primary keys compared as sets: their order is walk order). Non-trivial: an app in >=3 blocks over >=2 files, or a type's fields split; distinct by hash of joined text + files.",
	genC04, checkC04)

func TestC04(t *testing.T) {
	checkKnown(t, "C04")
	c04Prop.Run(t, scale(120, 1000))
}
