package checks

// c10_worker.go — sandbox operation of C10: compile a rendered specification with the real
// parser and evaluate one view with eval.EvaluateView. Evaluation failures end the process
// (eval.handlePanic calls os.Exit), so this only ever runs in the worker subprocess.

import (
	"encoding/json"
	"fmt"
	"os"
	"sort"

	"github.com/anz-bank/sysl/pkg/eval"
	"github.com/anz-bank/sysl/pkg/parse"
	"github.com/anz-bank/sysl/pkg/sysl"
	"github.com/sirupsen/logrus"
	"google.golang.org/protobuf/proto"
)

type c10EvalArg struct {
	Text string             `json:"text"`
	App  string             `json:"app"`
	View string             `json:"view"`
	Args map[string]*c10Val `json:"args"`
	Runs int                `json:"runs"` // evaluations on the one compiled module (>=1)
}

type c10EvalRes struct {
	ParseErr string   `json:"parse_err,omitempty"`
	Res      *c10Val  `json:"res,omitempty"`      // result of the first evaluation
	Again    string   `json:"again,omitempty"`    // difference between the first and a later evaluation
	ArgDiff  []string `json:"arg_diff,omitempty"` // argument bindings that changed or vanished
}

func c10Scope(args map[string]*c10Val) eval.Scope {
	sc := eval.Scope{}
	for k, v := range args {
		sc[k] = c10ToSysl(v)
	}
	return sc
}

var _ = registerOp("c10.eval", func(raw json.RawMessage) (interface{}, error) {
	var a c10EvalArg
	if err := json.Unmarshal(raw, &a); err != nil {
		return nil, err
	}
	res := &c10EvalRes{}
	// a failing evaluation logs the offending expression and then exits: keep that text in the
	// captured tail of the worker
	logrus.SetOutput(os.Stderr)
	logrus.SetLevel(logrus.ErrorLevel)
	m, err := parse.NewParser().ParseString(a.Text)
	if err != nil {
		res.ParseErr = err.Error()
		return res, nil
	}
	app := m.GetApps()[a.App]
	if app == nil || app.GetViews()[a.View] == nil {
		res.ParseErr = fmt.Sprintf("view %s.%s missing from the compiled module", a.App, a.View)
		return res, nil
	}
	if a.Runs < 1 {
		a.Runs = 1
	}
	for run := 0; run < a.Runs; run++ {
		sc := c10Scope(a.Args)
		snap := map[string]*sysl.Value{}
		for k, v := range sc {
			snap[k] = proto.Clone(v).(*sysl.Value)
		}
		out := c10FromSysl(eval.EvaluateView(m, a.App, a.View, sc))
		if run == 0 {
			res.Res = out
			keys := make([]string, 0, len(snap))
			for k := range snap {
				keys = append(keys, k)
			}
			sort.Strings(keys)
			for _, k := range keys {
				now, ok := sc[k]
				switch {
				case !ok:
					res.ArgDiff = append(res.ArgDiff, fmt.Sprintf("argument %s is no longer bound after the evaluation", k))
				case !proto.Equal(now, snap[k]):
					res.ArgDiff = append(res.ArgDiff, fmt.Sprintf("argument %s changed from %s to %s", k, c10FromSysl(snap[k]), c10FromSysl(now)))
				}
			}
		} else if res.Again == "" {
			// the first result is the yardstick; order inside sets is not significant
			if d := c10Cmp("result", res.Res, out); d != "" {
				res.Again = fmt.Sprintf("evaluation %d differs from evaluation 1: %s", run+1, d)
			}
		}
	}
	return res, nil
})
