package checks

// c16_gen.go — relational model (tables over 1-3 files), random edit scripts, rendering.

import (
	"fmt"
	"sort"
	"strings"

	"pgregory.net/rapid"
)

type c16Col struct {
	Name    string `json:"name"`
	Typ     string `json:"typ,omitempty"` // int | string | date; "" for a reference
	N       int    `json:"n,omitempty"`   // string(N) when > 0
	PK      bool   `json:"pk,omitempty"`
	Autoinc bool   `json:"autoinc,omitempty"`
	FkT     string `json:"fkt,omitempty"` // referenced table
	FkC     string `json:"fkc,omitempty"` // referenced column
}

type c16Table struct {
	Name string   `json:"name"`
	File int      `json:"file"` // 0 = root file
	Gap  int      `json:"gap"`  // comment lines before the table header
	Cols []c16Col `json:"cols"`
}

// c16Model: slice order = order of appearance inside each file.
type c16Model struct {
	Tables []c16Table `json:"tables"`
}

const c16App = "M"

var c16TablePool = []string{"Acct", "Book", "Cust", "Dept", "Emp", "Item", "Ord", "Pay", "Site", "Unit", "Zone", "Bin"}
var c16ColPool = []string{"code", "name", "qty", "owner", "note", "day", "amt", "k1", "zip", "flag", "tel"}

func (m *c16Model) clone() *c16Model {
	o := &c16Model{}
	for _, t := range m.Tables {
		nt := t
		nt.Cols = append([]c16Col(nil), t.Cols...)
		o.Tables = append(o.Tables, nt)
	}
	return o
}

func (m *c16Model) table(name string) *c16Table {
	for i := range m.Tables {
		if m.Tables[i].Name == name {
			return &m.Tables[i]
		}
	}
	return nil
}

func (t *c16Table) col(name string) *c16Col {
	for i := range t.Cols {
		if t.Cols[i].Name == name {
			return &t.Cols[i]
		}
	}
	return nil
}

// reaches reports whether table from reaches table to over foreign keys.
func (m *c16Model) reaches(from, to string, seen map[string]bool) bool {
	if from == to {
		return true
	}
	if seen[from] {
		return false
	}
	seen[from] = true
	t := m.table(from)
	if t == nil {
		return false
	}
	for _, c := range t.Cols {
		if c.FkT != "" && m.reaches(c.FkT, to, seen) {
			return true
		}
	}
	return false
}

// depth of the FK graph below table name (0 = references nothing). The graph is acyclic by construction.
func (m *c16Model) depthOf(name string, memo map[string]int) int {
	if d, ok := memo[name]; ok {
		return d
	}
	memo[name] = 0
	d := 0
	if t := m.table(name); t != nil {
		for _, c := range t.Cols {
			if c.FkT != "" {
				if x := m.depthOf(c.FkT, memo) + 1; x > d {
					d = x
				}
			}
		}
	}
	memo[name] = d
	return d
}

func (m *c16Model) maxDepth() int {
	memo := map[string]int{}
	d := 0
	for _, t := range m.Tables {
		if x := m.depthOf(t.Name, memo); x > d {
			d = x
		}
	}
	return d
}

func (m *c16Model) colReferenced(tn, cn string) bool {
	for _, t := range m.Tables {
		for _, c := range t.Cols {
			if c.FkT == tn && c.FkC == cn {
				return true
			}
		}
	}
	return false
}

func (m *c16Model) tableReferenced(tn string) bool {
	for _, t := range m.Tables {
		for _, c := range t.Cols {
			if c.FkT == tn && t.Name != tn {
				return true
			}
		}
	}
	return false
}

// ---------- layout ----------

type c16Layout struct {
	Files map[string]string `json:"files"`
	Root  string            `json:"root"`
	Line  map[string]int    `json:"-"` // table -> 1-based line of its header
	FileN map[string]int    `json:"-"`
}

func c16FileName(i int) string {
	if i == 0 {
		return "m.sysl"
	}
	return fmt.Sprintf("f%d.sysl", i)
}

func c16ColText(c c16Col) string {
	ty := c.Typ
	if c.Typ == "string" && c.N > 0 {
		ty = fmt.Sprintf("string(%d)", c.N)
	}
	if c.FkT != "" {
		ty = c.FkT + "." + c.FkC
	}
	var tags []string
	if c.PK {
		tags = append(tags, "~pk")
	}
	if c.Autoinc {
		tags = append(tags, "~autoinc")
	}
	s := ""
	if len(tags) > 0 {
		s = " [" + strings.Join(tags, ", ") + "]"
	}
	return c.Name + " <: " + ty + s
}

// c16Render lays the model out over its files. File 0 imports every other non-empty file.
func c16Render(m *c16Model) c16Layout {
	lay := c16Layout{Files: map[string]string{}, Root: "m.sysl", Line: map[string]int{}, FileN: map[string]int{}}
	used := map[int]bool{0: true}
	for _, t := range m.Tables {
		used[t.File] = true
	}
	var files []int
	for f := range used {
		files = append(files, f)
	}
	sort.Ints(files)
	for _, f := range files {
		var sb strings.Builder
		line := 0
		wl := func(s string) {
			sb.WriteString(s + "\n")
			line++
		}
		if f == 0 {
			for _, g := range files {
				if g != 0 {
					wl("import " + strings.TrimSuffix(c16FileName(g), ".sysl"))
				}
			}
		}
		wl(c16App + ":")
		n := 0
		for _, t := range m.Tables {
			if t.File != f {
				continue
			}
			n++
			for i := 0; i < t.Gap; i++ {
				wl("    # pad")
			}
			wl("    !table " + t.Name + ":")
			lay.Line[t.Name] = line
			lay.FileN[t.Name] = f
			for _, c := range t.Cols {
				wl("        " + c16ColText(c))
			}
		}
		if n == 0 {
			wl("    ...")
		}
		lay.Files[c16FileName(f)] = sb.String()
	}
	return lay
}

// c16SameLinePairs lists pairs of tables that start on the same line of two different files.
func c16SameLinePairs(m *c16Model) [][2]string {
	lay := c16Render(m)
	var out [][2]string
	for i := range m.Tables {
		for j := i + 1; j < len(m.Tables); j++ {
			a, b := m.Tables[i].Name, m.Tables[j].Name
			if lay.FileN[a] != lay.FileN[b] && lay.Line[a] == lay.Line[b] {
				out = append(out, [2]string{a, b})
			}
		}
	}
	return out
}

// c16SameLineSameDepth: a same-line pair whose tables have the same reference depth (the
// script orders tables of one depth by line number).
func c16SameLineSameDepth(m *c16Model) bool {
	memo := map[string]int{}
	for _, p := range c16SameLinePairs(m) {
		if m.depthOf(p[0], memo) == m.depthOf(p[1], memo) {
			return true
		}
	}
	return false
}

// c16SpreadLines pads tables until no two tables of different files start on the same line.
func c16SpreadLines(m *c16Model) bool {
	changed := false
	for iter := 0; iter < 200; iter++ {
		ps := c16SameLinePairs(m)
		if len(ps) == 0 {
			return changed
		}
		m.table(ps[0][1]).Gap++
		changed = true
	}
	return changed
}

// ---------- generation ----------

type c16Opts struct {
	MaxTables int
	MaxDepth  int
	MaxEdits  int
}

func c16Options() c16Opts {
	if thorough() {
		return c16Opts{MaxTables: 8, MaxDepth: 5, MaxEdits: 5}
	}
	return c16Opts{MaxTables: 6, MaxDepth: 4, MaxEdits: 3}
}

func c16GenPrim(t *rapid.T, name string) c16Col {
	c := c16Col{Name: name}
	switch rapid.IntRange(0, 4).Draw(t, "ctype") {
	case 0, 1:
		c.Typ = "int"
	case 2:
		c.Typ = "string"
	case 3:
		c.Typ, c.N = "string", rapid.IntRange(1, 300).Draw(t, "strn")
	default:
		c.Typ = "date"
	}
	return c
}

// c16PickRef picks a column of another table that col of table tn may reference without
// creating a cycle or exceeding the depth bound. ok=false if there is none.
func c16PickRef(t *rapid.T, m *c16Model, tn string, o c16Opts) (string, string, bool) {
	type cand struct{ t, c string }
	var cs []cand
	for _, x := range m.Tables {
		if x.Name == tn || m.reaches(x.Name, tn, map[string]bool{}) {
			continue
		}
		for _, c := range x.Cols {
			cs = append(cs, cand{x.Name, c.Name})
			if c.PK { // key columns are the usual targets
				cs = append(cs, cand{x.Name, c.Name}, cand{x.Name, c.Name})
			}
		}
	}
	if len(cs) == 0 {
		return "", "", false
	}
	k := cs[rapid.IntRange(0, len(cs)-1).Draw(t, "refto")]
	return k.t, k.c, true
}

func c16FreshCol(t *rapid.T, tb *c16Table, salt string) string {
	for i := 0; i < 20; i++ {
		n := pick(t, c16ColPool, "colname")
		if tb.col(n) == nil {
			return n
		}
	}
	return fmt.Sprintf("c%s%d", salt, len(tb.Cols))
}

// mode 0: references to random tables; mode 1 (deep): prefer the deepest table so far, so chains
// of depth 3-5 and diamonds are common.
func c16GenTable(t *rapid.T, m *c16Model, name string, nfiles int, o c16Opts, mode int) c16Table {
	allowKeyless := true
	tb := c16Table{Name: name, File: rapid.IntRange(0, nfiles-1).Draw(t, "file"), Gap: rapid.IntRange(0, 2).Draw(t, "gap") / 2}
	// key
	switch k := rapid.IntRange(0, 9).Draw(t, "keyshape"); {
	case k <= 4:
		tb.Cols = append(tb.Cols, c16Col{Name: "id", Typ: "int", PK: true, Autoinc: rapid.Bool().Draw(t, "autoinc")})
	case k <= 7:
		tb.Cols = append(tb.Cols, c16Col{Name: "id", Typ: "int", PK: true, Autoinc: rapid.IntRange(0, 3).Draw(t, "autoinc2") == 0})
		k2 := c16GenPrim(t, "k2")
		k2.PK = true
		tb.Cols = append(tb.Cols, k2)
	case k == 8 || !allowKeyless:
		c := c16GenPrim(t, "code")
		c.PK = true
		tb.Cols = append(tb.Cols, c)
	default:
		tb.Cols = append(tb.Cols, c16GenPrim(t, "code")) // no primary key at all
	}
	nc := rapid.IntRange(0, 4).Draw(t, "ncols")
	if mode == 1 && nc == 0 {
		nc = 1
	}
	for j := 0; j < nc; j++ {
		name := c16FreshCol(t, &tb, "g")
		if len(m.Tables) > 0 && (rapid.IntRange(0, 2).Draw(t, "isfk") <= mode || (mode == 1 && j == 0)) {
			// the table is not yet in m, so nothing reaches it: any existing column is a legal target
			x := m.Tables[rapid.IntRange(0, len(m.Tables)-1).Draw(t, "fktable")]
			if mode == 1 && rapid.IntRange(0, 3).Draw(t, "deepest") != 0 {
				memo := map[string]int{}
				for _, cand := range m.Tables {
					if m.depthOf(cand.Name, memo) > m.depthOf(x.Name, memo) {
						x = cand
					}
				}
			}
			var keys []string
			for _, c := range x.Cols {
				if c.PK {
					keys = append(keys, c.Name)
				}
			}
			target := x.Cols[rapid.IntRange(0, len(x.Cols)-1).Draw(t, "fkcol")].Name
			if len(keys) > 0 && rapid.IntRange(0, 3).Draw(t, "fkkey") != 0 {
				target = keys[rapid.IntRange(0, len(keys)-1).Draw(t, "fkkeycol")]
			}
			memo := map[string]int{}
			if m.depthOf(x.Name, memo)+1 <= o.MaxDepth {
				c := c16Col{Name: name, FkT: x.Name, FkC: target}
				c.PK = rapid.IntRange(0, 7).Draw(t, "fkpk") == 0
				tb.Cols = append(tb.Cols, c)
				continue
			}
		}
		c := c16GenPrim(t, name)
		if rapid.IntRange(0, 9).Draw(t, "extrapk") == 0 {
			c.PK = true
		}
		if c.Typ == "int" && !c.PK && rapid.IntRange(0, 9).Draw(t, "extraautoinc") == 0 {
			c.Autoinc = true
		}
		tb.Cols = append(tb.Cols, c)
	}
	return tb
}

func c16HasPK(tb *c16Table) bool {
	for _, c := range tb.Cols {
		if c.PK {
			return true
		}
	}
	return false
}

func c16HasFK(tb *c16Table) bool {
	for _, c := range tb.Cols {
		if c.FkT != "" {
			return true
		}
	}
	return false
}

// c16GenModel draws a relational model. The second result is the number of files.
func c16GenModel(t *rapid.T, o c16Opts) (*c16Model, int) {
	m := &c16Model{}
	nfiles := rapid.IntRange(1, 3).Draw(t, "nfiles")
	n := rapid.IntRange(1, o.MaxTables).Draw(t, "ntables")
	names := rapid.Permutation(c16TablePool).Draw(t, "names")
	allowKeyless := !knownActive("C16-create-keyless-trailing-comma")
	mode := rapid.IntRange(0, 2).Draw(t, "shape") / 2 // 1 in 3: deep
	for i := 0; i < n; i++ {
		tb := c16GenTable(t, m, names[i], nfiles, o, mode)
		if !c16HasPK(&tb) && !c16HasFK(&tb) && !allowKeyless {
			tb.Cols[0].PK = true
			R("C16").Exclude("C16-create-keyless-trailing-comma")
		}
		m.Tables = append(m.Tables, tb)
	}
	// order of appearance is independent of the order of creation (references may point forwards in a file)
	perm := rapid.Permutation(m.Tables).Draw(t, "order")
	m.Tables = perm
	c16Guard(m)
	return m, nfiles
}

// c16Guard removes, behind knownActive, the shapes of listed findings that concern a single version.
func c16Guard(m *c16Model) {
	if knownActive("C16-same-line-two-files") {
		if len(c16SameLinePairs(m)) > 0 {
			same := c16SameLineSameDepth(m)
			c16SpreadLines(m)
			if same {
				R("C16").Exclude("C16-same-line-two-files")
			}
		}
	}
}

// ---------- edit scripts ----------

// c16Edit applies ne random edits to a copy of m. fresh numbers the names of added tables/columns
// so that a name never returns after it was dropped (the delta never drops tables, so a re-added
// name would meet the left-over table: outside what the property states).
//
// hist holds the versions before m (oldest first). The delta never drops tables, so after a chain the
// database still holds tables the model dropped long ago; a column that such a left-over table
// references is never dropped here (the state would not be create(old), which is all the property speaks of).
func c16Edit(t *rapid.T, hist []*c16Model, m *c16Model, nfiles int, o c16Opts, fresh *int) (*c16Model, []string) {
	old := m
	n := m.clone()
	var log []string
	ne := rapid.IntRange(1, o.MaxEdits).Draw(t, "nedits")
	gateRetype := knownActive("C16-delta-fk-not-retyped")
	gateRetarget := knownActive("C16-delta-fk-retarget-ignored")
	gateAutoinc := knownActive("C16-delta-fk-autoinc-integer")
	gateKeyless := knownActive("C16-create-keyless-trailing-comma")
	gateEmptyPK := knownActive("C16-delta-empty-primary-key")
	gateDropOrder := knownActive("C16-delta-drop-referenced-column-order")
	r := R("C16")
	// wasRetainedAutoinc: column exists unchanged as ~autoinc in the old version (the delta then records it as integer)
	retainedAutoinc := func(tn, cn string) bool {
		for hop := 0; hop < 8; hop++ {
			ot := old.table(tn)
			if ot == nil {
				return false
			}
			oc := ot.col(cn)
			if oc == nil {
				return false
			}
			if oc.FkT == "" {
				return oc.Autoinc
			}
			// an unchanged reference passes on whatever type its target was given
			nc := n.table(tn).col(cn)
			if nc == nil || nc.FkT != oc.FkT || nc.FkC != oc.FkC {
				return false
			}
			tn, cn = oc.FkT, oc.FkC
		}
		return false
	}
	oldCol := func(tn, cn string) *c16Col {
		if ot := old.table(tn); ot != nil {
			return ot.col(cn)
		}
		return nil
	}
	for tries := 0; len(log) < ne && tries < 4*ne+4; tries++ {
		ti := rapid.IntRange(0, len(n.Tables)-1).Draw(t, "etable")
		tb := &n.Tables[ti]
		switch pick(t, []int{0, 1, 2, 2, 3, 4, 5, 5, 6, 6, 7, 7, 7, 8, 9, 10}, "edit") {
		case 10: // detach a reference and retype its former target in the same step, both to one new type
			for k := range tb.Cols {
				c := tb.Cols[k]
				if c.FkT == "" || n.colReferenced(tb.Name, c.Name) {
					continue
				}
				pt := n.table(c.FkT)
				if pt == nil || pt.Name == tb.Name {
					continue
				}
				pc := pt.col(c.FkC)
				if pc == nil || pc.FkT != "" || pc.Autoinc {
					continue
				}
				// the target must not be referenced by anything else (retyping a referenced key is a listed finding)
				refs := 0
				for _, ot := range n.Tables {
					for _, oc := range ot.Cols {
						if oc.FkT == pt.Name && oc.FkC == pc.Name {
							refs++
						}
					}
				}
				if refs != 1 {
					continue
				}
				nt := c16GenPrim(t, pc.Name)
				if nt.Typ == pc.Typ && nt.N == pc.N {
					continue
				}
				tmp := *tb
				tmp.Cols = append([]c16Col(nil), tb.Cols...)
				tmp.Cols[k] = c16Col{Name: c.Name, Typ: nt.Typ, N: nt.N, PK: c.PK}
				if gateKeyless && !c16HasPK(&tmp) && !c16HasFK(&tmp) {
					r.Exclude("C16-create-keyless-trailing-comma")
					break
				}
				pc.Typ, pc.N = nt.Typ, nt.N
				tb.Cols[k] = tmp.Cols[k]
				log = append(log, "detach+retype "+tb.Name+"."+c.Name+" and "+pt.Name+"."+pc.Name)
				break
			}
		case 0: // add column (primitive)
			*fresh++
			c := c16GenPrim(t, fmt.Sprintf("n%d", *fresh))
			if c.Typ == "int" && rapid.IntRange(0, 4).Draw(t, "addautoinc") == 0 {
				c.Autoinc = true
			}
			if rapid.IntRange(0, 5).Draw(t, "addpk") == 0 {
				c.PK = true
			}
			tb.Cols = append(tb.Cols, c)
			log = append(log, "addcol "+tb.Name+"."+c.Name)
		case 1: // drop an unreferenced column
			if len(tb.Cols) > 1 {
				k := rapid.IntRange(0, len(tb.Cols)-1).Draw(t, "dropc")
				if n.colReferenced(tb.Name, tb.Cols[k].Name) {
					break
				}
				leftover := false
				for _, h := range hist {
					if h.colReferenced(tb.Name, tb.Cols[k].Name) {
						leftover = true
					}
				}
				if leftover {
					break
				}
				if gateDropOrder && old.colReferenced(tb.Name, tb.Cols[k].Name) {
					r.Exclude("C16-delta-drop-referenced-column-order")
					break
				}
				rest := append(append([]c16Col(nil), tb.Cols[:k]...), tb.Cols[k+1:]...)
				tmp := c16Table{Cols: rest}
				if gateKeyless && !c16HasPK(&tmp) && !c16HasFK(&tmp) {
					r.Exclude("C16-create-keyless-trailing-comma")
					break
				}
				if gateEmptyPK && !c16HasPK(&tmp) && old.table(tb.Name) != nil && c16HasPK(old.table(tb.Name)) {
					r.Exclude("C16-delta-empty-primary-key")
					break
				}
				log = append(log, "dropcol "+tb.Name+"."+tb.Cols[k].Name)
				tb.Cols = rest
			}
		case 2: // retype a primitive column
			k := rapid.IntRange(0, len(tb.Cols)-1).Draw(t, "retc")
			c := tb.Cols[k]
			if c.FkT != "" || c.Autoinc {
				break
			}
			nc := c16GenPrim(t, c.Name)
			nc.PK = c.PK
			if nc.Typ == c.Typ && nc.N == c.N {
				break
			}
			if n.colReferenced(tb.Name, c.Name) && gateRetype {
				r.Exclude("C16-delta-fk-not-retyped")
				break
			}
			tb.Cols[k] = nc
			log = append(log, "retype "+tb.Name+"."+c.Name)
		case 3: // add a table, usually referencing existing ones
			*fresh++
			nt := c16GenTable(t, n, fmt.Sprintf("N%d", *fresh), nfiles, o, 0)
			if gateAutoinc {
				kept := nt.Cols[:0]
				for _, c := range nt.Cols {
					if c.FkT != "" && retainedAutoinc(c.FkT, c.FkC) {
						r.Exclude("C16-delta-fk-autoinc-integer")
						continue
					}
					kept = append(kept, c)
				}
				nt.Cols = kept
			}
			if gateKeyless && !c16HasPK(&nt) && !c16HasFK(&nt) {
				nt.Cols[0].PK = true
				r.Exclude("C16-create-keyless-trailing-comma")
			}
			pos := rapid.IntRange(0, len(n.Tables)).Draw(t, "addpos")
			n.Tables = append(n.Tables[:pos], append([]c16Table{nt}, n.Tables[pos:]...)...)
			log = append(log, "addtable "+nt.Name)
		case 4: // drop an unreferenced table
			if len(n.Tables) > 1 && !n.tableReferenced(tb.Name) {
				log = append(log, "droptable "+tb.Name)
				n.Tables = append(n.Tables[:ti], n.Tables[ti+1:]...)
			}
		case 5: // change key: toggle pk on a column
			k := rapid.IntRange(0, len(tb.Cols)-1).Draw(t, "pkc")
			c := &tb.Cols[k]
			c.PK = !c.PK
			if gateKeyless && !c16HasPK(tb) && !c16HasFK(tb) {
				c.PK = !c.PK
				r.Exclude("C16-create-keyless-trailing-comma")
				break
			}
			if gateEmptyPK && !c16HasPK(tb) && old.table(tb.Name) != nil && c16HasPK(old.table(tb.Name)) {
				c.PK = !c.PK
				r.Exclude("C16-delta-empty-primary-key")
				break
			}
			log = append(log, "togglepk "+tb.Name+"."+c.Name)
		case 6: // drop reference: the column becomes a primitive
			for k := range tb.Cols {
				c := tb.Cols[k]
				if c.FkT == "" {
					continue
				}
				if n.colReferenced(tb.Name, c.Name) && gateRetype {
					r.Exclude("C16-delta-fk-not-retyped")
					break
				}
				nc := c16GenPrim(t, c.Name)
				nc.PK = c.PK
				tmp := *tb
				tmp.Cols = append([]c16Col(nil), tb.Cols...)
				tmp.Cols[k] = nc
				if gateKeyless && !c16HasPK(&tmp) && !c16HasFK(&tmp) {
					r.Exclude("C16-create-keyless-trailing-comma")
					break
				}
				tb.Cols[k] = nc
				log = append(log, "dropref "+tb.Name+"."+c.Name)
				break
			}
		case 7: // add reference on an existing primitive column
			k := rapid.IntRange(0, len(tb.Cols)-1).Draw(t, "refc")
			c := tb.Cols[k]
			if c.FkT != "" || c.Autoinc {
				break
			}
			rt, rc, ok := c16PickRef(t, n, tb.Name, o)
			if !ok {
				break
			}
			if n.colReferenced(tb.Name, c.Name) && gateRetype {
				r.Exclude("C16-delta-fk-not-retyped")
				break
			}
			if oc := oldCol(tb.Name, c.Name); oc != nil && oc.FkT != "" && (oc.FkT != rt || oc.FkC != rc) && gateRetarget {
				r.Exclude("C16-delta-fk-retarget-ignored")
				break
			}
			if gateAutoinc && retainedAutoinc(rt, rc) {
				r.Exclude("C16-delta-fk-autoinc-integer")
				break
			}
			tb.Cols[k] = c16Col{Name: c.Name, PK: c.PK, FkT: rt, FkC: rc}
			if n.maxDepth() > o.MaxDepth {
				tb.Cols[k] = c
				break
			}
			log = append(log, "addref "+tb.Name+"."+c.Name)
		case 9: // retarget: drop the reference of a column and add another one in the same script
			for k := range tb.Cols {
				c := tb.Cols[k]
				if c.FkT == "" {
					continue
				}
				rt, rc, ok := c16PickRef(t, n, tb.Name, o)
				if !ok || (rt == c.FkT && rc == c.FkC) {
					break
				}
				if n.colReferenced(tb.Name, c.Name) && gateRetype {
					r.Exclude("C16-delta-fk-not-retyped")
					break
				}
				if oc := oldCol(tb.Name, c.Name); oc != nil && oc.FkT != "" && (oc.FkT != rt || oc.FkC != rc) && gateRetarget {
					r.Exclude("C16-delta-fk-retarget-ignored")
					break
				}
				if gateAutoinc && retainedAutoinc(rt, rc) {
					r.Exclude("C16-delta-fk-autoinc-integer")
					break
				}
				tb.Cols[k] = c16Col{Name: c.Name, PK: c.PK, FkT: rt, FkC: rc}
				if n.maxDepth() > o.MaxDepth {
					tb.Cols[k] = c
					break
				}
				log = append(log, "dropref "+tb.Name+"."+c.Name, "addref "+tb.Name+"."+c.Name)
				break
			}
		case 8: // add a new reference column
			rt, rc, ok := c16PickRef(t, n, tb.Name, o)
			if !ok {
				break
			}
			if gateAutoinc && retainedAutoinc(rt, rc) {
				r.Exclude("C16-delta-fk-autoinc-integer")
				break
			}
			*fresh++
			nc := c16Col{Name: fmt.Sprintf("r%d", *fresh), FkT: rt, FkC: rc}
			tb.Cols = append(tb.Cols, nc)
			if n.maxDepth() > o.MaxDepth {
				tb.Cols = tb.Cols[:len(tb.Cols)-1]
				break
			}
			log = append(log, "addrefcol "+tb.Name+"."+nc.Name)
		}
	}
	// the gates above work edit by edit; a sequence of edits can still add up to a listed shape
	// (drop reference, retype the target, add the same reference again): judge the net effect
	if ids := c16PairShapes(old, n); len(ids) > 0 {
		active := false
		for _, id := range ids {
			if knownActive(id) {
				r.Exclude(id)
				active = true
			}
		}
		if active {
			n = old.clone()
			*fresh++
			c := c16Col{Name: fmt.Sprintf("n%d", *fresh), Typ: "int"}
			n.Tables[0].Cols = append(n.Tables[0].Cols, c)
			log = []string{"addcol " + n.Tables[0].Name + "." + c.Name}
		}
	}
	c16Guard(n)
	return n, log
}

// c16Resolved is the declared type of a column after following references.
func c16Resolved(m *c16Model, tn, cn string) string {
	for hop := 0; hop < 32; hop++ {
		t := m.table(tn)
		if t == nil {
			return "?"
		}
		c := t.col(cn)
		if c == nil {
			return "?"
		}
		if c.FkT == "" {
			return fmt.Sprintf("%s/%d/%v", c.Typ, c.N, c.Autoinc)
		}
		tn, cn = c.FkT, c.FkC
	}
	return "?"
}

// c16PairShapes lists the ids of the recorded findings whose input shape the pair (old,new) has,
// judged on the two models alone (net effect of the edit script).
func c16PairShapes(old, new *c16Model) []string {
	set := map[string]bool{}
	for i := range new.Tables {
		nt := &new.Tables[i]
		if !c16HasPK(nt) && !c16HasFK(nt) {
			set["C16-create-keyless-trailing-comma"] = true
		}
		ot := old.table(nt.Name)
		if ot != nil && c16HasPK(ot) && !c16HasPK(nt) {
			set["C16-delta-empty-primary-key"] = true
		}
		for _, nc := range nt.Cols {
			var oc *c16Col
			if ot != nil {
				oc = ot.col(nc.Name)
			}
			if nc.FkT == "" {
				continue
			}
			sameDecl := oc != nil && oc.FkT == nc.FkT && oc.FkC == nc.FkC
			if oc != nil && oc.FkT != "" && !sameDecl {
				set["C16-delta-fk-retarget-ignored"] = true
			}
			if sameDecl && c16Resolved(old, ot.Name, oc.Name) != c16Resolved(new, nt.Name, nc.Name) {
				set["C16-delta-fk-not-retyped"] = true
			}
			if !sameDecl {
				// a reference the delta has to create: its type is copied from the root column's record
				rtn, rcn := nc.FkT, nc.FkC
				for hop := 0; hop < 32; hop++ {
					rt := new.table(rtn)
					if rt == nil {
						break
					}
					rc := rt.col(rcn)
					if rc == nil {
						break
					}
					if rc.FkT == "" {
						if rc.Autoinc {
							if ort := old.table(rtn); ort != nil && ort.col(rcn) != nil {
								set["C16-delta-fk-autoinc-integer"] = true
							}
						}
						break
					}
					rtn, rcn = rc.FkT, rc.FkC
				}
			}
		}
		if ot != nil {
			for _, oc := range ot.Cols {
				if nt.col(oc.Name) == nil && old.colReferenced(ot.Name, oc.Name) {
					set["C16-delta-drop-referenced-column-order"] = true
				}
			}
		}
	}
	var ids []string
	for id := range set {
		ids = append(ids, id)
	}
	sort.Strings(ids)
	return ids
}
