package checks

// c12_gen.go — REST-style application intents for C12 (OpenAPI / Swagger export) and their
// Sysl rendering. The intent is plain JSON so that a case is replayable without rapid.

import (
	"fmt"
	"sort"
	"strings"

	"pgregory.net/rapid"
)

// finding ids of C12 (see findings/known.C12.json). The generator consults knownActive(id):
// shapes that only fail because of a listed defect are either not generated (counted through
// Exclude) or — for the Swagger 2 exporter, where a defect hits every document of a class —
// the single demand that the defect breaks is waived for the case (c12Case.Waive), so that
// everything else is still demanded of the same document.
const (
	c12FSetField     = "C12-openapi3-set-field-untyped"
	c12FSwBody       = "C12-swagger-body-param-in-header"
	c12FSwRequired   = "C12-swagger-required-never-exported"
	c12FSwRef        = "C12-swagger-ref-carried-in-format"
	c12FSwEnum       = "C12-swagger-enum-values-lost"
	c12FSwKind       = "C12-swagger-primitive-kind-lost"
	c12FSwSeqResp    = "C12-swagger-sequence-response-flattened"
	c12FSwFieldDefs  = "C12-swagger-collection-field-leaks-as-definition"
	c12FSwForeignRet = "C12-swagger-nonlocal-return-dangling-ref"
	c12FSwTitle      = "C12-swagger-title-missing-without-long-name"
)

var c12SwaggerFindings = []string{c12FSwBody, c12FSwRequired, c12FSwRef, c12FSwEnum, c12FSwKind, c12FSwSeqResp, c12FSwFieldDefs, c12FSwForeignRet, c12FSwTitle}

type c12Field struct {
	Name string `json:"name"`
	Kind string `json:"kind"`           // sysl primitive spelling, or "ref"
	Ref  string `json:"ref,omitempty"`  // target type (same application)
	Coll string `json:"coll,omitempty"` // "", "seq", "set"
	Opt  bool   `json:"opt,omitempty"`
}

type c12Type struct {
	Name   string     `json:"name"`
	Enum   []string   `json:"enum,omitempty"` // enumerator names (values 1..n); nil for a tuple type
	Fields []c12Field `json:"fields,omitempty"`
}

type c12Param struct {
	Name string `json:"name"`           // sysl identifier
	Wire string `json:"wire,omitempty"` // header parameters: the name= attribute
	Kind string `json:"kind"`
	Opt  bool   `json:"opt,omitempty"`
}

type c12Ret struct {
	Code string `json:"code"`
	Type string `json:"type"`           // type name or "string"
	Seq  bool   `json:"seq,omitempty"`  // sequence of Type
	Qual bool   `json:"qual,omitempty"` // spelled App.Type
}

type c12Method struct {
	Method  string     `json:"method"`
	Query   []c12Param `json:"query,omitempty"`
	Headers []c12Param `json:"headers,omitempty"`
	Body    string     `json:"body,omitempty"` // tuple type name
	// BodyTags are further patterns written next to ~body ("[~json, ~body]"): negative positions come before
	// ~body, others after it. They carry no meaning for the exporters; the parameter stays the body.
	BodyTagsBefore []string `json:"body_tags_before,omitempty"`
	BodyTagsAfter  []string `json:"body_tags_after,omitempty"`
	Rets    []c12Ret   `json:"rets"`
}

type c12Path struct {
	Segs    []string    `json:"segs"` // literal segments and "{var}" placeholders
	Vars    []c12Param  `json:"vars,omitempty"`
	Nested  bool        `json:"nested,omitempty"` // render as /first: /rest: (same endpoint name)
	Methods []c12Method `json:"methods"`
}

type c12App struct {
	Name     string    `json:"name"` // may be "Ns :: App"
	LongName string    `json:"long_name,omitempty"`
	Version  string    `json:"version,omitempty"`
	URL      string    `json:"url,omitempty"` // @env.1.url
	Host     string    `json:"host,omitempty"`
	Desc     string    `json:"desc,omitempty"`
	Types    []c12Type `json:"types"`
	Paths    []c12Path `json:"paths"`
}

func (p c12Path) template() string { return "/" + strings.Join(p.Segs, "/") }

var c12TypeNames = []string{"Item", "Order", "User", "Addr", "Line_item", "account", "T1", "Resp"}
var c12EnumNames = []string{"Kind", "Status"}
var c12EnumVals = []string{"small", "large", "ACTIVE", "on_hold", "v2", "Closed"}
var c12FieldNames = []string{"id", "name", "qty", "created_at", "isActive", "f0", "f1", "owner", "lines", "note"}
var c12Prims = []string{"int", "int32", "int64", "string", "bool", "float", "float64", "decimal", "date", "datetime", "bytes", "string"}
var c12Segs = []string{"items", "orders", "v1", "users", "my-things", "a_b"}
var c12Vars = []string{"id", "key", "oid"}
var c12Methods = []string{"GET", "POST", "PUT", "DELETE", "PATCH"}
var c12QueryNames = []string{"q", "limit", "after", "sort_by", "dry"}
var c12QueryKinds = []string{"int", "string", "bool", "float", "date"}
var c12HeaderNames = [][2]string{{"trace", "trace"}, {"x_req", "X-Req-Id"}, {"accept_lang", "Accept-Language"}, {"tenant", "tenant"}}
var c12Codes = []string{"200", "201", "202", "400", "404", "409", "500"}

func c12Distinct(t *rapid.T, pool []string, n int, label string) []string {
	idx := rapid.Permutation(c12Range(len(pool))).Draw(t, label)
	if n > len(pool) {
		n = len(pool)
	}
	out := make([]string, n)
	for i := 0; i < n; i++ {
		out[i] = pool[idx[i]]
	}
	return out
}

func c12Range(n int) []int {
	r := make([]int, n)
	for i := range r {
		r[i] = i
	}
	return r
}

// c12GenApp draws one REST application for the given export format. Shapes that fail only because
// of an active known finding of that format are avoided and counted.
func c12GenApp(t *rapid.T, format string) c12App {
	rec := R("C12")
	a := c12App{Name: pick(t, []string{"Shop", "PetStore", "Api_v2", "billing", "Shop", "Acme :: Shop"}, "app")}
	if rapid.IntRange(0, 9).Draw(t, "longname") != 0 {
		a.LongName = pick(t, []string{"Shop API", "The Store", "x"}, "ln")
	}
	if rapid.IntRange(0, 9).Draw(t, "hasversion") != 0 {
		a.Version = pick(t, []string{"1.0", "0.0.1", "2024-01"}, "ver")
	}
	if rapid.IntRange(0, 3).Draw(t, "hasurl") != 0 {
		a.URL = pick(t, []string{"http://example.com", "https://api.example.com/v1"}, "url")
	}
	if rapid.IntRange(0, 3).Draw(t, "hashost") == 0 {
		a.Host = "api.example.com"
	}
	if rapid.IntRange(0, 3).Draw(t, "hasdesc") == 0 {
		a.Desc = pick(t, []string{"a shop", "Sells things: all of them"}, "desc")
	}
	nt := rapid.IntRange(1, 5).Draw(t, "ntypes")
	for _, n := range c12Distinct(t, c12TypeNames, nt, "typenames") {
		a.Types = append(a.Types, c12Type{Name: n})
	}
	ne := rapid.IntRange(0, 2).Draw(t, "nenums")
	for _, n := range c12Distinct(t, c12EnumNames, ne, "enumnames") {
		nv := rapid.IntRange(2, 4).Draw(t, "nvals")
		a.Types = append(a.Types, c12Type{Name: n, Enum: c12Distinct(t, c12EnumVals, nv, "enumvals")})
	}
	var tuples []string
	for _, ty := range a.Types {
		if ty.Enum == nil {
			tuples = append(tuples, ty.Name)
		}
	}
	setOK := format != "openapi3" || !knownActive(c12FSetField)
	bodies := rapid.IntRange(0, 2).Draw(t, "bodies") != 0 // a third of the applications has no ~body parameter at all
	for i := range a.Types {
		ty := &a.Types[i]
		if ty.Enum != nil {
			continue
		}
		nf := rapid.IntRange(1, 6).Draw(t, "nfields")
		for _, fn := range c12Distinct(t, c12FieldNames, nf, "fieldnames") {
			f := c12Field{Name: fn}
			if rapid.IntRange(0, 2).Draw(t, "isref") == 0 {
				f.Kind, f.Ref = "ref", a.Types[rapid.IntRange(0, len(a.Types)-1).Draw(t, "reft")].Name
			} else {
				f.Kind = pick(t, c12Prims, "prim")
			}
			switch rapid.IntRange(0, 9).Draw(t, "coll") {
			case 0, 1, 2:
				f.Coll = "seq"
			case 3:
				if setOK {
					f.Coll = "set"
				} else {
					rec.Exclude(c12FSetField)
				}
			}
			f.Opt = rapid.IntRange(0, 9).Draw(t, "opt") < 4
			ty.Fields = append(ty.Fields, f)
		}
	}
	np := rapid.IntRange(1, 3).Draw(t, "npaths")
	seenTpl := map[string]bool{}
	for i := 0; i < np; i++ {
		p := c12Path{}
		nseg := rapid.IntRange(1, 3).Draw(t, "nseg")
		vars := c12Distinct(t, c12Vars, 2, "vars")
		for j := 0; j < nseg; j++ {
			p.Segs = append(p.Segs, pick(t, c12Segs, "seg"))
			if len(p.Vars) < 2 && rapid.IntRange(0, 2).Draw(t, "var") == 0 {
				v := c12Param{Name: vars[len(p.Vars)], Kind: pick(t, []string{"int", "string", "int64"}, "varkind")}
				p.Vars = append(p.Vars, v)
				p.Segs = append(p.Segs, "{"+v.Name+"}")
			}
		}
		// two templates that differ only in variable names are the same path to OpenAPI
		norm := []string{}
		for _, s := range p.Segs {
			if strings.HasPrefix(s, "{") {
				s = "{}"
			}
			norm = append(norm, s)
		}
		key := strings.Join(norm, "/")
		if seenTpl[key] {
			continue
		}
		seenTpl[key] = true
		p.Nested = len(p.Segs) > 1 && !strings.HasPrefix(p.Segs[0], "{") && rapid.IntRange(0, 3).Draw(t, "nested") == 0
		nm := rapid.IntRange(1, 3).Draw(t, "nmethods")
		for _, m := range c12Distinct(t, c12Methods, nm, "methods") {
			me := c12Method{Method: m}
			used := map[string]bool{}
			for _, v := range p.Vars {
				used[v.Name] = true
			}
			nq := rapid.IntRange(0, 3).Draw(t, "nquery")
			for _, qn := range c12Distinct(t, c12QueryNames, nq, "querynames") {
				me.Query = append(me.Query, c12Param{Name: qn, Kind: pick(t, c12QueryKinds, "qkind"), Opt: rapid.Bool().Draw(t, "qopt")})
				used[qn] = true
			}
			nh := rapid.IntRange(0, 2).Draw(t, "nheaders")
			perm := rapid.Permutation(c12Range(len(c12HeaderNames))).Draw(t, "headernames")
			for _, hi := range perm[:nh] {
				h := c12HeaderNames[hi]
				me.Headers = append(me.Headers, c12Param{Name: h[0], Wire: h[1], Kind: pick(t, []string{"string", "int"}, "hkind"), Opt: rapid.Bool().Draw(t, "hopt")})
			}
			if bodies && m != "GET" && m != "DELETE" && rapid.Bool().Draw(t, "body") {
				me.Body = pick(t, tuples, "bodytype")
				if rapid.Bool().Draw(t, "bodytags") {
					tags := c12Distinct(t, []string{"json", "payload", "validated"}, rapid.IntRange(1, 2).Draw(t, "nbodytags"), "bodytagnames")
					k := rapid.IntRange(0, len(tags)).Draw(t, "bodytagsbefore")
					me.BodyTagsBefore, me.BodyTagsAfter = tags[:k], tags[k:]
				}
			}
			nr := rapid.IntRange(1, 3).Draw(t, "nrets")
			codes := c12Distinct(t, c12Codes, nr, "codes")
			if format == "openapi3" && rapid.Bool().Draw(t, "errorret") {
				// a named return: `return error <: T` is the operation's default response (OpenAPI 3 exporter;
				// the Swagger 2 exporter has no place for it)
				codes = append(codes, "error")
			}
			for _, code := range codes {
				r := c12Ret{Code: code, Type: pick(t, tuples, "rettype")}
				switch rapid.IntRange(0, 11).Draw(t, "retshape") {
				case 0, 1, 2:
					r.Seq = true
				case 3:
					r.Qual = true
				case 4:
					r.Type = "string"
				}
				me.Rets = append(me.Rets, r)
			}
			p.Methods = append(p.Methods, me)
		}
		a.Paths = append(a.Paths, p)
	}
	return a
}

func c12FieldType(f c12Field) string {
	s := f.Kind
	if f.Kind == "ref" {
		s = f.Ref
	}
	switch f.Coll {
	case "seq":
		s = "sequence of " + s
	case "set":
		s = "set of " + s
	}
	if f.Opt {
		s += "?"
	}
	return s
}

func c12MethodLine(a c12App, me c12Method) string {
	l := me.Method
	var ps []string
	if me.Body != "" {
		tags := ""
		for _, tg := range me.BodyTagsBefore {
			tags += "~" + tg + ", "
		}
		tags += "~body"
		for _, tg := range me.BodyTagsAfter {
			tags += ", ~" + tg
		}
		ps = append(ps, "body <: "+me.Body+" ["+tags+"]")
	}
	for _, h := range me.Headers {
		k := h.Kind
		if h.Opt {
			k += "?"
		}
		ps = append(ps, fmt.Sprintf("%s <: %s [~header, name=%q]", h.Name, k, h.Wire))
	}
	if len(ps) > 0 {
		l += " (" + strings.Join(ps, ", ") + ")"
	}
	if len(me.Query) > 0 {
		var qs []string
		for _, q := range me.Query {
			s := q.Name + "=" + q.Kind
			if q.Opt {
				s += "?"
			}
			qs = append(qs, s)
		}
		l += " ?" + strings.Join(qs, "&")
	}
	return l + ":"
}

// Render gives the Sysl text of the application (four-space indent).
func (a c12App) Render() string {
	var sb strings.Builder
	head := a.Name
	if a.LongName != "" {
		head += fmt.Sprintf(" %q", a.LongName)
	}
	sb.WriteString(head + ":\n")
	if a.Version != "" {
		fmt.Fprintf(&sb, "    @version = %q\n", a.Version)
	}
	if a.URL != "" {
		fmt.Fprintf(&sb, "    @env.1.url = %q\n", a.URL)
	}
	if a.Host != "" {
		fmt.Fprintf(&sb, "    @host = %q\n", a.Host)
	}
	if a.Desc != "" {
		fmt.Fprintf(&sb, "    @description = %q\n", a.Desc)
	}
	short := a.Name
	if i := strings.LastIndex(short, ":: "); i >= 0 {
		short = short[i+3:]
	}
	for _, p := range a.Paths {
		segs := make([]string, len(p.Segs))
		vi := 0
		for i, s := range p.Segs {
			if strings.HasPrefix(s, "{") {
				s = "{" + p.Vars[vi].Name + "<:" + p.Vars[vi].Kind + "}"
				vi++
			}
			segs[i] = s
		}
		ind := "    "
		if p.Nested {
			fmt.Fprintf(&sb, "    /%s:\n", segs[0])
			fmt.Fprintf(&sb, "        /%s:\n", strings.Join(segs[1:], "/"))
			ind = "        "
		} else {
			fmt.Fprintf(&sb, "    /%s:\n", strings.Join(segs, "/"))
		}
		for _, me := range p.Methods {
			sb.WriteString(ind + "    " + c12MethodLine(a, me) + "\n")
			for _, r := range me.Rets {
				ty := r.Type
				if r.Qual {
					ty = short + "." + ty
				}
				if r.Seq {
					ty = "sequence of " + ty
				}
				fmt.Fprintf(&sb, "%s        return %s <: %s\n", ind, r.Code, ty)
			}
		}
	}
	for _, ty := range a.Types {
		if ty.Enum != nil {
			fmt.Fprintf(&sb, "    !enum %s:\n", ty.Name)
			for i, v := range ty.Enum {
				fmt.Fprintf(&sb, "        %s: %d\n", v, i+1)
			}
			continue
		}
		fmt.Fprintf(&sb, "    !type %s:\n", ty.Name)
		for _, f := range ty.Fields {
			fmt.Fprintf(&sb, "        %s <: %s\n", f.Name, c12FieldType(f))
		}
	}
	return sb.String()
}

// ---------- statistics of an intent ----------

type c12Stats struct {
	classes    []string
	nonTrivial bool
}

func (a c12App) typeByName(n string) *c12Type {
	for i := range a.Types {
		if a.Types[i].Name == n {
			return &a.Types[i]
		}
	}
	return nil
}

// shortest reference cycle through each type (0 = none)
func (a c12App) cycleLens() map[string]int {
	adj := map[string][]string{}
	for _, ty := range a.Types {
		for _, f := range ty.Fields {
			if f.Kind == "ref" {
				adj[ty.Name] = append(adj[ty.Name], f.Ref)
			}
		}
	}
	out := map[string]int{}
	for _, ty := range a.Types {
		dist := map[string]int{}
		frontier := []string{ty.Name}
		d := 0
		found := 0
		for len(frontier) > 0 && found == 0 {
			d++
			var next []string
			for _, n := range frontier {
				for _, m := range adj[n] {
					if m == ty.Name {
						found = d
					}
					if _, ok := dist[m]; !ok {
						dist[m] = d
						next = append(next, m)
					}
				}
			}
			frontier = next
		}
		out[ty.Name] = found
	}
	return out
}

func c12StatsOf(a c12App) c12Stats {
	cl := map[string]bool{}
	st := c12Stats{}
	richType, richEp := false, false
	for _, ty := range a.Types {
		if ty.Enum != nil {
			cl["enum"] = true
			continue
		}
		req, opt := 0, 0
		for _, f := range ty.Fields {
			if f.Opt {
				opt++
				cl["field_optional"] = true
			} else {
				req++
			}
			if f.Kind == "ref" {
				cl["field_ref"] = true
				if t := a.typeByName(f.Ref); t != nil && t.Enum != nil {
					cl["field_ref_enum"] = true
				}
			}
			switch f.Coll {
			case "seq":
				cl["field_sequence"] = true
				if f.Opt {
					cl["field_optional_sequence"] = true
				}
				if f.Kind == "ref" {
					cl["field_sequence_of_ref"] = true
					if f.Opt {
						cl["field_optional_sequence_of_ref"] = true
					}
				}
			case "set":
				cl["field_set"] = true
			}
		}
		if req >= 2 {
			cl["type_required_ge2"] = true
		}
		if req >= 2 && opt >= 1 {
			richType = true
		}
	}
	for _, n := range a.cycleLens() {
		switch {
		case n == 1:
			cl["self_recursive"] = true
		case n == 2:
			cl["mutually_recursive"] = true
		case n >= 3:
			cl["cycle_ge3"] = true
		}
	}
	nops := 0
	for _, p := range a.Paths {
		if len(p.Vars) > 0 {
			cl["path_param"] = true
		}
		if len(p.Vars) > 1 {
			cl["path_params_ge2"] = true
		}
		if p.Nested {
			cl["nested_path"] = true
		}
		if len(p.Methods) > 1 {
			cl["path_methods_ge2"] = true
		}
		for _, me := range p.Methods {
			nops++
			np := len(p.Vars) + len(me.Query) + len(me.Headers)
			if me.Body != "" {
				np++
				cl["body_param"] = true
				if len(me.BodyTagsBefore)+len(me.BodyTagsAfter) > 0 {
					cl["body_param_with_further_tags"] = true
				}
			}
			if np >= 2 {
				richEp = true
				cl["endpoint_params_ge2"] = true
			}
			if len(me.Query) > 0 {
				cl["query_param"] = true
			}
			if len(me.Query) >= 2 {
				cl["query_params_ge2"] = true
			}
			for _, h := range me.Headers {
				cl["header_param"] = true
				if h.Wire != h.Name {
					cl["header_wire_name_differs"] = true
				}
			}
			if len(me.Rets) >= 2 {
				cl["responses_ge2"] = true
			}
			for _, r := range me.Rets {
				switch {
				case r.Type == "string":
					cl["return_primitive"] = true
				case r.Qual:
					cl["return_qualified"] = true
				}
				if r.Seq {
					cl["return_sequence"] = true
				}
			}
		}
	}
	if nops >= 2 {
		cl["operations_ge2"] = true
	}
	if a.URL == "" {
		cl["no_server_url"] = true
	}
	if strings.Contains(a.Name, "::") {
		cl["namespaced_app"] = true
	}
	st.nonTrivial = richType && richEp
	for k := range cl {
		st.classes = append(st.classes, k)
	}
	sort.Strings(st.classes)
	return st
}
