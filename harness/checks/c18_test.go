package checks

import (
	"fmt"
	"io"
	"os"
	"reflect"
	"regexp"
	"strings"
	"testing"
	"time"

	"github.com/anz-bank/sysl/pkg/loader"
	"github.com/anz-bank/sysl/pkg/syslutil"
	"github.com/sirupsen/logrus"
	"github.com/spf13/afero"
	"pgregory.net/rapid"
)

// C18 — file access never escapes the project root.
//
// Sub-properties: "ops" (every ChrootFs operation x path spelling x root: enumerated
// exhaustively over a seven-segment alphabet, plus drawn longer paths over a real in-memory
// filesystem) and "imports" (import statements spelling such paths, compiled through
// pkg/loader's ChrootFs wrapping).

var c18Ops13 = []string{"Create", "Mkdir", "MkdirAll", "Open", "OpenFile", "Remove", "RemoveAll", "Stat", "Chmod", "Chown", "Chtimes", "Rename-source", "Rename-target"}

// Names are chosen so that one is a textual prefix of the others: a sibling of the root
// whose name merely starts like the root's ("/a.b" next to root "/a") must not pass for
// inside, and paths can leave the root and come back into it.
var (
	c18Alphabet = []string{"", ".", "..", "a", "a.b", "a b", "A"} // "A": a sibling that differs from a root segment only in letter case
	c18Roots    = [][]string{{}, {"a"}, {"a", "a.b"}, {"a", "a.b", "a b"}}
)

type c18OpCase struct {
	Root     []string `json:"root"`
	RootTail string   `json:"root_tail,omitempty"` // extra spelling appended to the root handed to NewChrootFs: "", "/", "/."
	Op       string   `json:"op"`
	Path     string   `json:"path"`
	Mem      bool     `json:"mem,omitempty"`  // a real in-memory filesystem below, with the target file present
	Enum     int      `json:"enum,omitempty"` // number of segments when the case comes from the enumeration
}

func c18RootPath(root []string) string { return "/" + strings.Join(root, "/") }

const c18Companion = "inside-ok" // the other argument of Rename: always inside

func c18Perform(fs afero.Fs, op, p string) (afero.File, error) {
	switch op {
	case "Create":
		return fs.Create(p)
	case "Mkdir":
		return nil, fs.Mkdir(p, 0o755)
	case "MkdirAll":
		return nil, fs.MkdirAll(p, 0o755)
	case "Open":
		return fs.Open(p)
	case "OpenFile":
		return fs.OpenFile(p, os.O_RDONLY, 0)
	case "Remove":
		return nil, fs.Remove(p)
	case "RemoveAll":
		return nil, fs.RemoveAll(p)
	case "Stat":
		_, err := fs.Stat(p)
		return nil, err
	case "Chmod":
		return nil, fs.Chmod(p, 0o600)
	case "Chown":
		return nil, fs.Chown(p, 1, 1)
	case "Chtimes":
		return nil, fs.Chtimes(p, time.Unix(0, 0), time.Unix(0, 0))
	case "Rename-source":
		return nil, fs.Rename(p, c18Companion)
	case "Rename-target":
		return nil, fs.Rename(c18Companion, p)
	}
	panic("c18: unknown operation " + op)
}

func checkC18Op(x *X, c c18OpCase) error {
	rootPath := c18RootPath(c.Root)
	inside, canon, climbed := c18Resolve(c.Root, c.Root, c.Path)
	x.Class("op:" + c.Op)
	if inside {
		x.Class("verdict:inside")
	} else {
		x.Class("verdict:outside")
	}
	dotdot := strings.Contains(c.Path, "..")
	switch {
	case inside && climbed:
		x.Class("left-the-root-and-came-back")
	case inside && dotdot && canon == rootPath:
		x.Class("dotdot-ends-exactly-at-root")
	case inside && dotdot:
		x.Class("dotdot-stays-inside")
	}
	if inside && dotdot && (c.Enum == 0 || c.Enum <= 5) {
		// distinct keys are only kept for the drawn cases and the enumeration up to five segments
		// (the seven-segment space has ~10^6 such pairs; they are counted in the classes above)
		x.NonTrivial(rootPath + "\x00" + c.RootTail + "\x00" + c.Path)
	}
	if c.Enum == 0 {
		x.Sample(fmt.Sprintf("root=%q op=%s path=%q -> inside=%v canon=%q", rootPath+c.RootTail, c.Op, c.Path, inside, canon))
	}
	rec := &c18Rec{}
	isFile := false
	if c.Mem {
		mem := afero.NewMemMapFs()
		_ = mem.MkdirAll(rootPath, 0o755)
		_ = afero.WriteFile(mem, rootPath+"/"+c18Companion, []byte("companion"), 0o644)
		if inside && canon != rootPath && canon != rootPath+"/"+c18Companion && !strings.HasPrefix(canon, strings.TrimSuffix(rootPath, "/")+"/"+c18Companion+"/") {
			if err := afero.WriteFile(mem, canon, []byte("content of "+canon), 0o644); err == nil {
				isFile = true
			}
		}
		rec.inner = mem
	}
	fs := syslutil.NewChrootFs(rec, rootPath+c.RootTail)
	file, err := c18Perform(fs, c.Op, c.Path)
	desc := func() string {
		return fmt.Sprintf("root=%q operation=%s path=%q; reference: inside=%v canonical=%q; reached the filesystem below: %v; returned error: %v",
			rootPath+c.RootTail, c.Op, c.Path, inside, canon, rec.calls, err)
	}
	// 1. nothing below the wrapper may be touched outside the root, whatever the verdict
	for _, call := range rec.calls {
		for i, p := range call.Paths {
			segs, ok := c18Segments(p)
			if ok && c18Under(c.Root, segs) {
				continue
			}
			role := call.Op
			if call.Op == "Rename" {
				role += []string{"-source", "-target"}[i]
			}
			return finding("escape:"+role, "a path outside the root reached the filesystem (%s argument %q): %s", role, p, desc())
		}
	}
	if !inside {
		if len(rec.calls) > 0 {
			return finding("outside-served:"+c.Op, "a path that resolves outside the root was mapped to a file inside it: %s", desc())
		}
		if err == nil {
			return finding("outside-no-error:"+c.Op, "a path outside the root was refused silently (no error): %s", desc())
		}
		return nil
	}
	// 2. inside: exactly one call, on the canonical path, identical for every spelling
	wantOp, wantPaths := c.Op, []string{canon}
	companion := strings.TrimSuffix(rootPath, "/") + "/" + c18Companion
	switch c.Op {
	case "Rename-source":
		wantOp, wantPaths = "Rename", []string{canon, companion}
	case "Rename-target":
		wantOp, wantPaths = "Rename", []string{companion, canon}
	}
	if len(rec.calls) != 1 || rec.calls[0].Op != wantOp || strings.Join(rec.calls[0].Paths, "\x00") != strings.Join(wantPaths, "\x00") {
		return finding("inside-not-canonical:"+c.Op, "an in-root path did not reach the filesystem as %s%q: %s", wantOp, wantPaths, desc())
	}
	// 3. inside paths keep working: the file at the canonical place is what every spelling opens
	if isFile {
		switch c.Op {
		case "Open", "OpenFile":
			if err != nil || file == nil {
				return finding("inside-broken:"+c.Op, "an existing in-root file cannot be opened under this spelling: %s", desc())
			}
			b, rerr := io.ReadAll(file)
			_ = file.Close()
			if rerr != nil || string(b) != "content of "+canon {
				return finding("inside-wrong-file:"+c.Op, "spelling resolves to another file (read %q, %v): %s", b, rerr, desc())
			}
		case "Stat":
			if err != nil {
				return finding("inside-broken:Stat", "an existing in-root file cannot be stat-ed under this spelling: %s", desc())
			}
		}
	}
	return nil
}

var c18DrawNames = []string{"a", "ab", "a.b", "a b", "b", "...", ".a", "a..", "..a", " ", "A", "A.B", "Ab"}

func genC18Op(t *rapid.T) c18OpCase {
	c := c18OpCase{Mem: true, Op: pick(t, c18Ops13, "op")}
	for i, n := 0, rapid.IntRange(0, 3).Draw(t, "rootdepth"); i < n; i++ {
		c.Root = append(c.Root, pick(t, c18DrawNames[:5], "rootseg"))
	}
	if len(c.Root) > 0 {
		c.RootTail = pick(t, []string{"", "", "/", "/."}, "roottail")
	}
	n := rapid.IntRange(6, 14).Draw(t, "nseg")
	segs := make([]string, n)
	for i := range segs {
		switch k := rapid.IntRange(0, 9).Draw(t, "segkind"); {
		case k < 3:
			segs[i] = ".."
		case k < 4:
			segs[i] = "."
		case k < 5:
			segs[i] = ""
		case k < 7 && len(c.Root) > 0:
			// re-enter the root: name one of its segments
			segs[i] = c.Root[rapid.IntRange(0, len(c.Root)-1).Draw(t, "rootname")]
		default:
			segs[i] = pick(t, c18DrawNames, "name")
		}
	}
	c.Path = strings.Join(segs, "/")
	if rapid.Bool().Draw(t, "absolute") {
		c.Path = "/" + c.Path
	}
	return c
}

var c18Ops = Define("C18", "ops",
	"Exhaustive: every path of 1..5 (quick) / 1..7 (thorough) segments over {'', '.', '..', 'a', 'a.b', 'a b', 'A'} (a final '' is a trailing slash, inner '' a doubled slash), relative and absolute, x roots '/', '/a', '/a/a.b', '/a/a.b/a b' x the 13 operations of ChrootFs (both arguments of Rename separately) over a recording filesystem; the path list is split over the shards by index. Plus drawn cases: 6..14 segments over a larger name pool (dots, spaces, names that extend a root segment, segments naming the root again), root depth 0..3 optionally spelled with a trailing '/' or '/.', over a real in-memory filesystem holding the target file. Oracle: segment-stack resolver (no filepath calls). Outside: the operation returns an error and nothing at all reaches the filesystem below; inside: exactly one call with the canonical path (same for all spellings), and Open/OpenFile/Stat find the file that lives there. Non-trivial: the path contains '..' and still resolves inside (never leaves, leaves and comes back, or ends exactly at the root); distinct keys kept for drawn cases and enumerated paths of <=5 segments.",
	genC18Op, checkC18Op)

// c18Enumerate runs the exhaustive part; returns the number of violating cases.
func c18Enumerate(t *testing.T, maxSeg int) int {
	failed := 0
	idx := 0
	for k := 1; k <= maxSeg; k++ {
		digits := make([]int, k)
		for {
			segs := make([]string, k)
			for i, d := range digits {
				segs[i] = c18Alphabet[d]
			}
			rel := strings.Join(segs, "/")
			for _, p := range []string{rel, "/" + rel} {
				mine := idx%cfg.NShards == cfg.Shard
				idx++
				if !mine {
					continue
				}
				for _, root := range c18Roots {
					for _, op := range c18Ops13 {
						if !c18Ops.One(t, c18OpCase{Root: root, Op: op, Path: p, Enum: k}) {
							failed++
							if failed >= 5 {
								return failed
							}
						}
					}
				}
			}
			// odometer
			i := k - 1
			for i >= 0 {
				digits[i]++
				if digits[i] < len(c18Alphabet) {
					break
				}
				digits[i] = 0
				i--
			}
			if i < 0 {
				break
			}
		}
	}
	R("C18").Note("enumerated-spellings", fmt.Sprintf("%d spellings of <=%d segments (all shards together) x %d roots x %d operations", idx, maxSeg, len(c18Roots), len(c18Ops13)))
	return failed
}

// ---------- sequences: one instance, many operations ----------

type c18Step struct {
	Op   string `json:"op"`
	Path string `json:"path"`
}

type c18SeqCase struct {
	Root     []string  `json:"root"`
	RootTail string    `json:"root_tail,omitempty"`
	Steps    []c18Step `json:"steps"`
}

// genC18Seq draws a history of operations on one wrapper. The verdict on a path may not depend on what the
// instance was asked before, so the paths are short and drawn from a pool in which allowed spellings of
// the root itself, of files directly below it, and of the root's siblings and parent are all frequent.
func genC18Seq(t *rapid.T) c18SeqCase {
	c := c18SeqCase{}
	for i, n := 0, rapid.IntRange(0, 3).Draw(t, "rootdepth"); i < n; i++ {
		c.Root = append(c.Root, pick(t, c18DrawNames[:5], "rootseg"))
	}
	if len(c.Root) > 0 {
		c.RootTail = pick(t, []string{"", "", "/", "/."}, "roottail")
	}
	ns := rapid.IntRange(2, 10).Draw(t, "nsteps")
	for i := 0; i < ns; i++ {
		var p string
		switch k := rapid.IntRange(0, 9).Draw(t, "pathkind"); {
		case k < 2:
			p = pick(t, []string{".", "", "/", "./", "a/..", "/.//", "a/b/../.."}, "rootspelling")
		case k < 5:
			p = pick(t, []string{"../", "../../", "a/../../", "/../", "../a/../", "/a/../../"}, "up") + pick(t, c18DrawNames, "upname")
			if rapid.Bool().Draw(t, "updeeper") {
				p += "/" + pick(t, c18DrawNames, "upname2")
			}
		case k < 6 && len(c.Root) > 0:
			// leave and come back through the root's own name
			p = strings.Repeat("../", len(c.Root)) + strings.Join(c.Root, "/") + "/" + pick(t, c18DrawNames, "backname")
		default:
			n := rapid.IntRange(1, 4).Draw(t, "nseg")
			segs := make([]string, n)
			for j := range segs {
				segs[j] = pick(t, append([]string{".", "..", ""}, c18DrawNames...), "seg")
			}
			p = strings.Join(segs, "/")
			if rapid.Bool().Draw(t, "absolute") {
				p = "/" + p
			}
		}
		c.Steps = append(c.Steps, c18Step{Op: pick(t, c18Ops13, "op"), Path: p})
	}
	return c
}

func checkC18Seq(x *X, c c18SeqCase) error {
	rootPath := c18RootPath(c.Root)
	// a recorder that answers "does not exist" itself: only what reaches it matters here (afero's
	// MemMapFs panics while holding its lock when the root directory itself is renamed)
	rec := &c18Rec{}
	fs := syslutil.NewChrootFs(rec, rootPath+c.RootTail)
	var history []string
	sawRootBeforeOutside, insideN, outsideN := false, 0, 0
	rootTouched := false
	for i, st := range c.Steps {
		inside, canon, _ := c18Resolve(c.Root, c.Root, st.Path)
		rec.calls = nil
		_, err := c18Perform(fs, st.Op, st.Path)
		history = append(history, fmt.Sprintf("%s(%q)", st.Op, st.Path))
		desc := func() string {
			return fmt.Sprintf("root=%q, step %d of the history %v on one instance; reference: inside=%v canonical=%q; reached the filesystem below: %v; returned error: %v",
				rootPath+c.RootTail, i+1, history, inside, canon, rec.calls, err)
		}
		for _, call := range rec.calls {
			for j, p := range call.Paths {
				segs, ok := c18Segments(p)
				if ok && c18Under(c.Root, segs) {
					continue
				}
				role := call.Op
				if call.Op == "Rename" {
					role += []string{"-source", "-target"}[j]
				}
				return finding("escape:"+role, "a path outside the root reached the filesystem (%s argument %q): %s", role, p, desc())
			}
		}
		if !inside {
			outsideN++
			if rootTouched {
				sawRootBeforeOutside = true
			}
			if len(rec.calls) > 0 {
				return finding("outside-served:"+st.Op, "a path that resolves outside the root was mapped to a file inside it: %s", desc())
			}
			if err == nil {
				return finding("outside-no-error:"+st.Op, "a path outside the root was refused silently (no error): %s", desc())
			}
			continue
		}
		insideN++
		if canon == rootPath {
			rootTouched = true
		}
		wantOp, wantPaths := st.Op, []string{canon}
		companion := strings.TrimSuffix(rootPath, "/") + "/" + c18Companion
		switch st.Op {
		case "Rename-source":
			wantOp, wantPaths = "Rename", []string{canon, companion}
		case "Rename-target":
			wantOp, wantPaths = "Rename", []string{companion, canon}
		}
		if len(rec.calls) != 1 || rec.calls[0].Op != wantOp || strings.Join(rec.calls[0].Paths, "\x00") != strings.Join(wantPaths, "\x00") {
			return finding("inside-not-canonical:"+st.Op, "an in-root path did not reach the filesystem as %s%q: %s", wantOp, wantPaths, desc())
		}
	}
	x.Class("seq:history")
	if sawRootBeforeOutside {
		x.Class("seq:outside-path-after-an-operation-on-the-root-itself")
	}
	if insideN > 0 && outsideN > 0 {
		x.Class("seq:inside-and-outside-on-one-instance")
		x.NonTrivial(rootPath + c.RootTail + "\x00" + strings.Join(history, "\x00"))
	}
	x.Sample(fmt.Sprintf("root=%q history=%v", rootPath+c.RootTail, history))
	return nil
}

var c18Seqs = Define("C18", "sequences",
	"Histories of 2..10 operations on ONE ChrootFs instance (root depth 0..3, optional trailing '/' or '/.') over a recording filesystem: paths drawn from allowed spellings of the root itself ('.', '', '/', 'a/..'), escapes to the root's parent, siblings and grandparents ('../x', 'a/../../x', '/../x', one or two segments deep), paths that leave and re-enter through the root's own name, and 1..4 free segments; all 13 operations. Oracle per step as in 'ops' (the verdict on a path never depends on earlier operations): outside -> error and nothing reaches the filesystem below; inside -> exactly one call on the canonical path. Non-trivial: the history has both inside and outside steps; distinct by history.",
	genC18Seq, checkC18Seq)

// ---------- surface: every way into the wrapper, not only the thirteen afero.Fs methods ----------

type c18SurfCase struct {
	Root     []string `json:"root"`
	RootTail string   `json:"root_tail,omitempty"`
	Entry    string   `json:"entry"` // "method:<Name>[:k]" (k = which string parameter takes the path) or "afero:<helper>"
	Path     string   `json:"path"`
	Lstater  bool     `json:"lstater"` // the filesystem below also offers afero.Lstater
}

// c18Methods lists every exported method of *ChrootFs that takes at least one string, found by reflection:
// a method added to the wrapper later (an optional afero interface, a convenience helper) is covered
// without touching this file. A method with a parameter that cannot be synthesised is listed as skipped.
func c18Methods() (entries []string, skipped []string) {
	typ := reflect.TypeOf(syslutil.NewChrootFs(&c18Rec{}, "/"))
	for i := 0; i < typ.NumMethod(); i++ {
		m := typ.Method(i)
		nstr, ok := 0, true
		for j := 1; j < m.Type.NumIn(); j++ {
			switch p := m.Type.In(j); {
			case p.Kind() == reflect.String:
				nstr++
			case p.Kind() == reflect.Int, p == reflect.TypeOf(os.FileMode(0)), p == reflect.TypeOf(time.Time{}), p.Kind() == reflect.Bool:
			default:
				ok = false
			}
		}
		switch {
		case nstr == 0:
		case !ok:
			skipped = append(skipped, m.Name)
		default:
			for k := 0; k < nstr; k++ {
				entries = append(entries, fmt.Sprintf("method:%s:%d", m.Name, k))
			}
		}
	}
	return entries, skipped
}

var c18Helpers = []string{"afero:Walk", "afero:Glob", "afero:ReadDir", "afero:ReadFile", "afero:WriteFile", "afero:Exists", "afero:DirExists", "afero:IsDir",
	"afero:ReadOnlyFs.Stat", "afero:ReadOnlyFs.Lstat", "afero:BasePathFs.Open", "afero:CopyOnWriteFs.Lstat", "afero:TempFile", "afero:SafeWriteReader"}

func genC18Surf(t *rapid.T) c18SurfCase {
	seq := genC18Seq(t) // same root and path pools as the histories
	entries, _ := c18Methods()
	entries = append(entries, c18Helpers...)
	return c18SurfCase{Root: seq.Root, RootTail: seq.RootTail, Entry: pick(t, entries, "entry"), Path: seq.Steps[0].Path, Lstater: rapid.Bool().Draw(t, "lstater")}
}

func checkC18Surf(x *X, c c18SurfCase) error {
	rootPath := c18RootPath(c.Root)
	rec := &c18Rec{}
	var below afero.Fs = rec
	if c.Lstater {
		below = c18RecL{rec}
	}
	fs := syslutil.NewChrootFs(below, rootPath+c.RootTail)
	inside, canon, _ := c18Resolve(c.Root, c.Root, c.Path)
	var callErr error
	hasErr := false
	parts := strings.Split(c.Entry, ":")
	switch parts[0] {
	case "method":
		m := reflect.ValueOf(fs).MethodByName(parts[1])
		if !m.IsValid() {
			x.Class("surface:method-gone")
			return nil
		}
		k := 0
		if len(parts) > 2 {
			fmt.Sscan(parts[2], &k)
		}
		var args []reflect.Value
		si := 0
		for j := 0; j < m.Type().NumIn(); j++ {
			p := m.Type().In(j)
			switch {
			case p.Kind() == reflect.String:
				if si == k {
					args = append(args, reflect.ValueOf(c.Path))
				} else {
					args = append(args, reflect.ValueOf(c18Companion))
				}
				si++
			default:
				args = append(args, reflect.Zero(p))
			}
		}
		outs := m.Call(args)
		if n := len(outs); n > 0 && outs[n-1].Type().Implements(reflect.TypeOf((*error)(nil)).Elem()) {
			hasErr = true
			if !outs[n-1].IsNil() {
				callErr = outs[n-1].Interface().(error)
			}
		}
	default:
		hasErr = true
		switch parts[1] {
		case "Walk":
			callErr = afero.Walk(fs, c.Path, func(p string, fi os.FileInfo, err error) error { return err })
		case "Glob":
			_, callErr = afero.Glob(fs, c.Path+"/*")
			hasErr = false // Glob ignores I/O errors by contract
		case "ReadDir":
			_, callErr = afero.ReadDir(fs, c.Path)
		case "ReadFile":
			_, callErr = afero.ReadFile(fs, c.Path)
		case "WriteFile":
			callErr = afero.WriteFile(fs, c.Path, []byte("x"), 0o644)
		case "Exists":
			_, callErr = afero.Exists(fs, c.Path)
		case "DirExists":
			_, callErr = afero.DirExists(fs, c.Path)
		case "IsDir":
			_, callErr = afero.IsDir(fs, c.Path)
		case "ReadOnlyFs.Stat":
			_, callErr = afero.NewReadOnlyFs(fs).Stat(c.Path)
		case "ReadOnlyFs.Lstat":
			_, _, callErr = afero.NewReadOnlyFs(fs).(afero.Lstater).LstatIfPossible(c.Path)
		case "BasePathFs.Open":
			_, callErr = afero.NewBasePathFs(fs, "/").Open(c.Path)
			hasErr = false // BasePathFs has its own notion of the root: only what reaches the recorder matters
		case "CopyOnWriteFs.Lstat":
			_, _, callErr = afero.NewCopyOnWriteFs(fs, afero.NewMemMapFs()).(afero.Lstater).LstatIfPossible(c.Path)
			hasErr = false // a miss in the base layer falls through to the overlay
		case "TempFile":
			_, callErr = afero.TempFile(fs, c.Path, "t")
		case "SafeWriteReader":
			callErr = afero.SafeWriteReader(fs, c.Path, strings.NewReader("x"))
		}
	}
	x.Class("surface:" + parts[0] + ":" + parts[1])
	desc := func() string {
		return fmt.Sprintf("root=%q entry=%s path=%q (filesystem below offers Lstater: %v); reference: inside=%v canonical=%q; reached the filesystem below: %v; returned error: %v",
			rootPath+c.RootTail, c.Entry, c.Path, c.Lstater, inside, canon, rec.calls, callErr)
	}
	for _, call := range rec.calls {
		for _, p := range call.Paths {
			segs, ok := c18Segments(p)
			if ok && c18Under(c.Root, segs) {
				continue
			}
			return finding("escape:surface:"+call.Op, "a path outside the root reached the filesystem through %s (%s %q): %s", c.Entry, call.Op, p, desc())
		}
	}
	// helpers that derive further names from the path (TempFile, SafeWriteReader's parent directory, Glob's
	// pattern) are judged by what reaches the recorder only
	derived := parts[0] == "afero" && (parts[1] == "TempFile" || parts[1] == "SafeWriteReader" || parts[1] == "Glob" || parts[1] == "BasePathFs.Open")
	if !inside && !derived {
		x.NonTrivial(rootPath + c.RootTail + "\x00" + c.Entry + "\x00" + c.Path)
		if len(rec.calls) > 0 {
			return finding("outside-served:surface:"+parts[1], "a path that resolves outside the root was mapped to a file inside it: %s", desc())
		}
		if hasErr && callErr == nil {
			return finding("outside-no-error:surface:"+parts[1], "a path outside the root was refused silently (no error): %s", desc())
		}
	}
	return nil
}

var c18Surf = Define("C18", "surface",
	"Every entry into the wrapper: each exported method of *ChrootFs that takes a string (found by reflection, so optional afero interfaces or helpers added to the type are covered when they appear; each string parameter in turn takes the drawn path, the others an in-root name) and afero's helpers layered on the wrapper (Walk, Glob, ReadDir, ReadFile, WriteFile, Exists, DirExists, IsDir, TempFile, SafeWriteReader, ReadOnlyFs/CopyOnWriteFs/BasePathFs on top), over a recorder that does or does not offer afero.Lstater itself (its Lstat calls are recorded too); roots and paths from the pools of 'sequences'. Oracle: nothing outside the root reaches the recorder; an outside path reaches nothing at all and yields an error where the entry can report one. Non-trivial: the path resolves outside the root.",
	genC18Surf, checkC18Surf)

// ---------- imports ----------

type c18ImportCase struct {
	Root   []string `json:"root"`
	ModDir []string `json:"mod_dir"` // directory of the importing file, relative to the root
	Import string   `json:"import"`  // path as spelled after `import`
}

// copy of golden-retriever's resourceRegexp: a local path of this form is taken for a remote
// repository by the reader and never reaches the project filesystem (outside C18)
var c18RemoteRe = regexp.MustCompile(`^((\w+\.)+(\w)+(/[\w-]+){2})((/[\w.-]+)+)(@([\w./-]+))?$`)

// c18Joined mirrors what the reader is asked for: the import joined to the importing file's
// directory and cleaned lexically, relative to the root.
func c18Joined(modDir []string, imp string) string {
	var stack []string
	up := 0
	if !strings.HasPrefix(imp, "/") {
		stack = append(stack, modDir...)
	}
	for _, s := range strings.Split(imp, "/") {
		switch s {
		case "", ".":
		case "..":
			if len(stack) > 0 {
				stack = stack[:len(stack)-1]
			} else {
				up++
			}
		default:
			stack = append(stack, s)
		}
	}
	return strings.Repeat("../", up) + strings.Join(stack, "/")
}

func genC18Import(t *rapid.T) c18ImportCase {
	c := c18ImportCase{}
	names := []string{"a", "ab", "a.b", "r"}
	for i, n := 0, rapid.IntRange(0, 3).Draw(t, "rootdepth"); i < n; i++ {
		c.Root = append(c.Root, pick(t, names, "rootseg"))
	}
	for i, n := 0, rapid.IntRange(0, 2).Draw(t, "moddepth"); i < n; i++ {
		c.ModDir = append(c.ModDir, pick(t, []string{"m", "sub", "a"}, "modseg"))
	}
	for attempt := 0; ; attempt++ {
		var sb strings.Builder
		if rapid.IntRange(0, 3).Draw(t, "absolute") == 0 {
			sb.WriteString("/")
		}
		n := rapid.IntRange(0, 7).Draw(t, "nseg")
		for i := 0; i < n; i++ {
			switch k := rapid.IntRange(0, 9).Draw(t, "segkind"); {
			case k < 4:
				sb.WriteString("..")
			case k < 5:
				sb.WriteString(".")
			case k < 7 && len(c.Root)+len(c.ModDir) > 0:
				all := append(append([]string{}, c.Root...), c.ModDir...)
				sb.WriteString(all[rapid.IntRange(0, len(all)-1).Draw(t, "known")])
			default:
				sb.WriteString(pick(t, []string{"a", "ab", "a.b", "r", "m", "x", "...", "A", "R", "Ab", "M"}, "name"))
			}
			// separator: single or doubled slash
			if rapid.IntRange(0, 7).Draw(t, "doubled") == 0 {
				sb.WriteString("//")
			} else {
				sb.WriteString("/")
			}
		}
		sb.WriteString(pick(t, []string{"tgt", "tgt.sysl"}, "file"))
		c.Import = sb.String()
		if strings.HasPrefix(c.Import, "//") || c18RemoteRe.MatchString(c18Joined(c.ModDir, c.Import)) {
			if attempt < 8 {
				continue // looks like a remote import: outside this property
			}
			c.Import = "../tgt"
		}
		return c
	}
}

const (
	c18MainText   = "Main:\n  Ep:\n    ...\n"
	c18TargetText = "Target:\n  Ep:\n    ...\n"
	c18DecoyText  = "Decoy:\n  Ep:\n    ...\n"
)

func checkC18Import(x *X, c c18ImportCase) error {
	rootPath := c18RootPath(c.Root)
	modAbs := append(append([]string{}, c.Root...), c.ModDir...)
	base := modAbs
	if strings.HasPrefix(c.Import, "/") {
		base = c.Root
	}
	name := c.Import
	if !strings.HasSuffix(name, ".sysl") {
		name += ".sysl"
	}
	inside, canon, climbed := c18Resolve(c.Root, base, name)
	if inside {
		x.Class("import:" + "verdict:inside")
	} else {
		x.Class("import:" + "verdict:outside")
	}
	if strings.HasPrefix(c.Import, "/") {
		x.Class("import:" + "absolute-import")
	}
	if strings.Contains(c.Import, "//") {
		x.Class("import:" + "doubled-slash")
	}
	if len(c.ModDir) > 0 {
		x.Class("import:" + "importer-in-subdirectory")
	}
	if inside && strings.Contains(c.Import, "..") {
		if climbed {
			x.Class("import:" + "left-the-root-and-came-back")
		} else {
			x.Class("import:" + "dotdot-stays-inside")
		}
		x.NonTrivial(rootPath + "\x00" + strings.Join(c.ModDir, "/") + "\x00" + c.Import)
	}
	x.Sample(fmt.Sprintf("root=%q importer=%q import %s -> inside=%v canon=%q", rootPath, strings.Join(c.ModDir, "/")+"/main.sysl", c.Import, inside, canon))

	mem := afero.NewMemMapFs()
	mainPath := c18RootPath(modAbs) + "/main.sysl"
	if len(modAbs) == 0 {
		mainPath = "/main.sysl"
	}
	_ = afero.WriteFile(mem, mainPath, []byte("import "+c.Import+"\n\n"+c18MainText), 0o644)
	// decoys where a wrong resolution rule would look: beside the root marker and beside the importer
	for _, d := range []string{strings.TrimSuffix(rootPath, "/") + "/tgt.sysl", strings.TrimSuffix(c18RootPath(modAbs), "/") + "/tgt.sysl", "/tgt.sysl"} {
		if d != canon {
			_ = afero.WriteFile(mem, d, []byte(c18DecoyText), 0o644)
		}
	}
	if err := afero.WriteFile(mem, canon, []byte(c18TargetText), 0o644); err != nil {
		return nil // the target position collides with a directory of the fixture: nothing to decide
	}
	rec := &c18Rec{inner: mem}
	logger := logrus.New()
	logger.SetOutput(io.Discard)
	module := strings.Join(append(append([]string{}, c.ModDir...), "main.sysl"), "/")
	m, _, err := loader.LoadSyslModule(rootPath, module, rec, logger)
	desc := func() string {
		return fmt.Sprintf("root=%q importing file=%q statement `import %s`; reference: target %q inside=%v; calls below the wrapper: %v; load error: %v",
			rootPath, module, c.Import, canon, inside, rec.calls, err)
	}
	for _, call := range rec.calls {
		for _, p := range call.Paths {
			segs, ok := c18Segments(p)
			if !ok || !c18Under(c.Root, segs) {
				return finding("escape:import:"+call.Op, "compiling an import touched a path outside the root (%s %q): %s", call.Op, p, desc())
			}
		}
	}
	hasTarget := m != nil && m.GetApps()["Target"] != nil
	if !inside {
		if hasTarget || err == nil {
			return finding("outside-import-served", "an import that resolves outside the root was loaded: %s", desc())
		}
		return nil
	}
	if err != nil || !hasTarget || m.GetApps()["Main"] == nil || m.GetApps()["Decoy"] != nil {
		return finding("inside-import-broken", "an in-root file was not found under this spelling of its path: %s", desc())
	}
	opened := false
	for _, call := range rec.calls {
		if (call.Op == "Open" || call.Op == "OpenFile") && call.Paths[0] == canon {
			opened = true
		}
	}
	if !opened {
		return finding("inside-import-not-canonical", "the imported file was not opened at its canonical place: %s", desc())
	}
	return nil
}

var c18Imports = Define("C18", "imports",
	"Specifications whose `import` statement spells a path with '.', '..', doubled slashes, names with dots, segments naming the root or the importer's directory again, absolute or relative, 0..7 directory segments + file name with or without .sysl; root depth 0..3, importing file 0..2 directories below the root; compiled with loader.LoadSyslModule over a recording in-memory filesystem that holds the target where the reference resolver puts it (also when that is outside the root) and decoys beside the root and the importer. Oracle: no call below the wrapper names a path outside the root; outside -> the load fails and the outside file's application is absent; inside -> the load succeeds, contains the target's application and opened exactly the canonical path. Paths the reader would take for a remote repository (//host/..., host.tld/org/repo/...) are not generated. Non-trivial: the import contains '..' and resolves inside.",
	genC18Import, checkC18Import)

func TestC18(t *testing.T) {
	checkKnown(t, "C18")
	maxSeg := scale(5, 7)
	failed := c18Enumerate(t, maxSeg)
	if thorough() && failed == 0 {
		r := R("C18")
		r.mu.Lock()
		r.Exhaustive["paths of <=7 segments x 4 roots x 13 operations"] = true
		r.mu.Unlock()
	}
	if t.Failed() {
		return // rapid refuses a *testing.T that has already failed; the violations are recorded
	}
	c18Ops.Run(t, scale(20000, 60000))
	c18Seqs.Run(t, scale(6000, 40000))
	if _, skipped := c18Methods(); len(skipped) > 0 {
		R("C18").Note("surface-methods-not-driven", strings.Join(skipped, ", "))
	}
	c18Surf.Run(t, scale(8000, 40000))
	c18Imports.Run(t, scale(800, 3000))
}

// FuzzC18Path is a native fuzz target over raw path strings. It is not part of the tiers
// (the driver runs compiled binaries with -test.run only); by hand:
//
//	go test ./checks -run '^$' -fuzz '^FuzzC18Path$' -fuzztime 60s
//	checks.test -test.run '^$' -test.fuzz '^FuzzC18Path$' -test.fuzztime 60s -test.fuzzcachedir <dir>
//
// The oracle is the one of the "ops" sub-property; the recorded Rename finding is skipped.
func FuzzC18Path(f *testing.F) {
	for _, s := range []string{"..", "/..", "a/../..", "a//./b/", "../a.b", "a b/../../a/x", "/a/../../a"} {
		f.Add(uint8(0), uint8(1), s)
	}
	f.Fuzz(func(t *testing.T, op, depth uint8, path string) {
		c := c18OpCase{Root: c18Roots[int(depth)%len(c18Roots)], Op: c18Ops13[int(op)%len(c18Ops13)], Path: path, Mem: true}
		err := checkC18Op(&X{r: R("C18-fuzz")}, c)
		if fd, ok := err.(*Finding); ok && knownSig("C18", fd.Sig) {
			return
		}
		if err != nil {
			t.Fatal(err)
		}
	})
}
