package checks

// Intent: abstract description of a system, independent of sysl text and of the compiled model.

type AttrV struct {
	S     *string `json:"s,omitempty"`
	A     []AttrV `json:"a,omitempty"`
	IsArr bool    `json:"arr,omitempty"`
	// lines: render this string annotation in the multi-line form ('@k =:' + '| line' ...); S is then
	// the documented value: every line followed by a newline
	lines []string
}

type Meta struct {
	Tags  []string         `json:"tags,omitempty"`
	Attrs map[string]AttrV `json:"attrs,omitempty"`
	// Annos are rendered as @k = v lines (same fact as Attrs in the model)
	Annos map[string]AttrV `json:"-"`
}

type TExpr struct {
	Wrap    string   `json:"wrap,omitempty"` // "", "set", "seq"
	Prim    string   `json:"prim,omitempty"` // INT STRING ...
	Bits    int32    `json:"bits,omitempty"`
	LenMin  int64    `json:"lenmin,omitempty"`
	LenMax  int64    `json:"lenmax,omitempty"`
	Prec    int32    `json:"prec,omitempty"`
	Scale   int32    `json:"scale,omitempty"`
	RefApp  []string `json:"refapp,omitempty"`
	RefPath []string `json:"refpath,omitempty"`
	Opt     bool     `json:"opt,omitempty"`
	Meta
	// surface spelling of primitive e.g. "int32", "string(5)"
	spelling string
}

type Field struct {
	Name string
	T    TExpr
}

type TypeDecl struct {
	Kind          string // tuple relation enum alias union
	Name          string
	Meta          Meta
	Fields        []Field
	Enum          []EnumItem
	Alias         *TExpr
	Union         []TExpr
	AliasIndented bool
}

type EnumItem struct {
	Name string
	Val  int64
}

type Param struct {
	Name string `json:"name"`
	T    TExpr  `json:"t"`
}

type Stmt struct {
	Kind     string   `json:"kind"` // action call ret cond loop foreach group alt
	Text     string   `json:"text,omitempty"`
	Target   []string `json:"target,omitempty"`
	Endpoint string   `json:"endpoint,omitempty"`
	Args     []string `json:"args,omitempty"`
	Mode     string   `json:"mode,omitempty"`
	Meta
	Children []*Stmt   `json:"children,omitempty"`
	Choices  []*Choice `json:"choices,omitempty"`
	// rendering
	keyword  string
	selfDot  bool
	docLines []string
}

type Choice struct {
	Cond  string  `json:"cond"`
	Stmts []*Stmt `json:"stmts,omitempty"`
}

type Endpoint struct {
	Kind   string // simple rest event sub
	Name   string
	Long   string
	Meta   Meta
	Params []Param
	Stmts  []*Stmt
	// rest
	Method string
	Query  []Param
	// sub
	Source []string
	Event  string
}

type RestNode struct {
	Seg      string // "/a" or "/{id<:int}"
	PathVar  *Param
	Meta     Meta
	Methods  []*Endpoint
	Children []*RestNode
}

// CollectorLine is one line of a '.. * <- *' block: it merges its attributes into an endpoint of
// the application (Kind "ep") or into every matching call statement of the application (Kind "call").
type CollectorLine struct {
	Kind     string
	EpName   string
	Target   []string
	Endpoint string
	Meta     Meta
}

type App struct {
	Collector []CollectorLine
	Name      []string
	Long      string
	Meta      Meta
	Mixins    [][]string
	Types     []*TypeDecl
	Eps       []*Endpoint
	Rest      []*RestNode
}

type Intent struct {
	Apps []*App
}
