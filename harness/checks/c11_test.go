package checks

// C11 — importers emit valid Sysl that contains everything the foreign spec defines; repeatable.

import (
	"encoding/json"
	"fmt"
	"io"
	"runtime"
	"sort"
	"strings"
	"testing"

	"github.com/anz-bank/sysl/pkg/importer"
	"github.com/anz-bank/sysl/pkg/parse"
	"github.com/anz-bank/sysl/pkg/sysl"
	"github.com/sirupsen/logrus"
	"github.com/spf13/afero"
	"pgregory.net/rapid"
)

type c11Case struct {
	Format     string   `json:"format"`              // oas2 | oas3 | xsd | sql
	Path       string   `json:"path"`                // file name handed to importer.Factory (decides detection)
	FormatID   string   `json:"format_id,omitempty"` // explicit --format (SQL dialects share the .sql extension)
	Content    string   `json:"content"`             // the foreign document
	Want       c11Want  `json:"want"`                // what the imported Sysl must contain
	Classes    []string `json:"classes,omitempty"`
	NonTrivial bool     `json:"nontrivial,omitempty"`
	ViaImport  bool     `json:"via_import,omitempty"` // also reach the importer through `import doc as Ns :: App`
	Fresh      bool     `json:"fresh,omitempty"`      // also repeat the import in a fresh worker process
}

const c11App = "TestApp"

func c11Logger() *logrus.Logger {
	lg := logrus.New()
	lg.SetOutput(io.Discard)
	lg.ExitFunc = func(int) { panic("logrus.Fatal reached in code under test") }
	return lg
}

type c11ImportArg struct {
	Path     string `json:"path"`
	FormatID string `json:"format_id"`
	Content  string `json:"content"`
}

func c11Import(a c11ImportArg) (string, error) {
	lg := c11Logger()
	im, err := importer.Factory(a.Path, false, a.FormatID, []byte(a.Content), lg)
	if err != nil {
		return "", fmt.Errorf("factory: %w", err)
	}
	im, err = im.Configure(&importer.ImporterArg{AppName: c11App, PackageName: "com.example.pkg"})
	if err != nil {
		return "", fmt.Errorf("configure: %w", err)
	}
	return im.Load(a.Content)
}

var _ = registerOp("c11.import", func(arg json.RawMessage) (interface{}, error) {
	var a c11ImportArg
	if err := json.Unmarshal(arg, &a); err != nil {
		return nil, err
	}
	logrus.SetOutput(io.Discard)
	return c11Import(a)
})

// ---------- completeness ----------

type c11Cmp struct {
	x    *X
	m    *c11Model
	keys map[string]string // foreign type name -> model key
	ctx  string
	src  string // oas2 | oas3 | xsd | sql
}

func (c *c11Cmp) fail(sig, format string, a ...interface{}) error {
	if sig == "" {
		return fmt.Errorf(format+"%s", append(a, c.ctx)...)
	}
	return finding(sig, format+"%s", append(a, c.ctx)...)
}

// typeKey finds the model type for a foreign name: the name itself or, per the importers'
// documented convention, the name with a leading underscore.
func (c *c11Cmp) typeKey(name string) (string, bool) {
	if k, ok := c.keys[name]; ok {
		return k, true
	}
	for _, cand := range []string{name, "_" + name} {
		if _, ok := c.m.Types[cand]; ok {
			c.keys[name] = cand
			return cand, true
		}
	}
	return "", false
}

func c11ClassOK(want string, bits int32, f *c11MField) bool {
	if c11KindClass(f) != want {
		return false
	}
	return bits == 0 || f.Bits == bits
}

func (c *c11Cmp) field(where string, w c11WField, f *c11MField) error {
	if f.Opt && !w.Opt && w.Seq && w.SQL {
		return c.fail("sql:array-column-not-null-lost", "%s: array column declared NOT NULL is imported as optional", where)
	}
	if f.Opt != w.Opt {
		return c.fail("", "%s: optional=%v, the foreign document says %v", where, f.Opt, w.Opt)
	}
	if (f.Coll != "") != w.Seq {
		return c.fail("", "%s: collection=%q, the foreign document says array=%v", where, f.Coll, w.Seq)
	}
	if w.Pk && !f.Pk {
		if w.PkInlineFk {
			return c.fail("sql:inline-primary-key-lost-with-table-constraint", "%s: column declared `PRIMARY KEY` inline in a table that also has a FOREIGN KEY constraint is not marked ~pk", where)
		}
		return c.fail("", "%s: primary-key column is not marked ~pk", where)
	}
	if w.SQL && !w.Pk && f.Pk {
		return c.fail("", "%s: marked ~pk but not part of the primary key", where)
	}
	if w.Fk && !c11HasPat(f.Pats, "fk") {
		return c.fail("", "%s: foreign-key column is not marked ~fk", where)
	}
	if w.Attr && !c11HasPat(f.Pats, "xml_attribute") {
		return c.fail("", "%s: XSD attribute is not marked ~xml_attribute", where)
	}
	switch w.Class {
	case "ref":
		key, ok := c.typeKey(w.Ref)
		if !ok {
			return c.fail("", "%s: referenced schema %q has no type", where, w.Ref)
		}
		if f.Ref != key {
			if f.Ref == w.Ref && key == "_"+w.Ref {
				return c.fail("oas2:builtin-prefixed-type-referenced-without-prefix", "%s: refers to %q but the type is defined as %q", where, f.Ref, key)
			}
			return c.fail("", "%s: reference target %q (%s), want %q", where, f.Ref, f.Prim, key)
		}
	case "colref": // SQL foreign key: Table.column
		if f.Ref != w.Ref {
			return c.fail("", "%s: foreign-key target %q, want %q", where, f.Ref, w.Ref)
		}
	case "nested":
		if f.Ref == "" {
			return c.fail("", "%s: inline object imported as %s, want a reference to a generated type", where, f.Prim)
		}
		nt := c.m.Types[f.Ref]
		if nt == nil {
			return c.fail("", "%s: inline object refers to %q, which is not defined", where, f.Ref)
		}
		if nt.Kind != "tuple" {
			return c.fail("", "%s: inline object type %q is a %s", where, f.Ref, nt.Kind)
		}
		if err := c.fields(f.Ref+" (inline object of "+where+")", w.Nested, nt, true); err != nil {
			return err
		}
	case "":
	default:
		if !c11ClassOK(w.Class, w.Bits, f) {
			return c.fail("", "%s: kind %s/%d bits, the foreign document says %s/%d", where, c11KindClass(f), f.Bits, w.Class, w.Bits)
		}
	}
	return nil
}

func (c *c11Cmp) fields(where string, ws []c11WField, t *c11MType, exact bool) error {
	for _, w := range ws {
		f := t.byTag(w.Tag)
		if f == nil {
			var have []string
			for _, x := range t.Fields {
				have = append(have, x.Tag)
			}
			return c.fail("", "%s: property %q is missing (have %v)", where, w.Tag, have)
		}
		if err := c.field(where+"."+w.Tag, w, f); err != nil {
			return err
		}
	}
	if exact && len(t.Fields) != len(ws) {
		var have []string
		for _, x := range t.Fields {
			have = append(have, x.Tag)
		}
		return c.fail("", "%s: %d fields %v, the foreign document defines %d", where, len(t.Fields), have, len(ws))
	}
	return nil
}

func (c *c11Cmp) compare(w c11Want) error {
	for _, wt := range w.Types {
		key, ok := c.typeKey(wt.Name)
		if !ok {
			var have []string
			for k := range c.m.Types {
				have = append(have, k)
			}
			sort.Strings(have)
			if wt.Alias != nil && wt.Alias.Class == "bool" && c.m.Types["EXTERNAL_"+wt.Name] != nil {
				return c.fail("oas2:boolean-definition-becomes-external-string-alias", "definition %q of type boolean is imported as `!alias EXTERNAL_%s: string` (have %v)", wt.Name, wt.Name, have)
			}
			if c.src == "oas3" && wt.Alias != nil && wt.Alias.Class == "integer" && wt.Alias.Bits != 0 {
				return c.fail("oas3:integer-definition-with-format-dropped", "definition %q (type integer with format int%d) is not imported at all, references to it dangle (have %v)", wt.Name, wt.Alias.Bits, have)
			}
			return c.fail("", "no type for %q (have %v)", wt.Name, have)
		}
		t := c.m.Types[key]
		switch wt.Kind {
		case "tuple", "relation":
			if t.Kind != wt.Kind {
				if len(wt.Fields) == 0 && t.Kind == "alias" {
					continue // an object without properties has nothing to carry
				}
				return c.fail("", "type %q is a %s, want %s", key, t.Kind, wt.Kind)
			}
			if err := c.fields(key, wt.Fields, t, wt.Exact); err != nil {
				return err
			}
		case "alias":
			if t.Kind != "alias" {
				return c.fail("", "type %q is a %s, want an alias", key, t.Kind)
			}
			if wt.Alias != nil {
				a := *wt.Alias
				a.Opt = t.Alias.Opt
				if err := c.field(key+" (alias target)", a, t.Alias); err != nil {
					return err
				}
			}
		}
	}
	for _, we := range w.Eps {
		name := we.Method + " " + we.Path
		ep := c.m.Eps[name]
		if ep == nil {
			var have []string
			for k := range c.m.Eps {
				have = append(have, k)
			}
			sort.Strings(have)
			return c.fail("", "no endpoint %q (have %v)", name, have)
		}
		params := func(loc string, got []c11MField, want []c11WParam, byTag bool) error {
			if len(got) != len(want) {
				var g []string
				for _, x := range got {
					g = append(g, x.Name)
				}
				return c.fail("", "%s: %d %s parameters %v, the foreign document declares %d", name, len(got), loc, g, len(want))
			}
			for _, wp := range want {
				var f *c11MField
				for i := range got {
					n := got[i].Name
					if byTag {
						n = got[i].Tag
					}
					if n == wp.Name {
						f = &got[i]
					}
				}
				if f == nil {
					return c.fail("", "%s: %s parameter %q is missing", name, loc, wp.Name)
				}
				if loc != "path" && f.Opt != wp.Opt {
					return c.fail("", "%s: %s parameter %q optional=%v, the foreign document says required=%v", name, loc, wp.Name, f.Opt, !wp.Opt)
				}
				if !c11ClassOK(wp.Class, wp.Bits, f) {
					return c.fail("", "%s: %s parameter %q kind %s/%d, the foreign document says %s/%d", name, loc, wp.Name, c11KindClass(f), f.Bits, wp.Class, wp.Bits)
				}
			}
			return nil
		}
		if err := params("path", ep.Vars, we.Vars, false); err != nil {
			return err
		}
		if err := params("query", ep.Query, we.Query, false); err != nil {
			return err
		}
		if err := params("header", ep.Headers, we.Headers, true); err != nil {
			return err
		}
		if (we.BodyRef != "") != (len(ep.Body) > 0) {
			return c.fail("", "%s: body parameter present=%v, the foreign document has one=%v", name, len(ep.Body) > 0, we.BodyRef != "")
		}
		if we.BodyRef != "" {
			key, _ := c.typeKey(we.BodyRef)
			// the body in every media type it is offered in: one parameter of the body's type per media type
			// (Go importers), or one parameter typed by a union of aliases of the body's type, one per
			// media type (arr.ai OpenAPI 3 importer)
			var gotMedia []string
			for _, b := range ep.Body {
				if b.Ref == key {
					gotMedia = append(gotMedia, b.Attr["mediatype"])
					continue
				}
				ut := c.m.Types[b.Ref]
				if ut == nil || ut.Kind != "union" || len(ut.Fields) == 0 {
					return c.fail("", "%s: body parameter %+v, want type %q", name, b, key)
				}
				for _, alt := range ut.Fields {
					at := c.m.Types[alt.Ref]
					if at == nil || at.Kind != "alias" || at.Alias == nil || at.Alias.Ref != key {
						return c.fail("", "%s: body parameter %+v is a union whose alternative %q is not an alias of %q", name, b, alt.Ref, key)
					}
					gotMedia = append(gotMedia, at.Attr["mediatype"])
				}
			}
			wantMedia := append([]string{}, we.Media...)
			sort.Strings(gotMedia)
			sort.Strings(wantMedia)
			if len(ep.Body) == 0 || (len(wantMedia) > 1 || len(gotMedia) > 1) && strings.Join(gotMedia, ",") != strings.Join(wantMedia, ",") {
				return c.fail("", "%s: body parameters for media types %v, the foreign document offers the body as %v", name, gotMedia, wantMedia)
			}
		}
		got := map[string]c11MRet{}
		for _, r := range ep.Rets {
			code := r.Code
			if code == "" {
				code = "?" + r.Raw
			}
			if code == "error" {
				continue // the arr.ai importer adds `return error` for the implicit default response
			}
			got[code] = r
		}
		if len(got) != len(we.Rets) {
			return c.fail("", "%s: returns %+v, the foreign document declares %+v", name, ep.Rets, we.Rets)
		}
		for _, wr := range we.Rets {
			g, ok := got[wr.Code]
			if !ok {
				return c.fail("", "%s: response %s is missing (have %+v)", name, wr.Code, ep.Rets)
			}
			if wr.Ref == "" {
				continue
			}
			key, _ := c.typeKey(wr.Ref)
			if g.Type != key || g.Seq != wr.Seq {
				if g.Type == wr.Ref && key == "_"+wr.Ref {
					return c.fail("oas2:builtin-prefixed-type-referenced-without-prefix", "%s: response %s refers to %q but the type is defined as %q", name, wr.Code, g.Type, key)
				}
				return c.fail("", "%s: response %s is %q (sequence=%v), want %q (sequence=%v)", name, wr.Code, g.Type, g.Seq, key, wr.Seq)
			}
		}
	}
	if len(w.Eps) != len(c.m.Eps) {
		var have []string
		for k := range c.m.Eps {
			have = append(have, k)
		}
		sort.Strings(have)
		return c.fail("", "%d endpoints %v, the foreign document declares %d", len(c.m.Eps), have, len(w.Eps))
	}
	return nil
}

// ---------- check ----------

func c11FindApp(m *sysl.Module, name string) *sysl.Application {
	if a := m.GetApps()[name]; a != nil {
		return a
	}
	return nil
}

func checkC11(x *X, c c11Case) error {
	for _, cl := range c.Classes {
		x.Class(cl)
	}
	x.Class("format_" + c.Format)
	if c.NonTrivial {
		x.NonTrivial(c.Content)
	}
	x.Sample(c.Content)
	ctx := "\n---- foreign document (" + c.Path + ")\n" + c.Content
	arg := c11ImportArg{Path: c.Path, FormatID: c.FormatID, Content: c.Content}
	// generator soundness: a document the validators reject is a harness bug, never an importer finding
	if err := c11ValidateForeign(c); err != nil {
		return fmt.Errorf("GENERATOR BUG: generated %s document is not valid: %v%s", c.Format, err, ctx)
	}
	// the XSD importer can exhaust the stack, which no recover() survives: it runs in the worker
	// process (the worker is persistent, so the repeat below is still a repeat within one process)
	doImport := func() (string, error) { return c11Import(arg) }
	if c.Format == "xsd" {
		doImport = func() (string, error) {
			var out string
			death, serr, inconcl := sandboxCall("c11.import", arg, &out)
			switch {
			case death != nil:
				if death.Kind == "fatal" && strings.HasPrefix(death.Frame, "pkg/importer.make") && strings.Contains(death.Text, "stack overflow") {
					// the cycle makeType -> makeComplexType -> func1 can be cut at any of its three frames
					return "", finding("stack-overflow@pkg/importer.makeComplexType", "import of an XSD schema with a recursive complex type exhausts the stack (%s)", death.Frame)
				}
				return "", deathErr(death, "import")
			case inconcl:
				x.Inconclusive("import timed out once")
				return "", fmt.Errorf("c11-inconclusive")
			}
			return out, serr
		}
	}
	text, err := doImport()
	if err != nil {
		if _, isF := err.(*Finding); isF {
			return finding(err.(*Finding).Sig, "%s%s", err.(*Finding).Msg, ctx)
		}
		if err.Error() == "c11-inconclusive" {
			return nil
		}
		if c.Format == "oas2" && strings.Contains(err.Error(), "circular schema reference not handled") {
			return finding("oas2:recursive-schema-conversion-fails", "import fails on a recursive schema: %v%s", c11CutCycle(err.Error()), ctx)
		}
		return fmt.Errorf("import fails: %v%s", err, ctx)
	}
	ctx = "\n---- imported sysl\n" + text + ctx
	aoa := false
	for _, cl := range c.Classes {
		aoa = aoa || cl == "array_definition_of_array_definition"
	}
	// the bundled arr.ai importers take seconds per run: their repeat comes after the cheaper demands
	slow := c.Format == "sql" || c.Format == "oas3"
	repeat := func() error {
		text2, err := doImport()
		if err != nil {
			if _, isF := err.(*Finding); isF {
				return finding(err.(*Finding).Sig, "second import: %s%s", err.(*Finding).Msg, ctx)
			}
			if err.Error() == "c11-inconclusive" {
				return nil
			}
			if c.Format == "oas2" && strings.Contains(err.Error(), "circular schema reference not handled") {
				return finding("oas2:recursive-schema-conversion-fails", "second import fails on a recursive schema: %v%s", c11CutCycle(err.Error()), ctx)
			}
			return fmt.Errorf("second import fails: %v%s", err, ctx)
		}
		if text2 != text {
			if aoa && c.Format == "oas2" {
				return finding("oas2:array-definition-of-array-definition", "second import of the same document gives different text (an array definition refers to another array definition)\n---- second\n%s%s", text2, ctx)
			}
			return finding("import-not-repeatable:"+c.Format, "second import of the same document gives different text\n---- second\n%s%s", text2, ctx)
		}
		x.Class("repeated_in_process")
		return nil
	}
	if !slow {
		if err := repeat(); err != nil {
			return err
		}
	}
	m, err := c11Compile(text)
	if err != nil {
		if kw := c11KeywordProp(c.Want); kw != "" && c.Format == "oas2" {
			return finding("oas2:keyword-property-name-not-escaped", "imported text does not compile (a property is named like the Sysl keyword %q): %v%s", kw, err, ctx)
		}
		if kw := c11KeywordProp(c.Want); kw != "" && c.Format == "oas3" {
			return finding("oas3:keyword-property-name-not-escaped", "imported text does not compile (a property is named like the Sysl keyword %q): %v%s", kw, err, ctx)
		}
		if c.Format == "sql" && strings.Contains(text, "\", , ~max]") {
			return finding("sql:empty-attribute-between-name-and-max", "imported text does not compile (a column that needs a name= attribute and has length MAX is written `[name=\"..\", , ~max]`): %v%s", err, ctx)
		}
		if c.Format == "xsd" && strings.Contains(text, "<: bool(") {
			return finding("xsd:occurrence-bounds-as-size-spec-on-boolean", "imported text does not compile (occurrence bounds of a boolean element are written as a size spec `bool(a..b)`): %v%s", err, ctx)
		}
		if c.Format == "xsd" {
			for _, wt := range c.Want.Types {
				if c11NeedsEscape(wt.Name) {
					return finding("xsd:type-name-not-escaped", "imported text does not compile (type name %q is written verbatim): %v%s", wt.Name, err, ctx)
				}
			}
		}
		if n := c11HostileNested(c.Want); n != "" && c.Format == "oas2" {
			return finding("oas2:inline-object-type-name-not-escaped", "imported text does not compile (the type generated for the inline object under property %q carries the unescaped property name): %v%s", n, err, ctx)
		}
		if aoa && c.Format == "oas2" {
			return finding("oas2:array-definition-of-array-definition", "imported text does not compile (an array definition refers to another array definition): %v%s", err, ctx)
		}
		return fmt.Errorf("imported text does not compile: %v%s", err, ctx)
	}
	appName := c11App
	if c.Want.App != "" {
		appName = c.Want.App
	}
	app := c11FindApp(m, appName)
	if app == nil {
		var have []string
		for k := range m.GetApps() {
			have = append(have, k)
		}
		sort.Strings(have)
		return fmt.Errorf("compiled import has no application %q (have %v)%s", appName, have, ctx)
	}
	cmp := &c11Cmp{x: x, m: c11ModelOf(app), keys: map[string]string{}, ctx: ctx, src: c.Format}
	if err := cmp.compare(c.Want); err != nil {
		if _, isF := err.(*Finding); !isF && c.Format == "xsd" {
			for _, cl := range c.Classes {
				if cl == "sibling_extensions" {
					return finding("xsd:sibling-extensions-share-elements", "two complex types extend the same base and their element lists are mixed up: %v", err)
				}
			}
		}
		return err
	}
	if slow {
		if err := repeat(); err != nil {
			return err
		}
	}
	if c.ViaImport {
		if err := c11ViaImportStmt(x, c, cmp.m, ctx); err != nil {
			return err
		}
	}
	if c.Fresh {
		var out string
		death, serr, inconcl := sandboxCall("c11.import", arg, &out)
		switch {
		case death != nil:
			return deathErr(death, "import in a fresh process")
		case inconcl:
			x.Inconclusive("fresh-process import timed out once")
		case serr != nil:
			return fmt.Errorf("import in a fresh process fails: %v%s", serr, ctx)
		case out != text:
			return finding("import-not-repeatable:"+c.Format, "import in a fresh process gives different text\n---- fresh\n%s%s", out, ctx)
		default:
			x.Class("repeated_in_fresh_process")
		}
	}
	return nil
}

// the library lists the cycle it met, which depends on map iteration order: keep the stable part
func c11CutCycle(msg string) string {
	if i := strings.Index(msg, "not handled"); i >= 0 {
		return msg[:i+len("not handled")]
	}
	return msg
}

// c11Compile compiles imported text; a panic of the compiler counts as "does not compile" here
// (the crash itself is C01's subject).
func c11Compile(text string) (m *sysl.Module, err error) {
	defer func() {
		if r := recover(); r != nil {
			buf := make([]byte, 1<<16)
			n := runtime.Stack(buf, false)
			err = fmt.Errorf("compiler panics: %v (at %s)", r, repoFrame(string(buf[:n])))
		}
	}()
	return parse.NewParser().ParseString(text)
}

func c11HostileNested(w c11Want) string {
	var found string
	var walk func(fs []c11WField)
	walk = func(fs []c11WField) {
		for _, f := range fs {
			if f.Class == "nested" && c11NeedsEscape(f.Tag) && found == "" {
				found = f.Tag
			}
			walk(f.Nested)
		}
	}
	for _, t := range w.Types {
		walk(t.Fields)
	}
	return found
}

func c11KeywordProp(w c11Want) string {
	var found string
	var walk func(fs []c11WField)
	walk = func(fs []c11WField) {
		for _, f := range fs {
			for _, k := range c11KeywordPropNames {
				if strings.EqualFold(f.Tag, k) && found == "" {
					found = f.Tag
				}
			}
			walk(f.Nested)
		}
	}
	for _, t := range w.Types {
		walk(t.Fields)
	}
	return found
}

// c11ViaImportStmt reaches the same importer through `import doc.yaml as Foreign :: TestApp` and
// demands the same facts as the direct import.
func c11ViaImportStmt(x *X, c c11Case, direct *c11Model, ctx string) error {
	fs := afero.NewMemMapFs()
	name := "doc" + c.Path[strings.LastIndex(c.Path, "."):]
	_ = afero.WriteFile(fs, "/"+name, []byte(c.Content), 0o644)
	root := "import " + name + " as Foreign :: " + c11App + "\n\nUser:\n    Go:\n        ...\n"
	_ = afero.WriteFile(fs, "/root.sysl", []byte(root), 0o644)
	m, err := parse.NewParser().ParseFromFs("/root.sysl", fs)
	if err != nil {
		return fmt.Errorf("`import %s as Foreign :: %s` fails although the direct import compiles: %v%s", name, c11App, err, ctx)
	}
	app := m.GetApps()["Foreign :: "+c11App]
	if app == nil {
		var have []string
		for k := range m.GetApps() {
			have = append(have, k)
		}
		sort.Strings(have)
		return fmt.Errorf("`import %s as Foreign :: %s`: application missing (have %v)%s", name, c11App, have, ctx)
	}
	cmp := &c11Cmp{x: x, m: c11ModelOf(app), keys: map[string]string{}, ctx: "\n(through the import statement)" + ctx, src: c.Format}
	if err := cmp.compare(c.Want); err != nil {
		return err
	}
	_ = direct
	x.Class("via_import_statement")
	return nil
}

// ---------- generators ----------

func c11GenOAS(v int) func(t *rapid.T) c11Case {
	return func(t *rapid.T) c11Case {
		d := c11GenDoc(t, v)
		asYAML := rapid.Bool().Draw(t, "yaml")
		c := c11Case{Format: fmt.Sprintf("oas%d", v), Content: d.Render(v, asYAML), Want: d.Want()}
		c.Path = "/c11/doc.json"
		if asYAML {
			c.Path = pick(t, []string{"/c11/doc.yaml", "/c11/doc.yml"}, "ext")
		}
		c.Classes, c.NonTrivial = c11DocClasses(d)
		if asYAML {
			c.Classes = append(c.Classes, "encoding_yaml")
		} else {
			c.Classes = append(c.Classes, "encoding_json")
		}
		c.ViaImport = rapid.IntRange(0, 3).Draw(t, "viaimport") == 0 && c.Path != "/c11/doc.yml"
		c.Fresh = thorough() && rapid.IntRange(0, 19).Draw(t, "fresh") == 0
		return c
	}
}

var c11OAS2 = Define("C11", "openapi2",
	"Swagger 2.0 documents drawn by c11GenDoc (1-5 definitions: objects with 1-6 properties of every primitive type/format, $ref to earlier schemas or itself, arrays, inline nested objects to depth 2, inline string enums, min/maxLength, required lists; top-level enum/array/primitive definitions; a third of the names hostile: dots, dashes, spaces, leading digits, built-in type names, Sysl keywords; 0-3 paths x 1-3 methods with path (operation- or path-level)/query/header/body parameters and 1-3 responses with $ref, array of $ref or no schema), rendered as JSON or YAML; each document is first validated (own structural pass + kin-openapi). Oracle: import through importer.Factory succeeds, twice with identical text (thorough: also in a fresh process), the text compiles, and the compiled application has a type per definition with every property matched through @json_tag (kind class and bit width per pkg/importer/openapi.go, optionality from `required`, array-ness, reference target, inline objects as generated types) and an endpoint per path x method with its parameters by location (name, optionality, kind) , body type and response types; a quarter of the cases also through `import doc as Ns :: App` on a MemMapFs. Non-trivial: >=2 object schemas with >=2 properties, a required list >=3 and an array of references/inline objects; distinct by document text.",
	c11GenOAS(2), checkC11)

func c11GenXSDCase(t *rapid.T) c11Case {
	d := c11GenXSD(t)
	c := c11Case{Format: "xsd", Path: "/c11/doc.xsd", Content: d.Render(), Want: d.Want()}
	c.Classes, c.NonTrivial = c11XSDClasses(d)
	c.Fresh = thorough() && rapid.IntRange(0, 19).Draw(t, "fresh") == 0
	return c
}

func c11GenSQLCase(t *rapid.T) c11Case {
	d := c11GenSQL(t)
	c := c11Case{Format: "sql", Path: "/c11/schema.sql", Content: d.Render(), Want: d.Want()}
	c.FormatID = map[string]string{"postgres": "postgres", "mysql": "mysql", "spanner": "spannerSQL"}[d.Dialect]
	c.Classes, c.NonTrivial = c11SQLClasses(d)
	return c
}

var c11XSD = Define("C11", "xsd",
	"XSD schemas drawn by c11GenXSD (1-5 complex types with sequence or all content, 1-5 elements typed by the built-ins of the importer's mapping table, by earlier complex types, by itself or by a simple type; minOccurs 0/1, maxOccurs 1/n/unbounded; 0-2 attributes with use required/optional; extension chains; simple types by restriction; an optional root element; element and type names with dots and dashes). Oracle as for openapi2: import succeeds twice with identical text, compiles, one type per complex/simple type with every element (inherited first) and attribute: kind, optionality from minOccurs/use, sequence from maxOccurs, reference target. Non-trivial: >=2 types with >=2 members and a repeated element.",
	c11GenXSDCase, checkC11)

var c11SQL = Define("C11", "sql",
	"SQL DDL drawn by c11GenSQL for postgres, mysql and spanner spellings (1-4 tables, 2-6 typed columns per the dialect's type names, NOT NULL, inline / table-level / trailing primary keys of 1-2 columns, a foreign key to an earlier table, array columns, optional CREATE DATABASE), imported through the bundled arr.ai script (seconds per document, hence few cases). Oracle: import succeeds twice with identical text, compiles, one !table per table with every column: kind class and bit width, optionality from NOT NULL, ~pk, foreign-key target, array-ness. Non-trivial: >=2 tables and a foreign key.",
	c11GenSQLCase, checkC11)

var c11OAS3 = Define("C11", "openapi3",
	"OpenAPI 3.0 renderings of the same document intent as openapi2 (components/schemas, requestBody, response content), incl. self- and mutually recursive schemas, imported through the bundled arr.ai script (seconds per document, hence few cases); same oracle.",
	c11GenOAS(3), checkC11)

func TestC11(t *testing.T) {
	logrus.SetOutput(io.Discard)
	checkKnown(t, "C11")
	c11OAS2.Run(t, scale(220, 2200))
	c11XSD.Run(t, scale(150, 1800))
	c11OAS3.Run(t, scale(1, 16))
	c11SQL.Run(t, scale(1, 16))
}
