package checks

// infra.go — shared plumbing for every check: tier/seed/shard configuration, the
// evidence recorder, property definition + replay registry, known-finding matching.
//
// A check is a Prop[C]: gen draws a plain-JSON case C with rapid only, check decides
// it. On failure the (shrunk) case is written to replays/<ID>/<prop>-<hash>.json and
// can be re-decided without rapid by TestReplay (VERIF_REPLAY=<path>).

import (
	"encoding/json"
	"flag"
	"fmt"
	"hash/fnv"
	"os"
	"path/filepath"
	"runtime"
	"sort"
	"strconv"
	"strings"
	"sync"
	"testing"
	"time"

	"pgregory.net/rapid"
)

// ---------- configuration ----------

type config struct {
	Tier     string // quick | thorough
	Seed     uint64
	Shard    int
	NShards  int
	Root     string // /verif
	Repo     string // /repo (or scratch copy under test)
	Out      string
	Deadline time.Time
}

var cfg = loadConfig()

func loadConfig() config {
	c := config{Tier: "quick", Seed: 1, NShards: 1, Root: "/verif", Repo: "/repo"}
	if v := os.Getenv("VERIF_TIER"); v == "thorough" {
		c.Tier = v
	}
	if v := os.Getenv("VERIF_SEED"); v != "" {
		if n, err := strconv.ParseUint(v, 10, 64); err == nil {
			c.Seed = n
		}
	}
	if v := os.Getenv("VERIF_SHARD"); v != "" {
		fmt.Sscanf(v, "%d/%d", &c.Shard, &c.NShards)
		if c.NShards < 1 {
			c.NShards = 1
		}
	}
	if v := os.Getenv("VERIF_ROOT"); v != "" {
		c.Root = v
	}
	if v := os.Getenv("VERIF_REPO"); v != "" {
		c.Repo = v
	}
	c.Out = os.Getenv("VERIF_OUT")
	return c
}

func thorough() bool { return cfg.Tier == "thorough" }

// per-shard case count: quick runs one shard with q cases, thorough runs NShards shards with th cases each.
func scale(q, th int) int {
	if thorough() {
		return th
	}
	return q
}

func splitmix(x uint64) uint64 {
	x += 0x9e3779b97f4a7c15
	z := x
	z = (z ^ (z >> 30)) * 0xbf58476d1ce4e5b9
	z = (z ^ (z >> 27)) * 0x94d049bb133111eb
	return z ^ (z >> 31)
}

// rapidSeed derives the rapid seed for (VERIF_SEED, shard, prop name); never 0 (rapid: 0 = random).
func rapidSeed(name string) uint64 {
	h := fnv.New64a()
	h.Write([]byte(name))
	s := splitmix(cfg.Seed*1000003 + uint64(cfg.Shard)*7919 + h.Sum64()%1000)
	s &= 0x7fffffffffffffff
	if s == 0 {
		s = 1
	}
	return s
}

// ---------- recorder ----------

type failure struct {
	Prop      string `json:"prop"`
	Message   string `json:"message"`
	Replay    string `json:"replay"`
	Signature string `json:"signature,omitempty"`
}

type Rec struct {
	mu           sync.Mutex
	ID           string              `json:"property_id"`
	Evaluations  int64               `json:"evaluations"`
	Requested    int64               `json:"requested"`
	Classes      map[string]int64    `json:"classes"`
	Hashes       map[uint64]struct{} `json:"-"`
	HashList     []string            `json:"nontrivial_hashes"`
	Samples      []interface{}       `json:"samples"`
	Excluded     map[string]int64    `json:"excluded_by_known_findings"`
	KnownHits    map[string]int64    `json:"known_hits"`
	KnownLines   []string            `json:"known_lines"`
	Failures     []failure           `json:"failures"`
	Inconclusive []string            `json:"inconclusive"`
	Rules        map[string]string   `json:"rules"`
	Exhaustive   map[string]bool     `json:"exhaustive"`
	Notes        map[string]string   `json:"notes"`
	sampleSeen   int
}

var (
	recsMu sync.Mutex
	recs   = map[string]*Rec{}
)

func R(id string) *Rec {
	recsMu.Lock()
	defer recsMu.Unlock()
	r := recs[id]
	if r == nil {
		r = &Rec{ID: id, Classes: map[string]int64{}, Hashes: map[uint64]struct{}{}, Excluded: map[string]int64{},
			KnownHits: map[string]int64{}, Rules: map[string]string{}, Exhaustive: map[string]bool{}, Notes: map[string]string{}}
		recs[id] = r
	}
	return r
}

func (r *Rec) Class(name string) { r.ClassN(name, 1) }
func (r *Rec) ClassN(name string, n int64) {
	r.mu.Lock()
	r.Classes[name] += n
	r.mu.Unlock()
}
func (r *Rec) Exclude(name string) {
	r.mu.Lock()
	r.Excluded[name]++
	r.mu.Unlock()
}
func (r *Rec) Note(k, v string) {
	r.mu.Lock()
	r.Notes[k] = v
	r.mu.Unlock()
}
func (r *Rec) Inconcl(msg string) {
	r.mu.Lock()
	if len(r.Inconclusive) < 20 {
		r.Inconclusive = append(r.Inconclusive, msg)
	}
	r.mu.Unlock()
}

func hash64(parts ...string) uint64 {
	h := fnv.New64a()
	for _, p := range parts {
		h.Write([]byte(p))
		h.Write([]byte{0})
	}
	return h.Sum64()
}

func (r *Rec) NonTrivial(key string) {
	r.mu.Lock()
	r.Hashes[hash64(key)] = struct{}{}
	r.mu.Unlock()
}

// Sample keeps up to 4 cases per shard (reservoir-free: first, then every 2^k-th).
func (r *Rec) Sample(v interface{}) {
	r.mu.Lock()
	defer r.mu.Unlock()
	r.sampleSeen++
	n := r.sampleSeen
	if n&(n-1) != 0 { // keep 1st, 2nd, 4th, 8th ...
		return
	}
	if s, ok := v.(string); ok && len(s) > 2000 {
		v = s[:2000] + "…"
	}
	if len(r.Samples) >= 6 {
		r.Samples = r.Samples[1:]
	}
	r.Samples = append(r.Samples, v)
}

func dumpRecs() {
	if cfg.Out == "" {
		return
	}
	recsMu.Lock()
	defer recsMu.Unlock()
	all := []*Rec{}
	for _, r := range recs {
		r.HashList = r.HashList[:0]
		for h := range r.Hashes {
			r.HashList = append(r.HashList, strconv.FormatUint(h, 16))
		}
		sort.Strings(r.HashList)
		all = append(all, r)
	}
	b, err := json.Marshal(all)
	if err != nil {
		fmt.Fprintln(os.Stderr, "dumpRecs:", err)
		return
	}
	_ = os.WriteFile(cfg.Out, b, 0o644)
}

// ---------- known findings ----------

type knownFinding struct {
	Property   string `json:"property"`
	ID         string `json:"id"`
	Kind       string `json:"kind"` // known | fixed
	Signature  string `json:"signature"`
	Reproducer string `json:"reproducer,omitempty"`
	Note       string `json:"note,omitempty"`
	Commit     string `json:"commit,omitempty"`
}

var (
	knownOnce sync.Once
	knownList []knownFinding
)

func knownFindings() []knownFinding {
	knownOnce.Do(func() {
		b, err := os.ReadFile(knownPath())
		if err != nil {
			return
		}
		_ = json.Unmarshal(b, &knownList)
	})
	return knownList
}

// knownSig reports whether sig is listed as a known (not fixed) finding of property id.
func knownSig(id, sig string) bool {
	if sig == "" {
		return false
	}
	for _, k := range knownFindings() {
		if k.Property == id && k.Kind == "known" && k.Signature == sig {
			return true
		}
	}
	return false
}

// knownActive reports whether finding id is listed with kind "known" (not yet repaired):
// generators use it to exclude the failing shape by construction (and count the exclusion);
// once the entry is flipped to "fixed" the shape is generated again.
func knownActive(id string) bool {
	for _, k := range knownFindings() {
		if k.ID == id && k.Kind == "known" {
			return true
		}
	}
	return false
}

// Finding is an error that carries a signature precise enough to be listed in known_findings.json.
type Finding struct {
	Sig string
	Msg string
}

func (f *Finding) Error() string { return f.Msg + " [signature: " + f.Sig + "]" }

func finding(sig, format string, a ...interface{}) error {
	return &Finding{Sig: sig, Msg: fmt.Sprintf(format, a...)}
}

// ---------- property definition ----------

type X struct { // per-evaluation context handed to check functions
	r *Rec
}

// SubEval counts one more execution inside the current case (e.g. one (model, output kind) pair of a
// case that checks many kinds): evaluations are executions, so distinct_nontrivial stays comparable.
func (x *X) SubEval() {
	x.r.mu.Lock()
	x.r.Evaluations++
	x.r.Requested++
	x.r.mu.Unlock()
}
func (x *X) Class(name string)       { x.r.Class(name) }
func (x *X) NonTrivial(key string)   { x.r.NonTrivial(key) }
func (x *X) Sample(v interface{})    { x.r.Sample(v) }
func (x *X) Exclude(name string)     { x.r.Exclude(name) }
func (x *X) Inconclusive(msg string) { x.r.Inconcl(msg) }

type replayFn func(raw json.RawMessage) error

var (
	propsMu sync.Mutex
	props   = map[string]replayFn{}
)

type Prop[C any] struct {
	ID    string
	Name  string
	Rule  string
	Gen   func(t *rapid.T) C
	Check func(x *X, c C) error
}

func Define[C any](id, name, rule string, gen func(*rapid.T) C, check func(*X, C) error) *Prop[C] {
	p := &Prop[C]{ID: id, Name: name, Rule: rule, Gen: gen, Check: check}
	propsMu.Lock()
	props[id+"/"+name] = func(raw json.RawMessage) error {
		var c C
		if err := json.Unmarshal(raw, &c); err != nil {
			return fmt.Errorf("replay: bad case: %w", err)
		}
		return p.safeCheck(&X{r: R(id + "-replay")}, c)
	}
	propsMu.Unlock()
	return p
}

// repoFrame returns the first stack frame inside the code under test.
func repoFrame(stack string) string {
	lines := strings.Split(stack, "\n")
	for i, l := range lines {
		l = strings.TrimSpace(l)
		if strings.HasPrefix(l, "github.com/anz-bank/sysl/") && i+1 < len(lines) {
			fn := l
			if j := strings.LastIndex(fn, "("); j > 0 {
				fn = fn[:j]
			}
			fn = strings.TrimPrefix(fn, "github.com/anz-bank/sysl/")
			return fn
		}
	}
	return "?"
}

func (p *Prop[C]) safeCheck(x *X, c C) (err error) {
	defer func() {
		if r := recover(); r != nil {
			buf := make([]byte, 1<<16)
			n := runtime.Stack(buf, false)
			fr := repoFrame(string(buf[:n]))
			err = finding("panic@"+fr, "panic in code under test: %v (first frame %s)", r, fr)
		}
	}()
	return p.Check(x, c)
}

type caseFile struct {
	Property string          `json:"property"`
	Prop     string          `json:"prop"`
	Message  string          `json:"message"`
	Sig      string          `json:"signature,omitempty"`
	Case     json.RawMessage `json:"case"`
}

func writeReplay(id, name string, c interface{}, msg, sig string) string {
	raw, err := json.Marshal(c)
	if err != nil {
		raw = []byte(`"<unserialisable case>"`)
	}
	cf := caseFile{Property: id, Prop: name, Message: msg, Sig: sig, Case: raw}
	b, _ := json.MarshalIndent(cf, "", " ")
	dir := filepath.Join(cfg.Root, "replays", id)
	_ = os.MkdirAll(dir, 0o755)
	path := filepath.Join(dir, fmt.Sprintf("%s-%016x.json", name, hash64(string(raw))))
	_ = os.WriteFile(path, b, 0o644)
	return path
}

// eval runs one case through the recording plumbing. Returns a non-nil error only for an
// unlisted violation; listed known findings are counted and swallowed so the search continues.
func (p *Prop[C]) eval(c C) error {
	r := R(p.ID)
	r.mu.Lock()
	r.Evaluations++
	r.mu.Unlock()
	err := p.safeCheck(&X{r: r}, c)
	if err == nil {
		return nil
	}
	if f, ok := err.(*Finding); ok && knownSig(p.ID, f.Sig) {
		r.mu.Lock()
		r.KnownHits[f.Sig]++
		r.mu.Unlock()
		return nil
	}
	return err
}

type lastFail struct {
	c   interface{}
	err error
}

// Run drives the property with rapid for n cases (per shard).
func (p *Prop[C]) Run(t *testing.T, n int) {
	r := R(p.ID)
	r.mu.Lock()
	r.Rules[p.Name] = p.Rule
	r.Requested += int64(n)
	r.mu.Unlock()
	_ = flag.Set("rapid.checks", strconv.Itoa(n))
	_ = flag.Set("rapid.seed", strconv.FormatUint(rapidSeed(p.Name), 10))
	_ = flag.Set("rapid.nofailfile", "true")
	if flag.Lookup("rapid.shrinktime").Value.String() == "30s" {
		_ = flag.Set("rapid.shrinktime", "45s")
	}
	var last *lastFail
	defer func() {
		if last != nil {
			p.recordFailure(last.c, last.err)
		}
	}()
	rapid.Check(t, func(rt *rapid.T) {
		c := p.Gen(rt)
		if err := p.eval(c); err != nil {
			last = &lastFail{c, err}
			rt.Fatalf("%s/%s: %v", p.ID, p.Name, err)
		}
	})
}

func (p *Prop[C]) recordFailure(c interface{}, err error) {
	r := R(p.ID)
	sig := ""
	if f, ok := err.(*Finding); ok {
		sig = f.Sig
	}
	msg := err.Error()
	if len(msg) > 6000 {
		msg = msg[:6000] + "…"
	}
	path := writeReplay(p.ID, p.Name, c, msg, sig)
	r.mu.Lock()
	r.Failures = append(r.Failures, failure{Prop: p.Name, Message: msg, Replay: path, Signature: sig})
	r.mu.Unlock()
}

// One evaluates a single explicit case (enumerations, corpus sweeps, saved regression inputs).
// It returns false and fails t on an unlisted violation.
func (p *Prop[C]) One(t *testing.T, c C) bool {
	r := R(p.ID)
	r.mu.Lock()
	if _, ok := r.Rules[p.Name]; !ok {
		r.Rules[p.Name] = p.Rule
	}
	r.Requested++
	r.mu.Unlock()
	if err := p.eval(c); err != nil {
		p.recordFailure(c, err)
		failLater(t, fmt.Sprintf("%s/%s: %v", p.ID, p.Name, err))
		return false
	}
	return true
}

// ---------- replay entry point (no rapid) ----------

func replayFile(path string) error {
	b, err := os.ReadFile(path)
	if err != nil {
		return err
	}
	var cf caseFile
	if err := json.Unmarshal(b, &cf); err != nil {
		return err
	}
	propsMu.Lock()
	fn := props[cf.Property+"/"+cf.Prop]
	propsMu.Unlock()
	if fn == nil {
		return fmt.Errorf("no property %s/%s registered", cf.Property, cf.Prop)
	}
	return fn(cf.Case)
}

// checkKnown re-runs the reproducer of every listed finding of property id. known entries
// that still fail print a KNOWN-FINDING line (via the recorder); fixed entries must pass.
func checkKnown(t *testing.T, id string) {
	r := R(id)
	for _, k := range knownFindings() {
		if k.Property != id || k.Reproducer == "" {
			continue
		}
		err := replayFile(filepath.Join(cfg.Root, k.Reproducer))
		switch k.Kind {
		case "known":
			if err != nil {
				if f, ok := err.(*Finding); ok && f.Sig != k.Signature {
					// reproducer fails differently from what is listed: that is a new violation
					r.mu.Lock()
					r.Failures = append(r.Failures, failure{Prop: "known:" + k.ID, Message: err.Error(), Replay: filepath.Join(cfg.Root, k.Reproducer), Signature: f.Sig})
					r.mu.Unlock()
					failLater(t, fmt.Sprintf("known finding %s now fails with another signature: %v", k.ID, err))
					continue
				}
				r.mu.Lock()
				r.KnownLines = append(r.KnownLines, fmt.Sprintf("KNOWN-FINDING: property=%s %s: %s", id, k.ID, k.Signature))
				r.mu.Unlock()
			} else {
				r.Note("known-not-reproduced:"+k.ID, "listed finding no longer reproduces (repaired?)")
			}
		case "fixed":
			if err != nil {
				r.mu.Lock()
				r.Failures = append(r.Failures, failure{Prop: "fixed:" + k.ID, Message: err.Error(), Replay: filepath.Join(cfg.Root, k.Reproducer)})
				r.mu.Unlock()
				failLater(t, fmt.Sprintf("fixed finding %s has returned: %v", k.ID, err))
			} else {
				r.Class("fixed_regressions_replayed")
			}
		}
	}
}

func knownPath() string {
	if v := os.Getenv("VERIF_KNOWN"); v != "" {
		return v
	}
	return filepath.Join(cfg.Root, "known_findings.json")
}

// failLater marks the test as failed when it ends. rapid refuses to run a property on a
// *testing.T that has already failed, so a violation found by an explicit case (One, checkKnown)
// must not fail t before the remaining properties of the same TestCxx have run.
func failLater(t *testing.T, msg string) {
	t.Helper()
	t.Cleanup(func() { t.Errorf("%s", msg) })
}
