package checks

// c05_gate.go — import graphs, the gated reader.Reader that owns the completion order of the
// concurrent file retrievals, the reference closure model, and an implementation-shaped model
// (claim-before-read, depth along the claiming path) used only to *classify* disagreements.
// Shared by C05 (closure semantics) and C06 (fault injection).

import (
	"context"
	"encoding/json"
	"fmt"
	"path"
	"sort"
	"strings"
	"sync"
	"time"

	"github.com/anz-bank/golden-retriever/retriever"
	"github.com/anz-bank/sysl/pkg/parse"
	"github.com/anz-bank/sysl/pkg/sysl"
	"github.com/spf13/afero"
	"pgregory.net/rapid"
)

type impCase struct {
	Paths  []string       `json:"paths"`  // canonical path of file i; file 0 is the root
	Edges  [][]int        `json:"edges"`  // imports of file i in text order
	Spell  [][]string     `json:"spell"`  // spelling of each import
	Depth  int            `json:"depth"`  // MaxImportDepth (0 = unlimited)
	Scheds [][]int        `json:"scheds"` // choice streams: which pending read completes next
	Faults map[int]string `json:"faults,omitempty"`
	// Remote: the whole closure lives in a remote-style repository (//github.com/org/repo/<path>@v1);
	// the gated reader serves those names from the same table and reports branch "v1"
	Remote bool `json:"remote,omitempty"`
	// foreign leaf files (C06): index -> content; imported with an "as" clause
	Classes []string `json:"classes,omitempty"`
}

func relPath(fromDir, target string) string {
	if fromDir == "." || fromDir == "" {
		return target
	}
	ups := strings.Count(fromDir, "/") + 1
	return strings.Repeat("../", ups) + target
}

const c05RemoteRoot = "//github.com/org/repo"

func (g *impCase) rootResource() string {
	if g.Remote {
		return c05RemoteRoot + "/" + g.Paths[0] + "@v1"
	}
	return g.Paths[0]
}

var c05Dirs = []string{"", "", "sub/", "sub/deep/", "other/"}

func genImpGraph(t *rapid.T, maxFiles int) impCase {
	n := maxFiles + 1 - rapid.IntRange(1, maxFiles).Draw(t, "nfiles_inv") // favour larger graphs, shrink towards them too
	// wide fan-out: one file importing 6-9 others (a bounded worker pool or a per-file limit in the
	// retrieval would only show with more imports than workers)
	wide := maxFiles >= 6 && rapid.IntRange(0, 5).Draw(t, "wide") == 0
	if wide {
		n = rapid.IntRange(7, 10).Draw(t, "nwide")
	}
	g := impCase{}
	for i := 0; i < n; i++ {
		d := pick(t, c05Dirs, "dir")
		g.Paths = append(g.Paths, fmt.Sprintf("%sf%d.sysl", d, i))
	}
	g.Edges = make([][]int, n)
	g.Spell = make([][]string, n)
	g.Remote = rapid.IntRange(0, 3).Draw(t, "remote") == 0
	shape := rapid.IntRange(0, 5).Draw(t, "shape")
	// some files are always imported under one alias ('import f3 as A3'): the same file reached twice
	// under the same name is legal (only different names or versions are an error)
	alias := make([]bool, n)
	if rapid.IntRange(0, 2).Draw(t, "usealiases") == 0 {
		for j := 1; j < n; j++ {
			alias[j] = rapid.Bool().Draw(t, "aliased")
		}
	}
	addEdge := func(i, j int) {
		g.Edges[i] = append(g.Edges[i], j)
		from := path.Dir(g.Paths[i])
		target := g.Paths[j]
		rel := relPath(from, target)
		var s string
		switch rapid.IntRange(0, 6).Draw(t, "spelling") {
		case 0:
			s = "/" + target // rooted
		case 1:
			s = rel
		case 2:
			s = "./" + rel
		case 3:
			s = "zz/../" + rel
		case 4:
			s = strings.TrimSuffix(rel, ".sysl") // extension dropped
		case 5:
			s = "//" + target // doubled slash, still rooted... keep lexically odd but local
			s = "/" + "./" + target
		default:
			s = rel
		}
		if g.Remote && rapid.IntRange(0, 4).Draw(t, "remotespelling") == 0 {
			s = c05RemoteRoot + "/" + target + "@v1" // the full versioned remote name
		}
		if alias[j] {
			s += fmt.Sprintf(" as Ns :: A%d", j)
		}
		g.Spell[i] = append(g.Spell[i], s)
	}
	if wide {
		for j := 1; j < n; j++ {
			addEdge(0, j)
		}
		for i := 1; i < n; i++ {
			if rapid.IntRange(0, 3).Draw(t, "wideextra") == 0 {
				addEdge(i, rapid.IntRange(0, n-1).Draw(t, "wideto"))
			}
		}
		g.Depth = 0
		if rapid.IntRange(0, 3).Draw(t, "widedepth") == 0 {
			g.Depth = rapid.IntRange(1, 3).Draw(t, "widedepthv")
		}
	} else if shape == 0 && n >= 5 {
		// two-route template: root->1->2->3 (deep route to 3), root->4->3 (short route), 3->(last) child;
		// with a depth limit between the two route lengths the claim order matters.
		addEdge(0, 1)
		addEdge(1, 2)
		addEdge(2, 3)
		addEdge(0, 4)
		addEdge(4, 3)
		if n >= 6 {
			addEdge(3, 5)
		} else {
			addEdge(3, 0)
		}
		if rapid.Bool().Draw(t, "swaproutes") {
			g.Edges[0][0], g.Edges[0][1] = g.Edges[0][1], g.Edges[0][0]
			g.Spell[0][0], g.Spell[0][1] = g.Spell[0][1], g.Spell[0][0]
		}
		g.Depth = rapid.IntRange(2, 5).Draw(t, "depth2r")
	} else {
		// most files hang off an earlier file (so the closure is not trivially the root alone) ...
		for j := 1; j < n; j++ {
			if rapid.IntRange(0, 4).Draw(t, "attach") != 0 {
				addEdge(rapid.IntRange(0, j-1).Draw(t, "parent"), j)
			}
		}
		// ... plus arbitrary extra edges: back edges (cycles), self loops, shortcuts (diamonds), repeats
		for i := 0; i < n; i++ {
			ne := rapid.IntRange(0, 2).Draw(t, "nedges")
			for e := 0; e < ne; e++ {
				addEdge(i, rapid.IntRange(0, n-1).Draw(t, "to"))
			}
		}
		// the very same import statement twice in one file (same spelling, same alias): legal, and the two
		// retrievals of it race for one entry
		if rapid.IntRange(0, 2).Draw(t, "dupimport") == 0 {
			var withEdges []int
			for i := 0; i < n; i++ {
				if len(g.Edges[i]) > 0 {
					withEdges = append(withEdges, i)
				}
			}
			if len(withEdges) > 0 {
				i := withEdges[rapid.IntRange(0, len(withEdges)-1).Draw(t, "dupfile")]
				k := rapid.IntRange(0, len(g.Edges[i])-1).Draw(t, "dupedge")
				g.Edges[i] = append(g.Edges[i], g.Edges[i][k])
				g.Spell[i] = append(g.Spell[i], g.Spell[i][k])
			}
		}
		// text order of a file's imports is part of the semantics: shuffle it
		for i := 0; i < n; i++ {
			if len(g.Edges[i]) > 1 && rapid.Bool().Draw(t, "shuffle") {
				k := rapid.IntRange(1, len(g.Edges[i])-1).Draw(t, "rot")
				g.Edges[i] = append(append([]int{}, g.Edges[i][k:]...), g.Edges[i][:k]...)
				g.Spell[i] = append(append([]string{}, g.Spell[i][k:]...), g.Spell[i][:k]...)
			}
		}
		g.Depth = rapid.IntRange(0, n).Draw(t, "depth")
		if rapid.IntRange(0, 2).Draw(t, "nodepth") == 0 {
			g.Depth = 0
		}
	}
	return g
}

func genSched(t *rapid.T, n int) []int {
	var s []int
	bias := rapid.IntRange(0, 3).Draw(t, "schedbias") // 0: deepest-first heavy
	for i := 0; i < 4*n+4; i++ {
		v := rapid.IntRange(0, 999).Draw(t, "sched")
		if bias == 0 && v%3 != 0 {
			v = 1000 // deepest pending first
		}
		if bias == 1 && v%3 != 0 {
			v = 2000 // the pending read with the highest name first (the later imports of a wide fan-out)
		}
		s = append(s, v)
	}
	return s
}

// fileText renders file i: its imports, an app of its own, and one call appended to the shared
// endpoint so that the compiled model shows which files contributed, how often and in what order.
func (g *impCase) fileText(i int) string {
	var sb strings.Builder
	switch g.Faults[i] {
	case "foreign-yaml":
		return "hello: world\nthis: [is, not, an, api]\n"
	case "foreign-json":
		return "{\"a\": 1, \"b\": [true]}"
	case "corrupt-pb":
		return "garbage\x00\x01\x02 not a wire message"
	case "corrupt-textpb":
		return "garbage {{{ nothing"
	case "corrupt-pbjson":
		return "{\"apps\": 3}"
	}
	for _, s := range g.Spell[i] {
		fmt.Fprintf(&sb, "import %s\n", s)
	}
	switch g.Faults[i] {
	case "badimport":
		sb.WriteString("import x as\n")
	case "badimport2":
		sb.WriteString("import \n")
	}
	body := fmt.Sprintf("\nF%d:\n    Ep: ...\n\nShared:\n    Log:\n        F%d <- Ep\n", i, i)
	switch {
	case g.Faults[i] == "syntax":
		body += fmt.Sprintf("\nBroken%d:\n    !type\n  x::\n", i)
	case g.Faults[i] == "syntax2":
		body = fmt.Sprintf("\nF%d:\n    Ep (a <: :\n        ...\n", i)
	case g.Faults[i] == "truncbad": // cut in the middle of the call statement
		body = fmt.Sprintf("\nF%d:\n    Ep: ...\n\nShared:\n    Log:\n        F%d <-", i, i)
	case g.Faults[i] == "truncok": // cut after the file's own application: still a valid file, contributes no call
		body = fmt.Sprintf("\nF%d:\n    Ep: ...\n", i)
	}
	sb.WriteString(body)
	return sb.String()
}

func (g *impCase) files() map[string]string {
	out := map[string]string{}
	for i, p := range g.Paths {
		out[p] = g.fileText(i)
	}
	return out
}

// ---------- reference model (written from the property statement) ----------

// refClosure: included = files at import distance < depth from the root (all reachable when depth==0);
// order = depth-first pre-order following import statements in text order, each file once.
// follow(i) says whether file i's imports are followed (false for files that cannot be read / whose import lines do not parse).
func (g *impCase) refClosure(follow func(i int) bool) []int {
	n := len(g.Paths)
	dist := make([]int, n)
	for i := range dist {
		dist[i] = -1
	}
	dist[0] = 0
	q := []int{0}
	for len(q) > 0 {
		x := q[0]
		q = q[1:]
		if follow != nil && !follow(x) {
			continue
		}
		for _, y := range g.Edges[x] {
			if dist[y] < 0 {
				dist[y] = dist[x] + 1
				q = append(q, y)
			}
		}
	}
	inc := func(i int) bool { return dist[i] >= 0 && (g.Depth == 0 || dist[i] < g.Depth) }
	var order []int
	seen := map[int]bool{}
	var dfs func(i int)
	dfs = func(i int) {
		if seen[i] || !inc(i) {
			return
		}
		seen[i] = true
		order = append(order, i)
		if follow != nil && !follow(i) {
			return
		}
		for _, y := range g.Edges[i] {
			dfs(y)
		}
	}
	dfs(0)
	return order
}

func (g *impCase) hasCycle() bool {
	n := len(g.Paths)
	state := make([]int, n)
	var dfs func(i int) bool
	dfs = func(i int) bool {
		state[i] = 1
		for _, y := range g.Edges[i] {
			if state[y] == 1 {
				return true
			}
			if state[y] == 0 && dfs(y) {
				return true
			}
		}
		state[i] = 2
		return false
	}
	return dfs(0)
}

func (g *impCase) classes() []string {
	var cl []string
	n := len(g.Paths)
	if g.hasCycle() {
		cl = append(cl, "cycle")
	}
	if g.Remote {
		cl = append(cl, "remote_style_versioned_paths")
	}
	for _, es := range g.Edges {
		if len(es) >= 6 {
			cl = append(cl, "fan_out_ge6")
			break
		}
	}
	indeg := make([]int, n)
	self := false
	multi := false
	for i, es := range g.Edges {
		seen := map[int]bool{}
		for _, y := range es {
			if y == i {
				self = true
			}
			if seen[y] {
				multi = true
			} else {
				indeg[y]++
			}
			seen[y] = true
		}
	}
	if self {
		cl = append(cl, "self_import")
	}
	if multi {
		cl = append(cl, "multi_edge")
	}
	for _, d := range indeg {
		if d >= 2 {
			cl = append(cl, "diamond_or_shared")
			break
		}
	}
	aliasedTwice := false
	for i, es := range g.Edges {
		for k, y := range es {
			if strings.Contains(g.Spell[i][k], " as ") && indeg[y] >= 2 {
				aliasedTwice = true
			}
		}
	}
	if aliasedTwice {
		cl = append(cl, "aliased_file_imported_from_two_places")
	}
	if g.Depth > 0 {
		cl = append(cl, "depth_limit")
		// a file reachable by two routes of different length with the limit between them
		all := g.allRouteLengths()
		for i := range all {
			lo, hi := 1<<30, -1
			for l := range all[i] {
				if l < lo {
					lo = l
				}
				if l > hi {
					hi = l
				}
			}
			if hi > lo && lo < g.Depth {
				cl = append(cl, "depth_cuts_two_routes")
				break
			}
		}
	}
	return cl
}

// allRouteLengths: for each file the set of simple-path lengths from the root (bounded search).
func (g *impCase) allRouteLengths() []map[int]bool {
	n := len(g.Paths)
	out := make([]map[int]bool, n)
	for i := range out {
		out[i] = map[int]bool{}
	}
	onPath := make([]bool, n)
	var dfs func(i, d int)
	steps := 0
	dfs = func(i, d int) {
		steps++
		if steps > 20000 {
			return
		}
		out[i][d] = true
		onPath[i] = true
		for _, y := range g.Edges[i] {
			if !onPath[y] {
				dfs(y, d+1)
			}
		}
		onPath[i] = false
	}
	dfs(0, 0)
	return out
}

// ---------- gated reader ----------

type gateReq struct {
	name  string
	idx   int // file index, -1 unknown
	rel   chan struct{}
	depth int
}

type gateReader struct {
	afero.Fs
	g       *impCase
	byPath  map[string]int
	content map[int]string // overrides (faults)
	readErr map[int]bool
	mu      sync.Mutex
	pending []*gateReq
	reads   map[string]int
	total   int
	unknown []string // names requested that no file of the graph has
	relLog  []string
	// free: reads are answered at once (no gate); the order in which they were asked for is logged
	free    bool
	freeLog []int
}

func newGateReader(g *impCase) *gateReader {
	gr := &gateReader{Fs: afero.NewMemMapFs(), g: g, byPath: map[string]int{}, content: map[int]string{}, readErr: map[int]bool{}, reads: map[string]int{}}
	for i, p := range g.Paths {
		gr.byPath[path.Clean(p)] = i
	}
	return gr
}

func canonName(p string) string {
	if i := strings.Index(p, "@"); i >= 0 {
		p = p[:i]
	}
	p = strings.TrimPrefix(path.Clean(p), "./")
	p = strings.TrimPrefix(p, "/")
	return strings.TrimPrefix(p, strings.TrimPrefix(c05RemoteRoot, "//")+"/")
}

func (g *gateReader) Read(ctx context.Context, p string) ([]byte, error) {
	b, _, _, err := g.ReadHashBranch(ctx, p)
	return b, err
}
func (g *gateReader) ReadHash(ctx context.Context, p string) ([]byte, retriever.Hash, error) {
	b, h, _, err := g.ReadHashBranch(ctx, p)
	return b, h, err
}
func (g *gateReader) ReadHashBranch(ctx context.Context, p string) ([]byte, retriever.Hash, string, error) {
	cn := canonName(p)
	idx, ok := g.byPath[cn]
	if !ok {
		idx = -1
	}
	r := &gateReq{name: cn, idx: idx, rel: make(chan struct{})}
	g.mu.Lock()
	if g.free {
		g.freeLog = append(g.freeLog, idx)
	} else {
		g.pending = append(g.pending, r)
	}
	g.reads[cn]++
	g.total++
	if idx < 0 {
		g.unknown = append(g.unknown, p)
	}
	g.mu.Unlock()
	if !g.free {
		<-r.rel
	}
	if idx < 0 {
		return nil, retriever.ZeroHash, "", fmt.Errorf("no such file %q", p)
	}
	if g.readErr[idx] {
		return nil, retriever.ZeroHash, "", fmt.Errorf("injected read failure for %q", p)
	}
	branch := ""
	if g.g.Remote {
		branch = "v1"
	}
	if c, ok := g.content[idx]; ok {
		return []byte(c), retriever.ZeroHash, branch, nil
	}
	return []byte(g.g.fileText(idx)), retriever.ZeroHash, branch, nil
}

type gateResult struct {
	Module    *sysl.Module `json:"-"`
	Err       error        `json:"-"`
	ErrText   string       // Err.Error() ("" when Err == nil): what crosses the worker boundary
	HasErr    bool
	ModuleNil bool
	Order     []string // contributions read out of the model (see contributions)
	Apps      []string
	Panic     string
	Hung      bool
	Reads     map[string]int
	Total     int
	Unknown   []string
	Releases  []int // file index of each released read, in order
	Branch    []int // number of pending reads at each release (for schedule enumeration)
	// implementation-shaped model outcome under the realised release order
	ModelClaimed map[int]int // file -> claim depth
	ModelExact   bool        // the model's prediction of pending reads was met at every step
}

// runGated drives the real parse.Parser.Parse through one completion order.
// followImports(i) tells the model whether file i's import lines will be followed after its read completes.
func runGated(g *impCase, gr *gateReader, sched []int, followImports func(i int) bool) *gateResult {
	p := parse.NewParser()
	p.Set(parse.Settings{MaxImportDepth: g.Depth})
	type res struct {
		m   *sysl.Module
		err error
		pan string
	}
	done := make(chan res, 1)
	go func() {
		defer func() {
			if r := recover(); r != nil {
				done <- res{nil, nil, fmt.Sprint(r)}
			}
		}()
		m, err := p.Parse(g.rootResource(), gr)
		done <- res{m, err, ""}
	}()
	out := &gateResult{ModelClaimed: map[int]int{0: 0}, ModelExact: true}
	expectPending := 1
	si := 0
	finish := func(r res) *gateResult {
		out.Module, out.Err, out.Panic = r.m, r.err, r.pan
		out.ModuleNil = r.m == nil
		if r.err != nil {
			out.HasErr, out.ErrText = true, r.err.Error()
		}
		out.Order, out.Apps = contributions(r.m)
		gr.mu.Lock()
		out.Reads, out.Total, out.Unknown = gr.reads, gr.total, gr.unknown
		gr.mu.Unlock()
		return out
	}
	deadline := time.Now().Add(18 * time.Second)
	maxReads := 50*len(g.Paths) + 50
	if gr.free {
		// free-running execution: the retrievals race as they do in production
		out.ModelExact = false
		select {
		case r := <-done:
			gr.mu.Lock()
			out.Releases = append([]int{}, gr.freeLog...)
			gr.mu.Unlock()
			return finish(r)
		case <-time.After(time.Until(deadline)):
			out.Hung = true
			gr.mu.Lock()
			out.Releases = append([]int{}, gr.freeLog...)
			out.Reads, out.Total, out.Unknown = gr.reads, gr.total, gr.unknown
			gr.mu.Unlock()
			return out
		}
	}
	for {
		// wait until the number of pending reads equals the model's prediction (fast path),
		// or is stable for 20ms (slow path: the implementation departs from the model)
		stableSince := time.Now()
		last := -1
		for {
			select {
			case r := <-done:
				return finish(r)
			default:
			}
			gr.mu.Lock()
			l := len(gr.pending)
			tot := gr.total
			gr.mu.Unlock()
			if tot > maxReads {
				out.Hung = true
				gr.releaseAll()
				return finish(res{nil, fmt.Errorf("more than %d reads issued: retrieval does not end", maxReads), ""})
			}
			if l == expectPending && l > 0 {
				break
			}
			if l != last {
				last = l
				stableSince = time.Now()
			} else if l > expectPending && time.Since(stableSince) > 20*time.Millisecond {
				// more reads than the model predicts: the implementation departs from the model
				out.ModelExact = false
				break
			} else if l > 0 && l < expectPending && time.Since(stableSince) > 3*time.Second {
				// fewer reads than predicted even after a long wait (generous: the machine may be busy)
				out.ModelExact = false
				break
			} else if time.Since(stableSince) > 3*time.Second && l == 0 {
				// nothing pending and Parse has not returned
				select {
				case r := <-done:
					return finish(r)
				case <-time.After(5 * time.Second):
					out.Hung = true
					return finish(res{})
				}
			}
			if time.Now().After(deadline) {
				out.Hung = true
				gr.releaseAll()
				return finish(res{})
			}
			time.Sleep(100 * time.Microsecond)
		}
		gr.mu.Lock()
		// annotate depths for the deepest-first bias and sort for a canonical choice order
		for _, r := range gr.pending {
			if d, ok := out.ModelClaimed[r.idx]; ok {
				r.depth = d
			}
		}
		sort.SliceStable(gr.pending, func(i, j int) bool { return gr.pending[i].name < gr.pending[j].name })
		out.Branch = append(out.Branch, len(gr.pending))
		k := 0
		if si < len(sched) {
			v := sched[si]
			si++
			if v >= 2000 {
				k = len(gr.pending) - 1
			} else if v >= 1000 {
				for j, r := range gr.pending {
					if r.depth > gr.pending[k].depth {
						k = j
					}
				}
			} else {
				k = v % len(gr.pending)
			}
		}
		r := gr.pending[k]
		gr.pending = append(gr.pending[:k], gr.pending[k+1:]...)
		expectPending = len(gr.pending)
		gr.mu.Unlock()
		out.Releases = append(out.Releases, r.idx)
		// model: after r completes, its unclaimed children within depth are claimed and issue reads
		if r.idx >= 0 && (followImports == nil || followImports(r.idx)) {
			d := out.ModelClaimed[r.idx]
			if g.Depth == 0 || d+1 < g.Depth {
				for _, y := range g.Edges[r.idx] {
					if _, has := out.ModelClaimed[y]; !has {
						out.ModelClaimed[y] = d + 1
						expectPending++
					}
				}
			}
		}
		close(r.rel)
	}
}

func (g *gateReader) releaseAll() {
	go func() {
		for i := 0; i < 2000; i++ {
			g.mu.Lock()
			for _, r := range g.pending {
				close(r.rel)
			}
			g.pending = nil
			g.mu.Unlock()
			time.Sleep(time.Millisecond)
		}
	}()
}

// modelOrder: flatten order the implementation-shaped model predicts (claimed files, DFS in text order).
func (g *impCase) modelOrder(claimed map[int]int, follow func(i int) bool) []int {
	var order []int
	seen := map[int]bool{}
	var dfs func(i int)
	dfs = func(i int) {
		if seen[i] {
			return
		}
		if _, ok := claimed[i]; !ok {
			return
		}
		seen[i] = true
		order = append(order, i)
		if follow != nil && !follow(i) {
			return
		}
		for _, y := range g.Edges[i] {
			dfs(y)
		}
	}
	dfs(0)
	return order
}

// contributions reads the order and multiplicity of file contributions out of the compiled model.
func contributions(m *sysl.Module) (order []string, apps []string) {
	if m == nil {
		return nil, nil
	}
	if sh := m.Apps["Shared"]; sh != nil && sh.Endpoints["Log"] != nil {
		for _, s := range sh.Endpoints["Log"].Stmt {
			if c := s.GetCall(); c != nil && c.Target != nil && len(c.Target.Part) > 0 {
				order = append(order, c.Target.Part[0])
			}
		}
	}
	for a := range m.Apps {
		if a != "Shared" {
			apps = append(apps, a)
		}
	}
	sort.Strings(apps)
	return
}

func fnames(ix []int) []string {
	var out []string
	for _, i := range ix {
		out = append(out, fmt.Sprintf("F%d", i))
	}
	return out
}

// ---------- running a gated compile in the sandbox worker ----------
//
// A panic in one of the retrieval goroutines (errgroup) cannot be recovered and ends the process: the
// gated compile therefore runs in the worker, so that such a death is attributed to the case.

type gatedArg struct {
	G     impCase `json:"g"`
	Sched []int   `json:"sched"`
	Mode  string  `json:"mode"` // "c05": every file is as generated; "c06": faults injected
}

var _ = registerOp("c05.gated", func(raw json.RawMessage) (interface{}, error) {
	var a gatedArg
	if err := json.Unmarshal(raw, &a); err != nil {
		return nil, err
	}
	g := &a.G
	gr := newGateReader(g)
	gr.free = strings.HasSuffix(a.Mode, "-free")
	var follow func(i int) bool
	if strings.HasPrefix(a.Mode, "c06") {
		follow = func(i int) bool { return c06Follows(g.Faults[i]) }
		for i, k := range g.Faults {
			if k == "readerr" {
				gr.readErr[i] = true
			}
		}
	}
	return runGated(g, gr, a.Sched, follow), nil
})

// gatedRun runs one (graph, schedule) execution in the worker. A non-nil Death means the process ended
// (or the worker did not answer): the code under test crashed in a way no recover() can catch.
func gatedRun(g *impCase, sched []int, mode string) (*gateResult, *Death, bool) {
	var r gateResult
	death, err, inconclusive := sandboxCall("c05.gated", gatedArg{G: *g, Sched: sched, Mode: mode}, &r)
	if err != nil {
		panic("c05.gated: " + err.Error())
	}
	if r.Hung {
		// goroutines of the stalled Parse are still blocked in the worker: start a fresh one
		shutdownSandbox()
	}
	return &r, death, inconclusive
}
