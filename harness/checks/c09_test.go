package checks

// C09 — serialised models round-trip, and importing a compiled model reproduces it.

import (
	"bytes"
	"encoding/json"
	"errors"
	"fmt"
	"os"
	"os/exec"
	"path/filepath"
	"sort"
	"strings"
	"testing"

	"github.com/anz-bank/sysl/pkg/parse"
	"github.com/anz-bank/sysl/pkg/pbutil"
	"github.com/anz-bank/sysl/pkg/sysl"
	"github.com/spf13/afero"
	"google.golang.org/protobuf/encoding/protojson"
	"google.golang.org/protobuf/proto"
	"google.golang.org/protobuf/reflect/protoreflect"
	"pgregory.net/rapid"
)

type c09Case struct {
	Src     string   `json:"src"`            // gen | corpus
	Path    string   `json:"path,omitempty"` // corpus: file below the tree under test
	Text    string   `json:"text,omitempty"` // gen: specification text
	Classes []string `json:"classes,omitempty"`
}

const c09KMixinParam = "C09-mixin-param-typeref-reimport"

var c09Encs = []string{"pb", "pb.json", "textpb"}

func genC09(t *rapid.T) c09Case {
	in := GenIntent(t)
	c09Hostile(t, in)
	text := Render(in, pick(t, indentPool, "indent"))
	o := c09TmplOpt{
		Mixin:            rapid.Bool().Draw(t, "tmixin"),
		Collector:        rapid.Bool().Draw(t, "tcollector"),
		Views:            rapid.Bool().Draw(t, "tviews"),
		Nested:           rapid.Bool().Draw(t, "tnested"),
		Names:            rapid.Bool().Draw(t, "tnames"),
		Deep:             rapid.IntRange(0, 3).Draw(t, "tdeep") == 0,
		Long:             rapid.IntRange(0, 5).Draw(t, "tlong") == 0,
		NoCollectorArr:   knownActive(c09KCollector),
		NoMixinDisorder:  knownActive(c09KMixin),
		NoQuoteColonName: knownActive(c09KJSONName),
		MixinParam:       !knownActive(c09KMixinParam),
	}
	tm := c09GenTmpl(t, o)
	for _, id := range tm.Excluded {
		R("C09").Exclude(id)
	}
	return c09Case{Src: "gen", Text: text + "\n" + tm.Text, Classes: tm.Classes}
}

func c09Encode(m *sysl.Module, enc string, compact bool) ([]byte, error) {
	var buf bytes.Buffer
	opt := pbutil.OutputOptions{Compact: compact}
	var err error
	switch enc {
	case "pb":
		err = pbutil.GeneratePBBinaryMessage(&buf, m)
	case "pb.json":
		err = pbutil.FJSONPBWithOpt(&buf, m, opt)
	case "textpb":
		err = pbutil.FTextPBWithOpt(&buf, m, opt)
	}
	return buf.Bytes(), err
}

func c09EncodeFile(m *sysl.Module, enc string, compact bool, name string, fs afero.Fs) error {
	opt := pbutil.OutputOptions{Compact: compact}
	switch enc {
	case "pb":
		return pbutil.GeneratePBBinaryMessageFile(m, name, fs)
	case "pb.json":
		return pbutil.JSONPBWithOpt(m, name, fs, opt)
	default:
		return pbutil.TextPBWithOpt(m, name, fs, opt)
	}
}

// first differing line of the text forms of two messages (for messages only)
func c09Diff(a, b proto.Message) string {
	var ba, bb bytes.Buffer
	_ = pbutil.FTextPB(&ba, a)
	_ = pbutil.FTextPB(&bb, b)
	la, lb := strings.Split(ba.String(), "\n"), strings.Split(bb.String(), "\n")
	for i := 0; i < len(la) || i < len(lb); i++ {
		x, y := "<end>", "<end>"
		if i < len(la) {
			x = strings.TrimSpace(la[i])
		}
		if i < len(lb) {
			y = strings.TrimSpace(lb[i])
		}
		if x != y {
			ctx := ""
			for j := i - 3; j < i; j++ {
				if j >= 0 && j < len(la) {
					ctx += strings.TrimSpace(la[j]) + " / "
				}
			}
			return fmt.Sprintf("text line %d after [%s]: want %q got %q", i+1, ctx, x, y)
		}
	}
	return "text forms equal (difference in unknown fields or field presence)"
}

func c09AppsDiff(want, got *sysl.Module) (apps []string, msg string) {
	names := map[string]bool{}
	for n := range want.Apps {
		names[n] = true
	}
	for n := range got.Apps {
		names[n] = true
	}
	var sorted []string
	for n := range names {
		sorted = append(sorted, n)
	}
	sort.Strings(sorted)
	for _, n := range sorted {
		a, b := want.Apps[n], got.Apps[n]
		switch {
		case a == nil:
			apps = append(apps, n)
			if msg == "" {
				msg = fmt.Sprintf("application %q appears only after re-import", n)
			}
		case b == nil:
			apps = append(apps, n)
			if msg == "" {
				msg = fmt.Sprintf("application %q is missing after re-import", n)
			}
		case !proto.Equal(a, b):
			apps = append(apps, n)
			if msg == "" {
				msg = fmt.Sprintf("application %q: %s", n, c09Diff(a, b))
			}
		}
	}
	return apps, msg
}

func c09Compile(c c09Case) (*sysl.Module, string, error) {
	if c.Src == "corpus" {
		full := filepath.Join(cfg.Repo, c.Path)
		fs := afero.NewBasePathFs(afero.NewOsFs(), filepath.Dir(full))
		m, err := parse.NewParser().ParseFromFs(filepath.Base(full), fs)
		return m, "corpus file " + c.Path, err
	}
	m, err := parse.NewParser().ParseString(c.Text)
	return m, c.Text, err
}

// a minimal OpenAPI 2 document: `import <file>.json as App` must keep reaching the OpenAPI importer
const c09Swagger = `{"swagger":"2.0","info":{"title":"Sw","version":"1"},"paths":{"/p":{"get":{"responses":{"200":{"description":"ok"}}}}}}`

func checkC09(x *X, c c09Case) error {
	m, label, err := c09Compile(c)
	if err != nil || m == nil {
		x.Class("rejected_" + c.Src)
		if c.Src == "gen" {
			// the generator is meant to emit legal text only; keep the first rejections visible in the evidence
			x.Sample("REJECTED: " + fmt.Sprint(err) + "\n" + c.Text)
		}
		return nil
	}
	x.Class("model_" + c.Src)
	for _, cl := range c.Classes {
		x.Class(cl)
	}
	sh := c09ShapeOf(m)
	for k, v := range map[string]bool{"has_mixin": sh.Mixin, "has_collector": sh.Collector, "has_collector_array_attr": sh.CollectorArr,
		"has_views": sh.Views, "has_dotted_type": sh.Dotted, "has_hostile_value": sh.HostileVal,
		"has_mixin_chain_disorder": len(sh.MixinDisorder) > 0, "has_quote_colon_name": sh.QuoteColonName} {
		if v {
			x.Class(k)
		}
	}
	if sh.HostileVal && (sh.Mixin || sh.Collector || sh.Views || sh.Dotted) {
		bin, _ := c09Encode(m, "pb", false)
		x.NonTrivial(fmt.Sprintf("%x", hash64(string(bin))) + c.Path + c.Text)
	}
	if c.Src == "gen" {
		x.Sample(c.Text)
	}

	var errs []error
	fail := func(e error) { errs = append(errs, e) }

	encoded := map[string][]byte{}
	// (i), (ii): direct decoding
	for _, enc := range c09Encs {
		for _, compact := range []bool{false, true} {
			k := fmt.Sprintf("%s/compact=%v", enc, compact)
			b, err := c09Encode(m, enc, compact)
			if err != nil {
				fail(fmt.Errorf("%s: encoder failed: %v\n---- %s", k, err, label))
				continue
			}
			encoded[k] = b
			x.Class("decode_" + enc)
			m2, err := pbutil.FromPBByteContents("dir/model."+enc, b)
			if err != nil {
				fail(fmt.Errorf("%s: emitted bytes do not decode: %v\n---- %s", k, err, label))
				continue
			}
			if !proto.Equal(m, m2) {
				e := fmt.Errorf("%s: decoded model differs from the encoded one: %s\n---- %s", k, c09Diff(m, m2), label)
				if enc == "pb.json" && !compact && sh.QuoteColonName {
					// is the difference explained by the lost space alone?
					if c09JSONNameOnly(m, b) {
						e = finding(c09SigJSONName, "%v", e)
					}
				}
				fail(e)
			}
			// file based writer + reader (identical bytes need no second decode)
			fs := afero.NewMemMapFs()
			name := "out/m." + enc
			_ = fs.MkdirAll("out", 0o755)
			if err := c09EncodeFile(m, enc, compact, name, fs); err != nil {
				fail(fmt.Errorf("%s: file writer failed: %v\n---- %s", k, err, label))
			} else if fb, _ := afero.ReadFile(fs, name); !bytes.Equal(fb, b) {
				x.Class("file_bytes_differ_from_stream_" + enc)
				if m3, err := pbutil.FromPB(name, fs); err != nil {
					fail(fmt.Errorf("%s: file written by the file writer does not decode: %v\n---- %s", k, err, label))
				} else if !proto.Equal(m, m3) && !(enc == "pb.json" && !compact && sh.QuoteColonName) {
					fail(fmt.Errorf("%s: model read back from file differs: %s\n---- %s", k, c09Diff(m, m3), label))
				}
			} else if _, err := pbutil.FromPB(name, fs); err != nil {
				fail(fmt.Errorf("%s: file written by the file writer does not decode: %v\n---- %s", k, err, label))
			}
			if enc == "pb.json" {
				if !json.Valid(b) {
					fail(fmt.Errorf("%s: output is not well-formed JSON\n---- %s", k, label))
					continue
				}
				// what a generic JSON reader sees must carry the same model
				var tree interface{}
				dec := json.NewDecoder(bytes.NewReader(b))
				dec.UseNumber()
				if err := dec.Decode(&tree); err != nil {
					fail(fmt.Errorf("%s: encoding/json cannot read the output: %v\n---- %s", k, err, label))
					continue
				}
				if dec.More() {
					fail(fmt.Errorf("%s: trailing data after the JSON value\n---- %s", k, label))
				}
				rb, _ := json.Marshal(tree)
				m4 := &sysl.Module{}
				if err := protojson.Unmarshal(rb, m4); err != nil {
					fail(fmt.Errorf("%s: tree read by encoding/json is not a module: %v\n---- %s", k, err, label))
				} else if !proto.Equal(m2, m4) {
					fail(fmt.Errorf("%s: encoding/json and protojson read different models: %s\n---- %s", k, c09Diff(m2, m4), label))
				}
			}
		}
	}
	// decoder selection by suffix: any other name is not a compiled model (the caller then tries the
	// other importers; the file reader falls back to binary)
	if b := encoded["pb/compact=false"]; b != nil {
		names := []string{"model.json", "model.pb.yaml", "model.sysl", "model.textpb.txt", "model_pb", "pb.json.bak"}
		for _, name := range names {
			if _, err := pbutil.FromPBByteContents(name, b); !errors.Is(err, pbutil.ErrUnknownExtension) {
				fail(fmt.Errorf("suffix dispatch: %q is not a compiled-model name but the decoder answered %v (want ErrUnknownExtension)\n---- %s", name, err, label))
			}
		}
		name := names[hash64(string(b))%uint64(len(names))]
		fs := afero.NewMemMapFs()
		_ = afero.WriteFile(fs, name, b, 0o644)
		if m5, err := pbutil.FromPB(name, fs); err != nil || !proto.Equal(m, m5) {
			fail(fmt.Errorf("suffix dispatch: binary model in file %q (unknown suffix => binary) not read back: err=%v\n---- %s", name, err, label))
		}
		x.Class("suffix_dispatch")
	}

	// (iii) re-import through a root file holding only the import statement
	for _, enc := range c09Encs {
		for _, compact := range []bool{false, true} {
			k := fmt.Sprintf("%s/compact=%v", enc, compact)
			b := encoded[k]
			if b == nil {
				continue
			}
			if enc == "pb.json" && !compact && sh.QuoteColonName {
				continue // already reported above: the file does not hold m
			}
			fs := afero.NewMemMapFs()
			_ = afero.WriteFile(fs, "x."+enc, b, 0o644)
			_ = afero.WriteFile(fs, "root.sysl", []byte("import x."+enc+"\n"), 0o644)
			x.Class("reimport_" + enc)
			m3, err := parse.NewParser().ParseFromFs("root.sysl", fs)
			if err != nil {
				fail(fmt.Errorf("%s: `import x.%s` failed: %v\n---- %s", k, enc, err, label))
				continue
			}
			if apps, msg := c09AppsDiff(m, m3); len(apps) > 0 {
				e := fmt.Errorf("%s: `import x.%s` compiles to other applications: %s\n---- %s", k, enc, msg, label)
				if sig := c09ReimportSig(m, sh, apps); sig != "" {
					e = finding(sig, "%v", e)
				} else if c09OnlyMixinParamScope(m, m3, apps) {
					e = finding(c09SigMixinParam, "%v", e)
				}
				fail(e)
			}
		}
	}
	// a sibling OpenAPI document named *.json is still imported as OpenAPI beside the compiled model
	if b := encoded["pb.json/compact=true"]; b != nil && hash64(string(b))%4 == 0 && !sh.QuoteColonName {
		if _, clash := m.Apps["SwApp"]; !clash {
			fs := afero.NewMemMapFs()
			_ = afero.WriteFile(fs, "x.pb.json", b, 0o644)
			_ = afero.WriteFile(fs, "sw.json", []byte(c09Swagger), 0o644)
			_ = afero.WriteFile(fs, "root.sysl", []byte("import x.pb.json\nimport sw.json as SwApp\n"), 0o644)
			x.Class("reimport_beside_openapi_json")
			m3, err := parse.NewParser().ParseFromFs("root.sysl", fs)
			if err != nil {
				fail(fmt.Errorf("`import x.pb.json` beside `import sw.json as SwApp` failed: %v\n---- %s", err, label))
			} else if m3.Apps["SwApp"] == nil {
				fail(fmt.Errorf("`import sw.json as SwApp` produced no application SwApp\n---- %s", label))
			} else {
				delete(m3.Apps, "SwApp")
				if apps, msg := c09AppsDiff(m, m3); len(apps) > 0 && c09ReimportSig(m, sh, apps) == "" {
					fail(fmt.Errorf("`import x.pb.json` beside an OpenAPI import compiles to other applications: %s\n---- %s", msg, label))
				}
			}
		}
	}
	return c09Pick(errs)
}

// c09Pick returns the first error that is not a listed known finding, else the first error.
func c09Pick(errs []error) error {
	for _, e := range errs {
		if f, ok := e.(*Finding); ok && knownSig("C09", f.Sig) {
			continue
		}
		return e
	}
	if len(errs) > 0 {
		return errs[0]
	}
	return nil
}

// c09ReimportSig classifies a re-import difference: a signature is returned only when every
// differing application has the shape of a listed defect.
const c09SigMixinParam = "reimport:param-typed-by-mixed-in-type-scoped-differently"

// c09OnlyMixinParamScope: the differing applications all use mixins, and they differ only in the
// split of a parameter's reference 'T.f' into application part and path: fixParamTypeRef runs
// before the mixin's types are copied on the first compile, but after they exist on re-import.
func c09OnlyMixinParamScope(m, m3 *sysl.Module, apps []string) bool {
	a := proto.Clone(m).(*sysl.Module)
	b := proto.Clone(m3).(*sysl.Module)
	for _, n := range apps {
		if a.Apps[n] == nil || b.Apps[n] == nil || len(a.Apps[n].Mixin2) == 0 {
			return false
		}
		for _, mod := range []*sysl.Module{a, b} {
			for _, ep := range mod.Apps[n].Endpoints {
				for _, p := range ep.Param {
					if r := p.GetType().GetTypeRef().GetRef(); r != nil {
						// 'T1.id' is read as application T1 + path [id] on the first compile and as
						// path [T1 id] on re-import: compare the spelled reference
						r.Path = append(append([]string{}, r.GetAppname().GetPart()...), r.Path...)
						r.Appname = nil
					}
				}
			}
		}
	}
	rest, _ := c09AppsDiff(a, b)
	return len(rest) == 0
}

func c09ReimportSig(m *sysl.Module, sh c09Shape, apps []string) string {
	allCollector, allMixin := true, true
	dis := map[string]bool{}
	for _, n := range sh.MixinDisorder {
		dis[n] = true
	}
	// users of an app that differs through the chain defect differ too (they copy its types)
	for _, n := range apps {
		app := m.Apps[n]
		hasArr := false
		if app != nil {
			if ep := app.Endpoints[`.. * <- *`]; ep != nil {
				for _, s := range ep.Stmt {
					for _, a := range s.Attrs {
						if a.GetA() != nil {
							hasArr = true
						}
					}
				}
			}
		}
		if !hasArr {
			allCollector = false
		}
		if !dis[n] {
			allMixin = false
		}
	}
	switch {
	case allCollector:
		return c09SigCollector
	case allMixin:
		return c09SigMixin
	}
	return ""
}

// c09JSONNameOnly: decoding the indented JSON after restoring the space the clean-up removed from
// names of the shape <no quote>*":<2 spaces> yields m again.
func c09JSONNameOnly(m *sysl.Module, b []byte) bool {
	lines := strings.Split(string(b), "\n")
	for i, l := range lines {
		t := strings.TrimLeft(l, " ")
		if !strings.HasPrefix(t, `"`) {
			continue
		}
		j := strings.Index(t[1:], `"`)
		if j < 0 {
			continue
		}
		j++ // index of the first quote after the opening one
		if j >= 1 && t[j-1] == '\\' && strings.HasPrefix(t[j:], `": `) {
			ind := l[:len(l)-len(t)]
			lines[i] = ind + t[:j] + `":  ` + t[j+3:]
		}
	}
	m2 := &sysl.Module{}
	if err := protojson.Unmarshal([]byte(strings.Join(lines, "\n")), m2); err != nil {
		return false
	}
	return proto.Equal(m, m2)
}

var c09Prop = Define("C09", "roundtrip",
	"Models compiled from (a) specgen intents whose attribute values are replaced in ~1/3 of the places by hostile strings (quote-colon-two-spaces, backslashes, newlines, non-ASCII, key-like text) plus hand-written templates drawn by rapid: mixin chains of depth 1..3 with random name order, collectors (scalar/tag/array attributes on endpoint and call targets), views with inferred and anonymous types, nested (dotted) type names, %-escaped hostile app/type/field names; (b) every .sysl file of the tree's tests directories that compiles. For each model x {pb, pb.json, textpb} x {indented, compact}: bytes from the stream and file writers decode (FromPBByteContents, FromPB) to a proto.Equal model; JSON is json.Valid and the tree encoding/json reads carries the same model; names without the three suffixes answer ErrUnknownExtension / binary fallback; a root file holding only `import x.<ext>` compiles to proto.Equal applications (also beside an OpenAPI `*.json` import). Non-trivial: the model holds an attribute value/long name with a quote, backslash or newline AND a mixin, collector, view or dotted type name; distinct by hash of the binary encoding + text.",
	genC09, checkC09)

// ---------- CLI path: `sysl pb --mode <m> [--compact] -o file` ----------

type c09CLICase struct {
	Text string `json:"text"`
}

func genC09CLI(t *rapid.T) c09CLICase {
	c := genC09(t)
	return c09CLICase{Text: c.Text}
}

func c09StripLocations(msg protoreflect.Message) {
	msg.Range(func(fd protoreflect.FieldDescriptor, v protoreflect.Value) bool {
		if fd.Name() == "source_context" || fd.Name() == "source_contexts" {
			msg.Clear(fd)
			return true
		}
		switch {
		case fd.IsMap():
			if fd.MapValue().Message() != nil {
				v.Map().Range(func(_ protoreflect.MapKey, mv protoreflect.Value) bool {
					c09StripLocations(mv.Message())
					return true
				})
			}
		case fd.IsList():
			if fd.Message() != nil {
				l := v.List()
				for i := 0; i < l.Len(); i++ {
					c09StripLocations(l.Get(i).Message())
				}
			}
		case fd.Message() != nil:
			c09StripLocations(v.Message())
		}
		return true
	})
}

func checkC09CLI(x *X, c c09CLICase) error {
	bin := os.Getenv("VERIF_SYSL")
	if _, err := os.Stat(bin); bin == "" || err != nil {
		x.Class("cli_unavailable")
		return nil
	}
	dir, err := os.MkdirTemp("", "c09cli")
	if err != nil {
		x.Inconclusive("mkdtemp: " + err.Error())
		return nil
	}
	defer os.RemoveAll(dir)
	if err := os.WriteFile(filepath.Join(dir, "spec.sysl"), []byte(c.Text), 0o644); err != nil {
		x.Inconclusive("write: " + err.Error())
		return nil
	}
	fs := afero.NewBasePathFs(afero.NewOsFs(), dir)
	m, err := parse.NewParser().ParseFromFs("spec.sysl", fs)
	if err != nil {
		x.Class("rejected_cli")
		return nil
	}
	sh := c09ShapeOf(m)
	var errs []error
	for _, mode := range []string{"pb", "json", "textpb"} {
		for _, compact := range []bool{false, true} {
			ext := map[string]string{"pb": "pb", "json": "pb.json", "textpb": "textpb"}[mode]
			out := "out." + ext
			args := []string{"pb", "--root", dir, "--mode", mode, "-o", filepath.Join(dir, out)}
			if compact {
				args = append(args, "--compact")
			}
			args = append(args, "spec.sysl")
			cmd := exec.Command(bin, args...)
			cmd.Dir = dir
			cmd.Env = append(os.Environ(), "SYSL_PLANTUML=http://localhost")
			o, err := cmd.CombinedOutput()
			k := fmt.Sprintf("sysl pb --mode %s compact=%v", mode, compact)
			if err != nil {
				errs = append(errs, fmt.Errorf("%s failed: %v: %s\n---- %s", k, err, lastN(string(o), 400), c.Text))
				continue
			}
			x.Class("cli_" + mode)
			got, err := pbutil.FromPB(out, fs)
			if err != nil {
				errs = append(errs, fmt.Errorf("%s: output does not decode: %v\n---- %s", k, err, c.Text))
				continue
			}
			want := proto.Clone(m).(*sysl.Module)
			if mode == "json" && compact {
				// documented for this combination: locations are dropped
				c09StripLocations(want.ProtoReflect())
				c09StripLocations(got.ProtoReflect())
			}
			if !proto.Equal(want, got) {
				e := fmt.Errorf("%s: decoded output differs from the compiled model: %s\n---- %s", k, c09Diff(want, got), c.Text)
				if mode == "json" && !compact && sh.QuoteColonName {
					e = finding(c09SigJSONName, "%v", e)
				}
				errs = append(errs, e)
			}
		}
	}
	return c09Pick(errs)
}

var c09CLIProp = Define("C09", "cli",
	"Same generator as roundtrip; the text is written to a temporary directory and compiled by the sysl binary: `sysl pb --mode {pb,json,textpb} [--compact] -o out.<ext>`; the file decodes (pbutil.FromPB) to the model the library compiles from the same file — for --mode json --compact after dropping locations on both sides.",
	genC09CLI, checkC09CLI)

func c09Corpus() []string {
	var out []string
	for _, pat := range []string{"tests/*.sysl", "pkg/parse/tests/*.sysl", "pkg/*/tests/*.sysl", "pkg/*/testdata/*.sysl", "demo/*/*.sysl", "pkg/arrai/*.sysl"} {
		ms, _ := filepath.Glob(filepath.Join(cfg.Repo, pat))
		sort.Strings(ms)
		for _, f := range ms {
			rel, err := filepath.Rel(cfg.Repo, f)
			if err != nil {
				continue
			}
			dup := false
			for _, o := range out {
				if o == rel {
					dup = true
				}
			}
			if !dup {
				out = append(out, rel)
			}
		}
	}
	return out
}

func TestC09(t *testing.T) {
	checkKnown(t, "C09")
	// rapid refuses a *testing.T that has already failed: one sub-test per part
	t.Run("corpus", func(t *testing.T) {
		for i, f := range c09Corpus() {
			if i%cfg.NShards != cfg.Shard {
				continue
			}
			// files that reach for the network cannot be compiled here
			if b, err := os.ReadFile(filepath.Join(cfg.Repo, f)); err != nil || bytes.Contains(b, []byte("import //")) {
				R("C09").Class("corpus_skipped_remote_import")
				continue
			}
			c09Prop.One(t, c09Case{Src: "corpus", Path: f})
		}
	})
	t.Run("roundtrip", func(t *testing.T) { c09Prop.Run(t, scale(80, 1000)) })
	t.Run("cli", func(t *testing.T) { c09CLIProp.Run(t, scale(6, 60)) })
}

// FuzzC09Decode: arbitrary bytes into the three decoders: an error or a model, never a panic.
// Not part of the quick tier (run with: go test -run '^$' -fuzz '^FuzzC09Decode$' ./checks).
func FuzzC09Decode(f *testing.F) {
	for _, s := range []string{"", "{}", `{"apps":{"A":{}}}`, "apps: {key: \"A\" value: {}}", "\x0a\x05\x0a\x01A\x12\x00"} {
		f.Add([]byte(s))
	}
	f.Fuzz(func(t *testing.T, b []byte) {
		for _, enc := range c09Encs {
			m, err := pbutil.FromPBByteContents("f."+enc, b)
			if err == nil && m == nil {
				t.Fatalf("%s: neither model nor error", enc)
			}
		}
	})
}
