package checks

import (
	"fmt"
	"strings"
	"testing"

	"pgregory.net/rapid"
)

// C05 — import closure: each file once, cycles end, result independent of fetch timing, depth-exact.

const c05SigDepth = "depth-limit-follows-claim-order"

func genC05(t *rapid.T) impCase {
	g := genImpGraph(t, 7)
	ns := rapid.IntRange(2, 3).Draw(t, "nscheds")
	for i := 0; i < ns; i++ {
		g.Scheds = append(g.Scheds, genSched(t, len(g.Paths)))
	}
	return g
}

func (g *impCase) describe() string {
	var sb strings.Builder
	fmt.Fprintf(&sb, "depth=%d remote=%v\n", g.Depth, g.Remote)
	for i, p := range g.Paths {
		fmt.Fprintf(&sb, "  [%d] %s imports %v spelled %q\n", i, p, g.Edges[i], g.Spell[i])
	}
	return sb.String()
}

// c05RunOne checks one (graph, schedule) execution against the reference closure.
func c05RunOne(x *X, g *impCase, sched []int) (got string, err error) {
	got, _, err = c05RunOneR(x, g, sched)
	return
}

func c05RunOneR(x *X, g *impCase, sched []int) (got string, r *gateResult, err error) {
	want := fnames(g.refClosure(nil))
	r, death, inconcl := gatedRun(g, sched, "c05")
	if inconcl {
		x.Inconclusive("a run that overran its time bound did not reproduce")
		return "", r, nil
	}
	if death != nil {
		return "", r, finding("crash:"+death.Sig(), "the process ended during import retrieval: %s\n%s", firstLine(death.Text), g.describe())
	}
	if r.Hung {
		// retry once: only a reproduced stall counts
		r2, death2, _ := gatedRun(g, sched, "c05")
		if death2 != nil {
			return "", r2, finding("crash:"+death2.Sig(), "the process ended during import retrieval: %s\n%s", firstLine(death2.Text), g.describe())
		}
		if r2.Hung {
			return "", r, finding("hang", "import retrieval did not finish (reads issued: %d, releases %v)\n%s", r2.Total, r2.Releases, g.describe())
		}
		x.Inconclusive("a stalled run did not reproduce")
		r = r2
	}
	if r.Panic != "" {
		return "", r, finding("panic-in-parse", "panic during Parse: %s\n%s", r.Panic, g.describe())
	}
	if r.HasErr {
		return "", r, fmt.Errorf("all files exist and are valid, yet Parse failed: %v\nreleases %v\n%s", r.ErrText, r.Releases, g.describe())
	}
	if len(r.Unknown) > 0 {
		return "", r, fmt.Errorf("import resolved to names no file has: %q\n%s", r.Unknown, g.describe())
	}
	dbl := false
	for _, c := range r.Reads {
		if c > 1 {
			dbl = true
		}
	}
	if dbl {
		x.Class("info_file_fetched_more_than_once")
	}
	if r.ModelExact {
		x.Class("pending_prediction_exact")
	} else {
		x.Class("pending_prediction_missed")
	}
	order, apps := r.Order, r.Apps
	got = strings.Join(order, " ")
	if got != strings.Join(want, " ") {
		model := fnames(g.modelOrder(r.ModelClaimed, nil))
		msg := fmt.Sprintf("contributions differ from the import closure: want %v got %v (release order %v)\n%s", want, order, r.Releases, g.describe())
		if g.Depth > 0 && r.ModelExact && got == strings.Join(model, " ") {
			return got, r, finding(c05SigDepth, "%s", msg)
		}
		return got, r, fmt.Errorf("%s", msg)
	}
	// every contributing file's own app is present exactly for the included set
	wantApps := map[string]bool{}
	for _, w := range want {
		wantApps[w] = true
	}
	if len(apps) != len(wantApps) {
		return got, r, fmt.Errorf("applications present %v differ from included files %v\n%s", apps, want, g.describe())
	}
	for _, a := range apps {
		if !wantApps[a] {
			return got, r, fmt.Errorf("application %s present but its file is not in the closure %v\n%s", a, want, g.describe())
		}
	}
	return got, r, nil
}

func checkC05(x *X, g impCase) error {
	cl := g.classes()
	for _, c := range cl {
		x.Class(c)
	}
	x.Class(fmt.Sprintf("files_%d", len(g.Paths)))
	nontrivial := false
	for _, c := range cl {
		if c == "cycle" || c == "diamond_or_shared" || c == "self_import" || c == "depth_cuts_two_routes" {
			nontrivial = true
		}
	}
	x.Sample(g.describe())
	var first string
	if nontrivial {
		x.NonTrivial(g.describe() + fmt.Sprint(g.Scheds))
	}
	for i, s := range g.Scheds {
		got, err := c05RunOne(x, &g, s)
		if err != nil {
			return err
		}
		x.Class("executions")
		if i == 0 {
			first = got
		} else if got != first {
			return fmt.Errorf("result depends on completion order: %q vs %q\n%s", first, got, g.describe())
		}
	}
	return nil
}

var c05Prop = Define("C05", "closure",
	"random import digraphs on 1-7 files in up to 4 directories (chains, diamonds, cycles, self loops, multi-edges, a two-route template), each import spelled in one of six equivalent ways (rooted, ../-relative, ./, zz/../, extension dropped, /./), some files always imported under one alias (as Ns :: Aj); one graph in four lives in a remote-style repository (//github.com/org/repo/<path>@v1, also spelled in full by some imports) served by the same gated reader with branch v1, depth limit 0..n, 2-3 completion orders per graph drawn by rapid (with a deepest-pending-first bias) and realised through a gated reader.Reader that releases one ReadHashBranch at a time; oracle: contributions (order and multiplicity of per-file calls appended to a shared endpoint, set of per-file apps) == reference closure (BFS distance < n, DFS pre-order in text order), identical across schedules, no error/panic/stall. Non-trivial: graph has a cycle, a self import, a shared/diamond target or a depth limit cutting a file reachable by two routes of different length; distinct by (graph, schedules); class 'executions' counts (graph, schedule) runs of the real parser.",
	genC05, checkC05)

// exhaustive enumeration of completion orders for one small graph
type c05EnumCase struct {
	G impCase `json:"g"`
}

func genC05Enum(t *rapid.T) c05EnumCase {
	return c05EnumCase{G: genImpGraph(t, 5)}
}

func checkC05Enum(x *X, c c05EnumCase) error {
	g := c.G
	for _, cl := range g.classes() {
		x.Class("enum_" + cl)
	}
	stream := []int{}
	count := 0
	var first string
	limit := 150
	if thorough() {
		limit = 1500
	}
	for {
		got, r, err := c05RunOneR(x, &g, stream)
		if err != nil {
			return err
		}
		if count == 0 {
			first = got
		} else if got != first {
			return fmt.Errorf("result depends on completion order: %q vs %q\n%s", first, got, g.describe())
		}
		count++
		// next stream in lexicographic order over the realised branching factors
		br := r.Branch
		cur := make([]int, len(br))
		copy(cur, stream)
		i := len(br) - 1
		for ; i >= 0; i-- {
			if cur[i]+1 < br[i] {
				cur[i]++
				cur = cur[:i+1]
				break
			}
		}
		if i < 0 {
			x.Class("enum_graph_all_orders_covered")
			x.NonTrivial("enum:" + g.describe())
			break
		}
		if count >= limit {
			x.Class("enum_graph_truncated")
			break
		}
		stream = cur
	}
	x.Class(fmt.Sprintf("enum_orders_%s", bucket(count)))
	return nil
}

func bucket(n int) string {
	switch {
	case n <= 1:
		return "1"
	case n <= 5:
		return "2-5"
	case n <= 24:
		return "6-24"
	case n <= 120:
		return "25-120"
	default:
		return ">120"
	}
}

var c05Enum = Define("C05", "allorders",
	"random import digraphs on 1-5 files; every completion order of the concurrent reads is enumerated (depth-first over the realised branching factors, up to a per-graph cap; graphs fully covered are counted in class enum_graph_all_orders_covered) and each execution is held against the reference closure; non-trivial: a graph whose orders were all covered.",
	genC05Enum, checkC05Enum)

func TestC05(t *testing.T) {
	checkKnown(t, "C05")
	c05Prop.Run(t, scale(300, 2500))
	c05Enum.Run(t, scale(60, 500))
}
