//go:build race

package checks

import "runtime"

const c07Race = true

// number of reports the race detector has issued so far in this process
func c07RaceErrors() int { return runtime.RaceErrors() }
