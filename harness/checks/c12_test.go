package checks

// C12 — OpenAPI export is a valid document that carries every type and endpoint, and re-imports.

import (
	"fmt"
	"io"
	"reflect"
	"sort"
	"strings"
	"testing"

	"github.com/anz-bank/sysl/pkg/exporter"
	"github.com/anz-bank/sysl/pkg/importer"
	"github.com/anz-bank/sysl/pkg/parse"
	"github.com/anz-bank/sysl/pkg/sysl"
	"github.com/anz-bank/sysl/pkg/syslutil"
	"github.com/anz-bank/sysl/pkg/syslwrapper"
	"github.com/sirupsen/logrus"
	"pgregory.net/rapid"
)

type c12Case struct {
	Format   string   `json:"format"` // openapi3 | swagger
	App      c12App   `json:"app"`
	Text     string   `json:"text"`               // App.Render(); what is compiled
	Waive    []string `json:"waive,omitempty"`    // ids of active known findings whose single demand is not made of this case
	Reimport bool     `json:"reimport,omitempty"` // openapi3 only: also re-import (bundled arr.ai importer, seconds per document)
}

func c12Logger() *logrus.Logger {
	lg := logrus.New()
	lg.SetOutput(io.Discard)
	lg.ExitFunc = func(int) { panic("logrus.Fatal reached in code under test") }
	return lg
}

// c12Export runs the calls cmd/sysl/cmd_export.go makes for one application and returns the
// JSON and the YAML serialisation of the same exporter state.
func c12Export(format string, app *sysl.Application, lg *logrus.Logger) (js, ym []byte, err error) {
	switch format {
	case "swagger":
		ex := exporter.MakeSwaggerExporter(app, lg)
		if err = ex.GenerateSwagger(); err != nil {
			return nil, nil, err
		}
		if js, err = ex.SerializeOutput("json"); err != nil {
			return nil, nil, err
		}
		ym, err = ex.SerializeOutput("yaml")
		return js, ym, err
	case "openapi3":
		name := syslutil.GetAppName(app.Name)
		mod := &sysl.Module{Apps: map[string]*sysl.Application{name: app}}
		mapper := syslwrapper.MakeAppMapper(mod)
		mapper.IndexTypes()
		simple, e := mapper.Map()
		if e != nil {
			return nil, nil, e
		}
		ex := exporter.MakeOpenAPI3Exporter(simple, lg)
		if err = ex.Export(); err != nil {
			return nil, nil, err
		}
		if js, err = ex.SerializeOutput(name, "json"); err != nil {
			return nil, nil, err
		}
		ym, err = ex.SerializeOutput(name, "yaml")
		return js, ym, err
	}
	return nil, nil, fmt.Errorf("unknown format %q", format)
}

// ---------- the oracle ----------

type c12Oracle struct {
	x     *X
	c     *c12Case
	v     int // 2 | 3
	doc   c12Obj
	waive map[string]bool
	ctx   string // text + document, appended to messages
}

func (o *c12Oracle) waived(id string) bool {
	if o.waive[id] {
		o.x.Exclude(id)
		return true
	}
	return false
}

func (o *c12Oracle) fail(sig, format string, a ...interface{}) error {
	msg := fmt.Sprintf(format, a...)
	if sig == "" {
		return fmt.Errorf("%s: %s%s", o.c.Format, msg, o.ctx)
	}
	return finding(sig, "%s: %s%s", o.c.Format, msg, o.ctx)
}

func (o *c12Oracle) refPrefix() string {
	if o.v == 2 {
		return "#/definitions/"
	}
	return "#/components/schemas/"
}

var c12StdFormats = map[string]bool{"int32": true, "int64": true, "float": true, "double": true, "byte": true, "binary": true, "date": true, "date-time": true, "password": true}

// c12KindOK: does schema (type, format) express Sysl primitive k? lax = the weaker form used while
// the Swagger kind finding is waived (integer may be widened to number, the string formats may be absent).
func c12KindOK(k, typ, format string, lax bool) bool {
	std := c12StdFormats[format]
	switch c11SpellClass(k) {
	case "integer":
		if typ == "number" && lax {
			return format != "float" && format != "double"
		}
		return typ == "integer" && (!std || format == "int32" || format == "int64")
	case "number":
		return typ == "number" && (!std || format == "float" || format == "double")
	case "string":
		return typ == "string" && !std
	case "bool":
		return typ == "boolean"
	case "date":
		return typ == "string" && (format == "date" || (lax && !std))
	case "datetime":
		return typ == "string" && (format == "date-time" || (lax && !std))
	case "bytes":
		return typ == "string" && (format == "byte" || format == "binary" || (lax && !std))
	}
	return false
}

// schemaIs checks one (possibly collection-wrapped) value schema against an intent field.
func (o *c12Oracle) schemaIs(where string, sch c12Obj, kind, ref, coll string) error {
	if sch == nil {
		return o.fail("", "%s: no schema", where)
	}
	inner := sch
	if coll != "" {
		if c12Str(sch["type"]) != "array" || c12Map(sch["items"]) == nil {
			if coll == "set" && o.v == 3 {
				return o.fail("openapi3:set-field-not-an-array", "%s is a set but its schema is not an array with items: %v", where, sch)
			}
			return o.fail("", "%s is a collection but its schema is not an array with items: %v", where, sch)
		}
		inner = c12Map(sch["items"])
	} else if c12Str(sch["type"]) == "array" {
		return o.fail("", "%s is not a collection but its schema is an array", where)
	}
	if kind == "ref" {
		want := o.refPrefix() + ref
		if got := c12Str(inner["$ref"]); got != want {
			if o.v == 2 && got == "" && c12Str(inner["format"]) == ref {
				// the Swagger exporter carries the target in "format"
				if o.waived(c12FSwRef) {
					return nil
				}
				return o.fail("swagger:reference-carried-in-format", "%s: reference to %s is exported as %v instead of {$ref: %s}", where, ref, inner, want)
			}
			return o.fail("", "%s: reference target: want $ref %q, got %v", where, want, inner)
		}
		return nil
	}
	typ, format := c12Str(inner["type"]), c12Str(inner["format"])
	if inner["$ref"] != nil {
		return o.fail("", "%s: primitive %s exported as a reference %v", where, kind, inner)
	}
	if !c12KindOK(kind, typ, format, false) {
		if o.v == 2 && c12KindOK(kind, typ, format, true) {
			if o.waived(c12FSwKind) {
				return nil
			}
			return o.fail("swagger:primitive-kind-lost", "%s: %s exported as type=%q format=%q", where, kind, typ, format)
		}
		return o.fail("", "%s: kind: %s exported as type=%q format=%q", where, kind, typ, format)
	}
	return nil
}

func (o *c12Oracle) checkInfo() error {
	a := o.c.App
	info := c12Map(o.doc["info"])
	title := c12Str(info["title"])
	if title != a.Name && (a.LongName == "" || title != a.LongName) && !(title == "" && o.v == 2 && a.LongName == "") {
		return o.fail("", "info.title %q is neither the application name %q nor its long name %q", title, a.Name, a.LongName)
	}
	if a.Version != "" && c12Str(info["version"]) != a.Version {
		return o.fail("", "info.version %q, declared @version %q", info["version"], a.Version)
	}
	if a.Desc != "" && strings.TrimSpace(c12Str(info["description"])) != a.Desc {
		return o.fail("", "info.description %q, declared %q", info["description"], a.Desc)
	}
	if o.v == 3 && a.URL != "" {
		found := false
		for _, s := range c12Slice(o.doc["servers"]) {
			if c12Str(c12Map(s)["url"]) == a.URL {
				found = true
			}
		}
		if !found {
			return o.fail("", "declared @env.1.url %q is not among servers %v", a.URL, o.doc["servers"])
		}
	}
	if o.v == 2 && a.Host != "" && c12Str(o.doc["host"]) != a.Host {
		return o.fail("", "host %q, declared @host %q", o.doc["host"], a.Host)
	}
	return nil
}

func (o *c12Oracle) checkTypes() error {
	a := o.c.App
	var schemas c12Obj
	if o.v == 2 {
		schemas = c12Map(o.doc["definitions"])
	} else {
		schemas = c12Map(c12Get(o.doc, "components", "schemas"))
	}
	declared := map[string]bool{}
	fieldColl := map[string]bool{}
	for _, ty := range a.Types {
		declared[ty.Name] = true
		for _, f := range ty.Fields {
			if f.Coll != "" {
				fieldColl[f.Name] = true
			}
		}
	}
	for _, ty := range a.Types {
		sch := c12Map(schemas[ty.Name])
		if sch == nil {
			return o.fail("", "type %s has no schema (have %v)", ty.Name, c12Keys(schemas))
		}
		if ty.Enum != nil {
			typ := c12Str(sch["type"])
			vals := c12StrSet(sch["enum"])
			var nums []string
			for i := range ty.Enum {
				nums = append(nums, fmt.Sprint(i+1))
			}
			okNames := typ == "string" && c12SameSet(vals, ty.Enum)
			okNums := typ == "integer" && c12SameSet(vals, nums)
			if !okNames && !okNums {
				if o.v == 2 && len(vals) == 0 {
					if o.waived(c12FSwEnum) {
						continue
					}
					return o.fail("swagger:enum-values-lost", "enum %s %v exported without its enumerators: %v", ty.Name, ty.Enum, sch)
				}
				return o.fail("", "enum %s: want the enumerators %v (string) or %v (integer), got %v", ty.Name, ty.Enum, nums, sch)
			}
			continue
		}
		if c12Str(sch["type"]) != "object" {
			return o.fail("", "type %s: schema type is %q, want object", ty.Name, sch["type"])
		}
		props := c12Map(sch["properties"])
		var want, req []string
		for _, f := range ty.Fields {
			want = append(want, f.Name)
			if !f.Opt {
				req = append(req, f.Name)
			}
		}
		if !c12SameSet(c12Keys(props), want) {
			return o.fail("", "type %s: properties %v, declared fields %v", ty.Name, c12Keys(props), want)
		}
		for _, f := range ty.Fields {
			if err := o.schemaIs(ty.Name+"."+f.Name, c12Map(props[f.Name]), f.Kind, f.Ref, f.Coll); err != nil {
				return err
			}
		}
		got := c12StrSet(sch["required"])
		if !c12SameSet(got, req) {
			lost := len(got) < len(req)
			for _, g := range got {
				found := false
				for _, r := range req {
					if r == g {
						found = true
					}
				}
				if !found {
					lost = false // an optional field listed as required is something else
				}
			}
			if o.v == 2 && lost && len(got) == 0 {
				if o.waived(c12FSwRequired) {
					continue
				}
				return o.fail("swagger:required-never-exported", "type %s: non-optional fields %v but no required list", ty.Name, req)
			}
			return o.fail("", "type %s: required %v, non-optional fields %v", ty.Name, got, req)
		}
	}
	for _, k := range c12Keys(schemas) {
		if declared[k] {
			continue
		}
		if o.v == 2 && fieldColl[k] {
			if o.waived(c12FSwFieldDefs) {
				continue
			}
			return o.fail("swagger:collection-field-leaks-as-definition", "definition %q is not a declared type: it is the name of a collection-typed field", k)
		}
		return o.fail("", "schema %q does not correspond to any declared type", k)
	}
	return nil
}

type c12WantParam struct {
	in, name, kind string
	required       bool
}

func (o *c12Oracle) checkEndpoints() error {
	a := o.c.App
	paths := c12Map(o.doc["paths"])
	var tpls []string
	for _, p := range a.Paths {
		tpls = append(tpls, p.template())
	}
	if !c12SameSet(c12Keys(paths), tpls) {
		return o.fail("", "paths %v, declared %v", c12Keys(paths), tpls)
	}
	for _, p := range a.Paths {
		item := c12Map(paths[p.template()])
		var gotM, wantM []string
		for _, k := range c12Keys(item) {
			if c12HTTPMethods[k] {
				gotM = append(gotM, strings.ToUpper(k))
			}
		}
		for _, me := range p.Methods {
			wantM = append(wantM, me.Method)
		}
		if !c12SameSet(gotM, wantM) {
			return o.fail("", "%s: operations %v, declared methods %v", p.template(), gotM, wantM)
		}
		for _, me := range p.Methods {
			where := me.Method + " " + p.template()
			op := c12Map(item[strings.ToLower(me.Method)])
			var want []c12WantParam
			for _, v := range p.Vars {
				want = append(want, c12WantParam{"path", v.Name, v.Kind, true})
			}
			for _, q := range me.Query {
				want = append(want, c12WantParam{"query", q.Name, q.Kind, !q.Opt})
			}
			got := append(append([]interface{}{}, c12Slice(item["parameters"])...), c12Slice(op["parameters"])...)
			// the statement names path, query and body parameters; a header parameter has two names in
			// Sysl (identifier and name= attribute) and may be exported under either
			for _, h := range me.Headers {
				n := h.Wire
				for _, g := range got {
					if gm := c12Map(g); c12Str(gm["in"]) == "header" && c12Str(gm["name"]) == h.Name && h.Name != h.Wire {
						n = h.Name
						o.x.Class("header_exported_under_identifier")
					}
				}
				want = append(want, c12WantParam{"header", n, h.Kind, !h.Opt})
			}
			var bodyParam c12Obj
			var gotKeys, wantKeys []string
			byKey := map[string]c12Obj{}
			for _, g := range got {
				gm := c12Map(g)
				in, name := c12Str(gm["in"]), c12Str(gm["name"])
				if o.v == 2 && in == "body" {
					bodyParam = gm
					continue
				}
				if o.v == 2 && me.Body != "" && name == "" && c12Str(c12Get(gm, "schema", "$ref")) == o.refPrefix()+me.Body {
					if o.waived(c12FSwBody) {
						continue
					}
					return o.fail("swagger:body-param-not-in-body", "%s: the ~body parameter (type %s) is exported as a nameless %q parameter: %v", where, me.Body, in, gm)
				}
				gotKeys = append(gotKeys, in+":"+name)
				byKey[in+":"+name] = gm
			}
			for _, w := range want {
				wantKeys = append(wantKeys, w.in+":"+w.name)
			}
			if !c12SameSet(gotKeys, wantKeys) {
				return o.fail("", "%s: parameters %v, declared %v", where, gotKeys, wantKeys)
			}
			for _, w := range want {
				gm := byKey[w.in+":"+w.name]
				req, _ := gm["required"].(bool)
				if req != w.required {
					if o.v == 2 && !req {
						if !o.waived(c12FSwRequired) {
							return o.fail("swagger:required-never-exported", "%s: %s parameter %q is not optional but not marked required", where, w.in, w.name)
						}
					} else {
						return o.fail("", "%s: %s parameter %q: required=%v, want %v", where, w.in, w.name, req, w.required)
					}
				}
				sch := gm
				if o.v == 3 {
					sch = c12Map(gm["schema"])
				}
				if err := o.schemaIs(where+" "+w.in+" parameter "+w.name, sch, w.kind, "", ""); err != nil {
					return err
				}
			}
			// body
			switch o.v {
			case 3:
				rb := c12Map(op["requestBody"])
				if (rb != nil) != (me.Body != "") {
					return o.fail("", "%s: requestBody present=%v, ~body parameter declared=%v", where, rb != nil, me.Body != "")
				}
				if rb != nil {
					found := false
					content := c12Map(rb["content"])
					for _, mt := range c12Keys(content) {
						if c12Str(c12Get(content[mt], "schema", "$ref")) == o.refPrefix()+me.Body {
							found = true
						}
					}
					if !found {
						return o.fail("", "%s: requestBody does not reference %s: %v", where, me.Body, rb)
					}
					if req, _ := rb["required"].(bool); !req {
						return o.fail("", "%s: non-optional ~body parameter exported with required=%v", where, rb["required"])
					}
				}
			case 2:
				if me.Body == "" && bodyParam != nil {
					return o.fail("", "%s: body parameter %v but none declared", where, bodyParam)
				}
				if me.Body != "" && bodyParam == nil && !o.waive[c12FSwBody] {
					return o.fail("", "%s: ~body parameter of type %s is not exported", where, me.Body)
				}
				if bodyParam != nil {
					if got := c12Str(c12Get(bodyParam, "schema", "$ref")); got != o.refPrefix()+me.Body {
						return o.fail("", "%s: body parameter schema %v, want $ref to %s", where, bodyParam["schema"], me.Body)
					}
					if req, _ := bodyParam["required"].(bool); !req && !o.waived(c12FSwRequired) {
						return o.fail("swagger:required-never-exported", "%s: non-optional body parameter not marked required", where)
					}
				}
			}
			// responses
			resps := c12Map(op["responses"])
			var gotC, wantC []string
			for _, k := range c12Keys(resps) {
				if k != "default" && !strings.HasPrefix(k, "x-") {
					gotC = append(gotC, k)
				}
			}
			for _, r := range me.Rets {
				if r.Code == "error" {
					// the default response: demanded below, with its payload
					continue
				}
				wantC = append(wantC, r.Code)
			}
			if !c12SameSet(gotC, wantC) {
				return o.fail("", "%s: responses %v, declared returns %v", where, gotC, wantC)
			}
			for _, r := range me.Rets {
				key := r.Code
				if key == "error" {
					key = "default"
				}
				resp := c12Map(resps[key])
				var sch c12Obj
				if o.v == 2 {
					sch = c12Map(resp["schema"])
				} else {
					content := c12Map(resp["content"])
					for _, mt := range c12Keys(content) {
						if s := c12Map(c12Get(content[mt], "schema")); s != nil {
							sch = s
						}
					}
				}
				rw := fmt.Sprintf("%s response %s", where, r.Code)
				kind, ref, coll := "ref", r.Type, ""
				if r.Type == "string" {
					kind, ref = "string", ""
				}
				if r.Seq {
					coll = "seq"
				}
				if o.v == 2 && r.Seq && sch != nil && c12Str(sch["$ref"]) == o.refPrefix()+r.Type {
					if o.waived(c12FSwSeqResp) {
						continue
					}
					return o.fail("swagger:sequence-response-flattened", "%s: declared `sequence of %s`, exported as a plain reference %v", rw, r.Type, sch)
				}
				if o.v == 2 && sch != nil && (r.Qual || r.Type == "string") && strings.HasPrefix(c12Str(sch["$ref"]), o.refPrefix()) && c12Map(o.doc["definitions"])[strings.TrimPrefix(c12Str(sch["$ref"]), o.refPrefix())] == nil {
					return o.fail("swagger:nonlocal-return-dangling-ref", "%s: return type spelled %q exported as the dangling reference %v", rw, c12RetSpelling(o.c.App, r), sch)
				}
				if err := o.schemaIs(rw, sch, kind, ref, coll); err != nil {
					return err
				}
			}
		}
	}
	return nil
}

func c12RetSpelling(a c12App, r c12Ret) string {
	s := r.Type
	if r.Qual {
		s = a.Name + "." + s
	}
	if r.Seq {
		s = "sequence of " + s
	}
	return s
}

// ---------- re-import ----------

func c12Import(path string, content []byte, lg *logrus.Logger) (string, error) {
	im, err := importer.Factory(path, false, "", content, lg)
	if err != nil {
		return "", err
	}
	im, err = im.Configure(&importer.ImporterArg{AppName: "Back"})
	if err != nil {
		return "", err
	}
	return im.Load(string(content))
}

// checkReimport compares the abstraction of the intent with the abstraction of the re-imported
// application: types by name; fields by json_tag with kind class, collection-ness, reference
// target and optionality; endpoints by (method, path template) with parameter names per
// location, kind class and optionality, body type, and status -> (type, sequence-ness).
func (o *c12Oracle) checkReimport(content []byte, ext string, lg *logrus.Logger) error {
	a := o.c.App
	if o.v == 2 && o.waive[c12FSwBody] {
		for _, p := range a.Paths {
			for _, me := range p.Methods {
				if me.Body != "" {
					o.x.Class("swagger_reimport_skipped_body_param_known")
					return nil
				}
			}
		}
	}
	text, err := c12Import("/c12/doc."+ext, content, lg)
	if err != nil {
		return o.fail("", "re-import of the exported document fails: %v", err)
	}
	o.x.Class("reimported_" + o.c.Format)
	back := "\n---- re-imported sysl\n" + text
	m, err := parse.NewParser().ParseString(text)
	if err != nil {
		return o.fail("", "re-imported text does not compile: %v%s", err, back)
	}
	app := m.GetApps()["Back"]
	if app == nil {
		return o.fail("", "re-imported module has no application Back%s", back)
	}
	mod := c11ModelOf(app)
	lax2 := o.v == 2
	for _, ty := range a.Types {
		mt := mod.Types[ty.Name]
		if mt == nil {
			return o.fail("", "re-import: type %s is missing%s", ty.Name, back)
		}
		if ty.Enum != nil {
			continue // enums come back as aliases (the formats carry names only); presence is what survives
		}
		if mt.Kind != "tuple" {
			return o.fail("", "re-import: type %s comes back as %s%s", ty.Name, mt.Kind, back)
		}
		if len(mt.Fields) != len(ty.Fields) {
			return o.fail("", "re-import: type %s has %d fields, declared %d%s", ty.Name, len(mt.Fields), len(ty.Fields), back)
		}
		for _, f := range ty.Fields {
			mf := mt.byTag(f.Name)
			if mf == nil {
				return o.fail("", "re-import: field %s.%s is missing%s", ty.Name, f.Name, back)
			}
			if (mf.Coll != "") != (f.Coll != "") {
				return o.fail("", "re-import: %s.%s collection-ness: declared %q, back %q%s", ty.Name, f.Name, f.Coll, mf.Coll, back)
			}
			if mf.Opt != f.Opt && !(lax2 && mf.Opt && o.waived(c12FSwRequired)) {
				return o.fail("", "re-import: %s.%s optional: declared %v, back %v%s", ty.Name, f.Name, f.Opt, mf.Opt, back)
			}
			if f.Kind == "ref" {
				if mf.Ref != f.Ref && !(lax2 && o.waived(c12FSwRef)) {
					return o.fail("", "re-import: %s.%s reference target: declared %s, back %q (%s)%s", ty.Name, f.Name, f.Ref, mf.Ref, mf.Prim, back)
				}
			} else if got, want := c11KindClass(mf), c11SpellClass(f.Kind); got != want {
				if !(lax2 && c12LaxKindBack(want, got) && o.waived(c12FSwKind)) {
					return o.fail("", "re-import: %s.%s kind class: declared %s (%s), back %s%s", ty.Name, f.Name, f.Kind, want, got, back)
				}
			}
		}
	}
	want := 0
	for _, p := range a.Paths {
		for _, me := range p.Methods {
			want++
			name := me.Method + " " + p.template()
			ep := mod.Eps[name]
			if ep == nil {
				var have []string
				for k := range mod.Eps {
					have = append(have, k)
				}
				sort.Strings(have)
				return o.fail("", "re-import: endpoint %q is missing (have %v)%s", name, have, back)
			}
			cmp := func(loc string, got []c11MField, wantPs []c12Param, wire bool) error {
				var gk, wk []string
				for _, g := range got {
					gk = append(gk, g.Tag)
				}
				for _, w := range wantPs {
					n := w.Name
					if wire {
						n = w.Wire
					}
					wk = append(wk, n)
				}
				if !c12SameSet(gk, wk) {
					return o.fail("", "re-import: %s: %s parameters %v, declared %v%s", name, loc, gk, wk, back)
				}
				for _, w := range wantPs {
					n := w.Name
					if wire {
						n = w.Wire
					}
					for i := range got {
						g := &got[i]
						if g.Tag != n {
							continue
						}
						if loc != "path" && g.Opt != w.Opt && !(lax2 && g.Opt && o.waived(c12FSwRequired)) {
							return o.fail("", "re-import: %s: %s parameter %s optional: declared %v, back %v%s", name, loc, n, w.Opt, g.Opt, back)
						}
						if gc, wc := c11KindClass(g), c11SpellClass(w.Kind); gc != wc && !(lax2 && c12LaxKindBack(wc, gc) && o.waived(c12FSwKind)) {
							return o.fail("", "re-import: %s: %s parameter %s kind class: declared %s, back %s%s", name, loc, n, wc, gc, back)
						}
					}
				}
				return nil
			}
			// query names come back through the importer's own escaping; ours need none
			for i := range ep.Query {
				ep.Query[i].Tag = ep.Query[i].Name
			}
			for i := range ep.Vars {
				ep.Vars[i].Tag = ep.Vars[i].Name
			}
			if err := cmp("path", ep.Vars, p.Vars, false); err != nil {
				return err
			}
			if err := cmp("query", ep.Query, me.Query, false); err != nil {
				return err
			}
			hdrs := append([]c12Param{}, me.Headers...)
			for i := range hdrs {
				for _, g := range ep.Headers {
					if g.Tag == hdrs[i].Name {
						hdrs[i].Wire = hdrs[i].Name
					}
				}
			}
			if err := cmp("header", ep.Headers, hdrs, true); err != nil {
				return err
			}
			if (len(ep.Body) > 0) != (me.Body != "") {
				return o.fail("", "re-import: %s: body parameter present=%v, declared=%v%s", name, len(ep.Body) > 0, me.Body != "", back)
			}
			if me.Body != "" && (len(ep.Body) != 1 || ep.Body[0].Ref != me.Body) {
				return o.fail("", "re-import: %s: body parameter type %v, declared %s%s", name, ep.Body, me.Body, back)
			}
			got := map[string]c11MRet{}
			for _, r := range ep.Rets {
				if r.Code == "ok" || r.Code == "" || (r.Code == "error" && r.Type == "") {
					continue // the library's placeholder "default" response and untyped extras are not part of the abstraction
				}
				got[r.Code] = r
			}
			if len(got) != len(me.Rets) {
				return o.fail("", "re-import: %s: returns %v, declared %v%s", name, ep.Rets, me.Rets, back)
			}
			for _, r := range me.Rets {
				g, ok := got[r.Code]
				if !ok {
					return o.fail("", "re-import: %s: return %s is missing (have %v)%s", name, r.Code, ep.Rets, back)
				}
				if g.Type != r.Type {
					return o.fail("", "re-import: %s: return %s type %q, declared %q%s", name, r.Code, g.Type, r.Type, back)
				}
				if g.Seq != r.Seq && !(lax2 && !g.Seq && o.waived(c12FSwSeqResp)) {
					return o.fail("", "re-import: %s: return %s sequence-ness %v, declared %v%s", name, r.Code, g.Seq, r.Seq, back)
				}
			}
		}
	}
	if len(mod.Eps) != want {
		var have []string
		for k := range mod.Eps {
			have = append(have, k)
		}
		sort.Strings(have)
		return o.fail("", "re-import: %d endpoints %v, declared %d%s", len(mod.Eps), have, want, back)
	}
	return nil
}

// c12LaxKindBack: kind classes the Swagger exporter is known to widen (finding C12-swagger-primitive-kind-lost).
func c12LaxKindBack(want, got string) bool {
	switch want {
	case "integer":
		return got == "number"
	case "date", "datetime", "bytes":
		return got == "string"
	}
	return false
}

// ---------- check ----------

func checkC12(x *X, c c12Case) error {
	st := c12StatsOf(c.App)
	for _, cl := range st.classes {
		x.Class(cl)
	}
	x.Class("format_" + c.Format)
	text := c.Text
	if text == "" {
		text = c.App.Render()
	}
	if st.nonTrivial {
		x.NonTrivial(c.Format + "\n" + text)
	}
	x.Sample(c.Format + "\n" + text)
	lg := c12Logger()
	m, err := parse.NewParser().ParseString(text)
	if err != nil {
		return fmt.Errorf("generated application rejected by the compiler: %v\n---- text\n%s", err, text)
	}
	app := m.GetApps()[c.App.Name]
	if app == nil {
		return fmt.Errorf("compiled module has no application %q\n---- text\n%s", c.App.Name, text)
	}
	o := &c12Oracle{x: x, c: &c, v: 3, waive: map[string]bool{}, ctx: "\n---- sysl\n" + text}
	if c.Format == "swagger" {
		o.v = 2
	}
	for _, w := range c.Waive {
		o.waive[w] = true
	}
	js, ym, err := c12Export(c.Format, app, lg)
	if err != nil {
		return o.fail("", "export fails: %v", err)
	}
	doc, err := c12DecodeJSON(js)
	if err != nil {
		return o.fail("", "JSON output does not decode: %v\n---- json\n%s", err, js)
	}
	o.ctx += "\n---- exported document (arrays sorted)\n" + c12Canonical(doc)
	x.Class("mode_json")
	ydoc, err := c12DecodeYAML(ym)
	if err != nil {
		return o.fail("", "YAML output does not decode: %v", err)
	}
	x.Class("mode_yaml")
	if !reflect.DeepEqual(doc, ydoc) {
		return o.fail("", "YAML and JSON serialisations of the same export differ\n---- yaml document (arrays sorted)\n%s", c12Canonical(ydoc))
	}
	o.doc = doc

	// validity: own structural pass (handles cycles), then the library
	pathReqWaived := o.v == 2 && o.waive[c12FSwRequired]
	hasBody, hasVars := false, false
	for _, p := range c.App.Paths {
		hasVars = hasVars || len(p.Vars) > 0
		for _, me := range p.Methods {
			hasBody = hasBody || me.Body != ""
		}
	}
	structural := func() error {
		if err := c12Structural(doc, o.v, pathReqWaived); err != nil {
			msg := err.Error()
			switch {
			case o.v == 2 && strings.Contains(msg, "has no name") && hasBody:
				if o.waived(c12FSwBody) {
					return nil
				}
				return o.fail("swagger:body-param-not-in-body", "document is not well-formed: %v", err)
			case o.v == 2 && strings.Contains(msg, "info.title missing") && c.App.LongName == "":
				return o.fail("swagger:info-title-missing", "document is not well-formed: %v (the application has no long name)", err)
			case o.v == 2 && strings.Contains(msg, "is not marked required"):
				return o.fail("swagger:required-never-exported", "document is not well-formed: %v", err)
			case o.v == 2 && strings.Contains(msg, "does not resolve"):
				for _, p := range c.App.Paths {
					for _, me := range p.Methods {
						for _, r := range me.Rets {
							if r.Qual || r.Type == "string" {
								return o.fail("swagger:nonlocal-return-dangling-ref", "document is not well-formed: %v", err)
							}
						}
					}
				}
			}
			return o.fail("", "document is not well-formed: %v", err)
		}
		return nil
	}
	if err := structural(); err != nil {
		return err
	}
	if pathReqWaived && hasVars {
		x.Exclude(c12FSwRequired)
	}
	libDoc := c12DeepCopy(doc)
	for _, f := range c12NormaliseEmptyRequired(libDoc) {
		x.Class("empty_required_string_normalised_for_library:" + f)
	}
	var lerr error
	var cyc bool
	if o.v == 3 {
		lerr, cyc = c12LibValidate3(libDoc)
	} else if hasBody && o.waive[c12FSwBody] {
		x.Class("swagger_library_validation_skipped_body_param_known")
	} else {
		lerr, cyc = c12LibValidate2(libDoc)
	}
	if cyc {
		x.Class("library_gave_up_on_reference_cycle")
	} else if lerr != nil {
		return o.fail("", "%v", lerr)
	} else {
		x.Class("library_validated")
	}

	if err := o.checkInfo(); err != nil {
		return err
	}
	if err := o.checkTypes(); err != nil {
		return err
	}
	if err := o.checkEndpoints(); err != nil {
		return err
	}
	if o.v == 2 || c.Reimport {
		// what goes back in is the exported document with its order-insensitive arrays sorted
		// (export order is C19's subject; a replayed case must see the same import input)
		if err := o.checkReimport([]byte(c12Canonical(doc)), "json", lg); err != nil {
			return err
		}
	}
	return nil
}

func c12GenCase(format string, reimport bool) func(t *rapid.T) c12Case {
	return func(t *rapid.T) c12Case {
		a := c12GenApp(t, format)
		c := c12Case{Format: format, App: a, Reimport: reimport}
		if format == "swagger" {
			if knownActive(c12FSwForeignRet) {
				for pi := range c.App.Paths {
					for mi := range c.App.Paths[pi].Methods {
						rs := c.App.Paths[pi].Methods[mi].Rets
						for ri := range rs {
							if rs[ri].Qual || rs[ri].Type == "string" {
								R("C12").Exclude(c12FSwForeignRet)
								rs[ri].Qual = false
								if rs[ri].Type == "string" {
									for _, ty := range a.Types {
										if ty.Enum == nil {
											rs[ri].Type = ty.Name
											break
										}
									}
								}
							}
						}
					}
				}
			}
			if c.App.LongName == "" && knownActive(c12FSwTitle) {
				R("C12").Exclude(c12FSwTitle)
				c.App.LongName = "Shop API"
			}
			for _, id := range c12SwaggerFindings {
				if id != c12FSwForeignRet && id != c12FSwTitle && knownActive(id) {
					c.Waive = append(c.Waive, id)
				}
			}
		}
		c.Text = c.App.Render()
		return c
	}
}

const c12RuleCommon = "REST applications drawn by c12GenApp: 1-5 tuple types (1-6 fields: every primitive spelling, optional, sequence/set, references to any type incl. itself, so self-, mutually and >=3-way recursive graphs arise), 0-2 enums, 1-3 paths (1-3 segments, 0-2 typed path variables, flat or nested) x 1-3 methods with 0-3 query, 0-2 header, optional ~body parameters and 1-3 typed returns (T, sequence of T, App.T, string); app attributes present or absent. Exported through the calls of cmd_export.go; JSON and YAML of the same export must decode (YAML with yaml.v3) to the same tree; own structural pass ($ref resolution, template variables, parameter/response MUSTs) plus kin-openapi load+validate (empty title/version/server-url are schema-legal and normalised for the library only, counted); completeness of info, schemas, fields (kind, array-ness, $ref, required), operations, parameters (location, name, required, kind), request body and responses, nothing extra; sets compared as sets. Non-trivial: a type with >=2 required and >=1 optional field and an operation with >=2 parameters; distinct by text."

var c12OpenAPI3 = Define("C12", "openapi3", c12RuleCommon+" Format openapi3.", c12GenCase("openapi3", false), checkC12)
var c12Swagger = Define("C12", "swagger", c12RuleCommon+" Format swagger (Swagger 2.0), and the YAML document is re-imported through importer.Factory, compiled and compared under the abstraction (types by name, fields by json_tag: kind class, collection-ness, reference target, optionality; endpoints by method+path: parameter names per location, optionality, kind class, body type, status->type). Demands broken by listed known findings of the Swagger exporter are waived per case (Waive) and counted.", c12GenCase("swagger", false), checkC12)
var c12Reimport3 = Define("C12", "openapi3-reimport", c12RuleCommon+" Format openapi3, and the YAML document is re-imported through importer.Factory (bundled arr.ai importer, seconds per document, hence few cases), compiled and compared under the same abstraction.", c12GenCase("openapi3", true), checkC12)

func TestC12(t *testing.T) {
	logrus.SetOutput(io.Discard)
	checkKnown(t, "C12")
	c12OpenAPI3.Run(t, scale(400, 3000))
	c12Swagger.Run(t, scale(300, 2000))
	c12Reimport3.Run(t, scale(2, 20))
}
