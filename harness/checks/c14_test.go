package checks

// C14 — integration diagrams show exactly the calls among the selected applications.
//
// Case: a call multigraph over 2-8 applications plus one project view (listed / excluded /
// pass-through applications). The three views (plain, clustered, endpoint analysis) and the
// dependency list of the builder are produced in the worker subprocess (c14.ints) so that the
// unbounded recursion of the pass-through walk is attributed to the case.

import (
	"encoding/json"
	"fmt"
	"io"
	"regexp"
	"runtime/debug"
	"sort"
	"strings"
	"testing"

	"github.com/anz-bank/sysl/pkg/cmdutils"
	"github.com/anz-bank/sysl/pkg/integrationdiagram"
	"github.com/anz-bank/sysl/pkg/parse"
	"github.com/anz-bank/sysl/pkg/syslutil"
	"github.com/sirupsen/logrus"
	"pgregory.net/rapid"
)

const (
	c14FindCycle = "C14-passthrough-cycle-overflow"
	c14SigCycle  = "fatal@pkg/integrationdiagram.(*IntsBuilder).WalkPassthrough"
	c14Project   = "Proj"
	c14View      = "All"
)

// ---------- model (plain JSON) ----------

type c14Stmt struct {
	K       string       `json:"k"` // act call ret if else while for loop foreach grp oneof
	T       string       `json:"t,omitempty"`
	App     string       `json:"app,omitempty"`
	Ep      string       `json:"ep,omitempty"`
	Kids    []*c14Stmt   `json:"kids,omitempty"`
	Choices [][]*c14Stmt `json:"choices,omitempty"`
}

type c14Ep struct {
	Name   string     `json:"name"`
	Hidden bool       `json:"hidden,omitempty"`
	Stmts  []*c14Stmt `json:"stmts,omitempty"`
}

type c14App struct {
	Name  string   `json:"name"`
	Human bool     `json:"human,omitempty"`
	Eps   []*c14Ep `json:"eps"`
}

type c14Case struct {
	Apps     []*c14App `json:"apps"`
	Listed   []string  `json:"listed"`
	Excludes []string  `json:"excludes,omitempty"`
	Pass     []string  `json:"passthrough,omitempty"`
	Text     string    `json:"text"`
	Excl     []string  `json:"excluded,omitempty"` // exclusions applied by the generator (finding ids)
	// other views of the same project (different listed / exclude / passthrough sets): the view under
	// test must not be influenced by them
	Decoys []c14Decoy `json:"decoys,omitempty"`
}

type c14Decoy struct {
	Name     string   `json:"name"`
	Listed   []string `json:"listed"`
	Excludes []string `json:"excludes,omitempty"`
	Pass     []string `json:"passthrough,omitempty"`
}

// ---------- rendering ----------

func c14RenderStmts(sb *strings.Builder, depth int, ss []*c14Stmt) {
	ind := strings.Repeat("    ", depth)
	for _, s := range ss {
		switch s.K {
		case "act":
			sb.WriteString(ind + s.T + "\n")
		case "call":
			sb.WriteString(ind + s.App + " <- " + s.Ep + "\n")
		case "ret":
			sb.WriteString(ind + "return " + s.T + "\n")
		case "else":
			sb.WriteString(ind + "else:\n")
			c14RenderStmts(sb, depth+1, s.Kids)
		case "foreach":
			sb.WriteString(ind + "for each " + s.T + ":\n")
			c14RenderStmts(sb, depth+1, s.Kids)
		case "grp":
			sb.WriteString(ind + s.T + ":\n")
			c14RenderStmts(sb, depth+1, s.Kids)
		case "oneof":
			sb.WriteString(ind + "one of:\n")
			for i, c := range s.Choices {
				sb.WriteString(fmt.Sprintf("%s    case%d:\n", ind, i))
				c14RenderStmts(sb, depth+2, c)
			}
		default: // if while until for loop alt
			sb.WriteString(ind + s.K + " " + s.T + ":\n")
			c14RenderStmts(sb, depth+1, s.Kids)
		}
	}
}

func c14Quote(xs []string) string {
	var o []string
	for _, x := range xs {
		o = append(o, `"`+x+`"`)
	}
	return "[" + strings.Join(o, ", ") + "]"
}

func c14Render(c *c14Case) string {
	var sb strings.Builder
	for _, a := range c.Apps {
		h := a.Name
		if a.Human {
			h += " [~human]"
		}
		sb.WriteString(h + ":\n")
		for _, e := range a.Eps {
			hid := ""
			if e.Hidden {
				hid = " [~hidden]"
			}
			if len(e.Stmts) == 0 {
				sb.WriteString("    " + e.Name + hid + ": ...\n")
			} else {
				sb.WriteString("    " + e.Name + hid + ":\n")
				c14RenderStmts(&sb, 2, e.Stmts)
			}
		}
		sb.WriteString("\n")
	}
	var attrs []string
	if len(c.Excludes) > 0 {
		attrs = append(attrs, "exclude="+c14Quote(c.Excludes))
	}
	if len(c.Pass) > 0 {
		attrs = append(attrs, "passthrough="+c14Quote(c.Pass))
	}
	sb.WriteString(c14Project + ":\n")
	hdr := "    " + c14View
	if len(attrs) > 0 {
		hdr += " [" + strings.Join(attrs, ", ") + "]"
	}
	sb.WriteString(hdr + ":\n")
	for _, l := range c.Listed {
		sb.WriteString("        " + l + "\n")
	}
	for _, d := range c.Decoys {
		var attrs []string
		if len(d.Excludes) > 0 {
			attrs = append(attrs, "exclude="+c14Quote(d.Excludes))
		}
		if len(d.Pass) > 0 {
			attrs = append(attrs, "passthrough="+c14Quote(d.Pass))
		}
		hdr := "    " + d.Name
		if len(attrs) > 0 {
			hdr += " [" + strings.Join(attrs, ", ") + "]"
		}
		sb.WriteString(hdr + ":\n")
		for _, l := range d.Listed {
			sb.WriteString("        " + l + "\n")
		}
		if len(d.Listed) == 0 {
			sb.WriteString("        ...\n")
		}
	}
	return sb.String()
}

// ---------- the model's call multigraph (independent walker) ----------

type c14Call struct{ FromApp, FromEp, ToApp, ToEp string }

func c14Calls(apps []*c14App) []c14Call {
	var out []c14Call
	var rec func(a, e string, ss []*c14Stmt)
	rec = func(a, e string, ss []*c14Stmt) {
		for _, s := range ss {
			if s.K == "call" {
				out = append(out, c14Call{a, e, s.App, s.Ep})
			}
			rec(a, e, s.Kids)
			for _, c := range s.Choices {
				rec(a, e, c)
			}
		}
	}
	for _, a := range apps {
		for _, e := range a.Eps {
			rec(a.Name, e.Name, e.Stmts)
		}
	}
	return out
}

func c14Set(xs []string) map[string]bool {
	m := map[string]bool{}
	for _, x := range xs {
		m[x] = true
	}
	return m
}

// c14PassCycle tells whether the pass-through walk can revisit an endpoint: a cycle among
// endpoints of pass-through applications (targets that are excluded or human end the walk)
// that is reachable from a call made by a listed, non-human application.
func c14PassCycle(c *c14Case) (cycle bool, chain int) {
	apps := map[string]*c14App{}
	for _, a := range c.Apps {
		apps[a.Name] = a
	}
	pass, excl, listed := c14Set(c.Pass), c14Set(c.Excludes), c14Set(c.Listed)
	excl[c14Project] = true
	walkable := func(app string) bool { return pass[app] && !excl[app] && apps[app] != nil && !apps[app].Human }
	adj := map[string][]string{}
	var entry []string
	for _, cl := range c14Calls(c.Apps) {
		to := cl.ToApp + "\x00" + cl.ToEp
		if !walkable(cl.ToApp) {
			continue
		}
		if listed[cl.FromApp] && !apps[cl.FromApp].Human {
			entry = append(entry, to)
		}
		if pass[cl.FromApp] {
			adj[cl.FromApp+"\x00"+cl.FromEp] = append(adj[cl.FromApp+"\x00"+cl.FromEp], to)
		}
	}
	// depth-first search with colours from every entry
	state := map[string]int{}
	var dfs func(n string, depth int)
	dfs = func(n string, depth int) {
		if depth > chain {
			chain = depth
		}
		state[n] = 1
		for _, m := range adj[n] {
			switch state[m] {
			case 1:
				cycle = true
			case 0:
				dfs(m, depth+1)
			}
		}
		state[n] = 2
	}
	for _, e := range entry {
		if state[e] == 0 {
			dfs(e, 1)
		}
	}
	return
}

// ---------- generator ----------

var c14Names = []string{"A", "B", "C", "Ns :: D", "Ns :: E", "F", "Org :: G", "H"}

type c14Gen struct {
	t    *rapid.T
	apps []*c14App
	// forbid(fromApp, toApp) -> true when the call must not be generated
	forbid func(from, to int) bool
	cur    int
	nForb  int
	role   []int
}

func (g *c14Gen) stmts(depth, max int) []*c14Stmt {
	t := g.t
	n := rapid.IntRange(1, max).Draw(t, "n")
	var out []*c14Stmt
	for i := 0; i < n; i++ {
		k := rapid.IntRange(0, 11).Draw(t, "k")
		if depth >= 2 && k >= 6 {
			k = k % 6
		}
		switch k {
		case 0:
			out = append(out, &c14Stmt{K: "act", T: fmt.Sprintf("work %d", i)})
		case 1, 2, 3, 4:
			tai := rapid.IntRange(0, len(g.apps)-1).Draw(t, "ta")
			if g.role[g.cur] == 3 && rapid.IntRange(0, 2).Draw(t, "chain") == 2 {
				// lengthen pass-through chains: prefer a pass-through application declared later
				for j := g.cur + 1; j < len(g.apps); j++ {
					if g.role[j] == 3 {
						tai = j
						break
					}
				}
			}
			ta := g.apps[tai]
			te := ta.Eps[rapid.IntRange(0, len(ta.Eps)-1).Draw(t, "te")]
			if g.forbid != nil && g.forbid(g.cur, tai) {
				g.nForb++
				out = append(out, &c14Stmt{K: "act", T: "no call"})
				continue
			}
			out = append(out, &c14Stmt{K: "call", App: ta.Name, Ep: te.Name})
		case 5:
			out = append(out, &c14Stmt{K: "ret", T: "ok"})
		case 6:
			out = append(out, &c14Stmt{K: "if", T: "c", Kids: g.stmts(depth+1, 2)})
			if rapid.Bool().Draw(t, "else") {
				out = append(out, &c14Stmt{K: "else", Kids: g.stmts(depth+1, 2)})
			}
		case 7:
			out = append(out, &c14Stmt{K: pick(t, []string{"while", "until", "loop", "for", "alt"}, "kw"), T: "x", Kids: g.stmts(depth+1, 2)})
		case 8:
			s := &c14Stmt{K: "oneof"}
			nc := rapid.IntRange(1, 3).Draw(t, "nc")
			for c := 0; c < nc; c++ {
				s.Choices = append(s.Choices, g.stmts(depth+1, 2))
			}
			out = append(out, s)
		case 9:
			out = append(out, &c14Stmt{K: "foreach", T: "x in y", Kids: g.stmts(depth+1, 2)})
		default:
			out = append(out, &c14Stmt{K: "grp", T: "grp one", Kids: g.stmts(depth+1, 2)})
		}
	}
	return out
}

func genC14(t *rapid.T) c14Case {
	g := &c14Gen{t: t}
	na := rapid.IntRange(2, 8).Draw(t, "napps")
	c := c14Case{}
	role := make([]int, na) // 0 none 1 listed 2 excluded 3 passthrough
	g.role = role
	for i := 0; i < na; i++ {
		a := &c14App{Name: c14Names[i]}
		a.Human = rapid.IntRange(0, 7).Draw(t, "human") == 7
		ne := rapid.IntRange(1, scale(2, 3)).Draw(t, "neps")
		for j := 0; j < ne; j++ {
			e := &c14Ep{Name: fmt.Sprintf("e%d", j+1)}
			e.Hidden = rapid.IntRange(0, 9).Draw(t, "hidden") == 9
			a.Eps = append(a.Eps, e)
		}
		g.apps = append(g.apps, a)
		switch rapid.IntRange(0, 9).Draw(t, "role") {
		case 0, 1, 2:
			role[i] = 1
		case 3:
			role[i] = 0
		case 4, 5, 6, 7:
			role[i] = 3
		default:
			role[i] = 2
		}
	}
	anyListed := false
	for _, r := range role {
		anyListed = anyListed || r == 1
	}
	if !anyListed {
		role[0] = 1
	}
	for i, a := range g.apps {
		switch role[i] {
		case 1:
			c.Listed = append(c.Listed, a.Name)
		case 2:
			c.Excludes = append(c.Excludes, a.Name)
		case 3:
			c.Pass = append(c.Pass, a.Name)
		}
	}
	// known finding: a cycle among pass-through endpoints overflows the stack. While listed,
	// pass-through applications only call pass-through applications declared later.
	if knownActive(c14FindCycle) {
		g.forbid = func(from, to int) bool { return role[from] == 3 && role[to] == 3 && to <= from }
	}
	for i, a := range g.apps {
		g.cur = i
		for _, e := range a.Eps {
			if rapid.IntRange(0, 5).Draw(t, "empty") != 5 {
				e.Stmts = g.stmts(0, scale(3, 4))
			}
		}
	}
	if g.nForb > 0 {
		c.Excl = append(c.Excl, c14FindCycle)
	}
	c.Apps = g.apps
	// 0-2 further views in the same project
	nd := rapid.IntRange(0, 2).Draw(t, "ndecoys")
	for k := 0; k < nd; k++ {
		d := c14Decoy{Name: pick(t, []string{"aa_other", "zz_other", "mid_other", "view0", "x_view"}, "decoyname") + fmt.Sprint(k)}
		for _, a := range g.apps {
			switch rapid.IntRange(0, 5).Draw(t, "decoyrole") {
			case 0, 1:
				d.Listed = append(d.Listed, a.Name)
			case 2:
				d.Excludes = append(d.Excludes, a.Name)
			case 3:
				if !knownActive(c14FindCycle) {
					d.Pass = append(d.Pass, a.Name)
				}
			}
		}
		c.Decoys = append(c.Decoys, d)
	}
	c.Text = c14Render(&c)
	return c
}

// ---------- worker op ----------

type c14Arg struct {
	Text string `json:"text"`
}

type c14ViewRes struct {
	Out   string `json:"out,omitempty"`
	Err   string `json:"err,omitempty"`
	Panic string `json:"panic,omitempty"`
	Frame string `json:"frame,omitempty"`
}

type c14Res struct {
	Views     map[string]*c14ViewRes `json:"views"`
	Deps      []c14Call              `json:"deps"`
	FinalApps []string               `json:"final_apps"`
	DepsPanic string                 `json:"deps_panic,omitempty"`
	DepsFrame string                 `json:"deps_frame,omitempty"`
}

var c14Modes = []string{"plain", "clustered", "epa"}

var _ = registerOp("c14.ints", func(raw json.RawMessage) (interface{}, error) {
	var a c14Arg
	if err := json.Unmarshal(raw, &a); err != nil {
		return nil, err
	}
	m, err := parse.NewParser().ParseString(a.Text)
	if err != nil {
		return nil, fmt.Errorf("parse: %v", err)
	}
	lg := logrus.New()
	lg.SetOutput(io.Discard)
	res := &c14Res{Views: map[string]*c14ViewRes{}}
	for _, mode := range c14Modes {
		v := &c14ViewRes{}
		res.Views[mode] = v
		func() {
			defer func() {
				if r := recover(); r != nil {
					v.Panic = fmt.Sprint(r)
					v.Frame = repoFrame(string(debug.Stack()))
				}
			}()
			out, err := integrationdiagram.GenerateIntegrations(&cmdutils.CmdContextParamIntgen{
				Project: c14Project, Output: "%(epname)", Clustered: mode == "clustered", EPA: mode == "epa"}, m, lg)
			if err != nil {
				v.Err = err.Error()
				return
			}
			txt, ok := out[c14View]
			if !ok {
				v.Err = fmt.Sprintf("no output named %q (got %d outputs)", c14View, len(out))
				return
			}
			v.Out = txt
		}()
	}
	func() {
		defer func() {
			if r := recover(); r != nil {
				res.DepsPanic = fmt.Sprint(r)
				res.DepsFrame = repoFrame(string(debug.Stack()))
			}
		}()
		endpt := m.GetApps()[c14Project].GetEndpoints()[c14View]
		excludes := syslutil.MakeStrSet(c14Project).Union(syslutil.MakeStrSetFromAttr("exclude", endpt.GetAttrs()))
		b := integrationdiagram.MakeBuilderfromStmt(m, endpt.GetStmt(), excludes, syslutil.MakeStrSetFromAttr("passthrough", endpt.GetAttrs()))
		for _, d := range b.DepsOut {
			res.Deps = append(res.Deps, c14Call{d.Self.Name, d.Self.Endpoint, d.Target.Name, d.Target.Endpoint})
		}
		res.FinalApps = append(res.FinalApps, b.FinalApps...)
	}()
	return res, nil
})

// ---------- readers ----------

var (
	c14CompRe     = regexp.MustCompile(`^\[(.*)\] as (_\d+)( <<highlight>>)?$`)
	c14ArrowRe    = regexp.MustCompile(`^(_\d+) --> (_\d+)( <<indirect>>)?$`)
	c14TopStateRe = regexp.MustCompile(`^state "(.*)" as (X_\d+)( <<highlight>>)? \{$`)
	c14StateRe    = regexp.MustCompile(`^state "(.*)" as (_\d+)( <<highlight>>)?$`)
	c14EpaArrowRe = regexp.MustCompile(`^(_\d+) -\[#\w+\]-?> (_\d+)( : .*)?$`)
)

type c14Pair struct{ From, To string }

// c14ReadComponents reads the plain / clustered component view: app-level arrows, labels resolved.
func c14ReadComponents(out string, resolve func(label string) (string, bool)) (arrows []c14Pair, errs []string) {
	alias := map[string]string{}
	seenLabel := map[string]bool{}
	for _, ln := range strings.Split(out, "\n") {
		s := strings.TrimSpace(ln)
		if m := c14CompRe.FindStringSubmatch(s); m != nil {
			if _, dup := alias[m[2]]; dup {
				errs = append(errs, "alias declared twice: "+m[2])
			}
			app, ok := resolve(m[1])
			if !ok {
				errs = append(errs, "component label names no application: "+m[1])
			}
			if seenLabel[app] {
				errs = append(errs, "application drawn twice: "+app)
			}
			seenLabel[app] = true
			alias[m[2]] = app
		}
	}
	for _, ln := range strings.Split(out, "\n") {
		s := strings.TrimSpace(ln)
		if m := c14ArrowRe.FindStringSubmatch(s); m != nil {
			a, oka := alias[m[1]]
			b, okb := alias[m[2]]
			if !oka || !okb {
				errs = append(errs, "arrow uses an undeclared alias: "+s)
				continue
			}
			arrows = append(arrows, c14Pair{a, b})
		} else if strings.Contains(s, "-->") {
			errs = append(errs, "unrecognised arrow line: "+s)
		}
	}
	return
}

type c14EpaState struct{ App, Label string }

// c14ReadEpa reads the endpoint-analysis view: arrows between (application, state label).
func c14ReadEpa(out string) (arrows [][2]c14EpaState, errs []string) {
	alias := map[string]c14EpaState{}
	cur := ""
	for _, ln := range strings.Split(out, "\n") {
		s := strings.TrimSpace(ln)
		if m := c14TopStateRe.FindStringSubmatch(s); m != nil {
			cur = m[1]
			continue
		}
		if m := c14StateRe.FindStringSubmatch(s); m != nil {
			if cur == "" {
				errs = append(errs, "state outside an application: "+s)
			}
			if _, dup := alias[m[2]]; dup {
				errs = append(errs, "alias declared twice: "+m[2])
			}
			alias[m[2]] = c14EpaState{cur, m[1]}
			continue
		}
		if s == "}" {
			cur = ""
			continue
		}
		if m := c14EpaArrowRe.FindStringSubmatch(s); m != nil {
			a, oka := alias[m[1]]
			b, okb := alias[m[2]]
			if !oka || !okb {
				errs = append(errs, "arrow uses an undeclared alias: "+s)
				continue
			}
			arrows = append(arrows, [2]c14EpaState{a, b})
		} else if strings.Contains(s, "> _") {
			errs = append(errs, "unrecognised arrow line: "+s)
		}
	}
	return
}

// ---------- check ----------

func c14Pairs(ps map[c14Pair]bool) string {
	var o []string
	for p := range ps {
		o = append(o, p.From+"->"+p.To)
	}
	sort.Strings(o)
	return strings.Join(o, ", ")
}

func checkC14(x *X, c c14Case) error {
	if len(c.Decoys) > 0 {
		x.Class("project_has_other_views")
		for _, d := range c.Decoys {
			if len(d.Excludes) > 0 {
				x.Class("other_view_with_excludes")
				break
			}
		}
	}
	for _, e := range c.Excl {
		x.Exclude(e)
	}
	apps := map[string]*c14App{}
	eps := map[string]*c14Ep{}
	short := map[string]string{}
	for _, a := range c.Apps {
		apps[a.Name] = a
		short[a.Name] = a.Name
		if p := strings.Split(a.Name, " :: "); len(p) > 1 {
			short[p[len(p)-1]] = a.Name
		}
		for _, e := range a.Eps {
			eps[a.Name+"\x00"+e.Name] = e
		}
	}
	resolve := func(label string) (string, bool) { n, ok := short[label]; return n, ok }
	calls := c14Calls(c.Apps)
	listed, excl, pass := c14Set(c.Listed), c14Set(c.Excludes), c14Set(c.Pass)
	excl[c14Project] = true

	// what the property statement demands
	hasCall := map[c14Pair]bool{} // some call statement a -> b
	must := map[c14Pair]bool{}    // arrows that have to be drawn
	callEp := map[c14Call]bool{}
	for _, cl := range calls {
		hasCall[c14Pair{cl.FromApp, cl.ToApp}] = true
		callEp[cl] = true
		if listed[cl.FromApp] && !apps[cl.FromApp].Human && cl.FromApp != cl.ToApp &&
			!excl[cl.ToApp] && !apps[cl.ToApp].Human && !eps[cl.ToApp+"\x00"+cl.ToEp].Hidden {
			must[c14Pair{cl.FromApp, cl.ToApp}] = true
		}
	}
	cycle, chain := c14PassCycle(&c)

	var res c14Res
	death, err, inconclusive := sandboxCall("c14.ints", c14Arg{Text: c.Text}, &res)
	if inconclusive {
		x.Inconclusive("c14.ints overran once and did not reproduce")
		return nil
	}
	if death != nil {
		sig := death.Sig()
		if death.Kind == "fatal" && strings.Contains(death.Text, "stack overflow") && cycle &&
			strings.HasPrefix(death.Frame, "pkg/integrationdiagram.") {
			// the runaway recursion alternates WalkPassthrough / ProcessExcludeAndPassthrough / ProcessCalls;
			// which of them is the most frequent frame in the truncated trace depends on statement nesting
			sig = c14SigCycle
		}
		return finding(sig, "integration diagram generation did not return (%s: %s, frame %s); pass-through cycle reachable from a listed application: %v\n---- text\n%s",
			death.Kind, firstLine(death.Text), death.Frame, cycle, c.Text)
	}
	if err != nil {
		return fmt.Errorf("legal specification rejected: %v\n---- text\n%s", err, c.Text)
	}

	checkArrows := func(view string, drawn map[c14Pair]bool, out string) error {
		var dl []c14Pair
		for p := range drawn {
			dl = append(dl, p)
		}
		sort.Slice(dl, func(i, j int) bool { return dl[i].From+"\x00"+dl[i].To < dl[j].From+"\x00"+dl[j].To })
		for _, p := range dl {
			if !hasCall[p] {
				return fmt.Errorf("%s view: arrow %s->%s drawn but no call statement goes from %s to %s\n---- text\n%s\n---- diagram\n%s", view, p.From, p.To, p.From, p.To, c.Text, out)
			}
			if excl[p.From] || excl[p.To] {
				return fmt.Errorf("%s view: arrow %s->%s touches an excluded application (excluded: %v + project)\n---- text\n%s\n---- diagram\n%s", view, p.From, p.To, c.Excludes, c.Text, out)
			}
		}
		var missing []string
		for p := range must {
			if !drawn[p] {
				missing = append(missing, p.From+"->"+p.To)
			}
		}
		if len(missing) > 0 {
			sort.Strings(missing)
			return fmt.Errorf("%s view: calls from a listed application that are not drawn: %v (drawn: %s)\n---- text\n%s\n---- diagram\n%s", view, missing, c14Pairs(drawn), c.Text, out)
		}
		return nil
	}

	var plainDrawn map[c14Pair]bool
	for _, mode := range c14Modes {
		v := res.Views[mode]
		if v == nil {
			return fmt.Errorf("worker returned no result for view %s", mode)
		}
		if v.Panic != "" {
			return finding("panic@"+v.Frame, "%s view panicked: %s\n---- text\n%s", mode, v.Panic, c.Text)
		}
		if v.Err != "" {
			return fmt.Errorf("%s view: error for a resolvable model: %s\n---- text\n%s", mode, v.Err, c.Text)
		}
		drawn := map[c14Pair]bool{}
		if mode == "epa" {
			arrows, errs := c14ReadEpa(v.Out)
			if len(errs) > 0 {
				return fmt.Errorf("epa view malformed: %s\n---- text\n%s\n---- diagram\n%s", strings.Join(errs, "; "), c.Text, v.Out)
			}
			for _, ar := range arrows {
				from, to := ar[0], ar[1]
				fa, ok1 := resolve(from.App)
				ta, ok2 := resolve(to.App)
				if !ok1 || !ok2 {
					return fmt.Errorf("epa view: state group names no application: %q / %q\n---- text\n%s\n---- diagram\n%s", from.App, to.App, c.Text, v.Out)
				}
				// endpoint-level soundness
				switch {
				case fa == ta && strings.HasSuffix(to.Label, " client"):
					tep := strings.TrimSuffix(to.Label, " client")
					ok := false
					for cl := range callEp {
						if cl.FromApp == fa && cl.FromEp == from.Label && cl.ToEp == tep && cl.ToApp != fa {
							ok = true
						}
					}
					if !ok {
						return fmt.Errorf("epa view: %s.%s -> client of %q drawn but that endpoint calls no other application's endpoint %q\n---- text\n%s\n---- diagram\n%s", fa, from.Label, tep, tep, c.Text, v.Out)
					}
				case fa == ta:
					if !callEp[c14Call{fa, from.Label, ta, to.Label}] {
						return fmt.Errorf("epa view: arrow %s.%s -> %s.%s drawn but no such call\n---- text\n%s\n---- diagram\n%s", fa, from.Label, ta, to.Label, c.Text, v.Out)
					}
				default:
					tep := strings.TrimSuffix(from.Label, " client")
					ok := false
					for cl := range callEp {
						if cl.FromApp == fa && cl.ToApp == ta && cl.ToEp == to.Label && tep == to.Label {
							ok = true
						}
					}
					if !ok {
						return fmt.Errorf("epa view: arrow %s[%s] -> %s.%s drawn but no call from %s to %s <- %s\n---- text\n%s\n---- diagram\n%s", fa, from.Label, ta, to.Label, fa, ta, to.Label, c.Text, v.Out)
					}
					drawn[c14Pair{fa, ta}] = true
				}
			}
		} else {
			arrows, errs := c14ReadComponents(v.Out, resolve)
			if len(errs) > 0 {
				return fmt.Errorf("%s view malformed: %s\n---- text\n%s\n---- diagram\n%s", mode, strings.Join(errs, "; "), c.Text, v.Out)
			}
			for _, p := range arrows {
				if p.From == p.To {
					return fmt.Errorf("%s view: self arrow %s\n---- text\n%s\n---- diagram\n%s", mode, p.From, c.Text, v.Out)
				}
				if drawn[p] {
					return fmt.Errorf("%s view: arrow %s->%s drawn twice\n---- text\n%s\n---- diagram\n%s", mode, p.From, p.To, c.Text, v.Out)
				}
				drawn[p] = true
			}
		}
		if err := checkArrows(mode, drawn, v.Out); err != nil {
			return err
		}
		if mode == "plain" {
			plainDrawn = drawn
		}
	}
	// the builder's dependency list (cross-check): every entry is a call statement of the model
	if res.DepsPanic != "" {
		return finding("panic@"+res.DepsFrame, "MakeBuilderfromStmt panicked: %s\n---- text\n%s", res.DepsPanic, c.Text)
	}
	depPairs := map[c14Pair]bool{}
	for _, d := range res.Deps {
		if !callEp[d] {
			return fmt.Errorf("dependency %s.%s -> %s.%s listed by the builder but the model has no such call\n---- text\n%s", d.FromApp, d.FromEp, d.ToApp, d.ToEp, c.Text)
		}
		if d.FromApp != d.ToApp {
			depPairs[c14Pair{d.FromApp, d.ToApp}] = true
		}
	}
	if c14Pairs(depPairs) != c14Pairs(plainDrawn) {
		return fmt.Errorf("plain view draws {%s} but the builder's dependency list has {%s}\n---- text\n%s", c14Pairs(plainDrawn), c14Pairs(depPairs), c.Text)
	}

	// ---- classes
	onDiagram := map[string]bool{}
	for p := range plainDrawn {
		onDiagram[p.From], onDiagram[p.To] = true, true
	}
	passEffective, exclEffective, exclCaller := false, false, false
	for _, cl := range calls {
		seedFrom := listed[cl.FromApp] && !apps[cl.FromApp].Human
		seedTo := listed[cl.ToApp] && !apps[cl.ToApp].Human
		if seedFrom && pass[cl.ToApp] && !excl[cl.ToApp] && !apps[cl.ToApp].Human {
			for _, c2 := range calls {
				if c2.FromApp == cl.ToApp && c2.FromEp == cl.ToEp && c2.ToApp != cl.ToApp && !excl[c2.ToApp] && !apps[c2.ToApp].Human {
					passEffective = true
				}
			}
		}
		if seedFrom && excl[cl.ToApp] && cl.ToApp != cl.FromApp {
			exclEffective = true
		}
		if excl[cl.FromApp] && seedTo && !eps[cl.ToApp+"\x00"+cl.ToEp].Hidden {
			exclEffective, exclCaller = true, true
		}
	}
	if passEffective {
		x.Class("passthrough_extends_diagram")
	}
	if exclEffective {
		x.Class("exclude_removes_arrow")
	}
	if exclCaller {
		x.Class("excluded_app_calls_listed_app")
	}
	if cycle {
		x.Class("passthrough_cycle")
	}
	if chain >= 2 {
		x.Class("passthrough_chain_ge2")
	}
	if len(plainDrawn) == 0 {
		x.Class("no_arrows")
	}
	if len(must) > 0 {
		x.Class("has_mandatory_arrow")
	}
	nsOn := 0
	for a := range onDiagram {
		if strings.HasPrefix(a, "Ns :: ") {
			nsOn++
		}
	}
	if nsOn >= 2 {
		x.Class("clustered_package_of_2")
	}
	for _, a := range c.Apps {
		if a.Human && listed[a.Name] {
			x.Class("listed_human_app")
		}
		if a.Human && onDiagram[a.Name] {
			x.Class("human_app_on_diagram")
		}
	}
	for _, cl := range calls {
		if eps[cl.ToApp+"\x00"+cl.ToEp].Hidden {
			x.Class("call_to_hidden_endpoint")
			break
		}
	}
	if len(onDiagram) >= 3 && (passEffective || exclEffective) {
		x.NonTrivial(c.Text)
		x.Sample(c.Text)
	}
	return nil
}

var c14Ints = Define("C14", "arrows",
	"Random call multigraphs: 2-8 applications (two name-spaced groups for the clustered view, 1 in 8 ~human), 1-2 endpoints each (thorough tier: 1-3, longer bodies; 1 in 10 ~hidden, 1 in 6 empty), statements action/call/return/if+else/while/until/loop/for/alt/for each/group/one of nested to depth 2 with calls to existing endpoints of any application; one project view under test (plus 0-2 other views of the same project with their own listed / exclude / passthrough sets, which must not influence it) that lists (30%), passes through (40%) or excludes (20%) each application (at least one listed; listed and excluded disjoint), so pass-through chains and cycles arise. Oracle over the plain, clustered and endpoint-analysis views read back through their alias tables: every arrow a->b has a call statement from a to b and touches neither an excluded application nor the project; every call from a listed non-human application to a different, non-excluded, non-human application's non-hidden endpoint is drawn; no arrow twice; endpoint-analysis arrows are matched against call statements endpoint by endpoint; the plain view equals the builder's dependency list, whose entries must all be call statements of the model; generation must return (worker subprocess). Non-trivial: >=3 applications on the diagram and a pass-through application that contributes an onward call or an exclude that removes a call to/from a listed application; distinct by text.",
	genC14, checkC14)

func TestC14(t *testing.T) {
	checkKnown(t, "C14")
	c14Ints.Run(t, scale(1200, 6000))
}
