package checks

import (
	"fmt"
	"testing"

	"github.com/anz-bank/sysl/pkg/parse"
	"pgregory.net/rapid"
)

// C02 — the compiled model says exactly what the text declares (intent oracle).

type c02Case struct {
	Text       string   `json:"text"`
	Want       string   `json:"want"` // canonical facts JSON derived from the generator's intent
	Classes    []string `json:"classes"`
	NonTrivial bool     `json:"nontrivial"`
}

var indentPool = []string{"    ", "  ", "\t", " ", "        ", "   "}

func genC02(t *rapid.T) c02Case {
	in := GenIntentOpt(t, IntentOpts{Mixins: true, Subs: true, Collectors: true, PathVarRefs: true, MultiLineAnnos: true, PlusText: true, EpAnnos: true, SubsBeforePub: true})
	indent := pick(t, indentPool, "indent")
	text := Render(in, indent)
	st := statsOf(in)
	return c02Case{Text: text, Want: FactsFromIntent(in).JSON(), Classes: st.Classes, NonTrivial: st.NonTrivial}
}

func checkC02(x *X, c c02Case) error {
	for _, cl := range c.Classes {
		x.Class(cl)
	}
	if c.NonTrivial {
		x.NonTrivial(c.Want)
	}
	x.Sample(c.Text)
	m, err := parse.NewParser().ParseString(c.Text)
	if err != nil {
		return fmt.Errorf("legal specification rejected: %v\n---- text\n%s", err, c.Text)
	}
	got, unproj := FactsFromModule(m)
	if len(unproj) > 0 {
		return fmt.Errorf("model holds content the text does not declare (unprojected): %v\n---- text\n%s", unproj, c.Text)
	}
	// an app whose body is only "..." has no members: the placeholder endpoint is representation
	for _, a := range got.Apps {
		if e, ok := a.Eps["..."]; ok && len(e.Stmts) == 0 {
			delete(a.Eps, "...")
		}
	}
	if d := Diff(c.Want, got.JSON()); d != "" {
		return fmt.Errorf("declared facts differ from compiled model: %s\n---- text\n%s", d, c.Text)
	}
	return nil
}

var c02Facts = Define("C02", "facts",
	"Intents drawn by specgen (apps, !type/!table/!enum/!alias/!union, every primitive spelling, size specs, set/sequence, local and cross-app refs, simple/REST/event endpoints, subscriptions, single-level mixins, collector blocks (attribute merge into endpoints and matching calls), all statement kinds, tags/attrs/annotations with hostile strings) rendered with a random indent unit; oracle: facts(compile(text)) == facts(intent) and no unprojected content. Non-trivial: >=1 type with >=2 fields and >=1 endpoint with statement depth >=2; distinct by hash of the expected facts.",
	genC02, checkC02)

func TestC02(t *testing.T) {
	checkKnown(t, "C02")
	c02Facts.Run(t, scale(400, 4000))
}
