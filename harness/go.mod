module verifharness

go 1.23

require (
	github.com/anz-bank/golden-retriever v0.43.0
	github.com/anz-bank/sysl v0.0.0
	github.com/arr-ai/arrai v0.321.0
	github.com/getkin/kin-openapi v0.124.0
	github.com/sirupsen/logrus v1.9.3
	github.com/spf13/afero v1.11.0
	google.golang.org/protobuf v1.34.2
	gopkg.in/yaml.v3 v3.0.1
	pgregory.net/rapid v1.3.0
)

require (
	aqwari.net/xml v0.0.0-20210331023308-d9421b293817 // indirect
	dario.cat/mergo v1.0.0 // indirect
	github.com/ProtonMail/go-crypto v1.0.0 // indirect
	github.com/PuerkitoBio/purell v1.1.1 // indirect
	github.com/PuerkitoBio/urlesc v0.0.0-20170810143723-de5bf2ad4578 // indirect
	github.com/alecthomas/template v0.0.0-20190718012654-fb15b899a751 // indirect
	github.com/alecthomas/units v0.0.0-20190717042225-c3de453c63f4 // indirect
	github.com/antlr/antlr4/runtime/Go/antlr v0.0.0-20211115101625-aeaa445b4d4f // indirect
	github.com/anz-bank/pkg v0.0.48 // indirect
	github.com/arr-ai/frozen v0.20.3 // indirect
	github.com/arr-ai/hash v1.1.0 // indirect
	github.com/arr-ai/wbnf v0.35.3 // indirect
	github.com/cloudflare/circl v1.3.9 // indirect
	github.com/cornelk/hashmap v1.0.1 // indirect
	github.com/cpuguy83/go-md2man/v2 v2.0.4 // indirect
	github.com/cyphar/filepath-securejoin v0.2.5 // indirect
	github.com/davecgh/go-spew v1.1.1 // indirect
	github.com/dchest/siphash v1.1.0 // indirect
	github.com/emirpasic/gods v1.18.1 // indirect
	github.com/ghodss/yaml v1.0.0 // indirect
	github.com/go-errors/errors v1.5.1 // indirect
	github.com/go-git/gcfg v1.5.1-0.20230307220236-3a3c6141e376 // indirect
	github.com/go-git/go-billy/v5 v5.5.1-0.20240427054813-8453aa90c6ec // indirect
	github.com/go-git/go-git/v5 v5.12.1-0.20240729070005-9debed20a895 // indirect
	github.com/go-openapi/jsonpointer v0.20.2 // indirect
	github.com/go-openapi/jsonreference v0.19.6 // indirect
	github.com/go-openapi/spec v0.20.4 // indirect
	github.com/go-openapi/swag v0.22.8 // indirect
	github.com/golang/groupcache v0.0.0-20210331224755-41bb18bfe9da // indirect
	github.com/golang/protobuf v1.5.4 // indirect
	github.com/google/go-github/v32 v32.1.0 // indirect
	github.com/google/go-querystring v1.1.0 // indirect
	github.com/iancoleman/strcase v0.3.0 // indirect
	github.com/imdario/mergo v0.3.15 // indirect
	github.com/invopop/yaml v0.2.0 // indirect
	github.com/jbenet/go-context v0.0.0-20150711004518-d14ea06fba99 // indirect
	github.com/josharian/intern v1.0.0 // indirect
	github.com/kevinburke/ssh_config v1.2.0 // indirect
	github.com/mailru/easyjson v0.7.7 // indirect
	github.com/mattn/go-isatty v0.0.20 // indirect
	github.com/mohae/deepcopy v0.0.0-20170929034955-c48cc78d4826 // indirect
	github.com/perimeterx/marshmallow v1.1.5 // indirect
	github.com/pjbgf/sha1cd v0.3.0 // indirect
	github.com/pkg/errors v0.9.1 // indirect
	github.com/pmezard/go-difflib v1.0.0 // indirect
	github.com/richardlehane/mscfb v1.0.4 // indirect
	github.com/richardlehane/msoleps v1.0.3 // indirect
	github.com/russross/blackfriday/v2 v2.1.0 // indirect
	github.com/sergi/go-diff v1.3.2-0.20230802210424-5b0b94c5c0d3 // indirect
	github.com/skeema/knownhosts v1.3.0 // indirect
	github.com/stretchr/objx v0.5.2 // indirect
	github.com/stretchr/testify v1.9.0 // indirect
	github.com/urfave/cli/v2 v2.2.0 // indirect
	github.com/xanzy/ssh-agent v0.3.3 // indirect
	github.com/xuri/efp v0.0.0-20240408161823-9ad904a10d6d // indirect
	github.com/xuri/excelize/v2 v2.8.1 // indirect
	github.com/xuri/nfp v0.0.0-20240318013403-ab9948c2c4a7 // indirect
	golang.org/x/crypto v0.26.0 // indirect
	golang.org/x/net v0.28.0 // indirect
	golang.org/x/oauth2 v0.22.0 // indirect
	golang.org/x/sync v0.8.0 // indirect
	golang.org/x/sys v0.24.0 // indirect
	golang.org/x/text v0.17.0 // indirect
	gopkg.in/alecthomas/kingpin.v2 v2.2.6 // indirect
	gopkg.in/warnings.v0 v0.1.2 // indirect
	gopkg.in/yaml.v2 v2.4.0 // indirect
)

replace github.com/anz-bank/sysl => /repo
