#!/usr/bin/env python3
"""Driver for the sysl verification harness (see DESIGN.md section 2.2).

  verif.py setup                      build the test binary and the CLI once
  verif.py check <ID> quick|thorough  run one property check, write evidence/<ID>.json
  verif.py replay <path>              re-decide one saved case without rapid
  verif.py all quick|thorough         run every claimed check in turn

Exit status of `check`: 0 held on everything explored (KNOWN-FINDING lines allowed),
1 violation (prints `VIOLATION property=<id> replay=<path>`), 2 inconclusive
(build failure, time-out, short case count) - never used for a violation.
"""
import fcntl
import json
import os
import shutil
import subprocess
import sys
import time

ROOT = os.path.dirname(os.path.abspath(__file__))
# VERIF_HARNESS: private working copy of harness/ (development only); its build output and evidence stay beside it
HARNESS = os.environ.get("VERIF_HARNESS", os.path.join(ROOT, "harness"))
PRIVATE = "VERIF_HARNESS" in os.environ
BIN = os.path.join(HARNESS, ".bin") if PRIVATE else os.path.join(ROOT, ".bin")
REPO = os.environ.get("VERIF_REPO", "/repo")
# scratch-copy runs (mutation / seeded self-tests) get names of their own so that two of them can run side by side
ALT = "" if REPO == "/repo" else "-alt-" + "".join(ch if ch.isalnum() else "_" for ch in REPO)[-40:]

# property -> settings. shards: (quick, thorough); timeout_s per shard: (quick, thorough)
PROPS = {
    "C01": dict(level="exploration", cli=True, fuzz=[("FuzzC01Compile", 240)]),
    "C02": dict(level="exploration"),
    "C03": dict(level="exploration"),
    "C04": dict(level="exploration"),
    "C05": dict(level="exploration"),
    "C06": dict(level="fault_enumeration"),
    # C07: the first race_shards shards run the race-detector build (about 10x slower, few cases), the others
    # the plain build (many cases: state leaking from one compilation to the next needs no race detector)
    "C07": dict(level="exploration", race=True, shards=(4, 8), race_shards=(1, 4)),
    "C08": dict(level="exploration"),
    "C09": dict(level="exploration", cli=True),
    "C10": dict(level="exploration"),
    "C11": dict(level="exploration"),
    "C12": dict(level="exploration"),
    "C13": dict(level="exploration"),
    "C14": dict(level="exploration"),
    "C15": dict(level="exploration"),
    "C16": dict(level="exploration", cli=True),
    "C17": dict(level="exploration"),
    "C18": dict(level="exploration"),
    "C19": dict(level="exploration", cli=True),
    "C20": dict(level="exploration", cli=True),
}
DEFAULT_SHARDS = (4, 16)
DEFAULT_TIMEOUT = (900, 3600)

ASSUMPTIONS = {
    "*": ["the harness is linked against the working tree of /repo through a go.mod replace directive",
          "pgregory.net/rapid v1.3.0 drives generation; every random choice is drawn from rapid"],
}


def goenv():
    env = dict(os.environ)
    env.update(GOFLAGS="-mod=mod", GOPROXY="off", GOSUMDB="off", GOTOOLCHAIN="local")
    env.setdefault("GOCACHE", os.path.join(os.path.expanduser("~"), ".cache", "go-build"))
    return env


def modfile_args():
    """When VERIF_REPO points at a scratch copy, build against it through an alternate go.mod."""
    if REPO == "/repo":
        return [], None
    alt = os.path.join(HARNESS, "go%s.mod" % ALT)
    with open(os.path.join(HARNESS, "go.mod")) as f:
        txt = f.read()
    txt = txt.replace("=> /repo", "=> " + REPO)
    with open(alt, "w") as f:
        f.write(txt)
    shutil.copy(os.path.join(HARNESS, "go.sum"), os.path.join(HARNESS, "go%s.sum" % ALT))
    return ["-modfile=" + alt], alt


def build(need_cli=False, race=False, quiet=True):
    os.makedirs(BIN, exist_ok=True)
    suffix = ALT
    lock = open(os.path.join(BIN, "build.lock"), "w")
    fcntl.flock(lock, fcntl.LOCK_EX)
    try:
        mf, _ = modfile_args()
        targets = [(["go", "test", "-c"] + mf + ["-o", os.path.join(BIN, "checks%s.test" % suffix), "./checks"], "test binary")]
        if race:
            targets.append((["go", "test", "-c", "-race"] + mf + ["-o", os.path.join(BIN, "checks%s.race.test" % suffix), "./checks"], "race test binary"))
        if need_cli:
            targets.append((["go", "build"] + mf + ["-o", os.path.join(BIN, "sysl%s" % suffix), "github.com/anz-bank/sysl/cmd/sysl"], "sysl CLI"))
        for cmd, what in targets:
            t0 = time.time()
            p = subprocess.run(cmd, cwd=HARNESS, env=goenv(), stdout=subprocess.PIPE, stderr=subprocess.STDOUT, text=True)
            if p.returncode != 0:
                print("BUILD-FAILED (%s)\n%s" % (what, p.stdout[-4000:]))
                return False
            if not quiet:
                print("built %s in %.1fs" % (what, time.time() - t0))
        return True
    finally:
        fcntl.flock(lock, fcntl.LOCK_UN)
        lock.close()


def run_shard(pid, tier, seed, shard, nshards, race, timeout, outdir):
    suffix = ALT
    exe = os.path.join(BIN, "checks%s%s.test" % (suffix, ".race" if race else ""))
    out = os.path.join(outdir, "%s.%d.json" % (pid, shard))
    log = os.path.join(outdir, "%s.%d.log" % (pid, shard))
    env = goenv()
    env.update(VERIF_TIER=tier, VERIF_SEED=str(seed), VERIF_SHARD="%d/%d" % (shard, nshards), VERIF_OUT=out,
               VERIF_ROOT=ROOT, VERIF_REPO=REPO, VERIF_SYSL=os.path.join(BIN, "sysl%s" % suffix), VERIF_BIN=BIN)
    if "VERIF_GOMAXPROCS" not in os.environ:
        env["GOMAXPROCS"] = str(max(2, (os.cpu_count() or 16) // nshards))
    f = open(log, "w")
    p = subprocess.Popen([exe, "-test.run", "^Test%s$" % pid, "-test.timeout", "0", "-test.count", "1"],
                         cwd=os.path.join(HARNESS, "checks"), env=env, stdout=f, stderr=subprocess.STDOUT)
    return dict(proc=p, out=out, log=log, logf=f, deadline=time.time() + timeout, shard=shard)


def run_fuzz(pid, target, secs, merged, inconclusive):
    """Bounded native `go test -fuzz` campaign (thorough tier). A crasher saved by the fuzzer is the
    reproducible unit: it is copied to replays/<pid>/ and reported as a violation."""
    import glob, re
    corpus = os.path.join(HARNESS, "checks", "testdata", "fuzz", target)
    before = set(glob.glob(os.path.join(corpus, "*")))
    mf, _ = modfile_args()
    cmd = ["go", "test"] + mf + ["./checks", "-run", "^$", "-fuzz", "^%s$" % target, "-fuzztime", "%ds" % secs, "-parallel", str(os.cpu_count() or 16)]
    env = goenv()
    env.update(VERIF_ROOT=ROOT, VERIF_REPO=REPO)
    try:
        p = subprocess.run(cmd, cwd=HARNESS, env=env, stdout=subprocess.PIPE, stderr=subprocess.STDOUT, text=True, timeout=secs + 600)
        out = p.stdout
        rc = p.returncode
    except subprocess.TimeoutExpired as e:
        out = (e.stdout or b"").decode("utf8", "replace") if isinstance(e.stdout, bytes) else (e.stdout or "")
        rc = None
        inconclusive.append("fuzz %s exceeded its wall bound" % target)
    execs = 0
    for m in re.finditer(r"execs: (\d+)", out):
        execs = max(execs, int(m.group(1)))
    merged["evaluations"] += execs
    merged["requested"] += 0
    new = sorted(set(glob.glob(os.path.join(corpus, "*"))) - before)
    info = dict(target=target, seconds=secs, execs=execs, crashers=len(new))
    if new:
        os.makedirs(os.path.join(ROOT, "replays", pid), exist_ok=True)
        for f in new:
            dst = os.path.join(ROOT, "replays", pid, "fuzz-%s-%s" % (target, os.path.basename(f)))
            shutil.copy(f, dst)
            msg = [l for l in out.splitlines() if "panic" in l or "fatal" in l or "Failing input" in l]
            merged["failures"].append(dict(prop="fuzz:" + target, message=(msg[0] if msg else "fuzz crasher")[:300], replay=dst))
            os.remove(f)
    elif rc not in (0, None):
        inconclusive.append("fuzz %s exit %s without a saved crasher: %s" % (target, rc, out[-400:]))
    return info


def check(pid, tier):
    t0 = time.time()
    conf = PROPS[pid]
    seed = int(os.environ.get("VERIF_SEED", "1") or "1")
    ti = 0 if tier == "quick" else 1
    nshards = conf.get("shards", DEFAULT_SHARDS)[ti]
    timeout = conf.get("timeout", DEFAULT_TIMEOUT)[ti]
    race = bool(conf.get("race"))
    evpath = os.path.join(HARNESS if PRIVATE else ROOT, "evidence", pid + ".json")
    if REPO != "/repo":
        # a run against a scratch copy (mutation / seeded-change self-test) must not overwrite real evidence
        evpath = os.path.join(BIN, "evidence-scratch", pid + ".json")
    os.makedirs(os.path.dirname(evpath), exist_ok=True)
    if not build(need_cli=bool(conf.get("cli")), race=race):
        print("INCONCLUSIVE property=%s build failed" % pid)
        return 2
    outdir = os.path.join(BIN, "run-%s-%d" % (pid, os.getpid()))
    shutil.rmtree(outdir, ignore_errors=True)
    os.makedirs(outdir)
    # stale rapid fail files would be replayed first
    shutil.rmtree(os.path.join(HARNESS, "checks", "testdata", "rapid"), ignore_errors=True)
    nrace = conf.get("race_shards", (nshards, nshards))[ti] if race else 0
    shards = [run_shard(pid, tier, seed, i, nshards, i < nrace, timeout, outdir) for i in range(nshards)]
    inconclusive = []
    # single cases that could not be decided (an overrun that did not reproduce, an I/O hiccup): reported in the
    # evidence; they make the whole run inconclusive only when they are more than a few (see below)
    case_inconclusive = []
    for s in shards:
        try:
            s["proc"].wait(timeout=max(1, s["deadline"] - time.time()))
        except subprocess.TimeoutExpired:
            s["proc"].kill()
            s["proc"].wait()
            inconclusive.append("shard %d exceeded %ds" % (s["shard"], timeout))
        s["logf"].close()
    # merge
    merged = dict(evaluations=0, requested=0, classes={}, hashes=set(), samples=[], excluded={}, known_hits={},
                  known_lines=[], failures=[], rules={}, exhaustive={}, notes={})
    for s in shards:
        rc = s["proc"].returncode
        recs = []
        if os.path.exists(s["out"]):
            try:
                recs = json.load(open(s["out"]))
            except Exception as e:  # noqa
                inconclusive.append("shard %d side file unreadable: %s" % (s["shard"], e))
        else:
            tail = open(s["log"]).read()[-1500:]
            inconclusive.append("shard %d wrote no side file (exit %s): %s" % (s["shard"], rc, tail))
        found = False
        for r in recs:
            if r["property_id"] != pid:
                continue
            found = True
            merged["evaluations"] += r["evaluations"]
            merged["requested"] += r["requested"]
            for k, v in (r.get("classes") or {}).items():
                merged["classes"][k] = merged["classes"].get(k, 0) + v
            merged["hashes"].update(r.get("nontrivial_hashes") or [])
            for smp in (r.get("samples") or []):
                if len(merged["samples"]) < 5:
                    merged["samples"].append(smp)
            for k, v in (r.get("excluded_by_known_findings") or {}).items():
                merged["excluded"][k] = merged["excluded"].get(k, 0) + v
            for k, v in (r.get("known_hits") or {}).items():
                merged["known_hits"][k] = merged["known_hits"].get(k, 0) + v
            for l in (r.get("known_lines") or []):
                if l not in merged["known_lines"]:
                    merged["known_lines"].append(l)
            merged["failures"].extend(r.get("failures") or [])
            merged["rules"].update(r.get("rules") or {})
            merged["exhaustive"].update(r.get("exhaustive") or {})
            merged["notes"].update(r.get("notes") or {})
            for m in (r.get("inconclusive") or []):
                case_inconclusive.append("shard %d: %s" % (s["shard"], m))
        if recs and not found:
            inconclusive.append("shard %d recorded nothing for %s" % (s["shard"], pid))
        if rc not in (0, 1) and rc is not None and os.path.exists(s["out"]):
            inconclusive.append("shard %d exit status %s" % (s["shard"], rc))
        if race:
            logtxt = open(s["log"]).read()
            if "WARNING: DATA RACE" in logtxt:
                # backstop: a race report outside a recorded case (worker, known-finding replay)
                os.makedirs(os.path.join(ROOT, "replays", pid), exist_ok=True)
                rp = os.path.join(ROOT, "replays", pid, "race-shard%d.log" % s["shard"])
                i = logtxt.index("WARNING: DATA RACE")
                open(rp, "w").write(logtxt[i:i + 20000])
                if not any((f.get("signature") == "data-race") for f in merged["failures"]):
                    merged["failures"].append(dict(prop="race-detector", message="race detector report in shard log", replay=rp, signature="data-race"))
        if rc == 1 and found and not any(True for r in recs if r["property_id"] == pid and r.get("failures")):
            # the go test failed without a recorded failure: harness trouble, not a verdict
            tail = open(s["log"]).read()[-1500:]
            inconclusive.append("shard %d failed without a recorded violation: %s" % (s["shard"], tail))
    fuzz_info = []
    if tier == "thorough" and conf.get("fuzz") and not merged["failures"]:
        for target, secs in conf["fuzz"]:
            fuzz_info.append(run_fuzz(pid, target, secs, merged, inconclusive))
    if merged["evaluations"] < merged["requested"] and not merged["failures"]:
        inconclusive.append("only %d of %d requested cases ran" % (merged["evaluations"], merged["requested"]))
    # report
    for l in merged["known_lines"]:
        print(l)
    seen = set()
    for f in merged["failures"]:
        rp = os.path.relpath(f["replay"], ROOT) if f.get("replay") else "-"
        if rp in seen:
            continue
        seen.add(rp)
        print("VIOLATION property=%s replay=%s" % (pid, rp))
        print("  " + (f.get("message") or "").split("\n")[0][:300])
    violations = len(seen)
    rule = " || ".join("%s: %s" % (k, v) for k, v in sorted(merged["rules"].items()))
    cov = dict(evaluations=merged["evaluations"], distinct_nontrivial=len(merged["hashes"]), rule=rule,
               samples=merged["samples"], classes=dict(sorted(merged["classes"].items())),
               excluded_by_known_findings=merged["excluded"], known_finding_hits=merged["known_hits"],
               shards=nshards, requested=merged["requested"])
    if merged["exhaustive"]:
        cov["exhaustive"] = all(merged["exhaustive"].values())
        cov["exhaustive_parts"] = merged["exhaustive"]
    if fuzz_info:
        cov["native_fuzzing"] = fuzz_info
    if merged["notes"]:
        cov["notes"] = merged["notes"]
    if case_inconclusive:
        cov["undecided_cases"] = dict(count=len(case_inconclusive), samples=case_inconclusive[:20],
                                      rule="tolerated up to max(10, 2% of the evaluations); beyond that the run is inconclusive")
        if len(case_inconclusive) > max(10, merged["evaluations"] // 50):
            inconclusive.append("%d cases could not be decided: %s" % (len(case_inconclusive), "; ".join(case_inconclusive[:5])))
    if inconclusive:
        cov["inconclusive"] = inconclusive[:20]
    ev = dict(property_id=pid, tier=tier, seed=seed, level=conf["level"], coverage=cov,
              assumptions=ASSUMPTIONS["*"] + ASSUMPTIONS.get(pid, []), wall_s=round(time.time() - t0, 2),
              violations=violations)
    with open(evpath + ".tmp", "w") as f:
        json.dump(ev, f, indent=1, ensure_ascii=False)
    os.replace(evpath + ".tmp", evpath)
    status = 1 if violations else (2 if inconclusive else 0)
    print("%s %s: %d evaluations, %d distinct non-trivial, %d violation(s), %d known-finding line(s), %.0fs%s" % (
        pid, tier, merged["evaluations"], len(merged["hashes"]), violations, len(merged["known_lines"]),
        time.time() - t0, ("" if not case_inconclusive else " (%d undecided case(s))" % len(case_inconclusive)) +
        ("" if not inconclusive else " INCONCLUSIVE: " + "; ".join(inconclusive)[:600])))
    if status != 2 or os.environ.get("VERIF_KEEP"):
        pass
    if not os.environ.get("VERIF_KEEP"):
        shutil.rmtree(outdir, ignore_errors=True)
    return status


def replay(path):
    base = os.path.basename(path)
    if base.startswith("fuzz-") and open(path, "rb").read(16).startswith(b"go test fuzz"):
        # a crasher saved by go's native fuzzer: re-run it through the fuzz target's seed-corpus mode
        _, target, name = base.split("-", 2)
        d = os.path.join(HARNESS, "checks", "testdata", "fuzz", target)
        os.makedirs(d, exist_ok=True)
        tmp = os.path.join(d, name)
        shutil.copy(path, tmp)
        try:
            mf, _ = modfile_args()
            p = subprocess.run(["go", "test"] + mf + ["./checks", "-run", "^%s$/^%s$" % (target, name), "-count", "1", "-v"], cwd=HARNESS, env=goenv())
            return 0 if p.returncode == 0 else 1
        finally:
            os.remove(tmp)
    if not build(need_cli=True):
        return 2
    suffix = ALT
    exe = os.path.join(BIN, "checks%s.test" % suffix)
    env = goenv()
    env.update(VERIF_REPLAY=os.path.abspath(path), VERIF_ROOT=ROOT, VERIF_REPO=REPO,
               VERIF_SYSL=os.path.join(BIN, "sysl%s" % suffix), VERIF_BIN=BIN)
    p = subprocess.run([exe, "-test.run", "^TestReplay$", "-test.v", "-test.count", "1"],
                       cwd=os.path.join(HARNESS, "checks"), env=env)
    return 0 if p.returncode == 0 else 1


def main(argv):
    if len(argv) >= 2 and argv[1] == "setup":
        ok = build(need_cli=True, race=True, quiet=False)
        return 0 if ok else 1
    if len(argv) >= 4 and argv[1] == "check" and argv[2] in PROPS and argv[3] in ("quick", "thorough"):
        return check(argv[2], argv[3])
    if len(argv) >= 3 and argv[1] == "replay":
        return replay(argv[2])
    if len(argv) >= 3 and argv[1] == "all":
        worst = 0
        man = json.load(open(os.path.join(ROOT, "MANIFEST.json")))
        for c in man["checks"]:
            worst = max(worst, check(c["property_id"], argv[2]))
        return worst
    print(__doc__)
    return 64


if __name__ == "__main__":
    sys.exit(main(sys.argv))
